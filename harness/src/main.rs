//! kvh — correspondence harness for the kiki verification.
//!
//! Reads one request per line on stdin (the mode is argv[1]) and prints one
//! canonical S-expression per line on stdout.  Text is always hex-encoded
//! UTF-8 prefixed with `x`.  The Lean driver `kvmodel` speaks the same
//! protocol; `check` diffs the two streams.
//!
//! Every call into kiki is wrapped in catch_unwind; a panic is reported as
//! `(panic x<message>)`.

mod sexp;

use kiki::data::ast;
use kiki::data::machine::{Lookahead, Machine, RuleIndex, StateItem};
use kiki::data::table::{Action, Goto, Table};
use kiki::data::validated_file as vf;
use kiki::verif_hooks as hooks;
use kiki::{ByteIndex, KikiErr, Oset, RustSrcRef, Symbol};
use sexp::*;
use std::io::{BufRead, Write};
use std::panic::{catch_unwind, AssertUnwindSafe};

fn main() {
    std::panic::set_hook(Box::new(|_| {}));
    let mode = std::env::args().nth(1).unwrap_or_default();
    let stdin = std::io::stdin();
    let stdout = std::io::stdout();
    let mut out = std::io::BufWriter::new(stdout.lock());
    let mut stuck = 0usize;
    for line in stdin.lock().lines() {
        let line = line.unwrap();
        let line = line.trim();
        if line.is_empty() {
            continue;
        }
        let answer = if stuck >= 6 {
            // several requests are already spinning in abandoned threads; do not start more
            "(timeout skipped)".to_string()
        } else {
            let m = mode.clone();
            let l = line.to_string();
            match with_watchdog(stuck > 0, move || answer_request(&m, &l)) {
                Some(a) => a,
                None => {
                    stuck += 1;
                    "(timeout)".to_string()
                }
            }
        };
        writeln!(out, "{answer}").unwrap();
        out.flush().unwrap();
    }
    out.flush().unwrap();
    // abandoned (spinning) request threads die with the process
    std::process::exit(0);
}

fn answer_request(mode: &str, line: &str) -> String {
    match mode {
        "tokenize" => guarded(|| do_tokenize(&unhex(first_word(line)))),
        "stages" => do_stages(&unhex(first_word(line))),
        "generate" => guarded(|| do_generate(&unhex(first_word(line)))),
        "repeat" => do_repeat(&unhex(first_word(line))),
        "hash" => guarded(|| do_hash(&unhex(first_word(line)))),
        "oset" => guarded(|| do_oset(line)),
        "chars" => do_chars(line),
        _ => panic!("unknown mode"),
    }
}

/// Runs one request on its own thread; `None` if it does not answer within KVH_TIMEOUT seconds
/// (default 10).  A request that never returns keeps its thread (threads cannot be killed); the
/// caller stops starting new requests after a few of those.
fn with_watchdog(impatient: bool, f: impl FnOnce() -> String + Send + 'static) -> Option<String> {
    let secs: u64 = std::env::var("KVH_TIMEOUT").ok().and_then(|s| s.parse().ok()).unwrap_or(10);
    // after the first request that did not return, later ones get a quarter of the time
    let secs = if impatient { (secs / 4).max(2) } else { secs };
    let (tx, rx) = std::sync::mpsc::channel();
    std::thread::Builder::new()
        .stack_size(64 << 20)
        .spawn(move || {
            let _ = tx.send(f());
        })
        .ok()?;
    rx.recv_timeout(std::time::Duration::from_secs(secs)).ok()
}

fn guarded(f: impl FnOnce() -> String) -> String {
    match catch_unwind(AssertUnwindSafe(f)) {
        Ok(s) => s,
        Err(e) => panic_sexp(e),
    }
}

fn panic_sexp(e: Box<dyn std::any::Any + Send>) -> String {
    let msg = if let Some(s) = e.downcast_ref::<&str>() {
        s.to_string()
    } else if let Some(s) = e.downcast_ref::<String>() {
        s.clone()
    } else {
        "?".to_string()
    };
    format!("(panic {})", hex(&msg))
}

// ---------------------------------------------------------------- tokenize

fn do_tokenize(src: &str) -> String {
    match hooks::tokenize(src) {
        Ok(tokens) => tokens_sexp(&tokens),
        Err(e) => err_sexp(&e),
    }
}

fn tokens_sexp(tokens: &[ast::Token]) -> String {
    list("tokens", tokens.iter().map(token_sexp))
}

fn token_sexp(t: &ast::Token) -> String {
    use ast::Token::*;
    match t {
        Underscore(p) => format!("(Underscore {})", p.0),
        Ident(i) => format!("(Ident {} {})", i.position.0, hex(&i.name)),
        TerminalIdent(i) => format!(
            "(TerminalIdent {} {})",
            i.dollarless_position.0,
            hex(i.name.raw())
        ),
        OuterAttribute(a) => format!("(OuterAttribute {} {})", a.position.0, hex(&a.src)),
        StartKw(p) => format!("(StartKw {})", p.0),
        StructKw(p) => format!("(StructKw {})", p.0),
        EnumKw(p) => format!("(EnumKw {})", p.0),
        TerminalKw(p) => format!("(TerminalKw {})", p.0),
        Colon(p) => format!("(Colon {})", p.0),
        DoubleColon(p) => format!("(DoubleColon {})", p.0),
        Comma(p) => format!("(Comma {})", p.0),
        LParen(p) => format!("(LParen {})", p.0),
        RParen(p) => format!("(RParen {})", p.0),
        LCurly(p) => format!("(LCurly {})", p.0),
        RCurly(p) => format!("(RCurly {})", p.0),
        LAngle(p) => format!("(LAngle {})", p.0),
        RAngle(p) => format!("(RAngle {})", p.0),
    }
}

// ---------------------------------------------------------------- errors

fn positions(ps: &[ByteIndex]) -> String {
    ps.iter()
        .map(|p| p.0.to_string())
        .collect::<Vec<_>>()
        .join(" ")
}

fn symbol_sexp(s: &Symbol) -> String {
    match s {
        Symbol::Terminal(t) => format!("(T {})", hex(t.raw())),
        Symbol::Nonterminal(n) => format!("(N {})", hex(n)),
    }
}

fn err_sexp(e: &KikiErr) -> String {
    use KikiErr::*;
    match e {
        Lex(i, c) => match c {
            Some(c) => format!("(Lex {} (some {}))", i.0, *c as u32),
            None => format!("(Lex {} none)", i.0),
        },
        Parse(a, s, b) => format!("(Parse {} {} {})", a.0, hex(s), b.0),
        NoStartSymbol => "(NoStartSymbol)".to_string(),
        MultipleStartSymbols(ps) => format!("(MultipleStartSymbols {})", positions(ps)),
        NoTerminalEnum => "(NoTerminalEnum)".to_string(),
        MultipleTerminalEnums(ps) => format!("(MultipleTerminalEnums {})", positions(ps)),
        SymbolOrTerminalEnumNameFirstLetterNotUppercase(p) => {
            format!("(SymbolOrTerminalEnumNameFirstLetterNotUppercase {})", p.0)
        }
        FieldFirstLetterNotLowercase(p) => format!("(FieldFirstLetterNotLowercase {})", p.0),
        NameClash(n, p, q) => format!("(NameClash {} {} {})", hex(n), p.0, q.0),
        NonterminalEnumVariantNameClash(n, p, q) => {
            format!("(NonterminalEnumVariantNameClash {} {} {})", hex(n), p.0, q.0)
        }
        NonterminalEnumVariantSymbolSequenceClash(syms, p, q) => format!(
            "(NonterminalEnumVariantSymbolSequenceClash {} {} {})",
            list("syms", syms.iter().map(symbol_sexp)),
            p.0,
            q.0
        ),
        UndefinedNonterminal(n, p) => format!("(UndefinedNonterminal {} {})", hex(n), p.0),
        UndefinedTerminal(n, p) => format!("(UndefinedTerminal {} {})", hex(n.raw()), p.0),
        TableConflict(c) => format!(
            "(TableConflict {} {} {} {} {})",
            c.state_index.0,
            item_sexp(&c.items.0),
            item_sexp(&c.items.1),
            vfile_sexp(&c.file),
            machine_sexp(&c.machine)
        ),
    }
}

// ---------------------------------------------------------------- AST

fn ident_sexp(i: &ast::Ident) -> String {
    format!("(id {} {})", hex(&i.name), i.position.0)
}

fn sym_ident_sexp(s: &ast::IdentOrTerminalIdent) -> String {
    match s {
        ast::IdentOrTerminalIdent::Ident(i) => format!("(N {} {})", hex(&i.name), i.position.0),
        ast::IdentOrTerminalIdent::Terminal(t) => {
            format!("(T {} {})", hex(t.name.raw()), t.dollarless_position.0)
        }
    }
}

fn attrs_sexp(attrs: &[ast::Attribute]) -> String {
    list(
        "attrs",
        attrs
            .iter()
            .map(|a| format!("(attr {} {})", hex(&a.src), a.position.0)),
    )
}

fn fieldset_sexp(f: &ast::Fieldset) -> String {
    match f {
        ast::Fieldset::Empty => "(empty)".to_string(),
        ast::Fieldset::Named(n) => list(
            "named",
            n.fields.iter().map(|f| {
                let name = match &f.name {
                    ast::IdentOrUnderscore::Ident(i) => ident_sexp(i),
                    ast::IdentOrUnderscore::Underscore(p) => format!("(us {})", p.0),
                };
                format!("(f {} {})", name, sym_ident_sexp(&f.symbol))
            }),
        ),
        ast::Fieldset::Tuple(t) => list(
            "tuple",
            t.fields.iter().map(|f| match f {
                ast::TupleField::Used(s) => format!("(used {})", sym_ident_sexp(s)),
                ast::TupleField::Skipped(s) => format!("(skipped {})", sym_ident_sexp(s)),
            }),
        ),
    }
}

fn type_sexp(t: &ast::Type) -> String {
    match t {
        ast::Type::Unit => "(unit)".to_string(),
        ast::Type::Path(p) => list("path", p.iter().map(ident_sexp)),
        ast::Type::Complex(c) => format!(
            "(complex {} {})",
            list("path", c.callee.iter().map(ident_sexp)),
            list("args", c.args.iter().map(type_sexp))
        ),
    }
}

fn struct_sexp(s: &ast::Struct) -> String {
    format!(
        "(struct {} {} {})",
        attrs_sexp(&s.attributes),
        ident_sexp(&s.name),
        fieldset_sexp(&s.fieldset)
    )
}

fn enum_sexp(e: &ast::Enum) -> String {
    format!(
        "(enum {} {} {})",
        attrs_sexp(&e.attributes),
        ident_sexp(&e.name),
        list(
            "variants",
            e.variants.iter().map(|v| format!(
                "(variant {} {})",
                ident_sexp(&v.name),
                fieldset_sexp(&v.fieldset)
            ))
        )
    )
}

fn ast_sexp(f: &ast::File) -> String {
    list(
        "ast",
        f.items.iter().map(|item| match item {
            ast::FileItem::Start(i) => format!("(start {})", ident_sexp(i)),
            ast::FileItem::Struct(s) => struct_sexp(s),
            ast::FileItem::Enum(e) => enum_sexp(e),
            ast::FileItem::Terminal(t) => format!(
                "(terminal {} {} {})",
                attrs_sexp(&t.attributes),
                ident_sexp(&t.name),
                list(
                    "variants",
                    t.variants.iter().map(|v| format!(
                        "(tv {} {} {})",
                        hex(v.name.name.raw()),
                        v.name.dollarless_position.0,
                        type_sexp(&v.type_)
                    ))
                )
            ),
        }),
    )
}

// ---------------------------------------------------------------- validated file

fn vfile_sexp(f: &vf::File) -> String {
    format!(
        "(file {} (tenum {} {} {}) {})",
        hex(&f.start),
        hex(&f.terminal_enum.name),
        attrs_sexp(&f.terminal_enum.attributes),
        list(
            "variants",
            f.terminal_enum.variants.iter().map(|v| format!(
                "(v {} {})",
                hex(v.dollarless_name.raw()),
                hex(&v.type_)
            ))
        ),
        list(
            "nonterminals",
            f.nonterminals.iter().map(|n| match n {
                vf::Nonterminal::Struct(s) => struct_sexp(s),
                vf::Nonterminal::Enum(e) => enum_sexp(e),
            })
        )
    )
}

// ---------------------------------------------------------------- machine, table

fn item_sexp(i: &StateItem) -> String {
    let rule = match i.rule_index {
        RuleIndex::Original(n) => n.to_string(),
        RuleIndex::Augmented => "aug".to_string(),
    };
    let la = match &i.lookahead {
        Lookahead::Terminal(t) => hex(t.raw()),
        Lookahead::Eof => "eof".to_string(),
    };
    format!("(item {} {} {})", rule, la, i.dot)
}

fn machine_sexp(m: &Machine) -> String {
    format!(
        "(machine {} {} {})",
        m.start.0,
        list(
            "states",
            m.states
                .iter()
                .map(|s| list("state", s.items.iter().map(item_sexp)))
        ),
        list(
            "transitions",
            m.transitions.iter().map(|t| format!(
                "(tr {} {} {})",
                t.from.0,
                t.to.0,
                symbol_sexp(&t.symbol)
            ))
        )
    )
}

fn table_sexp(t: &Table) -> String {
    format!(
        "(table {} {} {} {} {})",
        t.start.0,
        list("terminals", t.terminals.iter().map(|t| hex(t.raw()))),
        list("nonterminals", t.nonterminals.iter().map(|n| hex(n))),
        list(
            "actions",
            t.actions.iter().map(|a| match a {
                Action::Shift(s) => format!("(s {})", s.0),
                Action::Reduce(r) => format!("(r {})", r),
                Action::Accept => "acc".to_string(),
                Action::Err => "err".to_string(),
            })
        ),
        list(
            "gotos",
            t.gotos.iter().map(|g| match g {
                Goto::State(s) => s.0.to_string(),
                Goto::Err => "none".to_string(),
            })
        )
    )
}

// ---------------------------------------------------------------- stages

/// Runs the pipeline stage by stage through the hooks, printing every
/// intermediate value up to the first error.  A panic in a stage is printed
/// in place of that stage's value.
fn do_stages_inner(src: &str) -> String {
    let mut parts: Vec<String> = vec![];
    let finish = |parts: Vec<String>| format!("(stages {})", parts.join(" "));

    macro_rules! stage {
        ($e:expr) => {
            match catch_unwind(AssertUnwindSafe(|| $e)) {
                Ok(v) => v,
                Err(e) => {
                    parts.push(panic_sexp(e));
                    return finish(parts);
                }
            }
        };
    }

    let tokens = match stage!(hooks::tokenize(src)) {
        Ok(t) => t,
        Err(e) => {
            parts.push(err_sexp(&e));
            return finish(parts);
        }
    };
    parts.push(tokens_sexp(&tokens));

    let cst = match stage!(hooks::parse(tokens.clone())) {
        Ok(c) => c,
        Err(unexpected) => {
            let idx = match &unexpected {
                // The index of the offending token in the token list (tokens
                // have distinct start positions, so equality identifies it).
                Some(t) => tokens
                    .iter()
                    .position(|u| u == t)
                    .map(|i| i.to_string())
                    .unwrap_or("?".to_string()),
                None => "none".to_string(),
            };
            parts.push(format!("(unexpected {})", idx));
            let e = stage!(hooks::unexpected_token_or_eof_to_kiki_err(
                unexpected.as_ref(),
                src
            ));
            parts.push(err_sexp(&e));
            return finish(parts);
        }
    };
    let ast: ast::File = stage!(cst.into());
    parts.push(ast_sexp(&ast));

    let validated = match stage!(hooks::validate_ast(ast.clone())) {
        Ok(v) => v,
        Err(e) => {
            parts.push(err_sexp(&e));
            return finish(parts);
        }
    };
    parts.push(vfile_sexp(&validated));

    let machine = stage!(hooks::validated_ast_to_machine(&validated));
    parts.push(machine_sexp(&machine));

    let table = match stage!(hooks::machine_to_table(&machine, &validated)) {
        Ok(t) => t,
        Err(e) => {
            parts.push(err_sexp(&e));
            return finish(parts);
        }
    };
    parts.push(table_sexp(&table));

    let text = stage!(hooks::table_to_rust(&table, &validated, src));
    parts.push(format!("(text {})", hex(&text.0)));
    finish(parts)
}

/// The stage-by-stage run, followed by a check of the glue: `kiki::generate` (the public entry point,
/// lib.rs) must return exactly what the composition of the stages returns — the same text, or the same
/// error.  A difference is appended as `(glue-mismatch <what generate returned>)`; the model never
/// prints such a part, so it surfaces as a disagreement.
fn do_stages(src: &str) -> String {
    let staged = do_stages_inner(src);
    let public = guarded(|| do_generate(src));
    let body = &staged[..staged.len() - 1]; // without the closing parenthesis
    let last = last_part(body);
    let same = if last.starts_with("(text ") {
        public == format!("(ok {}", &last[6..])
    } else if last.starts_with("(panic") {
        public.starts_with("(panic")
    } else {
        // the staged run ended in an error: `generate` must return that error
        public == format!("(err {})", last)
    };
    if same {
        staged
    } else {
        format!("{} (glue-mismatch {}))", body, hex(&public))
    }
}

/// the last top-level part of `(stages p1 p2 … pn` (no closing parenthesis)
fn last_part(body: &str) -> &str {
    let bytes = body.as_bytes();
    let mut depth = 0i32;
    let mut start = body.len();
    for i in (0..bytes.len()).rev() {
        match bytes[i] {
            b')' => depth += 1,
            b'(' => {
                depth -= 1;
                if depth == 0 {
                    start = i;
                    break;
                }
            }
            _ => {}
        }
    }
    &body[start..]
}

// ---------------------------------------------------------------- generate (public API only)

fn do_generate(src: &str) -> String {
    match kiki::generate(src) {
        Ok(text) => format!("(ok {})", hex(&text.0)),
        Err(e) => format!("(err {})", err_sexp(&e)),
    }
}

/// C14: the same text through `generate` in 8 fresh threads (each thread gets
/// its own RandomState keys) plus twice on this thread; prints `(same <result>)`
/// or `(differ <a> <b>)`.
fn do_repeat(src: &str) -> String {
    let first = guarded(|| do_generate(src));
    let mut results = vec![guarded(|| do_generate(src))];
    let handles: Vec<_> = (0..8)
        .map(|_| {
            let s = src.to_string();
            std::thread::spawn(move || guarded(|| do_generate(&s)))
        })
        .collect();
    for h in handles {
        results.push(h.join().unwrap_or_else(|_| "(thread-died)".to_string()));
    }
    for r in &results {
        if *r != first {
            return format!("(differ {} {})", first, r);
        }
    }
    format!("(same {})", first)
}

// ---------------------------------------------------------------- hash

fn do_hash(text: &str) -> String {
    match kiki::get_grammar_hash(RustSrcRef(text)) {
        Some(h) => format!("(some {})", hex(h)),
        None => "(none)".to_string(),
    }
}

// ---------------------------------------------------------------- chars

/// `chars <lo> <hi>`: for every scalar value in [lo, hi) print the
/// classification bits used by the tokenizer:
/// 1 whitespace, 2 ascii_alphabetic, 4 ascii_alphanumeric, 8 is_uppercase,
/// then len_utf8, then to_ascii_lowercase as a number.
fn do_chars(line: &str) -> String {
    let mut it = line.split_whitespace().map(|s| s.parse::<u32>().unwrap());
    let (lo, hi) = (it.next().unwrap(), it.next().unwrap());
    let mut out = String::new();
    for cp in lo..hi {
        if let Some(c) = char::from_u32(cp) {
            let bits = (c.is_whitespace() as u32)
                | (c.is_ascii_alphabetic() as u32) << 1
                | (c.is_ascii_alphanumeric() as u32) << 2
                | ((c.is_ascii() && c.is_uppercase()) as u32) << 3
                | (c.is_ascii_uppercase() as u32) << 4
                | (c.is_ascii_lowercase() as u32) << 5;
            if bits != 0 || cp < 128 {
                out.push_str(&format!(
                    "{}:{}:{}:{} ",
                    cp,
                    bits,
                    c.len_utf8(),
                    c.to_ascii_lowercase() as u32
                ));
            }
        }
    }
    format!("(chars {})", out.trim_end())
}

// ---------------------------------------------------------------- oset

/// One history per line: `<type> op;op;...` where type is nat|pair|str and
/// elements are written `n`, `a.b`, or hex strings.  Registers are small
/// integers.  Ops: `new r`, `from r e,e,..`, `ins r e`, `ext r e,e,..`,
/// `has r e`, `iter r`, `cmp r s`, `eq r s`, `len r`.
/// The answer lists one result per op; for each op that changes a register the
/// result is the register's content afterwards, and the same history is run
/// against BTreeSet as the reference (`ref-mismatch` is printed on difference).
fn do_oset(line: &str) -> String {
    let (ty, rest) = line.split_once(' ').unwrap_or((line, ""));
    match ty {
        "nat" => oset_run::<u32>(rest, |s| s.parse().unwrap(), |e| e.to_string()),
        "pair" => oset_run::<(u8, u8)>(
            rest,
            |s| {
                let (a, b) = s.split_once('.').unwrap();
                (a.parse().unwrap(), b.parse().unwrap())
            },
            |e| format!("{}.{}", e.0, e.1),
        ),
        "str" => oset_run::<String>(rest, |s| unhex(s), |e| hex(e)),
        _ => panic!("bad oset type"),
    }
}

fn oset_run<T: Ord + Clone + std::hash::Hash + std::fmt::Debug>(
    ops: &str,
    parse: impl Fn(&str) -> T,
    show: impl Fn(&T) -> String,
) -> String {
    use std::collections::BTreeSet;
    use std::collections::HashMap;
    let mut regs: HashMap<u32, Oset<T>> = HashMap::new();
    let mut refs: HashMap<u32, BTreeSet<T>> = HashMap::new();
    let mut out: Vec<String> = vec![];
    let mut shape: usize = 0;
    let parse_list = |s: &str| -> Vec<T> {
        if s.is_empty() || s == "-" {
            vec![]
        } else {
            s.split(',').map(|e| parse(e)).collect()
        }
    };
    let show_set = |s: &Oset<T>| -> String {
        format!(
            "[{}]",
            s.iter().map(|e| show(e)).collect::<Vec<_>>().join(",")
        )
    };
    for op in ops.split(';') {
        let op = op.trim();
        if op.is_empty() {
            continue;
        }
        let w: Vec<&str> = op.split_whitespace().collect();
        let r: u32 = w[1].parse().unwrap();
        match w[0] {
            "new" => {
                regs.insert(r, Oset::new());
                refs.insert(r, BTreeSet::new());
                out.push(show_set(&regs[&r]));
            }
            "from" => {
                let l = parse_list(w.get(2).copied().unwrap_or(""));
                // The iterator handed over varies in what `size_hint` reports (exact, lower bound 0, …):
                // the result must not depend on it.
                shape += 1;
                let o: Oset<T> = match shape % 3 {
                    0 => l.iter().cloned().collect(),
                    1 => l.iter().cloned().filter(|_| true).collect(),
                    _ => l.chunks(2).flat_map(|c| c.iter().cloned()).collect(),
                };
                regs.insert(r, o);
                refs.insert(r, l.into_iter().collect());
                out.push(show_set(&regs[&r]));
            }
            "ins" => {
                let e = parse(w[2]);
                regs.get_mut(&r).unwrap().insert(e.clone());
                refs.get_mut(&r).unwrap().insert(e);
                out.push(show_set(&regs[&r]));
            }
            "ext" => {
                let l = parse_list(w.get(2).copied().unwrap_or(""));
                shape += 1;
                let reg = regs.get_mut(&r).unwrap();
                match shape % 5 {
                    0 => reg.extend(l.iter().cloned()),
                    1 => reg.extend(l.iter().cloned().filter(|_| true)),
                    2 => reg.extend(l.chunks(2).flat_map(|c| c.iter().cloned())),
                    3 => {
                        let (a, b) = l.split_at(l.len() / 2);
                        reg.extend(a.iter().cloned().chain(b.iter().cloned().take_while(|_| true)));
                    }
                    _ => reg.extend(l.clone()),
                }
                refs.get_mut(&r).unwrap().extend(l);
                out.push(show_set(&regs[&r]));
            }
            "has" => {
                let e = parse(w[2]);
                let a = regs[&r].contains(&e);
                if a != refs[&r].contains(&e) {
                    out.push("ref-mismatch".into());
                }
                out.push(a.to_string());
            }
            "iter" => {
                let v: Vec<T> = (&regs[&r]).into_iter().cloned().collect();
                let owned: Vec<T> = regs[&r].clone().into_iter().collect();
                if v != owned {
                    out.push("ref-mismatch".into());
                }
                out.push(format!(
                    "[{}]",
                    v.iter().map(|e| show(e)).collect::<Vec<_>>().join(",")
                ));
            }
            "len" => out.push(regs[&r].len().to_string()),
            "clone" => {
                // a clone is a value of its own: equal now, hashed alike, printed alike, unaffected by what happens
                // to the original later (checked by the per-operation comparison with the reference set)
                let s: u32 = w[2].parse().unwrap();
                let c = regs[&s].clone();
                if c != regs[&s] || format!("{:?}", c) != format!("{:?}", regs[&s]) || c.partial_cmp(&regs[&s]) != Some(std::cmp::Ordering::Equal) {
                    out.push("ref-mismatch".into());
                }
                let cr = refs[&s].clone();
                regs.insert(r, c);
                refs.insert(r, cr);
                out.push(show_set(&regs[&r]));
            }
            "clonefrom" => {
                // `Clone::clone_from` into an existing register (longer, shorter or equal)
                let s: u32 = w[2].parse().unwrap();
                let src = regs[&s].clone();
                let srcr = refs[&s].clone();
                regs.get_mut(&r).unwrap().clone_from(&src);
                refs.get_mut(&r).unwrap().clone_from(&srcr);
                out.push(show_set(&regs[&r]));
            }
            "default" => {
                regs.insert(r, Oset::default());
                refs.insert(r, BTreeSet::new());
                out.push(show_set(&regs[&r]));
            }
            "empty" => {
                let a = regs[&r].is_empty();
                if a != refs[&r].is_empty() || a != (regs[&r].len() == 0) || a != regs[&r].iter().next().is_none() {
                    out.push("ref-mismatch".into());
                }
                out.push(a.to_string());
            }
            "nth" => {
                // through Deref<Target = [T]>: indexing, first, last, binary_search
                let i: usize = w[2].parse().unwrap();
                let a = regs[&r].get(i).cloned();
                let b = refs[&r].iter().nth(i).cloned();
                if a != b
                    || regs[&r].first() != refs[&r].iter().next()
                    || regs[&r].last() != refs[&r].iter().next_back()
                    || a.as_ref().map(|x| regs[&r].binary_search(x)) != a.as_ref().map(|_| Ok(i))
                {
                    out.push("ref-mismatch".into());
                }
                match a {
                    Some(x) => out.push(format!("[{}]", show(&x))),
                    None => out.push("none".into()),
                }
            }
            "cmp" | "eq" => {
                let s: u32 = w[2].parse().unwrap();
                if w[0] == "cmp" {
                    let a = regs[&r].cmp(&regs[&s]);
                    if a != refs[&r].cmp(&refs[&s])
                        || regs[&r].partial_cmp(&regs[&s]) != Some(a)
                        || (regs[&r] < regs[&s]) != (a == std::cmp::Ordering::Less)
                        || (regs[&r] <= regs[&s]) != (a != std::cmp::Ordering::Greater)
                        || (regs[&r] > regs[&s]) != (a == std::cmp::Ordering::Greater)
                        || (regs[&r] != regs[&s]) != (a != std::cmp::Ordering::Equal)
                        || regs[&r].clone().max(regs[&s].clone()) != (if a == std::cmp::Ordering::Greater { regs[&r].clone() } else { regs[&s].clone() })
                    {
                        out.push("ref-mismatch".into());
                    }
                    out.push(format!("{:?}", a).to_lowercase());
                } else {
                    let a = regs[&r] == regs[&s];
                    if a != (refs[&r] == refs[&s]) {
                        out.push("ref-mismatch".into());
                    }
                    // Hash must agree with equality.
                    use std::hash::{Hash, Hasher};
                    let h = |o: &Oset<T>| {
                        let mut st = std::collections::hash_map::DefaultHasher::new();
                        o.hash(&mut st);
                        st.finish()
                    };
                    if a && h(&regs[&r]) != h(&regs[&s]) {
                        out.push("ref-mismatch".into());
                    }
                    out.push(a.to_string());
                }
            }
            _ => panic!("bad oset op {op}"),
        }
        // After every op the register must equal the reference set.
        if let (Some(o), Some(b)) = (regs.get(&r), refs.get(&r)) {
            let ov: Vec<&T> = o.iter().collect();
            let bv: Vec<&T> = b.iter().collect();
            if ov != bv {
                out.push("ref-mismatch".into());
            }
        }
    }
    format!("(oset {})", out.join(" "))
}

fn first_word(line: &str) -> &str {
    line.split_whitespace().next().unwrap_or("")
}
