//! Tiny S-expression helpers: atoms, `x`-prefixed hex strings, lists.

pub fn hex(s: &str) -> String {
    let mut out = String::with_capacity(1 + 2 * s.len());
    out.push('x');
    for b in s.as_bytes() {
        out.push_str(&format!("{:02x}", b));
    }
    out
}

/// Accepts the hex with or without the leading `x`.
pub fn unhex(s: &str) -> String {
    let s = s.strip_prefix('x').unwrap_or(s);
    let bytes: Vec<u8> = (0..s.len() / 2)
        .map(|i| u8::from_str_radix(&s[2 * i..2 * i + 2], 16).unwrap())
        .collect();
    String::from_utf8(bytes).expect("request text must be UTF-8")
}

pub fn list(head: &str, items: impl Iterator<Item = String>) -> String {
    let mut out = String::from("(");
    out.push_str(head);
    for i in items {
        out.push(' ');
        out.push_str(&i);
    }
    out.push(')');
    out
}
