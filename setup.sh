#!/bin/sh
# Offline build of the framework from files on disk: translator, Lean library + model driver,
# every property module, and the Rust harness (against /repo's working tree, hooks on).
set -e
cd "$(dirname "$0")"
export CARGO_NET_OFFLINE=true
mkdir -p .work
python3 tools/extract.py
(cd lean && lake build kvmodel)
python3 tools/mk_cert.py
(cd lean && lake build KikiVerif)
(cd harness && cargo build --offline --target-dir "$(pwd)/../.work/harness-target")
