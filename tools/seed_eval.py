#!/usr/bin/env python3
"""seed_eval.py <patch.diff> <pid> [<pid> ...]
Applies a seeded change to /repo, runs the given checks (quick tier), undoes the change, prints which
checks raised a violation.  /repo must be clean before and is clean after."""
import subprocess
import sys

patch = sys.argv[1]
pids = sys.argv[2:]
assert subprocess.run(["git", "-C", "/repo", "status", "--porcelain"], capture_output=True, text=True).stdout.strip() == "", "/repo not clean"
subprocess.run(["git", "-C", "/repo", "apply", patch], check=True)
res = {}
try:
    for pid in pids:
        r = subprocess.run(["/verif/check", pid, "--tier", "quick"], capture_output=True, text=True, cwd="/verif")
        v = [l for l in r.stdout.splitlines() if l.startswith("VIOLATION")]
        first = [l for l in r.stderr.splitlines() if "violation:" in l][:1]
        res[pid] = (r.returncode, len(v), first[0][:400] if first else "")
finally:
    subprocess.run(["git", "-C", "/repo", "checkout", "--", "."], check=True)
for pid, (rc, n, first) in res.items():
    print(f"{pid}: rc={rc} violations={n} {first}")
