"""Correspondence runs shared by the property checks: stage-by-stage comparison of
the Lean model with the implementation, compiled emitted parsers, rustc."""
import os
import re
import shutil
import subprocess
import sys
from concurrent.futures import ThreadPoolExecutor

import kv
import gen

STAGE_NAMES = ["tokens", "unexpected", "ast", "file", "machine", "table", "text"]


def stage_requests(texts):
    return [kv.hexs(t) + " " + kv.sha256(t) for t in texts]


def run_stages(texts):
    """Returns list of (impl_line, model_line) with panics canonicalised."""
    reqs = stage_requests(texts)
    impl = [canon_line(kv.canon_panic(x)) for x in kv.run_impl("stages", reqs)]
    model = [kv.canon_panic(x) for x in kv.run_model("stages", reqs)]
    return list(zip(impl, model))


def split_stages(line):
    """(stages (tokens ...) (ast ...) ...) -> dict head -> text of that part.  Works on the raw
    text (no full parse) so that very long lines stay cheap: parts are top-level children."""
    assert line.startswith("(stages"), line[:60]
    parts, depth, start = [], 0, None
    for i, ch in enumerate(line):
        if ch == "(":
            depth += 1
            if depth == 2:
                start = i
        elif ch == ")":
            depth -= 1
            if depth == 1 and start is not None:
                parts.append(line[start:i + 1])
                start = None
    out = {}
    for p in parts:
        head = p[1:].split(" ", 1)[0].rstrip(")")
        out[head] = p
    return out


ERR_HEADS = ["Lex", "Parse", "NoStartSymbol", "MultipleStartSymbols", "NoTerminalEnum", "MultipleTerminalEnums",
             "SymbolOrTerminalEnumNameFirstLetterNotUppercase", "FieldFirstLetterNotLowercase", "NameClash",
             "NonterminalEnumVariantNameClash", "NonterminalEnumVariantSymbolSequenceClash", "UndefinedNonterminal",
             "UndefinedTerminal", "TableConflict", "panic", "timeout", "died"]


def canon_line(line):
    """`(timeout)` answers of the harness watchdog, in the shape of a staged answer."""
    if line.startswith("(timeout"):
        return "(stages (timeout))"
    return line


def outcome(parts):
    """The outcome class of a staged run."""
    for h in ERR_HEADS:
        if h in parts:
            return h
    if "text" in parts:
        return "Ok"
    return "?"


def first_difference(impl_parts, model_parts):
    for k in STAGE_NAMES + ERR_HEADS:
        if impl_parts.get(k) != model_parts.get(k):
            return k
    return None


# ---------------------------------------------------------------- compiled emitted parsers

MAIN_PROLOGUE = r"""
use std::cell::Cell;
use std::rc::Rc;
struct Counting<I> { inner: I, count: Rc<Cell<usize>> }
impl<I: Iterator> Iterator for Counting<I> {
    type Item = I::Item;
    fn next(&mut self) -> Option<I::Item> {
        let x = self.inner.next();
        if x.is_some() { self.count.set(self.count.get() + 1); }
        x
    }
}
fn main() {
    std::panic::set_hook(Box::new(|_| {}));
"""


def write_driver_crate(dirpath, grammars):
    """grammars: list of (emitted_text, tenum_name, terminal_names, token_strings(list of list of decl indices)).
    Writes main.rs + g<i>.rs; one output line per token string: `<gi> <si> <result>`."""
    os.makedirs(dirpath, exist_ok=True)
    main = [MAIN_PROLOGUE]
    mods = []
    for gi, (text, tenum, tnames, strings) in enumerate(grammars):
        with open(os.path.join(dirpath, f"g{gi}.rs"), "w") as f:
            f.write(text)
        mods.append(f'#[path = "g{gi}.rs"] mod g{gi};')
        for si, s in enumerate(strings):
            toks = ", ".join(f"g{gi}::{tenum}::{tnames[d]}({i})" for i, d in enumerate(s))
            main.append(f"""    {{
        let count = Rc::new(Cell::new(0usize));
        let c2 = count.clone();
        let toks: Vec<g{gi}::{tenum}> = vec![{toks}];
        let r = std::panic::catch_unwind(std::panic::AssertUnwindSafe(move || {{
            let it = Counting {{ inner: toks.into_iter(), count: c2 }};
            match g{gi}::parse(it) {{
                Ok(v) => format!("ok {{:?}}", v),
                Err(Some(t)) => format!("errsome {{:?}}", t),
                Err(None) => "errnone".to_string(),
            }}
        }}));
        match r {{
            Ok(s) => println!("{gi} {si} {{}} pulls={{}}", s, count.get()),
            Err(_) => println!("{gi} {si} panic pulls={{}}", count.get()),
        }}
    }}""")
    main.append("}\n")
    with open(os.path.join(dirpath, "main.rs"), "w") as f:
        f.write("#![allow(unused)]\n" + "\n".join(mods) + "\n" + "\n".join(main))


def compile_and_run(dirpath, timeout=120):
    """Returns (compile_ok, stderr, output_lines or None, timed_out)."""
    try:
        r = subprocess.run(["rustc", "--edition", "2021", "-A", "warnings", "-C", "debuginfo=0", "-C", "opt-level=0",
                            "main.rs", "-o", "main"], cwd=dirpath, capture_output=True, text=True, timeout=1500)
    except subprocess.TimeoutExpired:
        # the compiler did not finish (machine under load, very large module): nothing observed, not a verdict
        return True, "rustc-timeout", [], True
    if r.returncode != 0:
        return False, r.stderr, None, False
    try:
        rr = subprocess.run(["./main"], cwd=dirpath, capture_output=True, text=True, timeout=timeout)
    except subprocess.TimeoutExpired as e:
        out = e.stdout.decode() if isinstance(e.stdout, bytes) else (e.stdout or "")
        return True, "", out.splitlines(), True
    return True, rr.stderr, rr.stdout.splitlines(), False


def run_compiled(workdir, grammars, batch=12, jobs=16):
    """Splits grammars into batches, compiles and runs each in parallel.
    Returns dict (gi, si) -> result string, plus list of (batch_index, stderr) compile failures
    and list of batch indices that timed out."""
    shutil.rmtree(workdir, ignore_errors=True)
    os.makedirs(workdir)
    # batches of at most `batch` grammars and at most ~500 kB of emitted text (a very large module compiles alone)
    batches, cur, cur_bytes = [], [], 0
    for i, g in enumerate(grammars):
        n = len(g[0])
        if cur and (len(cur) >= batch or cur_bytes + n > 500_000):
            batches.append(cur)
            cur, cur_bytes = [], 0
        cur.append(i)
        cur_bytes += n
    if cur:
        batches.append(cur)
    results, failures, timeouts = {}, [], []

    def job(bi):
        idxs = batches[bi]
        d = os.path.join(workdir, f"b{bi}")
        write_driver_crate(d, [grammars[i] for i in idxs])
        ok, err, out, to = compile_and_run(d)
        return bi, idxs, ok, err, out, to

    with ThreadPoolExecutor(max_workers=jobs) as ex:
        for bi, idxs, ok, err, out, to in ex.map(job, range(len(batches))):
            if not ok:
                failures.append((idxs, err))
                continue
            if to and err == "rustc-timeout":
                # not observed (the compiler did not finish): neither a verdict nor a missing answer
                for gi in idxs:
                    for si in range(len(grammars[gi][3])):
                        results[(gi, si)] = "rustc-timeout"
                continue
            if to:
                timeouts.append(idxs)
            for ln in out or []:
                m = re.match(r"(\d+) (\d+) (.*)", ln)
                if m:
                    results[(idxs[int(m.group(1))], int(m.group(2)))] = m.group(3)
    return results, failures, timeouts


SCRATCH_LIB = """#![allow(unused)]
pub struct P;
pub mod data { pub struct Q; }
pub struct G<A, B>(pub A, pub B);
#[path = "m.rs"] pub mod m;
"""


def rustc_check_module(dirpath, text):
    """Type-checks one emitted module as a file module of a scratch crate that supplies the
    payload types named by the generators (with no derives at all)."""
    os.makedirs(dirpath, exist_ok=True)
    with open(os.path.join(dirpath, "m.rs"), "w") as f:
        f.write(text)
    with open(os.path.join(dirpath, "lib.rs"), "w") as f:
        f.write(SCRATCH_LIB)
    r = subprocess.run(["rustc", "--edition", "2021", "--crate-type", "lib", "--emit=metadata", "-A", "warnings",
                        "-o", "lib.rmeta", "lib.rs"], cwd=dirpath, capture_output=True, text=True, timeout=300)
    return r.returncode == 0, r.stderr


def rustc_check_many(workdir, texts, jobs=16):
    shutil.rmtree(workdir, ignore_errors=True)
    os.makedirs(workdir)

    def job(i):
        return rustc_check_module(os.path.join(workdir, f"c{i}"), texts[i])

    with ThreadPoolExecutor(max_workers=jobs) as ex:
        return list(ex.map(job, range(len(texts))))
