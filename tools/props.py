"""The per-property checks: case generation, correspondence (Lean model vs
implementation), specification oracles on implementation outputs."""
import json
import random
import os
import re
import shutil
import subprocess
import sys

import corr
import gen
import kv

TRUSTED_BASE = [
    "Lean 4.33 kernel; axioms allowed in property theorems: propext, Classical.choice, Quot.sound",
    "statements in lean/KikiVerif/Properties and lean/KikiVerif/Spec",
    "translator tools/extract.py (regular expressions over parser.rs, parser.kiki, tokenize.rs)",
    "correspondence: harness/src/main.rs + lean/Main.lean printers, tools/*.py generators and comparisons",
    "Rust std modelled by contract: Vec, HashMap/HashSet (arbitrary iteration order), binary_search, sort, dedup, str::lines, char predicates",
]

EXAMPLES = "/repo/kiki/src/examples"


def example_texts():
    out = []
    for fn in sorted(os.listdir(EXAMPLES)):
        if fn.endswith(".kiki"):
            out.append(open(os.path.join(EXAMPLES, fn)).read())
    sf = os.path.join(EXAMPLES, "should_fail")
    for fn in sorted(os.listdir(sf)):
        if fn.endswith(".kiki"):
            out.append(open(os.path.join(sf, fn)).read())
    out.append(open("/repo/kiki/src/parser.kiki").read())
    return out


def corpus(pid):
    """Minimised past failures (one JSON list of texts per property); they run first."""
    p = os.path.join(kv.ROOT, "corpus", pid + ".json")
    if os.path.exists(p):
        return json.load(open(p))
    return []


def sample(xs, n=3):
    return xs[:n]


def compare_stage_runs(rep, texts, what, keys=None, label="stages"):
    """Model-vs-implementation correspondence on `texts`.  Returns (pairs, disagreements)."""
    pairs = corr.run_stages(texts)
    dis = []
    for t, (i, m) in zip(texts, pairs):
        if i != m:
            ip, mp = corr.split_stages(i) if i.startswith("(stages") else {"died": i}, corr.split_stages(m) if m.startswith("(stages") else {"died": m}
            d = corr.first_difference(ip, mp)
            if keys is None or d in keys:
                dis.append({"source": t, "first_differing_stage": d, "impl": (ip.get(d) or "")[:2000], "model": (mp.get(d) or "")[:2000]})
    return pairs, dis


def report_disagreements(rep, dis, correspondence, theorem):
    """A broken correspondence that no oracle turned into a concrete failing input."""
    if dis:
        rep.violation(
            f"correspondence '{correspondence}' broke on {len(dis)} case(s); no property-level failing input was found by the oracle, "
            f"but theorem(s) {theorem} are about the model and no longer transfer to the code",
            {"correspondence": correspondence, "theorems": theorem, "first_cases": dis[:3]}, no_input=True)


# =========================================================================================== C18

def run_C18(rep, tier, rng):
    n = 300 if tier == "quick" else 60000
    lines = list(corpus("C18"))
    for i in range(n):
        lines.append(gen.oset_history(rng, ["nat", "pair", "str"][i % 3], nops=rng.randint(4, 25)))
    impl = kv.run_impl("oset", lines)
    model = kv.run_model("oset", lines)
    dis = []
    for l, a, b in zip(lines, impl, model):
        if "ref-mismatch" in a or "panic" in a or "died" in a:
            rep.violation("kiki::Oset disagrees with BTreeSet (the mathematical set) on a history", {"history": l, "impl": a})
        elif a != b:
            dis.append({"history": l, "impl": a, "model": b})
    report_disagreements(rep, dis, "oset histories", "C18_sorted / C18_refines / C18_contains / C18_iter / C18_ext")
    ops = sum(l.count(";") + 1 for l in lines)
    return {"evaluations": len(lines), "distinct_nontrivial": kv.distinct_count([l for l in lines if l.count(";") >= 3]),
            "rule": "random histories of new/from_iter/insert/extend/contains/iter/len/cmp/eq over u32, (u8,u8) and String registers; non-trivial = at least 4 operations; implementation compared with BTreeSet (oracle) and with the Lean model",
            "samples": sample(lines), "operations": ops, "model_disagreements": len(dis)}


# =========================================================================================== C15

def py_grammar_hash(text):
    """The statement of C15, directly: remainder of the first line starting with `// @sha256 `
    inside the leading block of `//` lines."""
    for line in rust_lines(text):
        if not line.startswith("//"):
            return None
        if line.startswith("// @sha256 "):
            return line[len("// @sha256 "):]
    return None


def rust_lines(text):
    """str::lines: split at \\n, strip one trailing \\r of a line that ended in \\n; no extra empty line at the end."""
    out = []
    parts = text.split("\n")
    for k, p in enumerate(parts):
        last = k == len(parts) - 1
        if last:
            if p != "":
                out.append(p)
        else:
            out.append(p[:-1] if p.endswith("\r") else p)
    return out


def run_C15(rep, tier, rng):
    n = 400 if tier == "quick" else 40000
    frags = ["// @sha256 ", "// @sha256", "//", "// x", "abc", "", " // @sha256 q", "// @sha256 // @sha256 abc", "// @SHA256 x", "/ /", "//@sha256 x",
             "// @sha256 0123abcd", "#![allow(x)]", "// é€😀", "// @sha256 é", "\r", "// @sha256 a\r", "// @sha256  two  spaces ",
             # the separator behind the tag is one space, nothing else
             "// @sha256\tx", "// @sha256\u00a0x", "// @sha256\x0cx", "// @sha256\u2003x", "// @sha256\rx", "// @sha256x", "//  @sha256 x", "//\t@sha256 x", "// @sha256", "// @sha256\u3000 y"]
    seps = ["\n", "\r\n", "\n\n", "\r", ""]
    texts = list(corpus("C15"))
    for _ in range(n):
        k = rng.randint(0, 6)
        t = ""
        for _ in range(k):
            t += rng.choice(frags) + rng.choice(seps)
        texts.append(t)
    reqs = [kv.hexs(t) for t in texts]
    impl = kv.run_impl("hash", reqs)
    model = kv.run_model("hash", reqs)
    dis = []
    for t, a, b in zip(texts, impl, model):
        want = py_grammar_hash(t)
        want_s = "(none)" if want is None else f"(some {kv.hexs(want)})"
        if a != want_s:
            rep.violation("get_grammar_hash does not return the remainder of the first `// @sha256 ` line of the leading comment block",
                          {"text": t, "impl": a, "spec": want_s})
        elif a != b:
            dis.append({"text": t, "impl": a, "model": b})
    # round trip through generate
    pool = [gen.render(g, rng if i % 2 else None) for i, (_, g, c) in enumerate(gen.families()) if c == "lalr"]
    pool += [t for t in example_texts()[:8]]
    extra = 30 if tier == "quick" else 1500
    while len(pool) < extra:
        pool.append(gen.render(gen.random_grammar(rng, payload="mixed", derive=False), rng))
    pool += gen.invisible_probes(pool[:10], rng, per_base=(4 if tier == "quick" else 13))
    pool += ["\r\n".join(t.split("\n")) for t in pool[:6]] + [t + "\n// trailing comment without newline" for t in pool[:3]]
    outs = kv.run_impl("generate", [kv.hexs(t) for t in pool])
    rt = 0
    texts_ok = []
    for t, o in zip(pool, outs):
        if o.startswith("(ok "):
            rt += 1
            emitted = kv.unhexs(o[4:-1])
            texts_ok.append(emitted)
            want = kv.sha256(t)
            if py_grammar_hash(emitted) != want or not emitted.startswith("//"):
                rep.violation("emitted header does not carry the SHA-256 of the exact source", {"source": t, "header": emitted[:400]})
    back = kv.run_impl("hash", [kv.hexs(e) for e in texts_ok])
    backm = kv.run_model("hash", [kv.hexs(e) for e in texts_ok])
    for e, a, b in zip(texts_ok, back, backm):
        if a != f"(some {kv.hexs(py_grammar_hash(e) or '')})":
            rep.violation("get_grammar_hash(generate(src)) is not the digest in the header", {"header": e[:400], "impl": a})
        elif a != b:
            dis.append({"text": e[:300], "impl": a, "model": b})
    report_disagreements(rep, dis, "get_grammar_hash on generated texts", "C15_spec / C15_roundtrip")
    return {"evaluations": len(texts) + rt, "distinct_nontrivial": kv.distinct_count([t for t in texts if "sha256" in t]) + rt,
            "rule": "texts assembled from header-like fragments and line terminators (non-trivial = contains 'sha256'); plus the round trip generate→get_grammar_hash on accepted grammars, digest compared with hashlib",
            "samples": sample([t for t in texts if "sha256" in t]), "roundtrips": rt, "model_disagreements": len(dis)}


# =========================================================================================== text streams

def text_stream(rng, n_valid, n_malformed):
    valid = example_texts()
    for _, g, _c in gen.families():
        valid.append(gen.render(g))
        valid.append(gen.render(g, rng))
    while len(valid) < n_valid:
        if len(valid) % 4 == 3:
            # the structured families of the LR pools as well (every stage sees them: C07, C14 …)
            g = rng.choice([gen.context_grammar, gen.wave_grammar, gen.sequence_grammar, gen.nesting_grammar, gen.layered_grammar, gen.dispatch_grammar, gen.nullable_tail_grammar])(rng, derive=rng.random() < 0.5)
            valid.append(gen.render(g, rng if rng.random() < 0.5 else None))
            continue
        g = gen.random_grammar(rng, names=rng.choice(["plain", "adversarial"]), payload="mixed", derive=rng.random() < 0.5)
        if len(valid) % 5 == 2:
            g = (gen.near_miss(g, rng) or (g, ""))[0]
        for it in g:
            if it["kind"] != "start" and rng.random() < 0.4:
                it["attrs"] = it.get("attrs", []) + ["#[" + rng.choice(gen.ATTR_BODIES[:7]) + "]"]
        valid.append(gen.render(g, rng if rng.random() < 0.7 else None))
    mal = gen.malformed_texts(rng, valid, n_malformed)
    # one structural quantity at the limits of 8/16-bit counters (valid or with a single error): these go in front of
    # the malformed stream so that every check that uses the stream sees them
    mal = gen.size_probes(thorough=(n_malformed > 5000)) + mal
    # characters that look like nothing (BOM, zero-width …) in front of / behind / inside otherwise valid texts
    mal = gen.invisible_probes(valid[:12], rng, per_base=(3 if n_malformed <= 5000 else 13)) + mal
    # syntactically fine but statically invalid files (every violation kind of the C10 injector, alone and several of
    # one kind): what validation lets through by mistake reaches the later stages, which trust it and unwrap
    inv = []
    while len(inv) < max(60, n_valid // 2):
        base = gen.random_grammar(rng, names=rng.choice(["plain", "adversarial"]), payload="mixed", derive=False)
        r = gen.multi_violation(base, rng) if len(inv) % 4 == 3 else gen.inject_violation(base, rng)
        if r:
            inv.append(gen.render(r[0], rng if rng.random() < 0.3 else None))
    return valid, inv + mal


# =========================================================================================== C08

def run_C08(rep, tier, rng):
    nv, nm = (120, 1500) if tier == "quick" else (600, 30000)
    valid, mal = text_stream(rng, nv, nm)
    scal = list(range(0, 0x3100)) + [rng.randrange(0x3100, 0x110000) for _ in range(2000)]
    if tier == "thorough":
        scal = list(range(0, 0x110000))
    single = []
    for cp in scal:
        if 0xD800 <= cp < 0xE000:
            continue
        c = chr(cp)
        single.append(c)
        single.append("ab" + c + "$cd")
        if cp < 0x3100:
            single.append("#[" + c + "]" + c + ":")
            single.append("//" + c + "\n_")
    # every tokenizer state × every next character: the character behind a prefix that leaves the tokenizer in each of
    # its states (start, after `/`, inside an identifier, after `$`, inside a terminal identifier, after `:`, after `#`,
    # inside an attribute, inside nested brackets, inside a comment, after `_`, after `$_`), alone and followed by more
    prefixes = ["", "/", "ab", "$", "$ab", ":", "#", "#[", "#[(", "//", "_", "$_", "a9", "::", "$A_"]
    lim = 0x250 if tier == "quick" else 0x3100
    state_char = []
    for cp in range(lim):
        if 0xD800 <= cp < 0xE000:
            continue
        c = chr(cp)
        for pre in prefixes:
            state_char.append(pre + c)
            state_char.append(pre + c + "x ")
    texts = corpus("C08") + valid + mal + gen.keyword_probes() + state_char + single
    reqs = [kv.hexs(t) for t in texts]
    impl = [kv.canon_panic(x) for x in kv.run_impl("tokenize", reqs)]
    model = [kv.canon_panic(x) for x in kv.run_model("tokenize", reqs)]
    spec = kv.run_model("scan", reqs)
    dis, kinds = [], {}
    for t, a, b, s in zip(texts, impl, model, spec):
        k = a[1:].split(" ", 1)[0].rstrip(")")
        kinds[k] = kinds.get(k, 0) + 1
        if a != s:
            rep.violation("tokenisation differs from the documented lexical rules (Spec.scan)", {"source": t, "impl": a[:1500], "spec": s[:1500]})
        elif a != b:
            dis.append({"source": t, "impl": a[:1500], "model": b[:1500]})
    report_disagreements(rep, dis, "tokenize", "C08_tokenize_eq_spec")
    return {"evaluations": len(texts), "distinct_nontrivial": kv.distinct_count([t for t in texts if len(t) > 3]),
            "rule": "valid grammar files in random layouts (Unicode spaces, CR/LF, comments with multi-byte text) plus single-edit mutations, attribute bodies with nested/mismatched/unterminated brackets and raw fragments; non-trivial = longer than 3 characters; implementation compared with Spec.scan (oracle) and with the model",
            "samples": sample(mal[40:]), "outcome_kinds": kinds, "model_disagreements": len(dis), "single_character_probes": len(single)}


# =========================================================================================== C07

def run_C07(rep, tier, rng):
    nv, nm = (100, 1200) if tier == "quick" else (500, 20000)
    valid, mal = text_stream(rng, nv, nm)
    # size / nesting bounds of the property: 64 KiB, 2000 declarations, type nesting 256
    def chain(n):
        return "start S0\n" + "".join(f"struct S{i} {{ a: S{(i + 1) % n} b: $T }}\n" for i in range(n)) + "terminal K { $T: () }\n"
    nest = "Vec<" * 256 + "u8" + ">" * 256
    big = [f"start S struct S terminal K {{ $T: {nest} }}\n",
           "start S struct S terminal K { }\n" + "// c\n" * 9000,
           "enum E {" + " ".join(f"V{i}" for i in range(2000)) + "} start E terminal K {}",
           chain(40 if tier == "quick" else 200)]
    # at the bounds themselves the construction is quadratic (seconds, hundreds of MB of stage output), so these
    # go through the public entry point of the implementation only, with a watchdog sized for them
    bound = [chain(1500),
             "start S0\n" + "".join(f"struct S{i}\n" for i in range(1998)) + "terminal K { $T: () }\n",
             "start S struct S terminal K {\n" + "".join(f"  $T{i}: ()\n" for i in range(1990)) + "}\n",
             "start S struct S terminal K { $T: () } //" + "é" * 32000] if tier == "thorough" else []
    texts = corpus("C07") + valid + mal + big
    pairs = corr.run_stages(texts)
    dis, kinds = [], {}
    for t, (i, m) in zip(texts, pairs):
        ip = corr.split_stages(i) if i.startswith("(stages") else {"died": i}
        o = corr.outcome(ip)
        kinds[o] = kinds.get(o, 0) + 1
        if o in ("panic", "died", "timeout", "?"):
            rep.violation(f"generate {o} on an input text", {"source": t if len(t) < 4000 else t[:4000] + "…", "impl": i[-600:]})
        elif i != m:
            mp = corr.split_stages(m) if m.startswith("(stages") else {"died": m}
            d = corr.first_difference(ip, mp)
            dis.append({"source": t[:2000], "first_differing_stage": d, "impl": (ip.get(d) or "")[:800], "model": (mp.get(d) or "")[:800]})
    # the public entry point in fresh processes (aborts would kill the child, not us)
    sub = texts[: (200 if tier == "quick" else 2000)]
    outs = kv.run_impl("generate", [kv.hexs(t) for t in sub])
    for t, o in zip(sub, outs):
        if o.startswith("(panic") or o.startswith("(died") or o.startswith("(timeout"):
            rep.violation("generate panicked/aborted/did not return (public entry point, child process)", {"source": t[:4000], "impl": o[:300]})
    if bound:
        old = os.environ.get("KVH_TIMEOUT")
        os.environ["KVH_TIMEOUT"] = "300"
        try:
            outs = kv.run_impl("generate", [kv.hexs(t) for t in bound])
        finally:
            if old is None:
                del os.environ["KVH_TIMEOUT"]
            else:
                os.environ["KVH_TIMEOUT"] = old
        for t, o in zip(bound, outs):
            kinds["bound:" + o[1:].split(" ", 1)[0].rstrip(")")] = kinds.get("bound:" + o[1:].split(" ", 1)[0].rstrip(")"), 0) + 1
            if o.startswith("(panic") or o.startswith("(died") or o.startswith("(timeout"):
                rep.violation("generate panicked/aborted/did not return within 300 s on a file at the size bounds", {"source": t[:4000], "impl": o[:300]})
    report_disagreements(rep, dis, "stages (outcome class and every intermediate value)", "C07_no_panic / C07_terminates")
    return {"evaluations": len(texts) + len(sub) + len(bound), "distinct_nontrivial": kv.distinct_count([t for t in texts if len(t) > 3]),
            "rule": "valid files (all fieldset shapes, variant-less enums, zero terminals, unproductive/unreachable nonterminals, multi-byte text) + mutated and raw malformed texts + size-bound files; every stage under catch_unwind, public generate() in a child process; non-trivial = longer than 3 chars",
            "samples": sample(mal[45:]), "outcome_kinds": kinds, "model_disagreements": len(dis)}


# =========================================================================================== C14

def run_C14(rep, tier, rng):
    nv, nm = (60, 150) if tier == "quick" else (1200, 6000)
    valid, mal = text_stream(rng, nv, nm)
    # conflicts and validation errors are the paths that iterate hash collections
    conflicty = [gen.render(gen.random_grammar(rng, max_nt=4, max_t=3, maxlen=4)) for _ in range(nv)]
    # statically invalid files, in particular with several violations of one kind in one scope (which one is
    # reported must not depend on a hash order)
    invalid = []
    while len(invalid) < nv:
        base = gen.random_grammar(rng, names=rng.choice(["plain", "adversarial"]), payload="mixed", derive=False)
        r = gen.multi_violation(base, rng) if len(invalid) % 3 else gen.inject_violation(base, rng)
        if r:
            r2 = gen.inject_violation(r[0], rng) if rng.random() < 0.3 else None
            invalid.append(gen.render((r2 or r)[0]))
    texts = corpus("C14") + valid + conflicty + invalid + mal
    reqs = [kv.hexs(t) for t in texts]
    a = kv.run_impl("repeat", reqs)            # 10 runs, 8 of them in fresh threads
    procs = 4 if tier == "quick" else 12
    others = [kv.run_impl("generate", reqs) for _ in range(procs)]   # fresh processes: fresh RandomState keys
    kinds = {}
    for k, t in enumerate(texts):
        if not a[k].startswith("(same "):
            rep.violation("generate returned different results for the same text within one process", {"source": t, "impl": a[k][:1500]})
            continue
        first = a[k][len("(same "):-1]
        o = "ok" if first.startswith("(ok") else first[1:40].split(" ")[1] if first.startswith("(err") else first[:12]
        kinds[o] = kinds.get(o, 0) + 1
        for p in others:
            if p[k] != first:
                rep.violation("generate returned different results for the same text in different processes", {"source": t, "a": first[:1500], "b": p[k][:1500]})
                break
    # model: the function is deterministic by construction; compare it once
    pairs, dis = compare_stage_runs(rep, texts[:200], "C14")
    report_disagreements(rep, dis, "stages", "C14_perm")
    return {"evaluations": len(texts) * (10 + procs), "distinct_nontrivial": kv.distinct_count([t for t in texts if len(t) > 3]),
            "rule": f"valid, conflicting, statically invalid (incl. several violations of one kind in one scope) and malformed texts; each text through generate 10× in one process (8 fresh threads) and once in each of {procs} further processes (fresh RandomState keys); results compared byte for byte (RustSrc) / structurally (canonical print of KikiErr incl. conflict payload and machine)",
            "samples": sample(conflicty), "outcome_kinds": kinds, "model_disagreements": len(dis)}


REGISTRY = {}


def register(pid, run, theorems, **kw):
    REGISTRY[pid] = dict(run=run, theorems=theorems, **kw)


def replay(pid, path):
    d = json.load(open(path))
    print(json.dumps(d, indent=1, ensure_ascii=False)[:4000])
    return 0


# =========================================================================================== LR helpers

import oracle  # noqa: E402


def machine_of_sexp(mx):
    """(machine start (states ...) (transitions ...)) -> oracle machine dict"""
    start = int(mx[1])
    states = []
    for st in mx[2][1:]:
        items = set()
        for it in st[1:]:
            rule = "aug" if it[1] == "aug" else int(it[1])
            la = None if it[2] == "eof" else kv.unhexs(it[2])
            items.add((rule, int(it[3]), la))
        states.append(frozenset(items))
    trans = {}
    dup = False
    for tr in mx[3][1:]:
        sym = ("t" if tr[3][0] == "T" else "n", kv.unhexs(tr[3][1]))
        key = (int(tr[1]), sym)
        if key in trans:
            dup = True
        trans[key] = int(tr[2])
    return {"states": states, "start": start, "trans": trans, "dup": dup}


def table_of_sexp(tx):
    """(table start (terminals..) (nonterminals..) (actions..) (gotos..)) -> (start, terms, nts, action dict, goto dict, nstates)"""
    start = int(tx[1])
    terms = [kv.unhexs(x) for x in tx[2][1:]]
    nts = [kv.unhexs(x) for x in tx[3][1:]]
    acts = tx[4][1:]
    gts = tx[5][1:]
    w = len(terms) + 1
    n = len(acts) // w if w else 0
    action, goto = {}, {}
    for s in range(n):
        for c in range(w):
            a = acts[s * w + c]
            la = terms[c] if c < len(terms) else None
            if a == "err":
                continue
            if a == "acc":
                action[(s, la)] = ("accept",)
            elif a[0] == "s":
                action[(s, la)] = ("shift", int(a[1]))
            else:
                action[(s, la)] = ("reduce", int(a[1]))
        for c, nt in enumerate(nts):
            g = gts[s * len(nts) + c]
            if g != "none":
                goto[(s, nt)] = int(g)
    return start, terms, nts, action, goto, n


TABLE_RE = re.compile(r"static (\w+): \[\[[^;]+; (\d+)\]; (\d+)\] = \[\n(.*?)\n\];", re.S)


def tables_from_text(text):
    """Reads ACTION/GOTO tables, start state, terminal and nonterminal order back from the emitted Rust text
    (the observation point of C17).  Returns the same tuple as table_of_sexp."""
    m = re.search(r"let mut states = vec!\[\w+::S(\d+)\];", text)
    start = int(m.group(1))

    def enum_variants(after_marker):
        mm = re.search(after_marker + r" \{\n(.*?)\n\}", text, re.S)
        return [ln.strip().split(" = ")[0] for ln in mm.group(1).splitlines() if " = " in ln]

    # the two kind enums follow fixed derive lines; find them through get_action's signature
    sig = re.search(r"fn get_action\(top_state: (\w+), next_quasiterminal_kind: (\w+)\) -> (\w+)", text)
    state_enum, qk_enum, action_enum = sig.group(1), sig.group(2), sig.group(3)
    sig2 = re.search(r"fn get_goto\(top_state: \w+, new_node_kind: (\w+)\)", text)
    nk_enum = sig2.group(1)
    qk = enum_variants(r"\nenum " + qk_enum)
    terms = qk[:-1]
    nts = enum_variants(r"\nenum " + nk_enum)
    tabs = TABLE_RE.findall(text)
    (an, aw, ah, abody), (gn, gw, gh, gbody) = tabs[0], tabs[1]
    rows = re.findall(r"    \[\n(.*?)\n    \],", abody, re.S)
    action = {}
    for s, rt in enumerate(rows):
        cells = [c.strip().rstrip(",") for c in rt.splitlines()]
        assert len(cells) == len(qk)
        for c, cell in enumerate(cells):
            la = terms[c] if c < len(terms) else None
            cell = cell.split("::", 1)[1]
            if cell == "Err":
                continue
            if cell == "Accept":
                action[(s, la)] = ("accept",)
            elif cell.startswith("Shift("):
                action[(s, la)] = ("shift", int(re.search(r"::S(\d+)\)", cell).group(1)))
            elif cell.startswith("Reduce("):
                action[(s, la)] = ("reduce", int(re.search(r"::R(\d+)\)", cell).group(1)))
            else:
                raise ValueError(cell)
    goto = {}
    grows = re.findall(r"    \[\n(.*?)\n    \],", gbody, re.S) if int(gw) > 0 else []
    for s, rt in enumerate(grows):
        cells = [c.strip().rstrip(",") for c in rt.splitlines()]
        for c, cell in enumerate(cells):
            if cell != "None":
                goto[(s, nts[c])] = int(re.search(r"::S(\d+)\)", cell).group(1))
    return start, terms, nts, action, goto, int(ah)


def lalr_tables_match(G, start, action, goto, nstates):
    """C17 oracle: are (start, action, goto) the tables of the LALR(1) automaton of G up to renumbering?
    Returns None if yes, else a description."""
    M = oracle.lalr(G)
    if oracle.conflicts(G, M):
        return "oracle: grammar is not LALR(1) but tables were emitted"
    oa, og = oracle.tables(G, M)
    if nstates != len(M["states"]):
        return f"{nstates} states emitted, LALR(1) automaton has {len(M['states'])}"
    # bijection by simultaneous traversal over shift/goto edges
    f = {M["start"]: start}
    work = [M["start"]]
    while work:
        s = work.pop()
        edges = [(la, a[1]) for (st, la), a in oa.items() if st == s and a[0] == "shift"]
        for la, tgt in edges:
            ia = action.get((f[s], la))
            if not ia or ia[0] != "shift":
                return f"state {f[s]}: expected shift on {la}, found {ia}"
            if tgt in f:
                if f[tgt] != ia[1]:
                    return f"state {f[s]}: shift on {la} goes to {ia[1]}, expected image {f[tgt]}"
            else:
                f[tgt] = ia[1]
                work.append(tgt)
        for (st, nt), tgt in og.items():
            if st != s:
                continue
            ig = goto.get((f[s], nt))
            if ig is None:
                return f"state {f[s]}: expected goto on {nt}"
            if tgt in f:
                if f[tgt] != ig:
                    return f"state {f[s]}: goto on {nt} goes to {ig}, expected image {f[tgt]}"
            else:
                f[tgt] = ig
                work.append(tgt)
    if len(f) != len(M["states"]) or len(set(f.values())) != len(f):
        return "the renumbering from the start state is not a bijection on all states"
    exp_a = {}
    for (s, la), a in oa.items():
        exp_a[(f[s], la)] = ("shift", f[a[1]]) if a[0] == "shift" else a
    exp_g = {(f[s], nt): f[t] for (s, nt), t in og.items()}
    if exp_a != action:
        d = set(exp_a.items()) ^ set(action.items())
        return f"action cells differ from the LALR(1) table: {sorted(d, key=str)[:4]}"
    if exp_g != goto:
        d = set(exp_g.items()) ^ set(goto.items())
        return f"goto cells differ from the LALR(1) table: {sorted(d, key=str)[:4]}"
    return None


def small_scope(stride):
    """[(label, items, text, G)]: every stride-th grammar of the exhaustive small scope (gen.exhaustive_small_grammars)."""
    return [(label, items, gen.render(items), gen.to_oracle(items)) for label, items in gen.exhaustive_small_grammars(stride=stride)]


def grammar_pool(rng, n_random, usize=True, names="plain", max_nt=4, max_t=4, maxlen=4, min_t=0):
    """[(label, items, text, G)] — families first, then random grammars."""
    out = []
    for label, items, _cls in gen.families():
        out.append((label, items, gen.render(items), gen.to_oracle(items)))
    if n_random >= 100:
        # automata and tables past the limits of 8-bit indices (states, rules, terminals, nonterminals)
        for label, items in gen.size_grammars(thorough=(n_random >= 3000)):
            out.append((label, items, gen.render(items), gen.to_oracle(items)))
    for k in range(n_random):
        if k % 16 == 6:
            items = gen.long_production_grammar(rng)
            out.append((f"long{k}", items, gen.render(items), gen.to_oracle(items)))
            continue
        if k % 4 == 1:
            items = gen.layered_grammar(rng)
            out.append((f"layered{k}", items, gen.render(items), gen.to_oracle(items)))
            continue
        if k % 16 == 14:
            items = gen.nullable_tail_grammar(rng)
            out.append((f"nulltail{k}", items, gen.render(items), gen.to_oracle(items)))
            continue
        if k % 16 == 12:
            items = gen.dispatch_grammar(rng)
            out.append((f"dispatch{k}", items, gen.render(items), gen.to_oracle(items)))
            continue
        if k % 8 == 4:
            items = gen.context_grammar(rng)
            out.append((f"context{k}", items, gen.render(items), gen.to_oracle(items)))
            continue
        if k % 16 == 10:
            items = gen.wave_grammar(rng)
            out.append((f"wave{k}", items, gen.render(items), gen.to_oracle(items)))
            continue
        if k % 8 == 2:
            items = gen.sequence_grammar(rng)
            out.append((f"sequence{k}", items, gen.render(items), gen.to_oracle(items)))
            continue
        if k % 4 == 3:
            items = gen.nesting_grammar(rng)
            out.append((f"nesting{k}", items, gen.render(items), gen.to_oracle(items)))
            continue
        items = gen.random_grammar(rng, names=names, payload="usize" if usize else "mixed", derive=True, max_nt=max_nt, max_t=max_t, maxlen=maxlen, min_t=min_t)
        out.append((f"random{k}", items, gen.render(items), gen.to_oracle(items)))
    # appended with a generator of their own, so that the grammars above are the same as before the family existed
    prng = random.Random(f"shared-prefix-{n_random}")
    for k in range(max(6, n_random // 16) if n_random else 0):
        items = gen.shared_prefix_grammar(prng)
        out.append((f"sharedprefix{k}", items, gen.render(items), gen.to_oracle(items)))
    # every seventh grammar with a terminal (sometimes a nonterminal) called after a sentinel of the generator (Eof …)
    srng = random.Random(f"sentinel-{n_random}")
    for j, (label, items, text, G) in enumerate(out):
        if j % 7 == 3 and not label.startswith("size"):
            it2 = gen.sentinelize(items, srng)
            out[j] = (label + "-sentinel", it2, gen.render(it2), gen.to_oracle(it2))
    # every third grammar of the structured generators also through the named-fieldset code paths
    nrng = random.Random(f"namedify-{n_random}")
    for j, (label, items, text, G) in enumerate(out):
        if j % 3 == 1 and not label.startswith("random") and not label.startswith("size"):
            it2 = gen.namedify(items, nrng)
            out[j] = (label + "-named", it2, gen.render(it2), gen.to_oracle(it2))
    return out


# =========================================================================================== C04 / C11 / C17

def run_C04(rep, tier, rng):
    n = 800 if tier == "quick" else 8000
    pool = grammar_pool(rng, n) + small_scope(20 if tier == "quick" else 1)
    texts = corpus("C04") + [t for _, _, t, _ in pool]
    pairs, dis = compare_stage_runs(rep, texts, "C04")
    nc = len(corpus("C04"))
    counts = {"Ok": 0, "TableConflict": 0, "other": 0}
    for (label, items, text, G), (i, m) in zip(pool, pairs[nc:]):
        ip = corr.split_stages(i) if i.startswith("(stages") else {"died": i}
        o = corr.outcome(ip)
        counts[o if o in counts else "other"] += 1
        want_ok = oracle.is_lalr1(G)
        if o == "Ok" and not want_ok:
            rep.violation("a parser was emitted for a grammar whose LALR(1) automaton has a conflict", {"label": label, "source": text, "oracle_conflicts": str(oracle.conflicts(G, oracle.lalr(G))[:3])})
        elif o == "TableConflict" and want_ok:
            rep.violation("a conflict-free LALR(1) grammar was rejected with a table-conflict error", {"label": label, "source": text})
        elif o not in ("Ok", "TableConflict"):
            rep.violation(f"well-formed grammar file gave outcome {o}", {"label": label, "source": text, "impl": i[-400:]})
    report_disagreements(rep, dis, "stages (verdict, machine, table)", "C04_table_ok_iff_no_conflict / C04_sound_partial")
    return {"evaluations": len(pool), "distinct_nontrivial": kv.distinct_count([t for _, _, t, G in pool if len(G["rules"]) >= 2]),
            "rule": "class-separating hand-written families (SLR⊂LALR⊂LR(1), ambiguous, ε in the middle, recursion mixes, unproductive/unreachable/variant-less) + structured generators (layered, nesting, sequence, wave, context, long productions, size grammars) + random grammars (1–4 nonterminals, 0–4 terminals, rhs ≤ 4) + the exhaustive small scope (every grammar with one nonterminal, two terminals, ≤ 2 alternatives of length ≤ 3, and with two nonterminals, ≤ 2 alternatives each of length ≤ 2: 54 000 grammars; all in the thorough tier, every 20th in the quick tier); verdict compared with conflict-freeness of the specification-side LALR(1) automaton (canonical LR(1) merged by core: a different algorithm); non-trivial = at least 2 rules",
            "samples": sample([t for _, _, t, _ in pool[16:]]), "verdicts": counts, "model_disagreements": len(dis)}


def run_C11(rep, tier, rng):
    n = 800 if tier == "quick" else 8000
    pool = grammar_pool(rng, n) + small_scope(40 if tier == "quick" else 6)
    texts = [t for _, _, t, _ in pool]
    pairs, dis = compare_stage_runs(rep, texts, "C11")
    seen = 0
    for (label, items, text, G), (i, m) in zip(pool, pairs):
        if "(TableConflict " not in i:
            continue
        seen += 1
        ip = corr.split_stages(i)
        c = kv.parse_sexp(ip["TableConflict"])
        state, it1, it2, fx, mx = int(c[1]), c[2], c[3], c[4], c[5]
        M = machine_of_sexp(mx)
        why = None
        key = lambda it: ("aug" if it[1] == "aug" else int(it[1]), int(it[3]), None if it[2] == "eof" else kv.unhexs(it[2]))
        if state >= len(M["states"]):
            why = "state index is not a state of the attached automaton"
        elif key(it1) not in M["states"][state] or key(it2) not in M["states"][state]:
            why = "a reported item does not belong to the reported state"
        else:
            d1 = oracle.demands(G, [key(it1)])
            d2 = oracle.demands(G, [key(it2)])
            common = [la for la in d1 if la in d2 and d1[la] != d2[la]]
            if not common:
                why = "the two items do not demand different actions on a common lookahead"
        if why is None and ip.get("file") is not None and _strip_head(ip["file"]) != _strip_head(_sexp_text(fx)):
            why = "the attached grammar is not the validated input grammar"
        if why is None and ip.get("machine") is not None and _sexp_text(mx) != ip["machine"]:
            why = "the attached automaton is not the automaton that was built"
        if why is None and not M["dup"]:
            iso = oracle.machines_isomorphic(oracle.lalr(G), {k: M[k] for k in ("states", "start", "trans")})
            if iso is None:
                why = "the attached automaton is not the LALR(1) automaton of the grammar (cores, transitions or lookahead sets differ)"
        if why:
            rep.violation("table-conflict error: " + why, {"label": label, "source": text, "payload": ip["TableConflict"][:1500]})
    report_disagreements(rep, dis, "stages (conflict payload)", "C11_payload")
    return {"evaluations": len(pool), "distinct_nontrivial": seen,
            "rule": "same pool as C04; non-trivial = grammars on which generate returned TableConflict; all public fields of the error checked against the oracle (membership, differing demands on a common lookahead, attached file, attached machine ≅ spec-side LALR(1) automaton)",
            "samples": sample([t for (_, _, t, _), (i, _) in zip(pool, pairs) if "(TableConflict " in i]), "conflicts_seen": seen, "model_disagreements": len(dis)}


def _sexp_text(sx):
    if isinstance(sx, list):
        return "(" + " ".join(_sexp_text(x) for x in sx) + ")"
    return sx


def _strip_head(s):
    return s


def run_C17(rep, tier, rng):
    n = 800 if tier == "quick" else 8000
    pool = grammar_pool(rng, n) + small_scope(20 if tier == "quick" else 1)
    texts = [t for _, _, t, _ in pool]
    pairs, dis = compare_stage_runs(rep, texts, "C17")
    ok = 0
    for (label, items, text, G), (i, m) in zip(pool, pairs):
        if not i.startswith("(stages"):
            continue
        ip = corr.split_stages(i)
        if "text" not in ip:
            continue
        ok += 1
        emitted = kv.unhexs(kv.parse_sexp(ip["text"])[1])
        try:
            start, terms, nts, action, goto, nstates = tables_from_text(emitted)
        except Exception as e:
            rep.violation("emitted text no longer has readable tables: " + repr(e), {"label": label, "source": text}, no_input=True)
            continue
        if terms != G["terminals"] or nts != G["nonterminals"]:
            rep.violation("table columns are not the declared terminals / nonterminals in declaration order", {"label": label, "source": text, "columns": [terms, nts]})
            continue
        why = lalr_tables_match(G, start, action, goto, nstates)
        if why:
            rep.violation("emitted tables are not the LALR(1) tables of the grammar: " + why, {"label": label, "source": text})
    if tier == "quick":
        # the large-alphabet size grammars (> 256 terminals / nonterminals) against the specification-side automaton
        # only: the model takes most of a minute on each, so the model comparison for them is in the thorough tier
        big = [(l, it, gen.render(it), gen.to_oracle(it)) for l, it in gen.size_grammars(thorough=True) if l not in {x[0] for x in pool}]
        blines = kv.run_impl("stages", corr.stage_requests([t for _, _, t, _ in big]))
        for (label, items, text, G), i in zip(big, blines):
            ip = corr.split_stages(i) if i.startswith("(stages") else {}
            if "text" not in ip:
                rep.violation(f"size grammar gave outcome {corr.outcome(ip) if ip else i[:80]}", {"label": label, "source": text[:3000]})
                continue
            emitted = kv.unhexs(kv.parse_sexp(ip["text"])[1])
            start, terms, nts, action, goto, nstates = tables_from_text(emitted)
            if terms != G["terminals"] or nts != G["nonterminals"]:
                rep.violation("table columns are not the declared terminals / nonterminals in declaration order", {"label": label, "source": text[:3000]})
                continue
            why = lalr_tables_match(G, start, action, goto, nstates)
            if why:
                rep.violation("emitted tables are not the LALR(1) tables of the grammar: " + why, {"label": label, "source": text[:3000]})
    report_disagreements(rep, dis, "stages (machine, table, emitted rows)", "C17_table_cells / C17_partial")
    return {"evaluations": len(pool), "distinct_nontrivial": ok,
            "rule": "same pool as C04; non-trivial = accepted grammars; tables read back from the emitted text and compared, modulo the renumbering found by traversal from the start state, with the tables of the specification-side LALR(1) automaton",
            "samples": sample([t for (_, _, t, _), (i, _) in zip(pool, pairs) if "(text " in i]), "accepted": ok, "model_disagreements": len(dis)}


# =========================================================================================== validator (per-grammar proof)

def valid_request(G, mx, tx):
    """One `kvmodel valid` request from the implementation's machine and table S-expressions and the
    structure-side grammar.  Codes are declaration indices."""
    ti = {t: i for i, t in enumerate(G["terminals"])}
    ni = {n: i for i, n in enumerate(G["nonterminals"])}
    nT, nN = len(ti), len(ni)

    def sym(s):
        return ("t%d" % ti[s[1]]) if s[0] == "t" else ("n%d" % ni[s[1]])

    rules = ";".join(f"{ni[lhs]}:{','.join(sym(x) for x in rhs)}" for lhs, rhs in G["rules"])
    M = machine_of_sexp(mx)
    states = []
    for st in mx[2][1:]:
        its = []
        for it in st[1:]:
            r = "a" if it[1] == "aug" else it[1]
            la = "e" if it[2] == "eof" else str(ti[kv.unhexs(it[2])])
            its.append(f"{r}.{it[3]}.{la}")
        states.append(",".join(its))
    start, terms, nts, action, goto, n = table_of_sexp(tx)
    acts = tx[4][1:]
    gts = tx[5][1:]
    w = nT + 1

    def cell(a):
        if a == "err":
            return "e"
        if a == "acc":
            return "a"
        return ("s" if a[0] == "s" else "r") + a[1]

    arows = "|".join(",".join(cell(acts[s * w + c]) for c in range(w)) for s in range(n))
    grows = "|".join(",".join(("-" if gts[s * nN + c] == "none" else gts[s * nN + c]) for c in range(nN)) for s in range(n))
    return f"{nT} {nN} {ni[G['start']]} {start} R {rules} S {'|'.join(states)} A {arows} G {grows}"


def search_failing_input(rep, failed, rng, limit=3):
    """failed: [(label, text, G)] — accepted grammars whose automaton did not pass the validator.  The theorem no
    longer covers them; look for a concrete token sequence on which the compiled emitted parser answers wrongly
    (all short strings, many random sentences and their mutations, against the Earley recogniser)."""
    found = 0
    for label, text, G in failed[:limit]:
        if not G["terminals"]:
            continue
        o = kv.run_impl("generate", [kv.hexs(text)])[0]
        if not o.startswith("(ok "):
            continue
        emitted = kv.unhexs(o[4:-1])
        if len(emitted) > 250_000:
            continue
        terms = G["terminals"]
        k = 6
        while k > 1 and sum(len(terms) ** j for j in range(k + 1)) > 6000:
            k -= 1
        strs = gen.all_strings(terms, k)
        seen = {tuple(x) for x in strs}
        prod = oracle.productive(G)
        for _ in range(400):
            snt = gen.random_sentence(G, rng, prod, max_depth=12)
            if snt is not None and len(snt) <= 60:
                for cand in [snt] + [gen.mutate(snt, terms, rng) for _ in range(2)]:
                    if tuple(cand) not in seen:
                        seen.add(tuple(cand))
                        strs.append(cand)
        idx = {t: i for i, t in enumerate(terms)}
        tenum = re.search(r"pub enum (\w+) \{", emitted)
        items_tenum = re.search(r"terminal\s+(\w+)", text)
        wd = os.path.join(kv.WORK, "search")
        results, failures, timeouts = corr.run_compiled(wd, [(emitted, items_tenum.group(1), terms, [[idx[x] for x in st] for st in strs])], batch=1, jobs=1)
        shutil.rmtree(wd, ignore_errors=True)
        for si, st in enumerate(strs):
            r = results.get((0, si))
            if r is None or r == "rustc-timeout":
                continue
            got_ok = r.startswith("ok ")
            want = oracle.recognize(G, st)
            if got_ok != want:
                found += 1
                rep.violation("emitted parser accepts a non-sentence" if got_ok else "emitted parser rejects a sentence of the declared grammar",
                              {"label": label, "source": text, "tokens": st, "impl": r, "found_by": "search after the validator rejected the implementation's automaton"})
                break
    return found


def validate_automata(rep, cases, tight=False, halts=None, search_rng=None):
    """cases: [(label, text, G, impl stages line)] for accepted grammars.  Runs the proved-sound validator
    (Proofs/Valid.validB) on the implementation's own machine and table.  Returns number validated.
    With tight=True also Proofs/Tight.tightB (CoreSound + NonEmpty, the extra hypotheses of the C03 theorem).
    With halts=<dict> also LR/Halt.certified (termination certificate: hypothesis of C01_certified_decides); the
    dict receives the counts.  A table without certificate is *not* a violation (the check is sufficient, not
    necessary); an actual non-terminating run is caught by the watchdog of the compiled-parser run."""
    reqs, keep = [], []
    for label, text, G, line in cases:
        ip = corr.split_stages(line)
        if "table" not in ip or "machine" not in ip:
            continue
        try:
            reqs.append(valid_request(G, kv.parse_sexp(ip["machine"]), kv.parse_sexp(ip["table"])))
            keep.append((label, text, G))
        except Exception as e:
            rep.violation("machine/table of the implementation cannot be read for validation: " + repr(e), {"source": text}, no_input=True)
    outs = kv.run_model("valid", reqs)
    touts = kv.run_model("tight", reqs) if tight else ["(tight true productive true)"] * len(reqs)
    if halts is not None:
        houts = kv.run_model("halts", reqs)
        cert = [(lab, o.split()) for (lab, _, _), o in zip(keep, houts)]
        halts["tables_checked"] = len(cert)
        halts["certified_framed"] = sum(1 for _, o in cert if o[1] == "true")
        halts["uncertified_framed"] = [lab for lab, o in cert if o[1] != "true"][:20]
        halts["certified_potential"] = sum(1 for _, o in cert if o[3] == "true")
        bounds = [int(o[5].rstrip(")")) for _, o in cert if o[3] == "true"]
        halts["max_steps_per_token_potential"] = max(bounds) if bounds else 0
    bad = 0
    failed = []
    for (label, text, G), o, to in zip(keep, outs, touts):
        if o != "(valid true)":
            bad += 1
            failed.append((label, text, G))
            why = kv.unhexs(kv.parse_sexp(o)[2]) if o.startswith("(valid false") else o
            rep.violation("the automaton/table built for an accepted grammar violates the local LR validity conditions (Sound/Complete), "
                          "so the emitted parser is not shown to accept exactly L(G): " + why, {"label": label, "source": text}, no_input=True)
        elif tight and to.split()[3].rstrip(")") != "true" and oracle.productive(G) >= set(G["nonterminals"]):
            bad += 1
            rep.violation("productiveB (Lean) and the reference productivity computation disagree on a grammar: " + to, {"label": label, "source": text}, no_input=True)
        elif not to.startswith("(tight true "):
            bad += 1
            rep.violation("the automaton built for an accepted grammar has an item outside the closure of its state's kernel or an empty target state "
                          "(tightB), so the consumed input is not shown to be a viable prefix: " + to, {"label": label, "source": text}, no_input=True)
    if failed and search_rng is not None:
        search_failing_input(rep, failed, search_rng)
    return len(keep) - bad


# =========================================================================================== C01 / C02 / C03

def repo_fingerprint():
    """Hash of the sources the compiled-parser run depends on (so that the cached run is never
    reused after /repo changed)."""
    import hashlib
    h = hashlib.sha256()
    for dirpath, dirs, files in sorted(os.walk("/repo/kiki/src")):
        dirs.sort()
        for fn in sorted(files):
            if fn.endswith(".rs") or fn.endswith(".kiki"):
                h.update(fn.encode())
                h.update(open(os.path.join(dirpath, fn), "rb").read())
    for fn in ("gen.py", "corr.py", "props.py", "oracle.py"):
        h.update(open(os.path.join(kv.ROOT, "tools", fn), "rb").read())
    h.update(open(kv.MODEL_BIN, "rb").read())
    return h.hexdigest()[:20]


def token_strings(G, rng, tier):
    terms = G["terminals"]
    prod = oracle.productive(G)
    k = 3 if tier == "quick" else 5
    if len(terms) > 3:
        k -= 1
    # all strings up to length k, as long as there are at most a few thousand of them (a grammar with hundreds of
    # terminals gets the short ones only)
    cap = 1500 if tier == "quick" else 4000
    while k > 1 and sum(len(terms) ** j for j in range(k + 1)) > cap:
        k -= 1
    strs = gen.all_strings(terms, k) if terms else [[]]
    seen = {tuple(s) for s in strs}
    # a long sentence or two (hundreds of tokens: deep stacks, long inputs) and one mutation of it
    for target in ([300] if tier == "quick" else [300, 800]):
        if rng.random() < (0.35 if tier == "quick" else 0.6):
            ls = gen.long_sentence(G, rng, prod, target=target)
            if ls is not None and len(ls) >= 40:
                for cand in (ls, gen.mutate(ls, terms, rng)):
                    if tuple(cand) not in seen:
                        seen.add(tuple(cand))
                        strs.append(cand)
    for _ in range(12 if tier == "quick" else 40):
        s = gen.random_sentence(G, rng, prod)
        if s is not None and len(s) <= 40:
            for cand in [s] + [gen.mutate(s, terms, rng) for _ in range(3)]:
                if tuple(cand) not in seen:
                    seen.add(tuple(cand))
                    strs.append(cand)
    return strs


def driver_runs(tier, seed):
    """Compiles the emitted parsers of a pool of accepted grammars and runs them, and runs the
    model driver, on the same token strings.  Cached per (repo fingerprint, seed, tier)."""
    import pickle
    import random
    fp = repo_fingerprint()
    cdir = os.path.join(kv.WORK, "cache")
    os.makedirs(cdir, exist_ok=True)
    cpath = os.path.join(cdir, f"driver-{fp}-{seed}-{tier}.pickle")
    with kv.Lock("driver"):
        if os.path.exists(cpath):
            return pickle.load(open(cpath, "rb"))
        for old in os.listdir(cdir):
            if old.startswith("driver-") and old.endswith(f"-{seed}-{tier}.pickle"):
                os.remove(os.path.join(cdir, old))
        rng = random.Random(f"driver-{seed}")
        n = 400 if tier == "quick" else 3000
        pool = grammar_pool(rng, n, min_t=0)
        outs = kv.run_impl("generate", [kv.hexs(t) for _, _, t, _ in pool])
        recs = []
        for (label, items, text, G), o in zip(pool, outs):
            if not o.startswith("(ok "):
                continue
            emitted = kv.unhexs(o[4:-1])
            tenum = [i for i in items if i["kind"] == "terminal"][0]["name"]
            strs = token_strings(G, rng, tier)
            recs.append({"label": label, "items": items, "text": text, "G": G, "emitted": emitted, "tenum": tenum, "strings": strs})
        # modules of more than 250 kB (hundreds of terminals × hundreds of states: many minutes of rustc each) get no
        # compiled run; their tables are compared in C04/C17 and validated by validB all the same.
        comp = [r for r in recs if len(r["emitted"]) <= 250_000]
        grammars = []
        for r in comp:
            idx = {t: i for i, t in enumerate(r["G"]["terminals"])}
            grammars.append((r["emitted"], r["tenum"], r["G"]["terminals"], [[idx[k] for k in s] for s in r["strings"]]))
        results, failures, timeouts = corr.run_compiled(os.path.join(kv.WORK, "drv"), grammars)
        shutil.rmtree(os.path.join(kv.WORK, "drv"), ignore_errors=True)
        for gi, r in enumerate(comp):
            r["impl"] = [results.get((gi, si)) for si in range(len(r["strings"]))]
        for idxs, err in failures:
            for gi in idxs:
                comp[gi]["compile_error"] = err[-1500:]
        for idxs in timeouts:
            for gi in idxs:
                comp[gi]["timeout"] = True
        # model driver
        reqs = []
        for r in comp:
            idx = {t: i for i, t in enumerate(r["G"]["terminals"])}
            ss = ";".join(",".join(str(idx[k]) for k in s) if s else "-" for s in r["strings"])
            reqs.append(f"{kv.hexs(r['text'])} {kv.sha256(r['text'])} {ss}")
        mouts = kv.run_model("drive", reqs)
        for r, mo in zip(comp, mouts):
            r["model"] = kv.parse_sexp(mo)[1:] if mo.startswith("(drive") else None
            r["model_raw"] = mo[:300]
        pickle.dump(comp, open(cpath, "wb"))
        return comp


def py_debug(items, tree, kinds_idx):
    """derive(Debug) rendering of the value for an oracle parse tree (payload = position stamp)."""
    import kiki_syntax
    rules = kiki_syntax.rules_of(items)

    def go(t):
        if t[0] == "t":
            return str(t[1])
        _, r, children = t
        lhs, ctor, rhs, fs = rules[r]
        name = ctor.split("::")[-1]
        ds = [go(c) for c in children]
        if fs["kind"] == "empty":
            return name
        if fs["kind"] == "named":
            used = [(f["name"], d) for f, d in zip(fs["fields"], ds) if f["name"] is not None]
            if not used:
                return name
            return name + " { " + ", ".join(f"{n}: {d}" for n, d in used) + " }"
        used = [d for f, d in zip(fs["fields"], ds) if f["used"]]
        if not used:
            return name
        return name + "(" + ", ".join(used) + ")"

    return go(tree)


def _driver_common(rep, tier):
    recs = driver_runs(tier, rep.seed)
    for r in recs:
        if "compile_error" in r:
            rep.violation("emitted parser does not compile (cannot observe its behaviour)", {"label": r["label"], "source": r["text"], "rustc": r["compile_error"]})
    return [r for r in recs if "compile_error" not in r]


def _model_res(r, si):
    if r["model"] is None:
        return None
    m = r["model"][si]
    if m[0] == "ok":
        return "ok " + kv.unhexs(m[1]), int(m[2])
    if m[0] == "err":
        if m[1] == "none":
            return "errnone", int(m[2])
        return ("errsome", int(m[1][1])), int(m[2])
    return m[0], None


def _impl_res(r, si):
    """-> (kind, detail, pulls): kind in ok/errsome/errnone/panic/missing"""
    s = r["impl"][si]
    if s is None:
        return "missing", None, None
    if s == "rustc-timeout":
        return "skip", None, None
    m = re.match(r"(.*) pulls=(\d+)$", s)
    body, pulls = m.group(1), int(m.group(2))
    if body.startswith("ok "):
        return "ok", body[3:], pulls
    if body.startswith("errsome "):
        mm = re.match(r"(\w+)\((\d+)\)$", body[8:])
        return "errsome", (mm.group(1), int(mm.group(2))), pulls
    return body, None, pulls


def run_C01(rep, tier, rng):
    recs = _driver_common(rep, tier)
    lines = kv.run_impl("stages", corr.stage_requests([r["text"] for r in recs]))
    hstats = {}
    validated = validate_automata(rep, [(r["label"], r["text"], r["G"], l) for r, l in zip(recs, lines) if l.startswith("(stages")], halts=hstats, search_rng=rng)
    # the validator and the termination certificate also on the exhaustive small scope (no compilation): every
    # third grammar in the thorough tier, every 150th in the quick tier
    hsmall = {}
    small = small_scope(3 if tier == "thorough" else 150)
    if tier == "quick":
        small += [(l, it, gen.render(it), gen.to_oracle(it)) for l, it in gen.size_grammars(thorough=True)]
    slines = kv.run_impl("stages", corr.stage_requests([t for _, _, t, _ in small]))
    validated_small = validate_automata(rep, [(lab, t, G, l) for (lab, _, t, G), l in zip(small, slines) if l.startswith("(stages")], halts=hsmall)
    ev, acc, dis = 0, 0, []
    for r in recs:
        G = r["G"]
        for si, s in enumerate(r["strings"]):
            kind, detail, pulls = _impl_res(r, si)
            if kind == "skip":      # the compiler did not finish on this module: nothing was observed
                continue
            ev += 1
            if kind == "missing":
                rep.violation("emitted parse did not terminate (watchdog) or the process died", {"label": r["label"], "source": r["text"], "tokens": s})
                continue
            if kind == "panic":
                rep.violation("emitted parse panicked", {"label": r["label"], "source": r["text"], "tokens": s})
                continue
            if len(s) <= 120:
                want = oracle.recognize(G, s)
            else:
                # a long input: the reference is the model driver on the model's tables (proved to decide the language;
                # the Earley recogniser is cubic)
                mr0 = _model_res(r, si)
                if mr0 is None:
                    continue
                want = isinstance(mr0[0], str) and mr0[0].startswith("ok")
            acc += want
            if (kind == "ok") != want:
                rep.violation("emitted parser accepts a non-sentence" if kind == "ok" else "emitted parser rejects a sentence of the declared grammar",
                              {"label": r["label"], "source": r["text"], "tokens": s, "impl": r["impl"][si]})
                continue
            mr = _model_res(r, si)
            if mr is not None and ((mr[0] if isinstance(mr[0], str) else "err").startswith("ok") != (kind == "ok")):
                dis.append({"source": r["text"], "tokens": s, "impl": r["impl"][si], "model": str(mr)})
        if r["model"] is None:
            dis.append({"source": r["text"], "model": r["model_raw"]})
    report_disagreements(rep, dis, "emitted parser (compiled) vs Driver.run on the model tables", "C01_accepts_iff (via validB) / run_complete / step_inv")
    return {"evaluations": ev, "distinct_nontrivial": sum(1 for r in recs for s in r["strings"] if len(s) >= 2),
            "rule": "accepted grammars from the C04 pool; per grammar all token strings up to length 3 (quick) / 5 (thorough) plus random sentences and their single-token mutations; the emitted module is compiled with rustc and run; verdict compared with an Earley recogniser on the declared productions (oracle) and with the model driver; non-trivial = at least 2 tokens",
            "samples": sample([{"source": r["text"], "tokens": r["strings"][-1], "impl": r["impl"][-1]} for r in recs[20:]]),
            "grammars_compiled": len(recs), "automata_validated_by_validB": validated, "sentences": acc, "model_disagreements": len(dis),
            "termination_certificates": hstats,
            "small_scope": {"grammars": len(small), "automata_validated_by_validB": validated_small, "termination_certificates": hsmall}}


def run_C02(rep, tier, rng):
    recs = _driver_common(rep, tier)
    ev, dis = 0, []
    for r in recs:
        G = r["G"]
        idx = {t: i for i, t in enumerate(G["terminals"])}
        for si, s in enumerate(r["strings"]):
            kind, detail, pulls = _impl_res(r, si)
            if kind == "skip":      # the compiler did not finish on this module: nothing was observed
                continue
            if kind in ("panic", "missing") and len(s) <= 120 and oracle.recognize(G, s):
                rep.violation("no derivation tree is returned for a sentence: the emitted parse " + ("panicked" if kind == "panic" else "did not return"),
                              {"label": r["label"], "source": r["text"], "tokens": s})
                continue
            if kind != "ok":
                continue
            ev += 1
            if len(s) > 120:
                # a long input: the reference value is the model driver's (Debug rendering of the tree it returns)
                mr0 = _model_res(r, si)
                if mr0 is not None and isinstance(mr0[0], str) and mr0[0].startswith("ok ") and detail != mr0[0][3:]:
                    rep.violation("the value returned on acceptance of a long input is not the derivation tree of the input with the original payloads",
                                  {"label": r["label"], "source": r["text"], "tokens": s, "impl": detail[:2000], "reference": mr0[0][3:][:2000]})
                continue
            tree = oracle.parse_tree(G, s)
            if tree is None:
                continue   # not a sentence / ambiguous: C01 / C04 territory
            want = py_debug(r["items"], tree, idx)
            if detail != want:
                rep.violation("the value returned on acceptance is not the derivation tree of the input with the original payloads",
                              {"label": r["label"], "source": r["text"], "tokens": s, "impl": detail, "reference": want})
                continue
            mr = _model_res(r, si)
            if mr is not None and mr[0] != "ok " + detail:
                dis.append({"source": r["text"], "tokens": s, "impl": detail, "model": str(mr)})
    report_disagreements(rep, dis, "Debug rendering of the compiled parser's Ok value vs the model's userView", "C02_tree / C02_unique")
    return {"evaluations": ev, "distinct_nontrivial": sum(1 for r in recs for si, s in enumerate(r["strings"]) if len(s) >= 2 and (r["impl"][si] or "").startswith("ok")),
            "rule": "accepted inputs of the C01 run (payload = position stamp, usize); the Ok value rendered through derive(Debug) is compared with the unique derivation tree found by the Earley oracle, projected through the declared fieldsets (underscore fields dropped); non-trivial = at least 2 tokens",
            "samples": sample([{"source": r["text"], "tokens": s, "impl": r["impl"][si]} for r in recs[20:] for si, s in enumerate(r["strings"]) if (r["impl"][si] or "").startswith("ok") and len(s) >= 3]),
            "model_disagreements": len(dis)}


def run_C03(rep, tier, rng):
    recs = _driver_common(rep, tier)
    lines = kv.run_impl("stages", corr.stage_requests([r["text"] for r in recs]))
    validated = validate_automata(rep, [(r["label"], r["text"], r["G"], l) for r, l in zip(recs, lines) if l.startswith("(stages")], tight=True)
    ev, dis, unprod = 0, [], 0
    for r in recs:
        G = r["G"]
        all_productive = oracle.productive(G) >= set(G["nonterminals"])
        for si, s in enumerate(r["strings"]):
            kind, detail, pulls = _impl_res(r, si)
            if kind == "skip":      # the compiler did not finish on this module: nothing was observed
                continue
            if kind not in ("errsome", "errnone"):
                if kind == "ok" and pulls != len(s):
                    rep.violation("parse pulled a wrong number of items on acceptance", {"label": r["label"], "source": r["text"], "tokens": s, "pulls": pulls})
                continue
            ev += 1
            if all_productive:
                want = oracle.first_dead_index(G, s)
            else:
                unprod += 1
                c = oracle.canonical_lr1_error_index(G, s)
                if c == "conflict" or c[0] != "err":
                    continue
                want = c[1]
            got = None if kind == "errnone" else detail[1]
            bad = None
            if got != want:
                bad = f"reported index {got}, first offending index is {want}"
            elif kind == "errsome" and detail[0] != s[got]:
                bad = "the returned token is not the original token at that index"
            elif kind == "errsome" and pulls != got + 1:
                bad = f"pulled {pulls} items although the offending token has index {got}"
            elif kind == "errnone" and pulls != len(s):
                bad = f"pulled {pulls} items of {len(s)}"
            if bad:
                rep.violation("rejection does not report the first offending token: " + bad, {"label": r["label"], "source": r["text"], "tokens": s, "impl": r["impl"][si]})
                continue
            mr = _model_res(r, si)
            if mr is not None:
                mk = mr[0]
                same = (mk == "errnone" and kind == "errnone") or (isinstance(mk, tuple) and kind == "errsome" and mk[1] == got)
                if not same or mr[1] != pulls:
                    dis.append({"source": r["text"], "tokens": s, "impl": r["impl"][si], "model": str(mr)})
    report_disagreements(rep, dis, "error index and pull count of the compiled parser vs the model driver", "C03_error_index_partial")
    return {"evaluations": ev, "distinct_nontrivial": sum(1 for r in recs for si, s in enumerate(r["strings"]) if len(s) >= 2 and (r["impl"][si] or "").startswith("err")),
            "rule": "rejected inputs of the C01 run, fed through a counting iterator; error index compared with the least non-extendable prefix (prefix-Earley oracle) when every nonterminal is productive, else with a canonical LR(1) reference driver; pulls compared with index+1; non-trivial = at least 2 tokens",
            "samples": sample([{"source": r["text"], "tokens": s, "impl": r["impl"][si]} for r in recs[20:] for si, s in enumerate(r["strings"]) if (r["impl"][si] or "").startswith("errsome") and len(s) >= 3]),
            "checked_against_canonical_lr1": unprod, "automata_validated_by_validB_and_tightB": validated, "grammars_compiled": len(recs),
            "model_disagreements": len(dis)}


# =========================================================================================== reader of emitted text (C06 / C12 / C13)

def read_types(text):
    """The public type items of an emitted module, in order:
    [{attrs:[lines], kind:'struct'|'enum', name, body}] where body is
      struct: ('unit',) | ('named', [(pub, name, type)]) | ('tuple', [type])
      enum:   [(variant, body-without-pub)]
    plus the parse signature.  Works on the region between the lint attributes and `pub fn parse`."""
    head_end = text.index("#![allow(dead_code)]\n\n") + len("#![allow(dead_code)]\n\n")
    sig_at = text.index("\n/// If the parser encounters an unexpected token")
    region = text[head_end:sig_at]
    lines = region.split("\n")
    items, attrs, i = [], [], 0

    def body(start_line_rest, i, is_struct):
        """start_line_rest: text after the name on the declaration line."""
        r = start_line_rest
        # Rust item syntax: `struct N;` `struct N {..}` `struct N(..);` — variants: `V,` `V {..},` `V(..),`
        if r == (";" if is_struct else ","):
            return ("unit",), i
        if r == " {":
            fields = []
            i += 1
            close = "}" if is_struct else "},"
            while lines[i].strip() != close:
                m = re.fullmatch(r"\s+(pub )?(\w+): (.*),", lines[i])
                if m is None:
                    raise ValueError("named fieldset not closed by %r: %r" % (close, lines[i]))
                fields.append((bool(m.group(1)), m.group(2), m.group(3)))
                i += 1
            return ("named", fields), i
        if r == "(":
            fields = []
            i += 1
            close = ");" if is_struct else "),"
            while lines[i].strip() != close:
                m = re.fullmatch(r"\s+(.*),", lines[i])
                if m is None or lines[i].strip() in (")", ");", "),") or lines[i].startswith("pub ") or lines[i].startswith("#"):
                    raise ValueError("tuple fieldset not closed by %r: %r" % (close, lines[i]))
                fields.append(m.group(1))
                i += 1
            return ("tuple", fields), i
        raise ValueError("unreadable body: " + repr(r))

    while i < len(lines):
        ln = lines[i]
        m = re.fullmatch(r"pub struct (\w+)(.*)", ln)
        if m:
            b, i = body(m.group(2), i, True)
            items.append({"attrs": attrs, "kind": "struct", "name": m.group(1), "body": b})
            attrs = []
            i += 1
            continue
        m = re.fullmatch(r"pub enum (\w+) \{", ln)
        if m:
            variants = []
            i += 1
            while lines[i] != "}":
                if lines[i].strip() == "":
                    i += 1
                    continue
                mm = re.fullmatch(r"    (\w+)(.*)", lines[i])
                rest = mm.group(2)
                one = re.fullmatch(r"\((.*)\),", rest)
                if rest == ",":
                    variants.append((mm.group(1), ("unit",)))
                elif one:
                    variants.append((mm.group(1), ("tuple1", one.group(1))))
                else:
                    b, i = body(rest, i, False)
                    variants.append((mm.group(1), b))
                i += 1
            items.append({"attrs": attrs, "kind": "enum", "name": m.group(1), "variants": variants})
            attrs = []
            i += 1
            continue
        if ln == "":
            if attrs:
                raise ValueError("attribute lines not followed by a type item")
            i += 1
            continue
        attrs.append(ln)
        i += 1
    sig = re.search(r"pub fn parse<(\w+)>\(src: (\w+)\) -> Result<(\w+), Option<(\w+)>>\nwhere (\w+): IntoIterator<Item = (\w+)> \{", text)
    return items, sig


def expected_types(items):
    """Spec/Mirror in Python: what C06 says the emitted items are."""
    term = [d for d in items if d["kind"] == "terminal"][0]
    tys = {v["name"]: v["type"] for v in term["variants"]}

    def fty(sym):
        return f"Box<{sym['n']}>" if "n" in sym else tys[sym["t"]]

    def body(fs, is_struct):
        if fs["kind"] == "empty":
            return ("unit",)
        if fs["kind"] == "named":
            used = [(is_struct, f["name"], fty(f["sym"])) for f in fs["fields"] if f["name"] is not None]
            return ("named", used) if used else ("unit",)
        used = [fty(f["sym"]) for f in fs["fields"] if f["used"]]
        return ("tuple", used) if used else ("unit",)

    out = [{"attrs": term["attrs"], "kind": "enum", "name": term["name"], "variants": [(v["name"], ("tuple1", v["type"])) for v in term["variants"]]}]
    for d in items:
        if d["kind"] == "struct":
            out.append({"attrs": d["attrs"], "kind": "struct", "name": d["name"], "body": body(d["fieldset"], True)})
        elif d["kind"] == "enum":
            out.append({"attrs": d["attrs"], "kind": "enum", "name": d["name"], "variants": [(v["name"], body(v["fieldset"], False)) for v in d["variants"]]})
    return out


def mirror_mismatch(items, emitted):
    """None if the emitted type items and parse signature mirror the declarations (C06), else why."""
    try:
        got, sig = read_types(emitted)
    except Exception as e:
        return "emitted type region is unreadable: " + repr(e)
    want = expected_types(items)
    if len(got) != len(want):
        return f"{len(got)} public type items emitted, {len(want)} declared"
    for k, (g, w) in enumerate(zip(got, want)):
        if g["kind"] != w["kind"] or g["name"] != w["name"]:
            return f"item {k}: emitted {g['kind']} {g['name']}, declared {w['kind']} {w['name']}"
        if g["attrs"] != w["attrs"]:
            return f"item {w['name']}: attributes {g['attrs']} differ from declared {w['attrs']}"
        if g["kind"] == "struct" and g["body"] != w["body"]:
            return f"struct {w['name']}: fields {g['body']} differ from declared {w['body']}"
        if g["kind"] == "enum" and g["variants"] != w["variants"]:
            return f"enum {w['name']}: variants {g['variants']} differ from declared {w['variants']}"
    start = [d for d in items if d["kind"] == "start"][0]["name"]
    if not sig:
        return "parse signature not found"
    p, p2, st, te, p3, te2 = sig.groups()
    if not (p == p2 == p3 and st == start and te == te2 == want[0]["name"]):
        return f"parse signature is {sig.group(0)!r}"
    return None


def accepted_pool(rng, n, names="plain", usize=False, attrs=False, derive=None, rejected=None, self_types=False):
    """Grammars that pass validation and table construction, with their emitted text.
    `rejected` (a list) receives the (items, text, answer) of the grammars generate did not accept."""
    out = []
    tries = 0
    while len(out) < n and tries < n * 6:
        tries += 1
        if tries % 12 == 5:
            items = gen.long_production_grammar(rng, derive=False)
        else:
            items = gen.random_grammar(rng, names=names, payload="usize" if usize else "mixed", derive=(rng.random() < 0.5) if derive is None else derive, max_nt=4, max_t=4, maxlen=3, self_types=self_types)
        if attrs:
            prev = []
            for it in items:
                if it["kind"] != "start":
                    k = rng.choice([0, 0, 1, 2, 3])
                    it["attrs"] = ["#[" + rng.choice(ATTRS_BALANCED) + "]" for _ in range(k)]
                    if prev and rng.random() < 0.35:
                        # attribute *families*: the list of the previous declaration with an attribute appended, dropped,
                        # the order reversed, or one attribute changed — lists that are prefixes of one another
                        fam = list(prev)
                        r = rng.random()
                        if r < 0.35:
                            fam.append("#[" + rng.choice(ATTRS_BALANCED) + "]")
                        elif r < 0.55 and len(fam) > 1:
                            fam.pop()
                        elif r < 0.7 and len(fam) > 1:
                            fam.reverse()
                        elif r < 0.85:
                            fam[rng.randrange(len(fam))] = "#[" + rng.choice(ATTRS_BALANCED) + "]"
                        it["attrs"] = fam
                    prev = it["attrs"]
                    if rng.random() < 0.08:
                        # bracket nesting around the limits of small counters; identical attributes twice
                        it["attrs"].append(gen.deep_attr(rng.choice([127, 128, 254, 255, 256, 257, 300]), rng.choice(["(", "([{"])))
                    if it["attrs"] and rng.random() < 0.15:
                        it["attrs"].insert(rng.randint(0, len(it["attrs"])), rng.choice(it["attrs"]))
        out.append(items)
    texts = [gen.render(it, rng if rng.random() < 0.5 else None) for it in out]
    res = kv.run_impl("generate", [kv.hexs(t) for t in texts])
    keep = []
    for it, t, o in zip(out, texts, res):
        if o.startswith("(ok "):
            keep.append((it, t, kv.unhexs(o[4:-1])))
        elif rejected is not None:
            rejected.append((it, t, o))
    return keep[:n], len(out)


ATTRS_BALANCED = ["derive(Debug)", "derive(Clone, Debug)", "doc = \"é\"", "a(b[c{d}e]f)g", "cfg(all(x, y))", "€", "😀(é)", "x", "[[]]", "{()}[]",
                  "doc = \"日本語 ß Ω\"", "allow(dead_code)", " spaced ( inner ) ", "a=b,c", "doc = \"// not a comment\"", "d(\"$x #[y]\")"]
# every character that is not a line feed or a bracket may stand inside an attribute: control characters (a bare
# carriage return, tab, NUL, ESC, DEL), the other line and paragraph separators, format characters, combining
# marks, and the characters that mean something elsewhere in a .kiki file
ATTRS_BALANCED += [f'doc = "a{c}b"' for c in ["\r", "\t", "\x0b", "\x0c", "\x00", "\x01", "\x1b", "\x7f", "\u0085", "\u00a0", "\u2028", "\u2029",
                                               "\u200b", "\ufeff", "\u0301", "\\", "'", "#", "$", "/", "//", "/*", ":", "::", "<", ">", ",", "_", "`", "\r\r"]]
ATTRS_BALANCED += ["\r", "x\ry(\r)", "\t(\x00)"]


# =========================================================================================== C06

def run_C06(rep, tier, rng):
    n = 150 if tier == "quick" else 6000
    fam = [(items, gen.render(items)) for _, items, c in gen.families() if c == "lalr"]
    pool, tried = accepted_pool(rng, n, self_types=True)
    outs = kv.run_impl("generate", [kv.hexs(t) for _, t in fam])
    cases = pool + [(it, t, kv.unhexs(o[4:-1])) for (it, t), o in zip(fam, outs) if o.startswith("(ok ")]
    shapes = {}
    for items, text, emitted in cases:
        why = mirror_mismatch(items, emitted)
        for d in items:
            if d["kind"] in ("struct", "enum"):
                for fs in ([d["fieldset"]] if d["kind"] == "struct" else [v["fieldset"] for v in d["variants"]]):
                    k = d["kind"] + "/" + fs["kind"] + ("/all-skipped" if fs["kind"] != "empty" and not any((f.get("name") is not None) if fs["kind"] == "named" else f["used"] for f in fs["fields"]) else "")
                    shapes[k] = shapes.get(k, 0) + 1
        if why:
            rep.violation("emitted types / parse signature do not mirror the declarations: " + why, {"source": text, "emitted_head": emitted[600:2200]})
    pairs, dis = compare_stage_runs(rep, [t for _, t, _ in cases], "C06", keys={"text"})
    report_disagreements(rep, dis, "emitted text (byte for byte) vs render(moduleOf)", "C06_mirror / C06_signature")
    return {"evaluations": len(cases), "distinct_nontrivial": kv.distinct_count([t for it, t, _ in cases if len(it) >= 3]),
            "rule": "accepted random grammars over all fieldset shapes (struct/enum × named/tuple/empty × used/_ fields × terminal/nonterminal symbols, payload types from unit to nested generics); type items and parse signature read back from the emitted text and compared with the declaration-to-Rust mapping of the property (oracle), and the whole text with the model's rendering; non-trivial = at least 2 declarations besides start",
            "samples": sample([t for _, t, _ in cases]), "fieldset_shapes": shapes, "model_disagreements": len(dis)}


# =========================================================================================== C12

def run_C12(rep, tier, rng):
    n = 150 if tier == "quick" else 6000
    rejected = []
    pool, tried = accepted_pool(rng, n, attrs=True, rejected=rejected)
    # balanced single-line attributes must not change whether a file is accepted: a rejected file whose
    # attribute-free version is accepted (or rejected differently) is a violation
    bare = []
    for items, text, o in rejected:
        import copy
        it2 = copy.deepcopy(items)
        for d in it2:
            if "attrs" in d:
                d["attrs"] = []
        bare.append(gen.render(it2))
    if bare:
        res2 = kv.run_impl("generate", [kv.hexs(t) for t in bare])
        for (items, text, o), o2 in zip(rejected, res2):
            head = lambda x: x[1:].split(" ", 2)[:2] if x.startswith("(err") else x[:4]
            if o2.startswith("(ok ") or head(o) != head(o2):
                rep.violation("a declaration with balanced single-line attributes is not accepted although the same file without attributes is (the attributes are not reproduced at all)",
                              {"source": text, "with_attributes": o[:300], "without_attributes": o2[:120]})
    n_attr = 0
    for items, text, emitted in pool:
        decls = [d for d in items if d["kind"] == "terminal"] + [d for d in items if d["kind"] in ("struct", "enum")]
        for d in decls:
            n_attr += len(d["attrs"])
            kw = "pub struct " if d["kind"] == "struct" else "pub enum "
            m = re.search(r"^" + re.escape(kw + d["name"]) + r"\b", emitted, re.M)
            if not m:
                rep.violation("emitted type not found for a declaration", {"source": text, "name": d["name"]})
                continue
            before = emitted[: m.start()]
            want = "".join(a + "\n" for a in d["attrs"])
            if not before.endswith("\n\n" + want) and not before.endswith("]\n\n" + want):
                rep.violation("outer attributes are not reproduced verbatim, in order, immediately before the emitted type", {"source": text, "declaration": d["name"], "declared": d["attrs"], "emitted_before": before[-300:]})
        # nowhere else: every line of the type region that starts with `#[` is accounted for above
        try:
            got, _ = read_types(emitted)
            want_all = [d["attrs"] for d in decls]
            if [g["attrs"] for g in got] != want_all:
                rep.violation("attribute placement differs from the declarations", {"source": text, "emitted": [g["attrs"] for g in got], "declared": want_all})
        except Exception as e:
            rep.violation("emitted type region is unreadable: " + repr(e), {"source": text}, no_input=True)
    pairs, dis = compare_stage_runs(rep, [t for _, t, _ in pool], "C12", keys={"tokens", "ast", "file", "text"})
    report_disagreements(rep, dis, "tokens / AST / emitted text", "C12_emit / C12_token")
    return {"evaluations": len(pool), "distinct_nontrivial": kv.distinct_count([t for it, t, _ in pool if any(d.get("attrs") for d in it)]),
            "rule": "accepted grammars with 0–3 random single-line balanced attributes per declaration (non-ASCII text, nested brackets of all three kinds, strings containing `//`, `$`, `#[`), random layouts; each attribute must occur byte for byte, in order, immediately before its emitted type and nowhere else; non-trivial = at least one attribute",
            "samples": sample([t for it, t, _ in pool if any(d.get("attrs") for d in it)]), "attributes": n_attr, "model_disagreements": len(dis)}


# =========================================================================================== C13

def rust_type_tokens(s):
    return re.findall(r"::|[A-Za-z_][A-Za-z0-9_]*|[(),<>]", s)


def run_C13(rep, tier, rng):
    n = 150 if tier == "quick" else 6000
    pool, tried = accepted_pool(rng, n, self_types=True)
    # deeper random types
    def rtype(d):
        if d == 0 or rng.random() < 0.3:
            return rng.choice(["()", "usize", "String", "crate::P", "crate::data::Q", "a::b::c::D"])
        k = rng.randint(1, 3)
        return rng.choice(["Vec", "crate::G", "std::collections::HashMap", "Option"]) + "<" + ", ".join(rtype(d - 1) for _ in range(k)) + ">"
    # type *families*: neighbouring terminals whose payload types are near-duplicates of one another — the same type
    # with an argument appended or dropped (at any depth), a path lengthened or shortened, one leaf changed, the
    # arguments permuted — so that any cache, interning or "same as before" shortcut keyed too coarsely shows
    def split_args(body):
        out, depth, cur = [], 0, ""
        for ch in body:
            if ch == "<":
                depth += 1
            elif ch == ">":
                depth -= 1
            if ch == "," and depth == 0:
                out.append(cur.strip())
                cur = ""
            else:
                cur += ch
        if cur.strip():
            out.append(cur.strip())
        return out

    def vary(t):
        if "<" in t and rng.random() < 0.8:
            head, body = t.split("<", 1)
            args = split_args(body[:-1])
            k = rng.random()
            if k < 0.3:
                args = args + [rtype(rng.randint(0, 1))]            # one more argument
            elif k < 0.5 and len(args) > 1:
                args = args[:-1]                                      # one fewer
            elif k < 0.65 and len(args) > 1:
                args = args[::-1]                                     # permuted
            elif k < 0.8:
                j = rng.randrange(len(args))
                args[j] = vary(args[j])                               # the same, deeper
            else:
                head = rng.choice(["crate::" + head, head.split("::")[-1], head + "2"])
            return head + "<" + ", ".join(args) + ">"
        if t == "()":
            return rng.choice(["Vec<()>", "usize"])
        if "<" in t:
            # a generic type that was not varied inside: wrap it or change its callee (nothing may follow the `>`)
            head, body = t.split("<", 1)
            return rng.choice([rng.choice(["Vec", "Option", "crate::G"]) + "<" + t + ">", head + "x<" + body])
        k = rng.random()
        if k < 0.4:
            return t + "::" + rng.choice(["D", "c", "Q"])                 # longer path
        if k < 0.6 and "::" in t:
            return t.rsplit("::", 1)[0]                                   # shorter path
        if k < 0.8:
            return rng.choice(["Vec", "Option", "crate::G"]) + "<" + t + ">"
        return t + rng.choice(["2", "x"])

    extra = []
    for gi in range(n // 3):
        items = gen.random_grammar(rng, payload="usize", derive=False, min_t=(3 if gi % 2 else 1), max_t=(6 if gi % 2 else 4))
        vs = [d for d in items if d["kind"] == "terminal"][0]["variants"]
        if gi % 2:
            base = rtype(rng.randint(1, 4))
            for v in vs:
                v["type"] = base
                if rng.random() < 0.85:
                    base = vary(base)
        else:
            for v in vs:
                v["type"] = rtype(rng.randint(0, 5))
        extra.append(items)
    texts = [gen.render(it, rng if rng.random() < 0.5 else None) for it in extra]
    res = kv.run_impl("generate", [kv.hexs(t) for t in texts])
    pool = pool + [(it, t, kv.unhexs(o[4:-1])) for it, t, o in zip(extra, texts, res) if o.startswith("(ok ")]
    sites = 0
    for items, text, emitted in pool:
        term = [d for d in items if d["kind"] == "terminal"][0]
        for vi, v in enumerate(term["variants"]):
            want = gen.type_tokens(v["type"])
            found = []
            # terminal enum variant and Node variant: `Name(type),`
            for m in re.finditer(r"^    " + re.escape(v["name"]) + r"\((.*)\),$", emitted, re.M):
                found.append(("variant", m.group(1)))
            m = re.search(r"fn try_into_\w+_" + str(vi) + r"\(self\) -> Result<(.*), Self> \{", emitted)
            if m:
                found.append(("method", m.group(1)))
            if len([f for f in found if f[0] == "variant"]) != 2 or not m:
                rep.violation("a use site of a terminal's payload type is missing from the emitted text", {"source": text, "terminal": v["name"], "found": found})
                continue
            for where, ty in found:
                sites += 1
                if rust_type_tokens(ty) != want:
                    rep.violation("payload type is not reproduced token for token", {"source": text, "terminal": v["name"], "where": where, "emitted": ty, "declared": v["type"]})
        why = mirror_mismatch(items, emitted)    # field use sites
        if why:
            rep.violation("payload type at a field use site: " + why, {"source": text})
    pairs, dis = compare_stage_runs(rep, [t for _, t, _ in pool], "C13", keys={"ast", "file", "text"})
    report_disagreements(rep, dis, "AST types / validated type strings / emitted text", "C13_roundtrip / C13_use_sites")
    return {"evaluations": len(pool), "distinct_nontrivial": kv.distinct_count([t for _, t, _ in pool if "<" in t]),
            "rule": "accepted grammars whose terminals carry random payload types (unit, paths of 1–4 segments, generics nested up to depth 5 with 1–3 arguments); the type text at every use site (terminal enum, Node enum, try_into_* return type, every field of that terminal) is re-tokenised and compared with the declaration's token sequence; non-trivial = a generic type occurs",
            "samples": sample([t for _, t, _ in pool if "<" in t]), "use_sites": sites, "model_disagreements": len(dis)}


# =========================================================================================== C05

def _has_empty_terminal_enum(text):
    import kiki_syntax
    try:
        items = kiki_syntax.parse(text)
    except Exception:
        return False
    return any(d["kind"] == "terminal" and not d["variants"] for d in items)


def run_C05(rep, tier, rng):
    n = 120 if tier == "quick" else 5000
    # adversarial namings: generator-internal names, S, numeric-suffix neighbours, names without letters
    pool, tried = accepted_pool(rng, n, names="adversarial", derive=False)
    special = []
    for nm in ["S", "State", "Node", "Action", "RuleKind", "Eof", "Quasiterminal", "QuasiterminalKind", "NonterminalKind", "ACTION_TABLE", "GOTO_TABLE", "S2", "Eof2", "Node2"]:
        special.append(f"start {nm}\nstruct {nm} {{ a: $T }}\nterminal K {{ $T: crate::P }}\n")
        special.append(f"start X\nstruct X {{ a: ${nm} }}\nterminal K {{ ${nm}: crate::P }}\n")
        special.append(f"start X\nstruct X {{ a: $T }}\nterminal {nm} {{ $T: crate::P }}\n")
        special.append(f"start X\nenum X {{ {nm}($T) }}\nterminal K {{ $T: crate::P }}\n")
    special.append("start Node\nstruct Node { a: Node2 }\nstruct Node2 { states: $State nodes: $Node3 }\nterminal State2 { $State: () $Node3: crate::G<(), crate::P> }\n")
    special.append("start X struct X terminal K { }\n")
    # a helper name together with its numbered neighbours: the suffix search has to pass every one of them
    for nm in ["State", "Node", "Action", "RuleKind", "Eof", "Quasiterminal", "QuasiterminalKind", "NonterminalKind", "ACTION_TABLE", "GOTO_TABLE", "S"]:
        for upto in (3, 5):
            fam = [nm] + [f"{nm}{j}" for j in range(2, upto + 1)]
            special.append(f"start {fam[0]}\n" + "".join(f"struct {x} {{ a: $T }}\n" for x in fam) + "terminal K { $T: crate::P }\n")
        special.append(f"start X\nstruct X {{ a: ${nm} b: ${nm}2 c: ${nm}3 }}\nterminal K {{ ${nm}: crate::P ${nm}2: () ${nm}3: usize }}\n")
        special.append(f"start {nm}2\nstruct {nm}2 {{ a: ${nm} }}\nstruct {nm}3\nterminal K {{ ${nm}: crate::P }}\n")
    res = kv.run_impl("generate", [kv.hexs(t) for t in special])
    cases = [(None, t, e) for _, t, e in pool] + [(None, t, kv.unhexs(o[4:-1])) for t, o in zip(special, res) if o.startswith("(ok ")]
    verdicts = corr.rustc_check_many(os.path.join(kv.WORK, "c05"), [e for _, _, e in cases])
    shutil.rmtree(os.path.join(kv.WORK, "c05"), ignore_errors=True)
    bad = 0
    for (_, text, emitted), (ok, err) in zip(cases, verdicts):
        if ok:
            continue
        bad += 1
        key = None
        if "E0004" in err and _has_empty_terminal_enum(text) and err.count("error[") == 1:
            key = "empty-terminal-enum"
        rep.violation("the emitted module does not compile", {"source": text, "rustc": err[:2500]}, finding_key=key)
    pairs, dis = compare_stage_runs(rep, [t for _, t, _ in cases], "C05", keys={"text"})
    report_disagreements(rep, dis, "emitted text (internal names chosen) vs render(moduleOf)", "C05_fresh / C05_names_distinct")
    return {"evaluations": len(cases), "distinct_nontrivial": kv.distinct_count([t for _, t, _ in cases]),
            "rule": "accepted grammars whose nonterminals, terminals and terminal enum are named after the generator's own helper names (State, Node, Action, RuleKind, Eof, Quasiterminal, QuasiterminalKind, NonterminalKind, ACTION_TABLE, GOTO_TABLE, S, numeric-suffix neighbours, names without letters); payload types supplied by a scratch crate with no derives; rustc --emit=metadata on the emitted module as a file module; every case is non-trivial",
            "samples": sample(special[:3] + [t for _, t, _ in pool]), "rustc_rejections": bad, "model_disagreements": len(dis)}


# =========================================================================================== C09

KW_TEXT = {"Underscore": "_", "StartKw": "start", "StructKw": "struct", "EnumKw": "enum", "TerminalKw": "terminal", "Colon": ":", "DoubleColon": "::",
           "Comma": ",", "LParen": "(", "RParen": ")", "LCurly": "{", "RCurly": "}", "LAngle": "<", "RAngle": ">"}


def token_info(tokens_sexp):
    """[(kind, start_byte, text)] from a `(tokens ...)` S-expression."""
    out = []
    for t in tokens_sexp[1:]:
        k = t[0]
        if k == "Ident":
            out.append((k, int(t[1]), kv.unhexs(t[2])))
        elif k == "TerminalIdent":
            out.append((k, int(t[1]) - 1, "$" + kv.unhexs(t[2])))
        elif k == "OuterAttribute":
            out.append((k, int(t[1]), kv.unhexs(t[2])))
        else:
            out.append((k, int(t[1]), KW_TEXT[k]))
    return out


_KIKI_G = None


def kiki_grammar():
    global _KIKI_G
    if _KIKI_G is None:
        import kiki_syntax
        _KIKI_G = gen.to_oracle(kiki_syntax.parse(open("/repo/kiki/src/parser.kiki").read()))
    return _KIKI_G


def run_C09(rep, tier, rng):
    n = 60 if tier == "quick" else 2500
    Gk = kiki_grammar()
    bases = []
    for _, items, _c in gen.families():
        bases.append(gen.tokens_of(items))
    while len(bases) < n:
        items = gen.random_grammar(rng, payload="mixed", derive=rng.random() < 0.5, max_nt=3, max_t=3, maxlen=3)
        if rng.random() < 0.5:
            for it in items:
                if it["kind"] != "start" and rng.random() < 0.5:
                    it["attrs"] = it.get("attrs", []) + ["#[" + rng.choice(ATTRS_BALANCED) + "]"]
        bases.append(gen.tokens_of(items))
    vocab = ["start", "struct", "enum", "terminal", "_", ":", "::", ",", "(", ")", "{", "}", "<", ">", "Foo", "bar", "$T", "$t", "#[x]", "#[é]", "#[doc = \"左右\"]", "#[a(😀)]", "$Ünï".replace("Ünï", "Uni")]
    cases = []
    for toks in bases:
        cases.append(list(toks))
        for _ in range(4 if tier == "quick" else 8):
            t = list(toks)
            op = rng.choice(["del", "ins", "rep", "swap", "trunc", "dup"])
            i = rng.randrange(len(t))
            if op == "del":
                del t[i]
            elif op == "ins":
                t.insert(i, rng.choice(vocab))
            elif op == "rep":
                t[i] = rng.choice(vocab)
            elif op == "swap" and i + 1 < len(t):
                t[i], t[i + 1] = t[i + 1], t[i]
            elif op == "trunc":
                t = t[:i]
            else:
                t.insert(i, t[i])
            cases.append(t)
    # short exhaustive sequences over the vocabulary (all ≤ 2 tokens, sampled 3)
    for a in vocab:
        cases.append([a])
        for b in vocab:
            cases.append([a, b])
    # an attribute (ASCII and not) in front of every token of a valid file: mostly illegal positions
    for toks in bases[:25]:
        for i in range(0, len(toks), max(1, len(toks) // 6)):
            cases.append(toks[:i] + [rng.choice(["#[é]", "#[doc = \"左右\"]", "#[a(😀)]", "#[x]"])] + toks[i:])
    texts = []
    for t in cases:
        sep = rng.choice([" ", "\n", " // é\n", "\t"])
        texts.append(sep.join(t) + rng.choice(["", "\n", " "]))
    texts = corpus("C09") + texts
    pairs, dis = compare_stage_runs(rep, texts, "C09", keys={"tokens", "unexpected", "ast", "Parse"})
    acc = rej = 0
    for text, (i, m) in zip(texts, pairs):
        if not i.startswith("(stages"):
            rep.violation("front end died", {"source": text, "impl": i[:300]})
            continue
        ip = corr.split_stages(i)
        if "tokens" not in ip:
            continue
        info = token_info(kv.parse_sexp(ip["tokens"]))
        kinds = [k for k, _, _ in info]
        want_ok = oracle.recognize(Gk, kinds)
        got_ok = "ast" in ip
        if got_ok:
            acc += 1
        else:
            rej += 1
        if got_ok != want_ok:
            rep.violation("front end accepts a token sequence that is not a sentence of the Kiki grammar" if got_ok else "front end rejects a sentence of the Kiki grammar",
                          {"source": text, "kinds": kinds})
            continue
        if not got_ok:
            if "Parse" not in ip:
                rep.violation("syntactically invalid file did not produce a parse error", {"source": text, "impl": i[-300:]})
                continue
            pe = kv.parse_sexp(ip["Parse"])
            a, content, b = int(pe[1]), kv.unhexs(pe[2]), int(pe[3])
            dead = oracle.first_dead_index(Gk, kinds)
            src_b = text.encode()
            if dead is None:
                ok = (a == b == len(src_b) and content == "")
                why = "file stops too early: expected the empty span at the end of the source"
            else:
                k, st, tx = info[dead]
                ok = (a == st and content == tx and b == st + len(tx.encode()) and src_b[a:b].decode(errors="replace") == content)
                why = f"expected the span of token #{dead} {tx!r} at {st}"
            if not ok:
                rep.violation("parse error does not carry the span/text of the first token that cannot continue a valid file: " + why, {"source": text, "impl": ip["Parse"]})
    report_disagreements(rep, dis, "tokens / unexpected-token index / AST / Parse error", "C09_table_valid / C09_flatten")
    return {"evaluations": len(texts), "distinct_nontrivial": kv.distinct_count([t for t in texts if len(t.split()) >= 3]),
            "rule": "token sequences of valid files (hand-written families + random grammars, with attributes and generic types), each mutated by one token deletion/insertion/replacement/swap/truncation/duplication, plus every sequence of ≤ 2 tokens over a 19-token vocabulary; acceptance compared with an Earley recogniser for the grammar read from parser.kiki, the error span with the least non-extendable prefix; non-trivial = at least 3 tokens",
            "samples": sample(texts[60:]), "accepted": acc, "rejected": rej, "model_disagreements": len(dis)}


# =========================================================================================== C10

def first_letter(name):
    for c in name:
        if c.isascii() and c.isalpha():
            return c
    return None


def wellformed(items):
    """The static rules of C10 on the structure; returns None or the name of a violated rule."""
    starts = [d for d in items if d["kind"] == "start"]
    terms = [d for d in items if d["kind"] == "terminal"]
    nts = [d for d in items if d["kind"] in ("struct", "enum")]
    if len(starts) != 1:
        return "start-count"
    if len(terms) != 1:
        return "terminal-count"
    ntn = [d["name"] for d in nts]
    tn = [v["name"] for v in terms[0]["variants"]]
    if starts[0]["name"] not in ntn:
        return "start-undefined"
    top = ntn + tn + [terms[0]["name"]]
    if len(set(top)) != len(top):
        return "top-level-clash"

    def up(n):
        c = first_letter(n)
        return c is None or c.isupper()

    if not all(up(n) for n in top):
        return "capitalisation"
    for d in nts:
        fss = [d["fieldset"]] if d["kind"] == "struct" else [v["fieldset"] for v in d["variants"]]
        if d["kind"] == "enum":
            vn = [v["name"] for v in d["variants"]]
            if len(set(vn)) != len(vn):
                return "variant-name-clash"
            if not all(up(n) for n in vn):
                return "capitalisation"
            seqs = [tuple(gen.sym_key(s) for s in gen.fs_syms(v["fieldset"])) for v in d["variants"]]
            if len(set(seqs)) != len(seqs):
                return "variant-seq-clash"
        for fs in fss:
            if fs["kind"] == "empty":
                continue
            for f in fs["fields"]:
                s = f["sym"]
                if "n" in s and s["n"] not in ntn:
                    return "undefined-nonterminal"
                if "t" in s and s["t"] not in tn:
                    return "undefined-terminal"
                if fs["kind"] == "named" and f["name"] is not None:
                    c = first_letter(f["name"])
                    if c is not None and not c.islower():
                        return "capitalisation"
    return None


def truthful(err, items, info):
    """Does the validation error describe a violation really present at its positions?  None or why not."""
    head = err[0]
    by_pos = {}
    for k, st, tx in info:
        by_pos[st] = (k, tx)
        if k == "TerminalIdent":
            by_pos[st + 1] = (k, tx[1:])
    starts = [d for d in items if d["kind"] == "start"]
    terms = [d for d in items if d["kind"] == "terminal"]
    nts = [d for d in items if d["kind"] in ("struct", "enum")]
    ntn = [d["name"] for d in nts]
    tn = [v["name"] for t in terms for v in t["variants"]]

    def spelled(p, name):
        return p in by_pos and by_pos[p][1] == name

    def prev_kind(p):
        idx = [i for i, (k, st, tx) in enumerate(info) if st == p or (k == "TerminalIdent" and st + 1 == p)]
        return info[idx[0] - 1][0] if idx and idx[0] > 0 else None

    if head == "NoStartSymbol":
        return None if not starts else "there is a start declaration"
    if head == "MultipleStartSymbols":
        ps = [int(x) for x in err[1:]]
        if len(starts) < 2 or len(ps) != len(starts) or len(set(ps)) != len(ps):
            return "number of positions differs from the number of start declarations"
        return None if all(prev_kind(p) == "StartKw" for p in ps) else "a position is not that of a start declaration's name"
    if head == "NoTerminalEnum":
        return None if not terms else "there is a terminal declaration"
    if head == "MultipleTerminalEnums":
        ps = [int(x) for x in err[1:]]
        if len(terms) < 2 or len(ps) != len(terms) or len(set(ps)) != len(ps):
            return "number of positions differs from the number of terminal declarations"
        return None if all(prev_kind(p) == "TerminalKw" for p in ps) else "a position is not that of a terminal enum's name"
    if head == "SymbolOrTerminalEnumNameFirstLetterNotUppercase":
        p = int(err[1])
        if p not in by_pos:
            return "no token at the position"
        name = by_pos[p][1]
        c = first_letter(name)
        if c is None or c.isupper():
            return "the name at the position is correctly capitalised"
        vnames = [v["name"] for d in nts if d["kind"] == "enum" for v in d["variants"]]
        return None if name in ntn + tn + vnames + [t["name"] for t in terms] else "the name at the position is not a symbol / variant / terminal enum name"
    if head == "FieldFirstLetterNotLowercase":
        p = int(err[1])
        if p not in by_pos:
            return "no token at the position"
        c = first_letter(by_pos[p][1])
        return None if (c is not None and not c.islower()) else "the field name at the position is correctly capitalised"
    if head in ("NameClash", "NonterminalEnumVariantNameClash"):
        name, p, q = kv.unhexs(err[1]), int(err[2]), int(err[3])
        if p == q or not spelled(p, name) or not spelled(q, name):
            return "the two positions do not both spell the reported name"
        if head == "NameClash":
            top = ntn + tn + [t["name"] for t in terms]
            return None if top.count(name) >= 2 else "the name is not defined twice at top level"
        return None if any([v["name"] for v in d["variants"]].count(name) >= 2 for d in nts if d["kind"] == "enum") else "no enum has two variants of that name"
    if head == "NonterminalEnumVariantSymbolSequenceClash":
        syms = tuple(("t" if s[0] == "T" else "n", kv.unhexs(s[1])) for s in err[1][1:])
        p, q = int(err[2]), int(err[3])
        for d in nts:
            if d["kind"] == "enum":
                vs = [v for v in d["variants"] if tuple(gen.sym_key(s) for s in gen.fs_syms(v["fieldset"])) == syms]
                if len(vs) >= 2 and p != q and p in by_pos and q in by_pos and by_pos[p][1] in [v["name"] for v in vs] and by_pos[q][1] in [v["name"] for v in vs]:
                    return None
        return "no enum has two variants with that symbol sequence at those positions"
    if head == "UndefinedNonterminal":
        name, p = kv.unhexs(err[1]), int(err[2])
        if not spelled(p, name) or by_pos[p][0] != "Ident":
            return "the position does not spell the reported name"
        return None if name not in ntn else "the nonterminal is defined"
    if head == "UndefinedTerminal":
        name, p = kv.unhexs(err[1]), int(err[2])
        if not spelled(p, name) or by_pos[p][0] != "TerminalIdent":
            return "the position does not spell the reported name"
        return None if name not in tn else "the terminal is defined"
    return "unknown error " + head


VALIDATION_ERRS = ["NoStartSymbol", "MultipleStartSymbols", "NoTerminalEnum", "MultipleTerminalEnums", "SymbolOrTerminalEnumNameFirstLetterNotUppercase",
                   "FieldFirstLetterNotLowercase", "NameClash", "NonterminalEnumVariantNameClash", "NonterminalEnumVariantSymbolSequenceClash",
                   "UndefinedNonterminal", "UndefinedTerminal"]


def run_C10(rep, tier, rng):
    n = 400 if tier == "quick" else 30000
    cases = []
    fam = [items for _, items, _ in gen.families()]
    while len(cases) < n:
        base = rng.choice(fam) if rng.random() < 0.3 else gen.random_grammar(rng, names=rng.choice(["plain", "adversarial"]), payload="mixed", derive=False)
        items, labels = base, []
        for _ in range(rng.choice([0, 1, 1, 1, 2, 3])):
            r = gen.inject_violation(items, rng)
            if r:
                items, lab = r
                labels.append(lab)
        if len(cases) % 6 == 5:
            # several violations of one kind in one scope: which one is reported depends on the visiting order
            r = gen.multi_violation(base, rng)
            if r:
                items, labels = r[0], [r[1]]
        if len(cases) % 12 == 7:
            # one duplicate among twenty to a hundred and thirty variants (where sorting routines change algorithm)
            items, lab = gen.big_enum_violation(rng)
            labels = [lab]
        if len(cases) % 6 == 2:
            # well-formed, but nearly in violation of a uniqueness rule (keys that coincide under a too coarse key)
            r = gen.near_miss(base, rng)
            if r:
                items, labels = r[0], []
        cases.append((items, labels))
    texts = [gen.render(it, rng if rng.random() < 0.3 else None) for it, _ in cases]
    pairs, dis = compare_stage_runs(rep, corpus("C10") + texts, "C10", keys={"ast", "file"} | set(VALIDATION_ERRS))
    pairs = pairs[len(corpus("C10")):]
    hit = {}
    for (items, labels), text, (i, m) in zip(cases, texts, pairs):
        if not i.startswith("(stages"):
            rep.violation("validation died", {"source": text, "impl": i[:300]})
            continue
        ip = corr.split_stages(i)
        if "ast" not in ip:
            continue
        wf = wellformed(items)
        errs = [h for h in VALIDATION_ERRS if h in ip]
        if "panic" in ip:
            rep.violation("panic during/after validation", {"source": text, "injected": labels})
            continue
        if not errs:
            hit["passed"] = hit.get("passed", 0) + 1
            if wf is not None:
                rep.violation(f"a file violating a static rule ({wf}) passed validation", {"source": text, "injected": labels})
            continue
        e = kv.parse_sexp(ip[errs[0]])
        hit[e[0]] = hit.get(e[0], 0) + 1
        if wf is None:
            rep.violation("a well-formed file was rejected by validation", {"source": text, "impl": ip[errs[0]]})
            continue
        info = token_info(kv.parse_sexp(ip["tokens"]))
        why = truthful(e, items, info)
        if why:
            rep.violation("validation error is not truthful: " + why, {"source": text, "impl": ip[errs[0]], "injected": labels})
    report_disagreements(rep, dis, "validation result (error variant and payload, or validated file)", "C10_ok_sound / C10_err_truthful")
    return {"evaluations": len(cases), "distinct_nontrivial": kv.distinct_count([t for (it, labs), t in zip(cases, texts) if labs]),
            "rule": "valid grammars with 0–3 injected static violations out of 29 kinds (including violations inside declarations nothing refers to, so that no later stage can mask the verdict; and the offending name existing in the other namespace: terminal used as nonterminal, nonterminal used as terminal, terminal enum name used as nonterminal, start naming a terminal); Ok ⇒ WellFormed and Err ⇒ Truthful evaluated on the implementation's answer (any truthful error is accepted); non-trivial = at least one violation injected",
            "samples": sample([t for (it, labs), t in zip(cases, texts) if labs]), "error_variants_hit": hit, "model_disagreements": len(dis)}


# =========================================================================================== C16

def posmap_of(info, srclen):
    pm = {}
    for idx, (k, st, tx) in enumerate(info):
        pm[st] = idx
        if k == "TerminalIdent":
            pm[st + 1] = idx
    return pm


POSITION_FORMS = {"id": [2], "N": [2], "T": [2], "attr": [2], "us": [1], "tv": [2], "Lex": [1], "Parse": [1, 3], "NameClash": [2, 3],
                  "NonterminalEnumVariantNameClash": [2, 3], "NonterminalEnumVariantSymbolSequenceClash": [2, 3], "UndefinedNonterminal": [2],
                  "UndefinedTerminal": [2], "SymbolOrTerminalEnumNameFirstLetterNotUppercase": [1], "FieldFirstLetterNotLowercase": [1]}


def map_positions(sx, pm, srclen, in_syms=False):
    """Replace every byte position by the index of the token it belongs to."""
    if not isinstance(sx, list) or not sx:
        return sx
    head = sx[0]
    out = list(sx)
    if head in ("MultipleStartSymbols", "MultipleTerminalEnums"):
        return [head] + [f"tok{pm.get(int(p), '?')}" for p in sx[1:]]
    if head == "syms":
        return sx
    if head == "Parse":
        a, b = int(sx[1]), int(sx[3])
        return [head, "eof" if a == srclen else f"tok{pm.get(a, '?')}", sx[2], "eof" if b == srclen else "end"]
    if head in POSITION_FORMS and not (head in ("N", "T") and len(sx) == 2):
        for k in POSITION_FORMS[head]:
            if k < len(out) and isinstance(out[k], str) and out[k].isdigit():
                out[k] = f"tok{pm.get(int(out[k]), '?')}"
    return [map_positions(x, pm, srclen) if isinstance(x, list) else x for x in out]


def layout_canon(gen_line, tok_line, text):
    """Result of generate with positions replaced by token indices and the digest line removed."""
    if gen_line.startswith("(ok "):
        t = kv.unhexs(gen_line[4:-1])
        return "ok:" + re.sub(r"// @sha256 [0-9a-f]+", "// @sha256 -", t)
    if gen_line.startswith("(err (Lex"):
        return "lex"   # lexical errors are not token-boundary layouts; compared by the caller
    sx = kv.parse_sexp(gen_line)
    info = token_info(kv.parse_sexp(tok_line)) if tok_line.startswith("(tokens") else []
    pm = posmap_of(info, len(text.encode()))
    return _sexp_text(map_positions(sx, pm, len(text.encode())))


def run_C16(rep, tier, rng):
    n = 70 if tier == "quick" else 3000
    k = 3 if tier == "quick" else 8
    bases = [items for _, items, _ in gen.families()]
    while len(bases) < n:
        items = gen.random_grammar(rng, names=rng.choice(["plain", "adversarial"]), payload="mixed", derive=rng.random() < 0.5)
        for _ in range(rng.choice([0, 0, 1, 1, 2])):
            r = gen.inject_violation(items, rng)
            if r:
                items = r[0]
        if rng.random() < 0.4:
            for it in items:
                if it["kind"] != "start" and rng.random() < 0.5:
                    it["attrs"] = it.get("attrs", []) + ["#[" + rng.choice(ATTRS_BALANCED) + "]"]
        bases.append(items)
    groups = []
    texts = []
    for items in bases:
        # syntactically broken variants as well: drop a token sometimes
        toks_variants = [gen.render(items)] + [gen.render(items, rng) for _ in range(k)]
        groups.append((len(texts), len(toks_variants)))
        texts += toks_variants
    reqs = [kv.hexs(t) for t in texts]
    outs = kv.run_impl("generate", reqs)
    toks = kv.run_impl("tokenize", reqs)
    kinds = {}
    for (start, cnt) in groups:
        base = layout_canon(outs[start], toks[start], texts[start])
        kind = base[:2] if base.startswith("ok") else base[6:30].split(" ")[0]
        kinds[kind] = kinds.get(kind, 0) + 1
        for j in range(start + 1, start + cnt):
            other = layout_canon(outs[j], toks[j], texts[j])
            if other != base:
                rep.violation("a re-layout (whitespace / line endings / comments between tokens) changed the result of generate",
                              {"source_a": texts[start], "source_b": texts[j], "result_a": base[:1200], "result_b": other[:1200]})
    # lexical errors: the same offending tail behind two layouts of the same tokens — the error must be the same, its
    # index moved by exactly the difference of the two prefixes' byte lengths (C16_layout_at_boundary)
    tails = ["$enum", "$start", "$struct x", "#[x(", "#[a[b]", "#[", "%", "$", "#", "/x", "$9", "€", "a$", "é\n", "#[x\n]", "$terminal", "\u200b", "x%y"]
    lex_cases = []
    for items in bases[: (60 if tier == "quick" else 1500)]:
        tail = rng.choice(tails)
        # (the separator starts with a line break: a rendered layout may end in a comment without one)
        p1 = gen.render(items, rng) + rng.choice(["\n", "\n ", "\n// é€\n", "\r\n"])
        p2 = gen.render(items, rng if rng.random() < 0.8 else None) + rng.choice(["\n", "\n\t", "\n\u3000", "\n//x\n"])
        lex_cases.append((p1, p2, tail))
    louts = kv.run_impl("generate", [kv.hexs(a + t) for a, _, t in lex_cases] + [kv.hexs(b + t) for _, b, t in lex_cases])
    nlex = 0
    for ci, (p1, p2, tail) in enumerate(lex_cases):
        o1, o2 = louts[ci], louts[len(lex_cases) + ci]
        m1 = re.match(r"\(err \(Lex (\d+) (.*)\)\)$", o1)
        m2 = re.match(r"\(err \(Lex (\d+) (.*)\)\)$", o2)
        if not m1 and not m2:
            continue        # the tail happened to be fine behind these tokens (both layouts agree on that)
        nlex += 1
        ok = bool(m1) and bool(m2) and m1.group(2) == m2.group(2) and int(m1.group(1)) - len(p1.encode()) == int(m2.group(1)) - len(p2.encode())
        if not ok:
            rep.violation("a lexical error does not stay the same error, shifted by the change of layout in front of it",
                          {"source_a": p1 + tail, "source_b": p2 + tail, "result_a": o1[:300], "result_b": o2[:300],
                           "prefix_bytes_a": len(p1.encode()), "prefix_bytes_b": len(p2.encode())})
    # comment bodies: everything up to the next LF belongs to the comment — a bare CR, VT, FF, NEL, LS or PS inside it
    # does not end it, whatever follows on that line (own generator: the streams above stay as they were)
    crng = random.Random(f"c16-comment-bodies-{rep.seed}")
    inner = ["\r", "\x0b", "\x0c", "\u0085", "\u2028", "\u2029", "\r\r", " \r ", "\r\t"]
    follow = ["see Wrap", "struct X { }", "$y", "}", "#[a]", "%", "start Q", "", "é", "// again"]
    ncb = 0
    cb = []
    for items in bases[: (50 if tier == "quick" else 800)]:
        tk = gen.tokens_of(items)
        vs = [" ".join(tk) + "\n"]
        for _ in range(2):
            i = crng.randrange(len(tk) + 1)
            c = "// c" + crng.choice(inner) + crng.choice(follow) + crng.choice(["\n", "\r\n"])
            vs.append(" ".join(tk[:i]) + " " + c + " ".join(tk[i:]) + "\n")
        cb.append(vs)
    flat = [t for vs in cb for t in vs]
    cbo = kv.run_impl("generate", [kv.hexs(t) for t in flat])
    cbt = kv.run_impl("tokenize", [kv.hexs(t) for t in flat])
    pos = 0
    for vs in cb:
        base = layout_canon(cbo[pos], cbt[pos], flat[pos])
        for j in range(pos + 1, pos + len(vs)):
            ncb += 1
            other = layout_canon(cbo[j], cbt[j], flat[j])
            if other != base:
                rep.violation("a re-layout (whitespace / line endings / comments between tokens) changed the result of generate",
                              {"source_a": flat[pos], "source_b": flat[j], "result_a": base[:1200], "result_b": other[:1200]})
        pos += len(vs)
    pairs, dis = compare_stage_runs(rep, texts[: (150 if tier == "quick" else 1500)], "C16", keys={"tokens"})
    report_disagreements(rep, dis, "tokens of every layout", "C16_tokens")
    return {"evaluations": len(texts), "distinct_nontrivial": kv.distinct_count(texts),
            "rule": f"each base file (valid, conflicting, or with injected static violations; attributes included) in the plain layout and in {k} random re-layouts (any Unicode White_Space character, LF/CRLF, comments with arbitrary multi-byte content, comment at end of file without newline, no separator where the tokens allow it) plus, per base of a prefix of the stream, two variants with an inserted comment whose body holds a bare CR, VT, FF, NEL, LS or PS followed by token-like text; results compared with the digest line blanked and every byte position replaced by the index of its token; every re-layout is a non-trivial case",
            "samples": sample(texts[40:]), "base_outcomes": kinds, "model_disagreements": len(dis), "lexical_error_pairs": nlex, "comment_body_variants": ncb}


# =========================================================================================== registry

register("C01", run_C01, ["C01.C01_every_grammar", "C01.C01_generator_passes_validator", "C01.C01_coding_faithful", "C01.C01_no_panic_and_sound", "C01.C01_complete", "C01.C01_accepts_iff", "C01.C01_sentences_terminate", "C01.C01_framed_decides", "C01.C01_framed_halts", "C01.C01_certified_decides", "C01.C01_potential_halts"])
register("C02", run_C02, ["C02.C02_every_grammar", "C02.C02_tree", "C02.C02_that_tree", "C02.C02_unique", "C02.C02_faithful"])
register("C03", run_C03, ["C03.C03_every_grammar", "C03.C03_viable", "C03.C03_not_early", "C03.C03_lookahead_only", "C03.C03_first_offending", "C03.C03_front_end", "C03.C03_front_end_first_offending", "C03.C03_framed_rejects"])
register("C04", run_C04, ["C04.C04_emitted_iff_lalr1", "C04.C04_ambiguous_rejected", "C04.C04_emitted_iff_conflict_free", "C04.C04_setAction_ok_iff", "C04.C04_setAction_fresh", "C04.C04_ok_conflict_free", "C04.C04_conflict_genuine"])
register("C05", run_C05, ["C05.C05_names_distinct", "C05.C05_names_exist", "C05.C05_fresh"])
register("C06", run_C06, ["C06.C06_fields", "C06.C06_items_and_signature"])
register("C07", run_C07, ["C07.C07_generate_total", "C07.C07_front_parse_halts", "C07.C07_generate_no_panic", "C07.C07_emission_total", "C07.C07_validate_no_panic", "C07.C07_generator_no_panic", "C07.C07_generator_total", "C07.C07_parse_error_no_panic", "C07.bracketScan_no_panic", "C07.C07_handleMain_no_panic", "C07.C07_tokenize_total", "C07.C07_parse_no_panic", "C07.C07_cst_to_ast_total"])
register("C08", run_C08, ["C08.C08_positions", "C08.C08_scan_total", "C08.C08_double_colon", "C08.C08_tokenize_eq_spec", "C08.C08_tokenize_total"])
register("C09", run_C09, ["C09.C09_error_span", "C09.C09_kinds", "C09.C09_nonterminals", "C09.C09_rule_numbering", "C09.C09_reduce_arms", "C09.C09_table_valid", "C09.C09_parse_correct", "C09.C09_flatten", "C09.C09_parse_decides"])
register("C10", run_C10, ["C10.C10_one_start_one_terminal", "C10.C10_ok_sound", "C10.C10_err_truthful", "C10.C10_truthful_not_wellFormed", "C10.C10_ok_iff_wellFormed", "C10.C10_no_panic"])
register("C11", run_C11, ["C11.C11_conflict_is_lalr1", "C11.C11_attached_automaton", "C11.C11_setAction_conflict", "C11.C11_payload"])
register("C12", run_C12, ["C12.C12_emit", "C12.C12_token", "C12.C12_order"])
register("C13", run_C13, ["C13.C13_use_sites", "C13.C13_type_order", "C13.C13_type_tokens", "C13.C13_field_sites", "C13.C13_getType_declared"])
register("C14", run_C14, ["C14.C14_ofList_perm", "C14.C14_table_order_independent"])
register("C15", run_C15, ["C15.C15_spec", "C15.C15_roundtrip", "C15.C15_fresh"])
register("C16", run_C16, ["C16.C16_layout_insensitive", "C16.C16_layout_at_boundary", "C16.C16_insert_layout_end_to_end", "C16.C16_leading_whitespace_end_to_end", "C16.C16_translation_invariant", "C16.C16_leading_whitespace", "C16.C16_skip_whitespace", "C16.C16_tokenize_eq_spec", "C16.C16_skip_comment", "C16.C16_trailing_comment"])
register("C17", run_C17, ["C17.C17_cells_lalr1", "C17.C17_transitions_lalr1", "C17.C17_is_lalr1", "C17.C17_items_exact", "C17.C17_one_state_per_core", "C17.C17_cells", "C17.C17_empty_table"])
register("C18", run_C18, ["C18.C18_sorted", "C18.C18_refines", "C18.C18_contains", "C18.C18_iter", "C18.C18_ext"])
