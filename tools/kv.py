"""Shared machinery of ./check: builds, the two drivers, S-expressions, evidence,
violations and known findings."""
import fcntl
import hashlib
import json
import os
import re
import subprocess
import sys
import time

ROOT = os.path.dirname(os.path.dirname(os.path.abspath(__file__)))
LEAN = os.path.join(ROOT, "lean")
WORK = os.path.join(ROOT, ".work")
HARNESS_BIN = os.path.join(WORK, "harness-target", "debug", "kvh")
MODEL_BIN = os.path.join(LEAN, ".lake", "build", "bin", "kvmodel")
ALLOWED_AXIOMS = {"propext", "Classical.choice", "Quot.sound"}
FORBIDDEN = re.compile(r"\b(sorry|admit|native_decide|bv_decide|implemented_by|unsafe)\b|^\s*axiom\s|maxHeartbeats\s+0")


class Broken(Exception):
    """A proof obligation or a build no longer checks."""


def log(*a):
    print(*a, file=sys.stderr, flush=True)


def hexs(s):
    return "x" + s.encode("utf-8").hex()


def unhexs(h):
    return bytes.fromhex(h[1:] if h.startswith("x") else h).decode("utf-8")


def sha256(s):
    return hashlib.sha256(s.encode("utf-8")).hexdigest()


# ---------------------------------------------------------------- locking / building

class Lock:
    def __init__(self, name):
        os.makedirs(WORK, exist_ok=True)
        self.path = os.path.join(WORK, name + ".lock")

    def __enter__(self):
        self.f = open(self.path, "w")
        fcntl.flock(self.f, fcntl.LOCK_EX)
        return self

    def __exit__(self, *a):
        fcntl.flock(self.f, fcntl.LOCK_UN)
        self.f.close()


def run(cmd, cwd=None, timeout=None, env=None, input=None):
    e = dict(os.environ)
    e.update({"CARGO_NET_OFFLINE": "true"})
    if env:
        e.update(env)
    return subprocess.run(cmd, cwd=cwd, timeout=timeout, env=e, input=input, capture_output=True, text=True)


def build_harness():
    """cargo build of the harness against /repo's current working tree, hooks on."""
    with Lock("cargo"):
        r = run(["cargo", "build", "--offline", "--target-dir", os.path.join(WORK, "harness-target")], cwd=os.path.join(ROOT, "harness"), timeout=1200)
        if r.returncode != 0:
            raise Broken("harness build failed (the hook module or a public type changed shape):\n" + r.stderr[-3000:])


def translate():
    r = run([sys.executable, os.path.join(ROOT, "tools", "extract.py")], timeout=120)
    return r.returncode, r.stderr


def lake_build(targets):
    """Returns the combined output; raises Broken if the build fails."""
    with Lock("lake"):
        rc, err = translate()
        r = run(["lake", "build"] + targets, cwd=LEAN, timeout=3600)
        out = r.stdout + r.stderr
        if rc != 0:
            raise Broken("translator: " + err.strip() + "\n" + out[-2000:])
        if r.returncode != 0:
            raise Broken("lake build failed:\n" + out[-4000:])
        return out


def build_model():
    lake_build(["kvmodel"])


AX_RE = re.compile(r"'([^']+)' depends on axioms: \[([^\]]*)\]")
NOAX_RE = re.compile(r"'([^']+)' does not depend on any axioms")


def audit_property_module(pid, expected, recheck=False):
    """Build Properties/<pid> (re-elaborating it so that `#print axioms` output is
    produced), check the listed theorems are present with allowed axioms, and that
    no forbidden construct occurs in any non-generated Lean source.
    Returns a list of obligation records."""
    mod = f"KikiVerif.Properties.{pid}"
    path = os.path.join(LEAN, "KikiVerif", "Properties", pid + ".lean")
    with Lock("lake"):
        rc, err = translate()
        if rc != 0:
            raise Broken("translator: " + err.strip())
        # the (untrusted) certificate for the parser.rs tables comes from the model driver
        r0 = run(["lake", "build", "kvmodel"], cwd=LEAN, timeout=3600)
        if r0.returncode != 0:
            raise Broken("lake build kvmodel failed:\n" + (r0.stdout + r0.stderr)[-3000:])
        run([sys.executable, os.path.join(ROOT, "tools", "mk_cert.py")], timeout=300)
        r = run(["lake", "build", mod], cwd=LEAN, timeout=3600)
        if r.returncode != 0:
            raise Broken(f"lake build {mod} failed:\n" + (r.stdout + r.stderr)[-4000:])
        # `lake env lean` re-elaborates the property file itself (imports are built), giving
        # the axiom report even when lake had the module cached.
        r2 = run(["lake", "env", "lean", path], cwd=LEAN, timeout=3600)
        if recheck:
            # thorough tier: Lean's independent re-checker replays the compiled module through the kernel
            r3 = run(["lake", "env", "leanchecker", mod], cwd=LEAN, timeout=3600)
            if r3.returncode != 0:
                raise Broken(f"leanchecker rejects {mod}:\n" + (r3.stdout + r3.stderr)[-3000:])
    out = r2.stdout + r2.stderr
    if r2.returncode != 0:
        raise Broken(f"{mod} does not elaborate:\n" + out[-4000:])
    found = {}
    for m in AX_RE.finditer(out):
        found[m.group(1)] = {a.strip() for a in m.group(2).split(",") if a.strip()}
    for m in NOAX_RE.finditer(out):
        found[m.group(1)] = set()
    obligations = []
    for name in expected:
        full = name if name.startswith("KikiVerif.") else "KikiVerif." + name
        if full not in found:
            raise Broken(f"theorem {full} is missing from {mod} (no `#print axioms` report)")
        bad = found[full] - ALLOWED_AXIOMS
        if bad:
            raise Broken(f"theorem {full} depends on axioms outside the trusted base: {sorted(bad)}")
        obligations.append({"theorem": full, "axioms": sorted(found[full])})
    # forbidden constructs anywhere in the hand-written sources
    for dirpath, _, files in os.walk(os.path.join(LEAN, "KikiVerif")):
        if "Generated" in dirpath:
            continue
        for fn in files:
            if fn.endswith(".lean"):
                text = open(os.path.join(dirpath, fn)).read()
                text = re.sub(r"/-.*?-/", "", text, flags=re.S)
                for ln in text.splitlines():
                    ln = ln.split("--")[0]
                    if FORBIDDEN.search(ln):
                        raise Broken(f"forbidden construct in {fn}: {ln.strip()}")
    return obligations


# ---------------------------------------------------------------- drivers

def _run_lines(binary, mode, lines, timeout=600):
    data = "\n".join(lines) + "\n"
    r = subprocess.run([binary, mode], input=data, capture_output=True, text=True, timeout=timeout)
    out = r.stdout.splitlines()
    return r.returncode, out, r.stderr


def run_impl(mode, lines, timeout=600):
    """Runs the harness; if the process dies (abort / stack overflow) the requests are bisected
    so that the killing request is identified and reported as `(died)`."""
    rc, out, err = _run_lines(HARNESS_BIN, mode, lines, timeout)
    if rc == 0 and len(out) == len(lines):
        return out
    if len(lines) == 1:
        return [f"(died {rc})"]
    mid = len(lines) // 2
    return run_impl(mode, lines[:mid], timeout) + run_impl(mode, lines[mid:], timeout)


def run_model(mode, lines, timeout=1200):
    rc, out, err = _run_lines(MODEL_BIN, mode, lines, timeout)
    if rc != 0 or len(out) != len(lines):
        if len(lines) == 1:
            return [f"(model-died {rc})"]
        mid = len(lines) // 2
        return run_model(mode, lines[:mid], timeout) + run_model(mode, lines[mid:], timeout)
    return out


# ---------------------------------------------------------------- S-expressions

TOK = re.compile(r"\(|\)|[^\s()]+")


def parse_sexp(s):
    toks = TOK.findall(s)
    pos = 0

    def rd():
        nonlocal pos
        t = toks[pos]
        pos += 1
        if t == "(":
            l = []
            while toks[pos] != ")":
                l.append(rd())
            pos += 1
            return l
        return t

    return rd()


def canon_panic(s):
    """Panic messages differ between the two sides; only the fact is compared."""
    return re.sub(r"\(panic x[0-9a-f]*\)", "(panic)", s)


def child(sx, head):
    for c in sx[1:]:
        if isinstance(c, list) and c and c[0] == head:
            return c
    return None


# ---------------------------------------------------------------- evidence / violations

class Report:
    def __init__(self, pid, tier, seed):
        self.pid, self.tier, self.seed = pid, tier, seed
        self.t0 = time.time()
        self.violations = []          # (kind, description, replay dict)
        self.known_hits = []
        self.coverage = {}
        self.assumptions = []
        self.known = load_known(pid)

    def violation(self, what, replay, finding_key=None, no_input=False):
        if finding_key and finding_key in self.known:
            if finding_key not in [k for k, _ in self.known_hits]:
                self.known_hits.append((finding_key, self.known[finding_key]))
            return
        self.violations.append((what, replay, no_input))

    def finish(self, level="proof"):
        os.makedirs(os.path.join(ROOT, "evidence"), exist_ok=True)
        wall = time.time() - self.t0
        ev = {
            "property_id": self.pid,
            "tier": self.tier,
            "seed": self.seed,
            "level": level,
            "coverage": self.coverage,
            "assumptions": self.assumptions,
            "wall_s": round(wall, 2),
            "violations": len(self.violations),
        }
        with open(os.path.join(ROOT, "evidence", self.pid + ".json"), "w") as f:
            json.dump(ev, f, indent=1, ensure_ascii=False)
        for key, text in self.known_hits:
            print(f"KNOWN-FINDING: property={self.pid} {key}: {text}")
        if not self.violations:
            print(f"OK property={self.pid} tier={self.tier} wall={wall:.1f}s")
            return 0
        rdir = os.path.join(WORK, "replays")
        os.makedirs(rdir, exist_ok=True)
        # violations with a concrete failing input first (only five are written out)
        ordered = sorted(self.violations, key=lambda v: bool(v[2]))
        for i, (what, replay, no_input) in enumerate(ordered[:5]):
            path = os.path.join(rdir, f"{self.pid}-{self.seed}-{i}.json")
            with open(path, "w") as f:
                json.dump({"property": self.pid, "what": what, "replay": replay}, f, indent=1, ensure_ascii=False)
            tail = " no-failing-input-found" if no_input else ""
            log(f"  violation: {what}")
            print(f"VIOLATION property={self.pid} replay={path}{tail}")
        return 1


def load_known(pid):
    """known_findings.txt lines: `known: property=<id> key=<key> <text>` suppress exactly that key;
    `fixed:` lines suppress nothing."""
    out = {}
    p = os.path.join(ROOT, "known_findings.txt")
    if os.path.exists(p):
        for ln in open(p):
            m = re.match(r"known: property=(\w+) key=(\S+) (.*)", ln.strip())
            if m and m.group(1) == pid:
                out[m.group(2)] = m.group(3)
    return out


def distinct_count(cases):
    return len({hashlib.sha1(repr(c).encode()).hexdigest() for c in cases})
