#!/usr/bin/env python3
"""seed_regress.py [name-prefix ...]
Regression over the stored seeded changes: for every seeded/<name>/patch.diff, apply it to /repo, run the quick check of
the property the change was written for and, if that stays silent, the other checks recorded as detecting it; undo the
change.  Writes seeded/REGRESSION.md.  /repo must be clean before and is clean after each change.
Not part of any registered check (it modifies /repo's working tree while it runs)."""
import json
import os
import re
import subprocess
import sys
import time

ROOT = "/verif"
names = sorted(d for d in os.listdir(f"{ROOT}/seeded") if os.path.isdir(f"{ROOT}/seeded/{d}"))
if len(sys.argv) > 1:
    names = [n for n in names if any(n.startswith(p) for p in sys.argv[1:])]


def clean():
    return subprocess.run(["git", "-C", "/repo", "status", "--porcelain"], capture_output=True, text=True).stdout.strip() == ""


rows = []
assert clean(), "/repo not clean"
for name in names:
    patch = f"{ROOT}/seeded/{name}/patch.diff"
    meta = json.load(open(f"{ROOT}/seeded/{name}/meta.json"))
    own = name[:3]
    others = []
    for d in meta.get("detected_by", []):
        m = re.match(r"(C\d\d)", d)
        if m and m.group(1) != own and m.group(1) not in others:
            others.append(m.group(1))
    r = subprocess.run(["git", "-C", "/repo", "apply", "--check", patch], capture_output=True, text=True)
    if r.returncode != 0:
        rows.append((name, "patch no longer applies", "", 0))
        print(name, "DOES NOT APPLY", flush=True)
        continue
    subprocess.run(["git", "-C", "/repo", "apply", patch], check=True)
    t0 = time.time()
    found, tried = [], []
    try:
        for pid in [own] + others:
            tried.append(pid)
            rr = subprocess.run([f"{ROOT}/check", pid, "--tier", "quick"], capture_output=True, text=True, cwd=ROOT)
            v = [l for l in rr.stdout.splitlines() if l.startswith("VIOLATION")]
            if v:
                concrete = any("no-failing-input-found" not in l for l in v)
                found.append(pid + ("" if concrete else " (no-failing-input-found)"))
                if concrete:
                    break
    finally:
        subprocess.run(["git", "-C", "/repo", "checkout", "--", "."], check=True)
    assert clean()
    rows.append((name, ", ".join(found) if found else "NOT DETECTED", ", ".join(tried), time.time() - t0))
    print(name, "->", rows[-1][1], f"({rows[-1][3]:.0f}s)", flush=True)

with open(f"{ROOT}/seeded/REGRESSION.md", "w") as f:
    f.write("# Regression over the stored seeded changes\n\n")
    f.write("Written by `tools/seed_regress.py` (quick tier; the check of the change's own property first, then the other\n"
            "checks recorded as detecting it, until one reports a concrete failing input).\n\n")
    f.write("| seeded change | detected by | checks run | seconds |\n|---|---|---|---|\n")
    for n, d, t, s in rows:
        f.write(f"| {n} | {d} | {t} | {s:.0f} |\n")
    miss = [n for n, d, _, _ in rows if d in ("NOT DETECTED", "patch no longer applies")]
    f.write(f"\n{len(rows)} changes, {len(rows) - len(miss)} detected" + (f"; attention: {', '.join(miss)}" if miss else "") + ".\n")
print("done")
