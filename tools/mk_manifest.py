#!/usr/bin/env python3
"""Writes /verif/MANIFEST.json from the table below (kept next to the checks so that the
claimed levels are edited together with the theorems they describe)."""
import json
import os

ROOT = os.path.dirname(os.path.dirname(os.path.abspath(__file__)))

COMMON_NOTE = ("Trusted: Lean 4.33 kernel (+ propext, Classical.choice, Quot.sound only; no native_decide, no sorry, no axioms of our own); "
               "the statements in lean/KikiVerif/Properties and Spec; the model↔code tie, which is checked on every run, not asserted: translator "
               "tools/extract.py for the data parts (parser.rs tables, parser.kiki, lexer tables) and the differential correspondence harness "
               "(harness/ + lean/Main.lean + tools/) for the algorithmic parts; Rust std and the sha256 crate are modelled by contract. ")

P = {
    "C01": ("proof", "Generator theorem (every validated file, every token sequence of any length, any payload type; C01_every_grammar): whenever Encode.encode, validated_ast_to_machine (FIRST fixpoint, closures, worklist with LALR merging by core, renumbering) and machine_to_table succeed in the model, the emitted parse loop over the emitted tables never panics and, whenever it ends, returns Ok iff the token kinds are derivable from the start symbol. Proof chain (≈3 500 lines, Proofs/{First,Closure,Cores,Build,Normalize,Generator,TableCells,Assemble,Universal,Encode}): FIRST map closed; closures closed and kernel-generated; worklist invariants through merge/append; normalisation is an isomorphism; table cells = item demands / transitions; hence machine+table pass every check of the validator (C01_generator_passes_validator), whose soundness (validB_sound ⇒ Sound ∧ Complete) and the generic LR theorems (C01_accepts_iff, C01_sentences_terminate, C01_no_panic_and_sound, C01_complete) finish. "
            "Tie to the code: the model equals the implementation at every stage (tokens … machine, table, text) on every generated grammar; independently the validator is run on the machine and table the *implementation* built, and the compiled emitted parsers are run against an Earley recogniser and the model driver. "
            "Residue: halting of the emitted driver on non-sentences is tested (watchdog), not proved (the generator's own loops are proved to terminate: C07_generator_total). The coded grammar is the declared grammar under an injective renaming name ↦ rank (C01_coding_faithful).",
            "§0, §6.1–6.2, §7 C01", "generator theorem for every grammar + stage-by-stage model=implementation + validator on the implementation's automata + compiled-parser correspondence"),
    "C02": ("proof", "Theorems: for every validated file for which the generator stages succeed, whatever the emitted loop returns with Ok is a derivation tree of the grammar whose leaves are the input tokens themselves (payloads opaque), each once and in order, and it is the only derivation tree of that input (C02_every_grammar, via the generator theorem); the same for every validB-accepted automaton (C02_faithful, C02_tree, C02_that_tree, C02_unique). "
            "The user-visible value (userView, derive(Debug) rendering) is compared with the compiled parser's Ok value and with the Earley oracle's unique tree projected through the declared fieldsets; a panic on a sentence is a violation.",
            "§0, §6.1–6.2, §7 C02", "generator theorem + generic LR theorems + Debug-rendering correspondence"),
    "C03": ("proof", "Theorems, for every token sequence and payload type: for every validated file with productive nonterminals for which the generator stages succeed, an error stop of the emitted loop over the emitted tables satisfies the three clauses below (C03_every_grammar, via the generator theorem plus: every state's cores are generated from its kernel, every transition target has a kernel item); for every grammar and automaton accepted by the three proved-sound executable validators validB (Sound ∧ Complete), tightB (every item in the closure of its state's kernel, no empty target state) and productiveB, an error stop of the emitted loop has consumed a prefix of some sentence, its lookahead token is the first token that makes the prefix dead, and Err(None) only happens on a proper prefix of a sentence (C03_first_offending); the error is never early for any Complete automaton (C03_not_early); the run up to the error is independent of everything after the lookahead (C03_lookahead_only = nothing beyond the reported token is used); C03_viable. The validators run on the implementation's own machine and table for every generated grammar, and in the kernel on parser.rs (C03_front_end, C03_front_end_first_offending). "
            "Partial: for grammars with unproductive nonterminals the reference is a canonical LR(1) driver (oracle, no theorem); the actual number of iterator pulls of the compiled parser is observed with a counting iterator.",
            "§6.1(3), §7 C03", "first-offending-token theorem over validated automata + compiled-parser correspondence with counting iterator"),
    "C04": ("proof", "Theorems: for every validated file, whenever validated_ast_to_machine returns a machine m, machine_to_table either returns a table and m has no pair of items demanding different actions on one lookahead column, or reports a conflict that is such a pair — there is no third outcome (no panic), so a parser is emitted iff the generated automaton is conflict-free (C04_emitted_iff_conflict_free, from the generator invariants MachineOK + Proofs/NoPanic); for any automaton: C04_ok_conflict_free, C04_conflict_genuine, C04_setAction_*. The generated automaton is proved to be *the* LALR(1) automaton of the grammar — the canonical LR(1) collection merged by core (C17_is_lalr1) — w.r.t. a FIRST map proved closed and sound. "
            "Termination of the generator is C07_generator_total. Independently the verdict is compared on every generated grammar with conflict-freeness of a specification-side canonical-LR(1)-merged-by-core construction (a different algorithm) and with the model.",
            "§6.2, §6.3, §7 C04", "emitted-iff-conflict-free theorem on the generated automaton + verdict vs spec-side LALR(1) oracle"),
    "C05": ("proof", "A theorem cannot say 'rustc accepts'. Proved (the hygiene 'for every naming' needs): every internal name chosen by create_unique_identifier is fresh w.r.t. all names in use and is recorded (C05_fresh); the twelve internal names are pairwise distinct and none is a user identifier, whatever the user's naming (C05_names_distinct); the search always finds them (C05_names_exist, pigeonhole). "
            "The emitted text is byte-equal to the model's rendering; rustc type-checks the emitted module for adversarial namings (generator-internal names, S, Eof, numeric-suffix neighbours, letterless names) with derive-less payload types. Known finding: zero-variant terminal enum.",
            "§7 C05, §12", "freshness theorem + rustc on adversarial namings"),
    "C06": ("proof", "Theorems on the emitted module (structure level): one public item per nonterminal with the declared name, in declaration order, struct for struct / enum for enum; the parse signature names the start type and the terminal enum (C06_items_and_signature); field level (C06_fields): the k-th item mirrors the k-th declaration — a struct's field list and each enum variant's (same variant names, same order) is unit-like when no field is used and otherwise lists exactly the used fields in declaration order, `_` fields omitted, named fields under their names, typed Box<N> for a nonterminal N and with the terminal's declared payload type for a terminal. "
            "The text (pub, punctuation, layout) is the rendering of that structure: checked by byte equality with the model's rendering on every generated grammar and by reading the emitted text back (strict reader of Rust item syntax) and comparing with the declaration→Rust mapping of the property.",
            "§7 C06", "module-structure theorems (items, signature, fields) + strict read-back of the emitted text"),
    "C07": ("proof", "Theorem, end to end, for every source text and every fuel: generate never stops at a panic site (C07_generate_no_panic over Generate.stages, the model of lib.rs::generate with an explicit panic outcome at every unwrap / expect / slice / index of the Rust code): tokenizer slices (tokenize = total scanner spec), front-end parser and parse-error slice (kernel-checked tables; token positions), cst_to_ast, validation, symbol coding after validation (C07_emission_total), FIRST-map unwraps, index_map[i], rules[i], get_shift_dest(..).unwrap(), 'Impossible: goto conflict', table index checks (C07_generator_no_panic, from the generator invariants), get_type(..).unwrap(), method lookup, and the unique-identifier search (pigeonhole). Termination: validated_ast_to_machine terminates with a machine for every coded grammar — explicit bound genFuel — after which machine_to_table returns a table or a genuine conflict (C07_generator_total); all other stages are structural recursions. "
            "Partial: termination of the table-driven front-end parse loop on invalid token lists (and of emitted parsers on non-sentences) is not a theorem; stack depth and allocation failure are outside the model. Every stage runs under catch_unwind with a watchdog (and generate() in child processes) on valid, mutated, malformed and size-bound inputs, and the model's outcome class and every intermediate value are compared with the implementation's.",
            "§7 C07", "end-to-end no-panic theorem + generator termination theorem + catch_unwind/watchdog correspondence"),
    "C08": ("proof", "Full for the tokenizer: for every source text, the character state machine of tokenize.rs (model with explicit byte indices and source slices) = the scanner specification Spec.scan, which states the documented rules with explicit maximal munch and a bracket stack: same tokens, payloads and byte positions, or the same Lex(index, char?) (C08_tokenize_eq_spec; ≈ 900 lines of proof). Spec is total and only reports Lex (C08_scan_total); `::` is always one token; every returned token sits in the source at its own start offset: slicing the source by its span gives its text (C08_positions). "
            "The implementation is compared with scan and with the model on every generated text and on single-character probes over all scalars < U+3100 (all scalars in thorough).",
            "§0, §7 C08", "tokenize = scanner-specification theorem + three-way differential"),
    "C09": ("proof", "Kernel-checked over data regenerated from parser.rs / parser.kiki on every run: the checked-in ACTION/GOTO tables satisfy every local LR validity condition for the grammar of parser.kiki (C09_table_valid, decide +kernel), hence for every token list the front-end parser never panics, returns a CST iff the list is a sentence of that grammar, and the CST's leaves are the input tokens (C09_parse_correct); kinds, rule numbering and reduce arms agree (C09_kinds, _nonterminals, _rule_numbering, _reduce_arms); a parse error carries exactly the start offset, text (the source slice) and end offset of the token the parser stopped at, which exists, or (len, \"\", len) at end of input, and the conversion cannot panic (C09_error_span); that token is the first offending one (C03_front_end_first_offending: tightB and productiveB also hold in the kernel for parser.rs); cst_to_ast loses nothing (C09_flatten). "
            "Partial: halting on invalid token lists; the error span is additionally compared with an Earley oracle's least dead prefix and the token texts on every generated invalid file.",
            "§0, §7 C09", "translator + kernel evaluation of the validator + Earley oracle"),
    "C10": ("proof", "Theorems, for every AST: validate_ast = Ok ⇔ WellFormed (Spec/WellFormed.lean: exactly one start naming a defined nonterminal, exactly one terminal enum, every reference defined in its own namespace, pairwise distinct top-level names, per-enum distinct variant names and symbol sequences, capitalisation) — C10_ok_sound, C10_ok_iff_wellFormed; validate_ast = Err e ⇒ Truthful e (variant, name or sequence and both byte positions describe a violation present at those positions, with any combination of simultaneous violations) — C10_err_truthful; Truthful e ⇒ ¬WellFormed (the two specifications agree); no panicking path. "
            "Tie to the code: the model's answer is compared with the implementation's on files with 0–3 injected violations of 29 kinds (incl. cross-namespace names), and Truthful/WellFormed are also evaluated by an independent Python oracle on the implementation's answers.",
            "§7 C10", "Ok⇔WellFormed + Err⇒Truthful theorems; model=impl on injected violations"),
    "C11": ("proof", "Theorems: a conflict report names a state of the automaton, two items of that state, and they demand different parser actions on the same lookahead column (C11_payload; every grammar, every automaton); for every validated file the attached automaton — the machine validated_ast_to_machine built, conflicts or not — has exactly the item sets (lookaheads included) generated by the LALR(1) propagation rules over its transition graph w.r.t. a closed and sound FIRST map, one state per core, functional transitions (C11_attached_automaton, from the generator invariants). "
            "It is the canonical LR(1) collection merged by core (C17_is_lalr1). "
            "Partial: 'attached file = validated input' and, independently, the isomorphism with a separately written LALR(1) construction are checked on every conflicting grammar of the run against the independent LALR(1) construction and the model.",
            "§6.2, §7 C11", "conflict-payload theorem + exact attached automaton + LALR(1) isomorphism oracle"),
    "C12": ("proof", "Theorems: the attribute token is exactly the source slice the scanner specification delimits with a bracket stack (via C08_tokenize_eq_spec); every emitted type item carries exactly its declaration's attribute texts, in order (C12_emit); render prints them one per line directly before the item; cst_to_ast keeps every attribute token, in order, on its own declaration (C12_order, from C09_flatten); the attribute's text is the source slice at its position (C08_positions). "
            "The rendering step (one attribute per line, immediately before the item, nowhere else) is tied by byte equality with the model and verbatim occurrence is checked on the emitted text for attributes with non-ASCII text and nested brackets.",
            "§7 C12", "tokenizer theorem + structure theorem + verbatim check on emitted text"),
    "C13": ("proof", "Theorems: the type string stored for a terminal is the concatenation of the tokens of the payload type as written — every path segment, `::`, `<`, `>`, `(`, `)` verbatim and `, ` per comma, any nesting depth (C13_type_tokens); the AST's tokens are the user's tokens in order (C13_type_order, from cst_to_ast order preservation); terminal enum variants and try_into_* methods carry the validated type string of that terminal (C13_use_sites). "
            "Partial: field use sites go through get_type in the text emitter, which is tied by the correspondence: every use site in the emitted text is re-tokenised and compared with the declaration (types nested to depth 5, near-duplicate terminal names).",
            "§7 C13", "token-for-token rendering theorems + re-tokenisation of use sites"),
    "C14": ("proof", "Theorems for both places where the crate iterates over a hash collection (all other HashMap/HashSet uses are get/contains/insert only): collecting the transition HashSet into an Oset gives the same vector for every iteration order (C14_ofList_perm); build_as_is returns the same table for every iteration order of TableBuilder's two maps, whose keys are proved distinct (C14_table_order_independent). Everything else in the model is a function of the input by construction. "
            "generate is additionally run 10× per text in fresh threads and in further processes (fresh RandomState) and compared byte for byte / structurally.",
            "§7 C14", "permutation-invariance theorems for both hash-iteration sites + repeated runs across threads/processes"),
    "C15": ("proof", "Full for the model: for all texts get_grammar_hash = remainder of the first `// @sha256 ` line inside the leading `//` block, else None (C15_spec); for every emitted module get_grammar_hash(render m) = the digest in the header (C15_roundtrip) and the build-script freshness test succeeds iff the digests are equal (C15_fresh). "
            "SHA-256 itself is a parameter: the real header is compared with hashlib on every generated output.",
            "§7 C15", "specification + round-trip theorems + hashlib"),
    "C16": ("proof", "Theorems: tokenize = Spec.scan (C08), and the scanner specification skips a White_Space character (any of the 25) and a `//` comment up to and including its newline, or up to the end of the input, without producing a token (C16_skip_whitespace, C16_skip_comment, C16_trailing_comment); the scanner is translation invariant — the same characters at another offset give the same tokens with positions moved by the difference (C16_translation_invariant) — so leading layout changes nothing but positions (C16_leading_whitespace). "
            "Partial: that the later stages depend on token positions only through error positions (the relabelling lemma) is not a theorem; every base file is compared with random re-layouts (all 25 White_Space characters, CR/LF, comments) modulo digest and position→token-index map.",
            "§7 C16", "scanner theorems + re-layout differential"),
    "C17": ("proof", "Theorems, for every validated file for which the generator stages succeed: the item sets of the generated automaton, lookaheads included, are exactly the least fixed point of the LALR(1) propagation rules over its transition graph — augmented initial item with end of input; [B → ·γ, b] for every b ∈ FIRST(β a) in the state of [A → α·Bβ, a]; the dot moved along transitions, contributions of all predecessor states united (C17_items_exact); no two states have the same core and transitions are functional (C17_one_state_per_core); an ACTION cell is non-error iff an item of its state demands it there (reduce exactly on the item's lookaheads, accept on end of input, shift to the transition target), GOTO cells are exactly the nonterminal transitions, Err/None elsewhere (C17_cells, C17_empty_table). The FIRST map used by the rules is proved closed under the FIRST equations (complete) and sound (every terminal in FIRST(B) begins a sentential form derived from B; nullable marks are true). "
            "That is the textbook definition: the generated automaton is the canonical LR(1) collection merged by core — every canonical state lies inside exactly one machine state with the same cores, every item of a machine state (lookahead included) lies in a canonical state with that core, every machine state merges at least one canonical state (C17_is_lalr1, Proofs/Canonical). "
            "Independently, tables read back from the emitted text are compared, modulo the renumbering from the start state, with the tables of an independent specification-side LALR(1) construction on every accepted grammar.",
            "§6.2, §6.3, §7 C17", "generated automaton = canonical LR(1) merged by core, exact cells, for every grammar + LALR(1) table oracle on emitted text"),
    "C18": ("proof", "Full: for every history of new/from_iter/insert/extend over any type with a lawful total order: strictly ascending vector, membership = the mathematical set, contains decides membership, iteration yields each element once ascending, equal element sets ⇒ equal vectors (C18_sorted, _refines, _contains, _iter, _ext). "
            "std sort/dedup/binary_search are modelled by contract; kiki::Oset is compared with BTreeSet and with the model on random histories over u32, (u8,u8), String.",
            "§7 C18", "invariant + refinement + extensionality theorems"),
}


def main():
    checks = []
    for pid in sorted(P):
        cat, text, ref, tech = P[pid]
        checks.append({
            "property_id": pid,
            "quick_cmd": f"./check {pid} --tier quick",
            "thorough_cmd": f"./check {pid} --tier thorough",
            "evidence_file": f"/verif/evidence/{pid}.json",
            "replay_cmd_template": f"./check {pid} --replay {{path}}",
            "engine": "lean4-proof+correspondence",
            "level_claimed": {"category": cat, "text": text, "design_ref": ref},
            "level_note": COMMON_NOTE,
            "technique": "Lean 4 theorems over an executable model, tied to the code by translator + differential correspondence: " + tech,
        })
    m = {
        "version": 1,
        "setup_cmd": "./setup.sh",
        "hooks": {
            "guard": "kylejlin_kiki_verif",
            "enable": "RUSTFLAGS=\"--cfg kylejlin_kiki_verif\" (set in harness/.cargo/config.toml); enables `pub mod verif_hooks` in kiki/src/lib.rs",
            "baseline_off_cmd": "cd /repo && cargo test --workspace --no-fail-fast --offline",
            "source_commits": ["5f0d4c4"],
            "add_only": True,
        },
        "engines": [{
            "name": "lean4-proof+correspondence",
            "path": "/verif/check",
            "serves_properties": sorted(P),
            "kind_free_text": "Lean 4 model + theorems (lean/), translator (tools/extract.py), Rust harness (harness/), Python orchestration, generators and specification oracles (tools/)",
        }],
        "checks": checks,
        "not_applicable": [],
        "notes": "See DESIGN.md §0 (as built), §12 (defects: 9 fixed by 'fix:' commits in /repo, 1 recorded in known_findings.txt), §15 (seeded changes from fresh sub-agents, four-plus rounds, and which checks catch them), §16 (behaviour-preserving refactorings: no alarm). Thorough tier additionally replays each property module through leanchecker.",
    }
    with open(os.path.join(ROOT, "MANIFEST.json"), "w") as f:
        json.dump(m, f, indent=1, ensure_ascii=False)


if __name__ == "__main__":
    main()
