#!/usr/bin/env python3
"""Writes /verif/MANIFEST.json from the table below (kept next to the checks so that the
claimed levels are edited together with the theorems they describe)."""
import json
import os

ROOT = os.path.dirname(os.path.dirname(os.path.abspath(__file__)))

COMMON_NOTE = ("Trusted: Lean 4.33 kernel (+ propext, Classical.choice, Quot.sound only; no native_decide, no sorry, no axioms of our own); "
               "the statements in lean/KikiVerif/Properties and Spec; the model↔code tie, which is checked on every run, not asserted: translator "
               "tools/extract.py for the data parts (parser.rs tables, parser.kiki, lexer tables) and the differential correspondence harness "
               "(harness/ + lean/Main.lean + tools/) for the algorithmic parts; Rust std and the sha256 crate are modelled by contract. ")

P = {
    "C01": ("proof", "Theorems (all grammars, all token strings, unbounded): for any automaton satisfying the local conditions Sound/Complete the emitted driver (LR.step) never panics, "
            "Ok ⇒ the returned tree is a derivation tree of the whole input, and every sentence is accepted with its tree (C01_no_panic_and_sound, C01_complete). "
            "That the generator's automaton satisfies Sound∧Complete is established per generated grammar; the compiled emitted parsers are run against an Earley recogniser and the model driver. "
            "Residue: halting on non-sentences is tested (watchdog), not proved; Sound∧Complete for *every* grammar (generator proof) is not yet a theorem.",
            "§6.1, §7 C01", "generic LR soundness/completeness theorems + per-grammar validation + compiled-parser correspondence"),
    "C02": ("proof", "Theorems: Ok t ⇒ WF t start ∧ yield t = the consumed tokens themselves (payloads opaque, each once, in order) (C02_tree); for a sentence the driver returns exactly its derivation tree (C02_that_tree); "
            "two derivation trees with one yield are equal, i.e. unambiguity under Complete (C02_unique). The user-visible value (userView/Debug) is compared with the compiled parser's Ok value and with the Earley oracle's unique tree.",
            "§6.1, §7 C02", "generic LR theorems + Debug-rendering correspondence"),
    "C03": ("proof", "Theorem: under CoreSound every item in the top state is LR(0)-valid for the stack symbols (C03_viable) — the 'no shift past a dead prefix' core. "
            "Partial: the converse (no early stop), the productivity step to Extendable and the pull count are established by the correspondence (counting iterator vs prefix-Earley oracle, canonical LR(1) reference for unproductive grammars), not yet by theorem.",
            "§6.1(3), §7 C03", "viable-prefix theorem + compiled-parser correspondence with counting iterator"),
    "C04": ("proof", "Theorems about conflict detection in machine_to_table: a second demand for a filled cell is accepted iff it is the same action; an empty cell is always filled (C04_setAction_*). "
            "Partial: 'the automaton is the LALR(1) automaton' (§6.3) is not a theorem; the verdict is compared on every generated grammar with conflict-freeness of a specification-side LALR(1) construction (canonical LR(1) merged by core, a different algorithm) and with the model.",
            "§6.3, §7 C04", "set_action theorems + verdict vs spec-side LALR(1) oracle"),
    "C05": ("proof", "A theorem cannot say 'rustc accepts'. Proved: every internal name chosen by create_unique_identifier is fresh w.r.t. all names in use and is recorded (C05_fresh). "
            "The emitted text is byte-equal to the model's rendering; rustc type-checks the emitted module for adversarial namings (generator-internal names, S, numeric-suffix neighbours, letterless names) with derive-less payload types. "
            "Known finding: zero-variant terminal enum does not compile.",
            "§7 C05, §12", "freshness theorem + rustc on adversarial namings"),
    "C06": ("proof", "Theorem: the emitted structure has one public item per nonterminal with the declared name, in declaration order, struct for struct / enum for enum, and the parse signature names the start type and the terminal enum (C06_items_and_signature). "
            "Field-level mirroring (Box<N>, payload types, `_` dropped, pub) is checked by reading the emitted text back and comparing with the declaration→Rust mapping of the property, and by byte equality with the model's rendering.",
            "§7 C06", "structure theorem + reader oracle on emitted text"),
    "C07": ("proof", "First layer only: bracket scan and main-state character handler never panic (theorems). Partial: the full C07_no_panic / C07_terminates are not yet theorems; every stage is run under catch_unwind (and generate() in child processes) on valid, mutated, malformed and size-bound inputs, and the outcome class is compared with the model, whose panics are explicit (Res.panic at every unwrap/slice/index site).",
            "§7 C07", "partial no-panic theorems + catch_unwind correspondence"),
    "C08": ("proof", "Spec.scan (lean/KikiVerif/Spec/Lex.lean) states the documented rules as a scanner with explicit maximal munch and a bracket stack; theorem: it is total and only ever reports Lex errors (C08_scan_total), `::` is always one token (C08_double_colon). "
            "Partial: tokenize = scan is not yet a theorem; the implementation is compared with scan and with the state-machine model on every generated text.",
            "§7 C08", "scanner specification + three-way differential (impl, model, spec)"),
    "C09": ("proof", "Kernel-evaluated theorems over data regenerated from parser.rs / parser.kiki on every run: token kinds, nonterminal kinds, rule numbering and reduce arms (pops = truncate = |rhs|, lhs) agree between parser.rs, parser.kiki and the model (C09_*). "
            "Partial: validity of the extracted tables for the Kiki grammar (⇒ 6.1 theorems) is not yet kernel-checked; acceptance and the exact error span are compared with an Earley oracle for the grammar read from parser.kiki.",
            "§7 C09", "translator + decide over extracted data + Earley oracle"),
    "C10": ("proof", "Theorem: validate succeeds only with exactly one terminal declaration and exactly one start, whose name is the returned start (C10_one_start_one_terminal). "
            "Partial: the full Ok ⇒ WellFormed / Err ⇒ Truthful are evaluated as oracles on the implementation's answers for files with 0–3 injected violations of 23 kinds (incl. cross-namespace names), and the answers are compared with the model.",
            "§7 C10", "partial theorem + WellFormed/Truthful oracles"),
    "C11": ("proof", "Theorem: set_action reports a conflict only for the state asked about, pairs the item that filled the cell with the new item, and their actions differ (C11_setAction_conflict). "
            "Partial: membership of both items in the state and 'attached machine = LALR(1) automaton' are checked on every conflicting grammar of the run against the oracle (and all public fields against the model).",
            "§7 C11", "set_action theorem + payload oracle"),
    "C12": ("proof", "Theorem: every emitted type item carries exactly its declaration's attribute texts, in order (C12_emit); render prints them one per line directly before the item. "
            "Partial: the tokenizer side (attribute token = source slice) rests on tokenize = scan (not yet a theorem) and is compared on attributes with non-ASCII text and nested brackets.",
            "§7 C12", "structure theorem + verbatim check on emitted text"),
    "C13": ("proof", "Theorem: terminal enum variants and try_into_* methods carry the validated type string of that terminal (C13_use_sites). "
            "Partial: typeToString/tokenize round trip is not yet a theorem; every use site in the emitted text is re-tokenised and compared with the declaration (types nested to depth 5).",
            "§7 C13", "structure theorem + re-tokenisation of use sites"),
    "C14": ("proof", "Theorem: collecting a hash set into an Oset gives the same vector for every iteration order (C14_ofList_perm, site 1 of 3). "
            "Partial: sites 2–3 (table written by key, defined-identifier set) not yet theorems; generate is run 10× per text in fresh threads and in further processes (fresh RandomState) and compared byte for byte.",
            "§7 C14", "permutation-invariance theorem + repeated runs across threads/processes"),
    "C15": ("proof", "Theorem for all texts: get_grammar_hash = remainder of the first `// @sha256 ` line inside the leading `//` block, else None (C15_spec, stated with takeWhile/find?). "
            "Partial: the round trip through render is checked on generated outputs (digest compared with hashlib); SHA-256 itself is a parameter.",
            "§7 C15", "spec theorem + round-trip correspondence"),
    "C16": ("proof", "Theorem: the specification scanner skips a White_Space character without producing a token (C16_skip_whitespace). "
            "Partial: comment skipping and the downstream relabelling lemma are not yet theorems; every base file is compared with random re-layouts (Unicode spaces, CR/LF, comments) modulo digest and position→token-index map.",
            "§7 C16", "scanner lemma + re-layout differential"),
    "C17": ("proof", "Theorem: the table starts all-Err/None (C17_empty_table) and cells are only written by key. "
            "Partial: exactness w.r.t. the LALR(1) automaton (§6.3) is not a theorem; tables read back from the emitted text are compared, modulo the renumbering from the start state, with the tables of the specification-side LALR(1) construction on every accepted grammar.",
            "§6.3, §7 C17", "table theorem + LALR(1) table oracle on emitted text"),
    "C18": ("proof", "Full: for every history of new/from_iter/insert/extend over any type with a lawful total order: strictly ascending vector, membership = the mathematical set, contains decides membership, iteration yields each element once ascending, equal element sets ⇒ equal vectors (C18_sorted, _refines, _contains, _iter, _ext). "
            "std sort/dedup/binary_search are modelled by contract; kiki::Oset is compared with BTreeSet and with the model on random histories over u32, (u8,u8), String.",
            "§7 C18", "invariant + refinement + extensionality theorems"),
}


def main():
    checks = []
    for pid in sorted(P):
        cat, text, ref, tech = P[pid]
        checks.append({
            "property_id": pid,
            "quick_cmd": f"./check {pid} --tier quick",
            "thorough_cmd": f"./check {pid} --tier thorough",
            "evidence_file": f"/verif/evidence/{pid}.json",
            "replay_cmd_template": f"./check {pid} --replay {{path}}",
            "engine": "lean4-proof+correspondence",
            "level_claimed": {"category": cat, "text": text, "design_ref": ref},
            "level_note": COMMON_NOTE,
            "technique": "Lean 4 theorems over an executable model, tied to the code by translator + differential correspondence: " + tech,
        })
    m = {
        "version": 1,
        "setup_cmd": "./setup.sh",
        "hooks": {
            "guard": "kylejlin_kiki_verif",
            "enable": "RUSTFLAGS=\"--cfg kylejlin_kiki_verif\" (set in harness/.cargo/config.toml); enables `pub mod verif_hooks` in kiki/src/lib.rs",
            "baseline_off_cmd": "cd /repo && cargo test --workspace --no-fail-fast --offline",
            "source_commits": ["5f0d4c4"],
            "add_only": True,
        },
        "engines": [{
            "name": "lean4-proof+correspondence",
            "path": "/verif/check",
            "serves_properties": sorted(P),
            "kind_free_text": "Lean 4 model + theorems (lean/), translator (tools/extract.py), Rust harness (harness/), Python orchestration, generators and specification oracles (tools/)",
        }],
        "checks": checks,
        "not_applicable": [],
        "notes": "See DESIGN.md. Genuine defects found: known_findings.txt (9 fixed by 'fix:' commits in /repo, 1 recorded as known).",
    }
    with open(os.path.join(ROOT, "MANIFEST.json"), "w") as f:
        json.dump(m, f, indent=1, ensure_ascii=False)


if __name__ == "__main__":
    main()
