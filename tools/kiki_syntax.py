"""A small, independent reader of the .kiki syntax (USER_GUIDE.md), used by the
translators (parser.kiki -> Lean data) and by the case generators' self-checks.
It is deliberately simple: regular-expression tokens + recursive descent.
It does not share code with the Rust implementation or the Lean model."""
import re

TOKEN_RE = re.compile(r"""
    (?P<ws>\s+)
  | (?P<comment>//[^\n]*)
  | (?P<attr>\#\[[^\n]*\])          # attributes in parser.kiki are simple one-liners
  | (?P<tident>\$[A-Za-z_][A-Za-z0-9_]*)
  | (?P<ident>[A-Za-z_][A-Za-z0-9_]*)
  | (?P<dcolon>::)
  | (?P<punct>[:,(){}<>])
""", re.X)

KEYWORDS = {"start", "struct", "enum", "terminal", "_"}


def tokenize(text):
    pos, out = 0, []
    while pos < len(text):
        m = TOKEN_RE.match(text, pos)
        if not m:
            raise ValueError(f"kiki_syntax: cannot tokenize at {pos}: {text[pos:pos+20]!r}")
        pos = m.end()
        kind = m.lastgroup
        if kind in ("ws", "comment"):
            continue
        val = m.group()
        if kind == "ident" and val in KEYWORDS:
            kind = val
        out.append((kind, val))
    return out


class P:
    def __init__(self, toks):
        self.t, self.i = toks, 0

    def peek(self, k=0):
        return self.t[self.i + k] if self.i + k < len(self.t) else ("eof", "")

    def take(self, kind, val=None):
        k, v = self.peek()
        if k != kind or (val is not None and v != val):
            raise ValueError(f"kiki_syntax: expected {kind} {val}, got {k} {v} at token {self.i}")
        self.i += 1
        return v

    def file(self):
        items = []
        while self.peek()[0] != "eof":
            items.append(self.item())
        return items

    def item(self):
        if self.peek()[0] == "start":
            self.take("start")
            return {"kind": "start", "name": self.take("ident")}
        attrs = []
        while self.peek()[0] == "attr":
            attrs.append(self.take("attr"))
        k = self.peek()[0]
        if k == "struct":
            self.take("struct")
            name = self.take("ident")
            return {"kind": "struct", "attrs": attrs, "name": name, "fieldset": self.fieldset()}
        if k == "enum":
            self.take("enum")
            name = self.take("ident")
            self.take("punct", "{")
            variants = []
            while self.peek() != ("punct", "}"):
                vname = self.take("ident")
                variants.append({"name": vname, "fieldset": self.fieldset()})
            self.take("punct", "}")
            return {"kind": "enum", "attrs": attrs, "name": name, "variants": variants}
        if k == "terminal":
            self.take("terminal")
            name = self.take("ident")
            self.take("punct", "{")
            variants = []
            while self.peek() != ("punct", "}"):
                t = self.take("tident")[1:]
                self.take("punct", ":")
                variants.append({"name": t, "type": self.type_()})
            self.take("punct", "}")
            return {"kind": "terminal", "attrs": attrs, "name": name, "variants": variants}
        raise ValueError(f"kiki_syntax: unexpected {self.peek()}")

    def sym(self):
        k, v = self.peek()
        if k == "tident":
            self.i += 1
            return {"t": v[1:]}
        return {"n": self.take("ident")}

    def fieldset(self):
        if self.peek() == ("punct", "{"):
            self.take("punct", "{")
            fields = []
            while self.peek() != ("punct", "}"):
                k, v = self.peek()
                if k == "_":
                    self.i += 1
                    name = None
                else:
                    name = self.take("ident")
                self.take("punct", ":")
                fields.append({"name": name, "sym": self.sym()})
            self.take("punct", "}")
            return {"kind": "named", "fields": fields}
        if self.peek() == ("punct", "("):
            self.take("punct", "(")
            fields = []
            while self.peek() != ("punct", ")"):
                if self.peek()[0] == "_":
                    self.i += 1
                    self.take("punct", ":")
                    fields.append({"used": False, "sym": self.sym()})
                else:
                    fields.append({"used": True, "sym": self.sym()})
            self.take("punct", ")")
            return {"kind": "tuple", "fields": fields}
        return {"kind": "empty"}

    def path(self):
        p = [self.take("ident")]
        while self.peek()[0] == "dcolon":
            self.i += 1
            p.append(self.take("ident"))
        return p

    def type_(self):
        if self.peek() == ("punct", "("):
            self.take("punct", "(")
            self.take("punct", ")")
            return {"kind": "unit"}
        p = self.path()
        if self.peek() == ("punct", "<"):
            self.take("punct", "<")
            args = [self.type_()]
            while self.peek() == ("punct", ","):
                self.i += 1
                args.append(self.type_())
            self.take("punct", ">")
            return {"kind": "complex", "callee": p, "args": args}
        return {"kind": "path", "path": p}


def parse(text):
    return P(tokenize(text)).file()


def fieldset_syms(fs):
    if fs["kind"] == "empty":
        return []
    return [f["sym"] for f in fs["fields"]]


def rules_of(items):
    """One rule per struct / enum variant, in declaration order: (lhs, ctor, rhs symbols)."""
    out = []
    for it in items:
        if it["kind"] == "struct":
            out.append((it["name"], it["name"], fieldset_syms(it["fieldset"]), it["fieldset"]))
        elif it["kind"] == "enum":
            for v in it["variants"]:
                out.append((it["name"], it["name"] + "::" + v["name"], fieldset_syms(v["fieldset"]), v["fieldset"]))
    return out
