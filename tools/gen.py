"""Case generators.  Every random choice comes from one `random.Random` so a
case is replayable from (seed, index); cases are also stored in full in replay
files.  Grammars are built as structures (the same shape `kiki_syntax.parse`
returns) and rendered to .kiki text, so the oracles work on the structure and
never parse what the implementation parses."""
import random

INTERNAL_NAMES = [
    "State", "Node", "Action", "RuleKind", "Eof", "Eof2", "Quasiterminal", "QuasiterminalKind",
    "NonterminalKind", "ACTION_TABLE", "GOTO_TABLE", "S", "S0", "S2", "R0", "Terminal", "Error",
    "Item", "T", "Node2", "Node3", "State2", "Shift", "Reduce", "Accept", "_1", "__", "A_b", "X9",
    # shapes of capitals, digits and underscores (what pascal_to_snake_case and the capitalisation rules look at)
    "HTTPServer", "XMLHttpRequest", "X", "Xy", "XY", "XyZ", "X1", "X1y", "X_y", "X_Y", "Xy_", "X__y", "A1B2", "AbCdEf", "ABCdef", "Zz9",
    "_X", "_9X", "X9_9", "Ab_Cd", "AB_CD", "A_", "Node_", "State_2",
]
PLAIN_NT = ["Expr", "Term", "Fac", "List", "Opt", "Pair", "Stmt", "Blk"]
PLAIN_T = ["Num", "Plus", "Star", "LP", "RP", "Id", "Semi", "Eq"]
FIELD_NAMES = ["a", "b", "c", "left", "right", "x_1", "_0", "states", "nodes", "t0", "self_", "inner"]
TYPES_SIMPLE = ["()", "usize", "String", "crate::P", "crate::data::Q"]
TYPES_GENERIC = ["Vec<usize>", "Vec<Vec<String>>", "crate::G<usize, String>", "std::collections::HashMap<String, Vec<crate::P>>",
                 "Option<crate::G<(), crate::G<usize, ()>>>"]


def sym_t(n):
    return {"t": n}


def sym_n(n):
    return {"n": n}


def random_fieldset(rng, syms, maxlen=4, allow_skip=True, p_empty=0.2):
    """syms: list of symbol dicts to draw from."""
    if not syms or rng.random() < p_empty:
        return {"kind": "empty"}
    n = rng.randint(1, maxlen)
    chosen = [rng.choice(syms) for _ in range(n)]
    if rng.random() < 0.5:
        names = rng.sample(FIELD_NAMES, n) if n <= len(FIELD_NAMES) else [f"f{i}" for i in range(n)]
        if n >= 2 and rng.random() < 0.3:
            # a family of field names that are prefixes of one another up to an underscore or an index — what the
            # generated locals (`<field>_<index>`) are built from: `lo`, `lo_col`, `lo_`, `lo_0`, `lo_1`, `lo_1_0`
            base = rng.choice(["lo", "name", "t", "x", "a"])
            fam = [base, base + "_" + rng.choice(["col", "pos", "x"]), base + "_", base + "_0", base + "_1", base + "_1_0", base + "0", base + "__"]
            names = [fam[0]] + rng.sample(fam[1:], min(n - 1, len(fam) - 1))
            names = (names + [f"f{i}" for i in range(n)])[:n]
            if rng.random() < 0.5:
                rng.shuffle(names)
        fields = []
        for nm, s in zip(names, chosen):
            skip = allow_skip and rng.random() < 0.3
            fields.append({"name": None if skip else nm, "sym": s})
        return {"kind": "named", "fields": fields}
    return {"kind": "tuple", "fields": [{"used": not (allow_skip and rng.random() < 0.3), "sym": s} for s in chosen]}


def fs_syms(fs):
    return [] if fs["kind"] == "empty" else [f["sym"] for f in fs["fields"]]


def sym_key(s):
    return ("t", s["t"]) if "t" in s else ("n", s["n"])


def random_grammar(rng, names="plain", payload="usize", derive=True, max_nt=4, max_t=4, maxlen=4, min_t=0, self_types=False):
    n_nt = rng.randint(1, max_nt)
    n_t = rng.randint(min_t, max_t)
    if names == "plain":
        nts = rng.sample(PLAIN_NT, n_nt)
        ts = rng.sample(PLAIN_T, n_t)
        tenum = "Token"
    else:
        pool = rng.sample(INTERNAL_NAMES, n_nt + n_t + 1)
        nts, ts, tenum = pool[:n_nt], pool[n_nt:n_nt + n_t], pool[-1]
        if n_t >= 2 and rng.random() < 0.2:
            # two terminals whose names have the same snake_case form (the `try_into_<snake>_<index>` methods differ
            # in the index only)
            a, b = rng.choice([("AB", "A_b"), ("XY", "X_y"), ("KeyWord", "Key_word"), ("AbC", "Ab_c"), ("X1Y", "X1_y")])
            if not ({a, b} & (set(nts) | {tenum})):
                ts = [a, b] + [t for t in ts if t not in (a, b)][: n_t - 2]
                rng.shuffle(ts)
    syms = [sym_n(x) for x in nts] + [sym_t(x) for x in ts] + [sym_t(x) for x in ts]
    attrs = ["#[derive(Debug)]"] if derive else []
    items = [{"kind": "start", "name": nts[0]}]
    decls = []
    for nt in nts:
        if rng.random() < 0.45:
            decls.append({"kind": "struct", "attrs": list(attrs), "name": nt, "fieldset": random_fieldset(rng, syms, maxlen)})
        else:
            nv = rng.choice([0, 1, 2, 2, 3, 3])
            variants, seen_seq = [], set()
            vnames = rng.sample(["Nil", "Cons", "One", "Two", "Wrap", "Leaf", "State", "Node"], nv)
            for vn in vnames:
                for _ in range(10):
                    fs = random_fieldset(rng, syms, maxlen)
                    key = tuple(sym_key(s) for s in fs_syms(fs))
                    if key not in seen_seq:
                        seen_seq.add(key)
                        variants.append({"name": vn, "fieldset": fs})
                        break
            decls.append({"kind": "enum", "attrs": list(attrs), "name": nt, "variants": variants})
    tvs = []
    for t in ts:
        if payload == "usize":
            ty = "usize"
        else:
            ty = rng.choice(TYPES_SIMPLE + TYPES_GENERIC)
            if self_types and rng.random() < 0.12:
                # a payload type spelled like something the file itself declares — a nonterminal, bare, boxed or as an
                # argument: a payload is never a symbol, whatever it is called.  (Only for pools that are not compiled:
                # the bare form makes an infinitely sized type when the nonterminal contains the terminal.)
                n = rng.choice(nts)
                ty = rng.choice([n, n, f"Box<{n}>", f"Vec<{n}>", f"Option<Box<{n}>>"])
        tvs.append({"name": t, "type": ty})
    if payload != "usize" and tvs and rng.random() < 0.35:
        # a second terminal whose name differs from an existing one only in letter case, an underscore
        # or a numeric suffix, with a different payload type, used where the first one is used
        base = rng.choice(tvs)
        variants = [base["name"].upper(), base["name"] + "_", base["name"] + "2", base["name"][0] + base["name"][1:].swapcase()]
        nm = rng.choice([v for v in variants if v != base["name"]] or [base["name"] + "X"])
        taken = {v["name"] for v in tvs} | set(nts) | {tenum}
        if nm not in taken:
            others = [x for x in TYPES_SIMPLE + TYPES_GENERIC if x != base["type"]]
            tvs.append({"name": nm, "type": rng.choice(others)})
            for d in decls:
                fss = [d["fieldset"]] if d["kind"] == "struct" else [v["fieldset"] for v in d["variants"]]
                for fs in fss:
                    if fs["kind"] != "empty":
                        for f in fs["fields"]:
                            if f["sym"].get("t") == base["name"] and rng.random() < 0.5:
                                f["sym"] = sym_t(nm)
            # enum variants must keep distinct symbol sequences
            for d in decls:
                if d["kind"] == "enum":
                    seen, keep = set(), []
                    for v in d["variants"]:
                        k = tuple(sym_key(x) for x in fs_syms(v["fieldset"]))
                        if k not in seen:
                            seen.add(k)
                            keep.append(v)
                    d["variants"] = keep
    term = {"kind": "terminal", "attrs": list(attrs), "name": tenum, "variants": tvs}
    rest = decls + [term]
    rng.shuffle(rest)
    return items + rest


def nesting_grammar(rng, derive=True):
    """One or two recursive enums whose variants share a leading terminal (bracket-like nesting with
    optional closers): self-loops in the automaton whose lookaheads arrive late, conflicts that
    depend on merged lookaheads.  Terminal names are drawn at random, so their order varies."""
    tn = rng.sample(["Open", "Close", "Atom", "Sep", "Bar", "Zed", "Aa", "Mm"], rng.randint(2, 4))
    nts = rng.sample(["A", "B", "Q"], rng.randint(1, 2))
    attrs = ["#[derive(Debug)]"] if derive else []
    items = [{"kind": "start", "name": nts[0]}]
    for nt in nts:
        lead = sym_t(rng.choice(tn))
        seen, variants = set(), []
        for vi in range(rng.randint(2, 4)):
            for _ in range(10):
                n = rng.randint(0, 3)
                body = []
                for _ in range(n):
                    body.append(sym_n(rng.choice(nts)) if rng.random() < 0.4 else sym_t(rng.choice(tn)))
                rhs = ([lead] if rng.random() < 0.75 else []) + body
                key = tuple(sym_key(x) for x in rhs)
                if key not in seen:
                    seen.add(key)
                    fs = {"kind": "empty"} if not rhs else {"kind": "tuple", "fields": [{"used": rng.random() < 0.7, "sym": x} for x in rhs]}
                    variants.append({"name": f"V{vi}", "fieldset": fs})
                    break
        items.append({"kind": "enum", "attrs": list(attrs), "name": nt, "variants": variants})
    items.append({"kind": "terminal", "attrs": list(attrs), "name": "Tok", "variants": [{"name": t, "type": "usize"} for t in tn]})
    return items


def long_production_grammar(rng, derive=True):
    """Productions with 10–18 fields (tuple or named, used and `_` fields mixed, repeated symbols):
    two-digit field indices in the emitted reduce functions."""
    ts = rng.sample(["D", "Dash", "Tt", "Colon"], rng.randint(1, 3))
    attrs = ["#[derive(Debug)]"] if derive else []

    def fieldset():
        n = rng.randint(10, 18)
        syms = [sym_t(ts[0]) if rng.random() < 0.7 else sym_t(rng.choice(ts)) for _ in range(n)]
        if rng.random() < 0.6:
            return {"kind": "tuple", "fields": [{"used": rng.random() < 0.75, "sym": x} for x in syms]}
        return {"kind": "named", "fields": [{"name": (None if rng.random() < 0.25 else f"f{i}"), "sym": x} for i, x in enumerate(syms)]}

    items = [{"kind": "start", "name": "Stamp"}]
    if rng.random() < 0.5:
        items.append({"kind": "struct", "attrs": list(attrs), "name": "Stamp", "fieldset": fieldset()})
    else:
        a, b = fieldset(), fieldset()
        vs = [{"name": "A", "fieldset": a}]
        if [sym_key(x) for x in fs_syms(a)] != [sym_key(x) for x in fs_syms(b)]:
            vs.append({"name": "B", "fieldset": b})
        items.append({"kind": "enum", "attrs": list(attrs), "name": "Stamp", "variants": vs})
    items.append({"kind": "terminal", "attrs": list(attrs), "name": "Tok", "variants": [{"name": t, "type": "usize"} for t in ts]})
    return items


def layered_grammar(rng, derive=True):
    """Nonterminals N0..Nk declared top-down, each a struct (or a 2-variant enum) whose right-hand
    side refers only to later nonterminals and to terminals; many are empty.  Nullability and FIRST
    sets then propagate bottom-up against the declaration order, needing several fixpoint passes,
    some of which change nullability only."""
    k = rng.randint(2, 6)
    lead_nt = rng.random() < 0.6      # every non-empty right-hand side starts with a nonterminal
    nts = [f"N{i}" for i in range(k)]
    nt_ = rng.randint(1, 3)
    ts = [f"T{i}" for i in range(nt_)]
    attrs = ["#[derive(Debug)]"] if derive else []
    items = [{"kind": "start", "name": nts[0]}]
    for i, nt in enumerate(nts):
        later = nts[i + 1:]

        def rhs():
            if not later or rng.random() < 0.3:
                return [] if (rng.random() < 0.6 or lead_nt) else [sym_t(rng.choice(ts))]
            n = rng.randint(1, 3)
            out = []
            for j in range(n):
                out.append(sym_n(rng.choice(later)) if (rng.random() < 0.75 or (lead_nt and j == 0)) else sym_t(rng.choice(ts)))
            if rng.random() < 0.5:
                out.append(sym_t(rng.choice(ts)))
            return out

        def fs(syms):
            if not syms:
                return {"kind": "empty"}
            return {"kind": "tuple", "fields": [{"used": rng.random() < 0.8, "sym": x} for x in syms]}

        if rng.random() < 0.75:
            items.append({"kind": "struct", "attrs": list(attrs), "name": nt, "fieldset": fs(rhs())})
        else:
            a, b = rhs(), rhs()
            vs = [{"name": "A", "fieldset": fs(a)}]
            if [sym_key(x) for x in b] != [sym_key(x) for x in a]:
                vs.append({"name": "B", "fieldset": fs(b)})
            items.append({"kind": "enum", "attrs": list(attrs), "name": nt, "variants": vs})
    items.append({"kind": "terminal", "attrs": list(attrs), "name": "Tok", "variants": [{"name": t, "type": "usize"} for t in ts]})
    return items


def sequence_grammar(rng, derive=True):
    """Top -> P1 P2 .. Pk [t]: a run of 2-4 adjacent nonterminals (then usually one more symbol); every Pi has 1-3
    alternatives that are short terminal strings, often prefixes of one another, some Pi nullable.  The reduce
    lookaheads of the alternatives of Pi are FIRST(P(i+1) ..) exactly: one terminal too many gives a spurious
    shift/reduce conflict with the longer alternative, one too few loses a sentence."""
    k = rng.randint(2, 4)
    nts = [f"P{i}" for i in range(k)]
    ts = [f"T{i}" for i in range(rng.randint(2, 4))]
    attrs = ["#[derive(Debug)]"] if derive else []

    def fs(syms):
        if not syms:
            return {"kind": "empty"}
        return {"kind": "tuple", "fields": [{"used": rng.random() < 0.8, "sym": x} for x in syms]}

    top = [sym_n(n) for n in nts]
    if rng.random() < 0.8:
        top.append(sym_t(rng.choice(ts)))
    items = [{"kind": "start", "name": "Top"}, {"kind": "struct", "attrs": list(attrs), "name": "Top", "fieldset": fs(top)}]
    for n in nts:
        base = [sym_t(rng.choice(ts)) for _ in range(rng.randint(0 if rng.random() < 0.25 else 1, 2))]
        alts = [base]
        for _ in range(rng.randint(0, 2)):
            ext = list(base) + [sym_t(rng.choice(ts)) for _ in range(rng.randint(1, 2))] if rng.random() < 0.7 else [sym_t(rng.choice(ts))]
            if [sym_key(x) for x in ext] not in [[sym_key(x) for x in a] for a in alts]:
                alts.append(ext)
        if len(alts) == 1:
            items.append({"kind": "struct", "attrs": list(attrs), "name": n, "fieldset": fs(alts[0])})
        else:
            items.append({"kind": "enum", "attrs": list(attrs), "name": n, "variants": [{"name": f"A{j}", "fieldset": fs(a)} for j, a in enumerate(alts)]})
    items.append({"kind": "terminal", "attrs": list(attrs), "name": "Tok", "variants": [{"name": t, "type": "usize"} for t in ts]})
    return items


INVISIBLE = ["\ufeff", "\u200b", "\u200c", "\u200d", "\u2060", "\u00ad", "\u180e", "\u0000", "\ufffe", "\u061c", "\u200e", "\ufe0f", "\u034f"]


def invisible_probes(bases, rng, per_base=6):
    """Valid texts with one character that *looks like nothing* (byte order mark, zero-width space / joiner, soft
    hyphen, NUL, directional marks …) put in front, behind, or at a token boundary: none of them is `White_Space`,
    so every one of these texts has a lexical error at exactly that character — a front end that silently strips
    or skips such a character answers differently."""
    out = []
    for b in bases:
        for _ in range(per_base):
            ch = rng.choice(INVISIBLE)
            where = rng.choice(["front", "front", "back", "boundary"])
            if where == "front":
                out.append(ch + b)
            elif where == "back":
                out.append(b + ch)
            else:
                cuts = [i for i, c in enumerate(b) if c in " \n"]
                i = rng.choice(cuts) if cuts else 0
                out.append(b[:i] + ch + b[i:])
    return out


def namedify(items, rng, p=0.6):
    """Rewrites tuple fieldsets as named fieldsets (`{ f0: A  _: $B }`), each with probability p: the grammar is the
    same, but the rules reach the generator through the named-fieldset code paths."""
    import copy
    it = copy.deepcopy(items)

    def conv(fs):
        if fs["kind"] != "tuple" or rng.random() >= p:
            return fs
        return {"kind": "named", "fields": [{"name": (f"f{i}" if f["used"] else None), "sym": f["sym"]} for i, f in enumerate(fs["fields"])]}

    for d in it:
        if d["kind"] == "struct":
            d["fieldset"] = conv(d["fieldset"])
        elif d["kind"] == "enum":
            for v in d["variants"]:
                v["fieldset"] = conv(v["fieldset"])
    return it


def keyword_probes():
    """Identifiers that merely begin with, end with, contain or differ in case from a reserved word, alone and behind a
    dollar sign, between separators of every kind: the reserved words are `start`, `struct`, `enum`, `terminal`, `_`."""
    out = []
    for k in ["start", "struct", "enum", "terminal", "_"]:
        forms = [k, k + "2", k + "_", "_" + k, k.upper(), k.capitalize(), k + k, k[:-1] or "x", k + "x", "x" + k, k + "9_", "__" + k, k + "é"]
        for f in forms:
            out += [f, "$" + f, f + " X", "$" + f + " X", f + ":", f + "::" + f, "(" + f + ")", f + "\n" + f, "$" + f + "$" + f, f + "//c", "#[" + f + "]" + f]
    out += ["$", "$$", "$ X", "$_", "$_x", "$__", "_", "__", "___", "_ _", "_:_", "$9", "$é", "X$", "X$Y", "$X$", "$X_", "_$X"]
    return out


def exhaustive_small_grammars(maxlen1=3, maxlen2=2, stride=1, offset=0):
    """Every grammar, up to the names, of a small scope: one nonterminal S over terminals {X, Y} with one or two
    alternatives of length <= maxlen1, and two nonterminals S, A with one or two alternatives each of length
    <= maxlen2 (alternatives of one nonterminal pairwise distinct: the validator demands it).  `stride`/`offset`
    select every stride-th grammar.  Yields (label, items)."""
    import itertools

    def strings(alphabet, maxlen):
        out = [()]
        for n in range(1, maxlen + 1):
            out += list(itertools.product(alphabet, repeat=n))
        return out

    def alt_sets(alphabet, maxlen):
        ss = strings(alphabet, maxlen)
        return [(a,) for a in ss] + list(itertools.combinations(ss, 2))

    def decl(name, alts):
        def fs(a):
            return tup(*a)
        if len(alts) == 1:
            return struct(name, fs(alts[0]))
        return enum(name, *[(f"V{j}", fs(a)) for j, a in enumerate(alts)])

    k = 0
    for alts in alt_sets(["S", "$X", "$Y"], maxlen1):
        if k % stride == offset:
            yield f"small1-{k}", _mk("S", [decl("S", alts)], ["X", "Y"], derive=False)
        k += 1
    sets2 = alt_sets(["S", "A", "$X", "$Y"], maxlen2)
    for sa in sets2:
        for aa in sets2:
            if k % stride == offset:
                yield f"small2-{k}", _mk("S", [decl("S", sa), decl("A", aa)], ["X", "Y"], derive=False)
            k += 1


def context_grammar(rng, derive=True):
    """One recursive core nonterminal E used in two to four *contexts* (bare, bracketed by different terminals,
    followed by different terminals), with left-/postfix-recursive rules in which E occurs several times
    (`E -> E E Op`, `E -> E Op`, `E -> E E E Op`): kernels hold one rule at several dot positions, and the same
    LR(0) core is reached along several paths with different lookahead sets — what LALR merging is about.
    Terminal and nonterminal names are drawn at random so that every relative order of names occurs."""
    pool = ["Aa", "Begin", "Cc", "Dd", "End", "Ff", "Kk", "Mm", "Num", "Op", "Pp", "Qq", "Xx", "Zz"]
    rng.shuffle(pool)
    ts = pool[:rng.randint(4, 8)]
    e, top = rng.sample(["E", "Expr", "Apply", "Zexpr", "Program", "Top", "Aprog"], 2)
    attrs = ["#[derive(Debug)]"] if derive else []

    def fs(syms):
        if not syms:
            return {"kind": "empty"}
        return {"kind": "tuple", "fields": [{"used": rng.random() < 0.8, "sym": x} for x in syms]}

    E = sym_n(e)
    evs, seen = [], set()
    ops = list(ts)
    rng.shuffle(ops)
    cands = [[E, E, sym_t(ops[0])], [E, sym_t(ops[1])], [E, E, E, sym_t(ops[2])], [E, sym_t(ops[0]), E],
             [sym_t(ops[1]), E, E], [E, E, sym_t(ops[2]), sym_t(ops[0])], [E, sym_t(ops[3 % len(ops)]), sym_t(ops[1])]]
    rng.shuffle(cands)
    for c in cands[:rng.randint(1, 3)]:
        evs.append(c)
    evs.append([sym_t(ops[-1])])                      # a base case
    if rng.random() < 0.3:
        evs.append([sym_t(ops[-2])])
    variants = []
    for j, c in enumerate(evs):
        key = tuple(sym_key(x) for x in c)
        if key not in seen:
            seen.add(key)
            variants.append({"name": f"V{j}", "fieldset": fs(c)})
    brs = list(ts)
    rng.shuffle(brs)
    ctxs, seen = [], set()
    shapes = [[E], [sym_t(brs[0]), E, sym_t(brs[1])], [sym_t(brs[2]), E, sym_t(brs[3 % len(brs)])], [E, sym_t(brs[1])],
              [sym_t(brs[0]), E], [sym_t(brs[2]), E, E, sym_t(brs[0])]]
    rng.shuffle(shapes)
    for c in shapes[:rng.randint(2, 4)]:
        key = tuple(sym_key(x) for x in c)
        if key not in seen:
            seen.add(key)
            ctxs.append({"name": f"C{len(ctxs)}", "fieldset": fs(c)})
    decls = [{"kind": "enum", "attrs": list(attrs), "name": top, "variants": ctxs},
             {"kind": "enum", "attrs": list(attrs), "name": e, "variants": variants}]
    if rng.random() < 0.5:
        decls.reverse()
    used = {x["sym"]["t"] for d in decls for v in d["variants"] if v["fieldset"]["kind"] != "empty" for x in v["fieldset"]["fields"] if "t" in x["sym"]}
    items = [{"kind": "start", "name": top}] + decls
    items.append({"kind": "terminal", "attrs": list(attrs), "name": "Tok", "variants": [{"name": t, "type": "usize"} for t in ts if t in used or rng.random() < 0.3]})
    return items


def dispatch_grammar(rng, derive=True):
    """Top -> [$X] P(a_j) $T_j for j = 0..m-1 with two to four *empty* nonterminals P0..Pk: one state reduces P_i -> ε
    on exactly the terminals assigned to i, so its ACTION row interleaves several reduce rules over the columns
    (r1 r2 r1 r3 r2 …) — what any per-row cache, run-length encoding or 'same as the previous cell' shortcut in the
    table emission trips over.  Terminals are declared in random order."""
    k = rng.randint(2, 4)
    m = rng.randint(3, 8)
    ps = [f"P{i}" for i in range(k)]
    ts = [f"T{j}" for j in range(m)]
    assign = [rng.randrange(k) for _ in range(m)]
    for i in range(k):                      # every prefix is used at least once if there is room
        if i < m:
            assign[i] = i
    rng.shuffle(assign)
    attrs = ["#[derive(Debug)]"] if derive else []
    lead = rng.random() < 0.4

    def fs(syms):
        return {"kind": "tuple", "fields": [{"used": rng.random() < 0.8, "sym": x} for x in syms]}

    variants = []
    for j, t in enumerate(ts):
        syms = ([sym_t("X")] if lead else []) + [sym_n(ps[assign[j]]), sym_t(t)]
        variants.append({"name": f"V{j}", "fieldset": fs(syms)})
    decls = [{"kind": "enum", "attrs": list(attrs), "name": "Top", "variants": variants}]
    for p_ in ps:
        if rng.random() < 0.6:
            decls.append({"kind": "struct", "attrs": list(attrs), "name": p_, "fieldset": {"kind": "empty"}})
        else:
            decls.append({"kind": "enum", "attrs": list(attrs), "name": p_, "variants": [{"name": "Nil", "fieldset": {"kind": "empty"}}]})
    rng.shuffle(decls)
    order = list(ts) + (["X"] if lead else [])
    rng.shuffle(order)
    items = [{"kind": "start", "name": "Top"}] + decls
    items.append({"kind": "terminal", "attrs": list(attrs), "name": "Tok", "variants": [{"name": t, "type": "usize"} for t in order]})
    return items


def nullable_tail_grammar(rng, derive=True):
    """A -> B N1 [N2] where the tail behind B is non-empty but nullable, and A is used in two to four contexts with
    different followers: the lookaheads of B's items are FIRST(N1 N2 a) = FIRST(N1) ∪ FIRST(N2) ∪ {a} for EVERY
    lookahead a of the item of A — one closure has to hand several lookaheads down through a nullable tail."""
    ts = rng.sample(["Aa", "Bb", "Cc", "Dd", "Ee", "Ff", "Gg", "Hh", "Kk", "Mm"], rng.randint(5, 8))
    attrs = ["#[derive(Debug)]"] if derive else []

    def fs(syms):
        if not syms:
            return {"kind": "empty"}
        return {"kind": "tuple", "fields": [{"used": rng.random() < 0.8, "sym": x} for x in syms]}

    it = iter(ts)
    b, n1, n2 = next(it), next(it), next(it)
    followers = list(it)
    two = rng.random() < 0.5
    tail = [sym_n("N1")] + ([sym_n("N2")] if two else [])
    decls = [{"kind": "struct", "attrs": list(attrs), "name": "A", "fieldset": fs([sym_n("B")] + tail)}]
    bv = [[sym_t(b)]] + ([[sym_t(b), sym_t(b)]] if rng.random() < 0.5 else []) + ([[sym_n("B2"), sym_t(b)]] if rng.random() < 0.3 else [])
    decls.append({"kind": "enum", "attrs": list(attrs), "name": "B", "variants": [{"name": f"V{j}", "fieldset": fs(v)} for j, v in enumerate(bv)]})
    if any(sym_key(x) == ("n", "B2") for v in bv for x in v):
        decls.append({"kind": "struct", "attrs": list(attrs), "name": "B2", "fieldset": fs([])})
    decls.append({"kind": "enum", "attrs": list(attrs), "name": "N1", "variants": [{"name": "Nil", "fieldset": fs([])}, {"name": "Some1", "fieldset": fs([sym_t(n1)])}]})
    if two:
        decls.append({"kind": "enum", "attrs": list(attrs), "name": "N2", "variants": [{"name": "Nil", "fieldset": fs([])}, {"name": "Some2", "fieldset": fs([sym_t(n2)])}]})
    ctx = [[sym_n("A")]]
    for f in followers:
        k = rng.random()
        ctx.append([sym_n("A"), sym_t(f)] if k < 0.5 else [sym_t(f), sym_n("A"), sym_t(f)] if k < 0.8 else [sym_t(f), sym_n("A")])
    rng.shuffle(ctx)
    seen, variants = set(), []
    for c in ctx[: rng.randint(2, 4)]:
        key = tuple(sym_key(x) for x in c)
        if key not in seen:
            seen.add(key)
            variants.append({"name": f"C{len(variants)}", "fieldset": fs(c)})
    decls.insert(0, {"kind": "enum", "attrs": list(attrs), "name": "Top", "variants": variants})
    if rng.random() < 0.5:
        rng.shuffle(decls)
    order = list(ts)
    rng.shuffle(order)
    used = {x["sym"]["t"] for d in decls for fsx in ([d["fieldset"]] if d["kind"] == "struct" else [v["fieldset"] for v in d["variants"]]) if fsx["kind"] != "empty" for x in fsx["fields"] if "t" in x["sym"]}
    items = [{"kind": "start", "name": "Top"}] + decls
    items.append({"kind": "terminal", "attrs": list(attrs), "name": "Tok", "variants": [{"name": t, "type": "usize"} for t in order if t in used]})
    return items


def wave_grammar(rng, derive=True):
    """A dependency chain A1 -> A2 -> .. -> Ak whose far end is `Ak { Nil | More(Aj $Y) }`: nullability
    has to travel the whole chain before Y can enter FIRST(Ak), and Y then has to travel the chain again.
    With few other nonterminals the FIRST/nullable fixpoint needs up to 2k-1 productive passes, more than
    there are nonterminals (or rules); the chain is declared forwards, backwards or shuffled so that this
    holds whatever order a pass visits the rules in.  Some links carry a second alternative that starts
    with its own terminal."""
    k = rng.randint(4, 9)
    chain = [f"A{i}" for i in range(1, k + 1)]
    ts = ["Y", "B", "Z"] + [f"T{i}" for i in range(1, k + 1)]
    used_ts = {"Y"}
    attrs = ["#[derive(Debug)]"] if derive else []

    def fs(syms):
        if not syms:
            return {"kind": "empty"}
        return {"kind": "tuple", "fields": [{"used": rng.random() < 0.8, "sym": x} for x in syms]}

    decls = []
    # FIRST(A1) is consulted only where A1 follows a nonterminal: `S(Head A1)` makes the reduce lookaheads
    # of Head exactly FIRST(A1 ..)
    shape = rng.choice(["nhead", "nhead", "nhead", "nhead-tail", "head", "tail"])
    top = []
    if shape.startswith("nhead"):
        top.append(sym_n("Head")); used_ts.add("B")
        if rng.random() < 0.6:
            decls.append({"kind": "struct", "attrs": list(attrs), "name": "Head", "fieldset": fs([sym_t("B")])})
        else:
            decls.append({"kind": "enum", "attrs": list(attrs), "name": "Head", "variants": [
                {"name": "None", "fieldset": {"kind": "empty"}}, {"name": "Some", "fieldset": fs([sym_t("B")])}]})
    if shape == "head":
        top.append(sym_t("B")); used_ts.add("B")
    top.append(sym_n("A1" if rng.random() < 0.75 else rng.choice(chain)))
    if shape.endswith("tail"):
        top.append(sym_t("Z")); used_ts.add("Z")
    decls.insert(0, {"kind": "struct", "attrs": list(attrs), "name": "S", "fieldset": fs(top)})
    for i, a in enumerate(chain[:-1]):
        link = [sym_n(chain[i + 1])]
        if rng.random() < 0.25:
            t = f"T{i + 1}"; used_ts.add(t)
            decls.append({"kind": "enum", "attrs": list(attrs), "name": a, "variants": [
                {"name": "Link", "fieldset": fs(link)}, {"name": "Alt", "fieldset": fs([sym_t(t)])}]})
        else:
            decls.append({"kind": "struct", "attrs": list(attrs), "name": a, "fieldset": fs(link)})
    j = 1 if rng.random() < 0.7 else rng.randint(1, k)
    decls.append({"kind": "enum", "attrs": list(attrs), "name": chain[-1], "variants": [
        {"name": "Nil", "fieldset": {"kind": "empty"}},
        {"name": "More", "fieldset": fs([sym_n(f"A{j}"), sym_t("Y")])}]})
    order = rng.choice(["forward", "backward", "shuffled"])
    if order == "backward":
        decls.reverse()
    elif order == "shuffled":
        rng.shuffle(decls)
    items = [{"kind": "start", "name": "S"}] + decls
    items.append({"kind": "terminal", "attrs": list(attrs), "name": "Tok", "variants": [{"name": t, "type": "usize"} for t in ts if t in used_ts]})
    return items


def shared_prefix_grammar(rng, derive=True):
    """A chain N0 -> a c .., N1 -> a N0 .., N2 -> a N1 .. of nonterminals that all begin with the same terminal, used
    in several *contexts* of the start enum (bare N_i; N_i behind distinct prefix terminals).  After `a` the kernels of
    the contexts differ in which N_i they hold at dot 1 while the closures add the same rules at dot 0: states
    whose cores are strict subsets of one another and mention the *same rules* at different dot positions.  A state
    merge test weaker than equality of the (rule, dot) sets (containment one way, equal rule sets, equal sizes
    counted per rule) merges them; the merged parser still accepts the language but shifts a token no sentence
    allows, so errors are reported late.  Names are drawn at random so that every relative order occurs."""
    tpool = ["Aa", "Bb", "Cc", "Dd", "Ee", "Kk", "Pp", "Qq", "Xx", "Yy", "Zz"]
    rng.shuffle(tpool)
    a, c = tpool[0], tpool[1]
    tails, prefixes = tpool[2:5], tpool[5:9]
    npool = ["Atom", "Pair", "Triple", "Item", "Node", "Unit", "Zed"]
    rng.shuffle(npool)
    k = rng.randint(2, 3)
    chain = npool[:k]
    top = npool[k]
    attrs = ["#[derive(Debug)]"] if derive else []
    used_ts = {a, c}

    def fs(syms):
        return {"kind": "tuple", "fields": [{"used": rng.random() < 0.8, "sym": x} for x in syms]}

    decls = []
    for i, n in enumerate(chain):
        body = [sym_t(a), sym_t(c) if i == 0 else sym_n(chain[i - 1])]
        if rng.random() < 0.3:
            t = tails[i % len(tails)]; used_ts.add(t)
            body.append(sym_t(t))
        decls.append({"kind": "struct", "attrs": list(attrs), "name": n, "fieldset": fs(body)})
    ctxs, seen = [], set()
    # at least one context that holds several links at once and one that holds a single link
    bare = rng.sample(range(k), rng.randint(2, k))
    cands = [(None, i) for i in bare]
    for p in prefixes[:rng.randint(1, 3)]:
        for i in rng.sample(range(k), rng.randint(1, 2)):
            cands.append((p, i))
    rng.shuffle(cands)
    for p, i in cands:
        if (p, i) in seen:
            continue
        seen.add((p, i))
        syms = ([sym_t(p)] if p else []) + [sym_n(chain[i])]
        if p:
            used_ts.add(p)
        ctxs.append({"name": f"C{len(ctxs)}", "fieldset": fs(syms)})
    decls.append({"kind": "enum", "attrs": list(attrs), "name": top, "variants": ctxs})
    rng.shuffle(decls)
    ts = [t for t in tpool if t in used_ts]
    rng.shuffle(ts)
    items = [{"kind": "start", "name": top}] + decls
    items.append({"kind": "terminal", "attrs": list(attrs), "name": "Tok", "variants": [{"name": t, "type": "usize"} for t in ts]})
    return items


# ---- hand-written families that separate the grammar classes -------------------------------

def _mk(start, structs_enums, terminals, derive=True):
    attrs = ["#[derive(Debug)]"] if derive else []
    items = [{"kind": "start", "name": start}]
    for d in structs_enums:
        d = dict(d)
        d["attrs"] = list(attrs)
        items.append(d)
    items.append({"kind": "terminal", "attrs": list(attrs), "name": "Tok", "variants": [{"name": t, "type": "usize"} for t in terminals]})
    return items


def tup(*syms):
    if not syms:
        return {"kind": "empty"}
    return {"kind": "tuple", "fields": [{"used": True, "sym": (sym_t(s[1:]) if s.startswith("$") else sym_n(s))} for s in syms]}


def enum(name, *variants):
    return {"kind": "enum", "name": name, "variants": [{"name": vn, "fieldset": fs} for vn, fs in variants]}


def struct(name, fs):
    return {"kind": "struct", "name": name, "fieldset": fs}


def families():
    """(label, items, expected class) — expected in {'lalr', 'conflict'}."""
    out = []
    # LALR(1) but not SLR(1): S -> L = R | R ; L -> * R | id ; R -> L
    out.append(("lalr-not-slr", _mk("S", [
        enum("S", ("Assign", tup("L", "$Eq", "R")), ("Just", tup("R"))),
        enum("L", ("Deref", tup("$Star", "R")), ("Id", tup("$Id"))),
        struct("R", tup("L")),
    ], ["Eq", "Star", "Id"]), "lalr"))
    # LR(1) but not LALR(1)
    out.append(("lr1-not-lalr", _mk("S", [
        enum("S", ("A", tup("$Ka", "E", "$Kc")), ("B", tup("$Ka", "F", "$Kd")), ("C", tup("$Kb", "F", "$Kc")), ("D", tup("$Kb", "E", "$Kd"))),
        struct("E", tup("$Ke")),
        struct("F", tup("$Ke")),
    ], ["Ka", "Kb", "Kc", "Kd", "Ke"]), "conflict"))
    # ambiguous: E -> E + E | id
    out.append(("ambiguous", _mk("E", [
        enum("E", ("Add", tup("E", "$Plus", "E")), ("Id", tup("$Id"))),
    ], ["Plus", "Id"]), "conflict"))
    # balanced parens, epsilon in the middle, left + right recursion
    out.append(("parens", _mk("E", [
        enum("E", ("Nil", tup()), ("Wrap", tup("E", "$LP", "E", "$RP"))),
    ], ["LP", "RP"]), "lalr"))
    out.append(("eps-middle", _mk("S", [
        struct("S", tup("$A", "O", "O", "$B")),
        enum("O", ("No", tup()), ("Yes", tup("$C"))),
    ], ["A", "B", "C"]), "conflict"))
    out.append(("eps-middle-ok", _mk("S", [
        struct("S", tup("$A", "O", "P", "$B")),
        enum("O", ("No", tup()), ("Yes", tup("$C"))),
        enum("P", ("No", tup()), ("Yes", tup("$D"))),
    ], ["A", "B", "C", "D"]), "lalr"))
    out.append(("right-rec", _mk("L", [
        enum("L", ("Nil", tup()), ("Cons", tup("$A", "L"))),
    ], ["A"]), "lalr"))
    out.append(("left-rec", _mk("L", [
        enum("L", ("One", tup("$A")), ("Cons", tup("L", "$B", "$A"))),
    ], ["A", "B"]), "lalr"))
    out.append(("nullable-chain", _mk("S", [
        struct("S", tup("X", "Y", "Z")),
        enum("X", ("N", tup()), ("A", tup("$A"))),
        enum("Y", ("N", tup()), ("B", tup("$B"))),
        enum("Z", ("N", tup()), ("C", tup("$C"))),
    ], ["A", "B", "C"]), "lalr"))
    # unreachable and unproductive nonterminals; variant-less enum
    out.append(("unreachable", _mk("S", [
        struct("S", tup("$A")),
        struct("U", tup("$B", "U")),
    ], ["A", "B"]), "lalr"))
    out.append(("unproductive", _mk("S", [
        enum("S", ("A", tup("$A")), ("B", tup("$B", "U"))),
        struct("U", tup("$B", "U")),
    ], ["A", "B"]), "lalr"))
    out.append(("variantless", _mk("S", [
        enum("S", ("A", tup("$A")), ("E", tup("$B", "E"))),
        enum("E"),
    ], ["A", "B"]), "lalr"))
    out.append(("expr", _mk("E", [
        enum("E", ("Add", tup("E", "$Plus", "T")), ("T", tup("T"))),
        enum("T", ("Mul", tup("T", "$Star", "F")), ("F", tup("F"))),
        enum("F", ("Par", tup("$LP", "E", "$RP")), ("Id", tup("$Id"))),
    ], ["Plus", "Star", "LP", "RP", "Id"]), "lalr"))
    out.append(("start-only-eps", _mk("S", [struct("S", tup())], ["A"]), "lalr"))
    out.append(("dangling-else", _mk("S", [
        enum("S", ("If", tup("$If", "S")), ("IfElse", tup("$If", "S", "$Else", "S")), ("X", tup("$X"))),
    ], ["If", "Else", "X"]), "conflict"))
    out.append(("rr-conflict", _mk("S", [
        enum("S", ("A", tup("A")), ("B", tup("B"))),
        struct("A", tup("$X")),
        struct("B", tup("$X")),
    ], ["X"]), "conflict"))
    return out


# ---- rendering -----------------------------------------------------------------------------

def sym_text(s):
    return "$" + s["t"] if "t" in s else s["n"]


def fieldset_tokens(fs):
    if fs["kind"] == "empty":
        return []
    if fs["kind"] == "named":
        out = ["{"]
        for f in fs["fields"]:
            out += [f["name"] if f["name"] is not None else "_", ":", sym_text(f["sym"])]
        return out + ["}"]
    out = ["("]
    for f in fs["fields"]:
        if f["used"]:
            out.append(sym_text(f["sym"]))
        else:
            out += ["_", ":", sym_text(f["sym"])]
    return out + [")"]


def type_tokens(ty):
    """Token texts of a payload type written as a string (re-split on the lexical grammar)."""
    import re
    return re.findall(r"::|[A-Za-z_][A-Za-z0-9_]*|[(),<>]", ty)


def item_tokens(it):
    k = it["kind"]
    if k == "start":
        return ["start", it["name"]]
    out = list(it.get("attrs", []))
    if k == "struct":
        return out + ["struct", it["name"]] + fieldset_tokens(it["fieldset"])
    if k == "enum":
        out += ["enum", it["name"], "{"]
        for v in it["variants"]:
            out += [v["name"]] + fieldset_tokens(v["fieldset"])
        return out + ["}"]
    out += ["terminal", it["name"], "{"]
    for v in it["variants"]:
        out += ["$" + v["name"], ":"] + type_tokens(v["type"])
    return out + ["}"]


def tokens_of(items):
    out = []
    for it in items:
        out += item_tokens(it)
    return out


IDCH = set("ABCDEFGHIJKLMNOPQRSTUVWXYZabcdefghijklmnopqrstuvwxyz0123456789_")


def needs_sep(a, b):
    if a.startswith("#["):
        return False
    if a[-1] in IDCH and (b[0] in IDCH):
        return True
    if a[-1] == ":" and b[0] == ":":
        return True
    return False


WHITE_SPACE = [chr(c) for c in list(range(0x9, 0xE)) + [0x20, 0x85, 0xA0, 0x1680] + list(range(0x2000, 0x200B)) + [0x2028, 0x2029, 0x202F, 0x205F, 0x3000]]
SPACES = [" ", "\n", "\t", "\r\n", "  ", "\n\n", " \t ", " ", "\n"] + WHITE_SPACE
COMMENTS = ["// c\n", "//\n", "// é ü € 😀 #[x] $y :: {\n", "//// start struct\r\n", "// \t \n"]


def render(items, rng=None):
    """Plain layout (rng None): one token per space, items on their own lines.
    With rng: a random re-layout that keeps the token sequence."""
    toks = tokens_of(items)
    if rng is None:
        return "\n".join(" ".join(item_tokens(it)) for it in items) + "\n"
    out = []
    lead = rng.random()
    if lead < 0.3:
        out.append(rng.choice(SPACES + COMMENTS))
    for i, t in enumerate(toks):
        out.append(t)
        if i + 1 < len(toks):
            nxt = toks[i + 1]
            r = rng.random()
            if r < 0.25 and not needs_sep(t, nxt):
                sep = ""
            elif r < 0.8:
                sep = rng.choice(SPACES)
            else:
                sep = rng.choice(SPACES) + rng.choice(COMMENTS) + (rng.choice(SPACES) if rng.random() < 0.5 else "")
            out.append(sep)
    tail = rng.random()
    if tail < 0.3:
        out.append(rng.choice(SPACES))
    elif tail < 0.5:
        out.append(" // trailing comment without newline é")
    return "".join(out)


# ---- oracle grammar ------------------------------------------------------------------------

def to_oracle(items):
    import kiki_syntax
    terms = [i for i in items if i["kind"] == "terminal"][0]
    nts = [i["name"] for i in items if i["kind"] in ("struct", "enum")]
    rules = []
    for lhs, _ctor, rhs, _fs in kiki_syntax.rules_of(items):
        rules.append((lhs, [sym_key(s) for s in rhs]))
    start = [i for i in items if i["kind"] == "start"][0]["name"]
    return {"terminals": [v["name"] for v in terms["variants"]], "nonterminals": nts, "start": start, "rules": rules}


def random_sentence(G, rng, productive, max_depth=8):
    """A random terminal string derived from the start symbol (None if impossible)."""
    by_lhs = {}
    for i, (lhs, rhs) in enumerate(G["rules"]):
        if all(k == "t" or n in productive for k, n in rhs):
            by_lhs.setdefault(lhs, []).append(rhs)
    if G["start"] not in productive:
        return None

    def min_rule(nt, seen=()):
        # shortest-ish: prefer rules with fewest nonterminals not in seen
        cands = by_lhs[nt]
        return min(cands, key=lambda r: (sum(1 for k, n in r if k == "n"), len(r)))

    def expand(nt, depth):
        cands = by_lhs[nt]
        if depth <= 0:
            rhs = min_rule(nt)
        else:
            rhs = rng.choice(cands)
        out = []
        for k, n in rhs:
            if k == "t":
                out.append(n)
            else:
                if depth < -12:
                    return None
                sub = expand(n, depth - 1)
                if sub is None:
                    return None
                out += sub
        return out

    try:
        return expand(G["start"], rng.randint(1, max_depth))
    except RecursionError:
        return None


def long_sentence(G, rng, productive, target=400, limit=4000):
    """A sentence of roughly `target` tokens (None if the language has no long sentences): the sentential form is
    expanded leftmost-first with an explicit stack, growing rules preferred until the target is reached, then the
    shortest terminating rules.  Deep stacks and long inputs for the emitted parsers."""
    by_lhs = {}
    for lhs, rhs in G["rules"]:
        if all(k == "t" or n in productive for k, n in rhs):
            by_lhs.setdefault(lhs, []).append(rhs)
    if G["start"] not in productive or G["start"] not in by_lhs:
        return None
    # shortest terminal length derivable from each nonterminal
    INF = 10 ** 9
    ml = {n: INF for n in by_lhs}
    changed = True
    while changed:
        changed = False
        for n, rs in by_lhs.items():
            for r in rs:
                v = sum(1 if k == "t" else ml.get(x, INF) for k, x in r)
                if v < ml[n]:
                    ml[n] = v
                    changed = True
    best = {n: min(rs, key=lambda r: sum(1 if k == "t" else ml.get(x, INF) for k, x in r)) for n, rs in by_lhs.items()}
    out, stack, steps = [], [("n", G["start"])], 0
    pending = ml[G["start"]]            # least number of tokens the stack still has to produce
    while stack:
        steps += 1
        if steps > 20 * limit or len(out) > limit:
            return None
        k, x = stack.pop()
        if k == "t":
            out.append(x)
            pending -= 1
            continue
        pending -= ml[x]
        if len(out) + pending < target:
            grow = [r for r in by_lhs[x] if any(kk == "n" for kk, _ in r)]
            r = rng.choice(grow) if grow and rng.random() < 0.9 else rng.choice(by_lhs[x])
        else:
            r = best[x]
        pending += sum(1 if kk == "t" else ml[xx] for kk, xx in r)
        for sym in reversed(r):
            stack.append(sym)
    return out if len(out) >= 3 else None


def mutate(kinds, terminals, rng):
    """A near-miss: one deletion, insertion or replacement."""
    k = list(kinds)
    if not terminals:
        return k
    op = rng.choice(["del", "ins", "rep", "swap", "trunc"])
    if op == "del" and k:
        del k[rng.randrange(len(k))]
    elif op == "ins":
        k.insert(rng.randint(0, len(k)), rng.choice(terminals))
    elif op == "rep" and k:
        k[rng.randrange(len(k))] = rng.choice(terminals)
    elif op == "swap" and len(k) > 1:
        i = rng.randrange(len(k) - 1)
        k[i], k[i + 1] = k[i + 1], k[i]
    elif op == "trunc" and k:
        k = k[: rng.randrange(len(k))]
    return k


def all_strings(terminals, maxlen):
    out = [[]]
    frontier = [[]]
    for _ in range(maxlen):
        frontier = [s + [t] for s in frontier for t in terminals]
        out += frontier
    return out


# ---- malformed / adversarial source texts --------------------------------------------------

MULTIBYTE = ["é", "ü", "€", "😀", " ", "　", "ß", "Ω", "́"]
ATTR_BODIES = ["derive(Debug)", "doc = \"é\"", "a(b[c{d}e]f)g", "cfg(all(x, y))", "€", "😀(é)", "x = \"]\"", "a(])", "(]", "((", "a)", "]", "[[]]", "{(})", ""]


BOUNDARY_SIZES = [1, 2, 3, 7, 8, 9, 15, 16, 17, 31, 32, 33, 63, 64, 65, 127, 128, 129, 254, 255, 256, 257, 300, 511, 512, 513, 1000]
BOUNDARY_SIZES_THOROUGH = BOUNDARY_SIZES + [4095, 4096, 4097, 32767, 32768, 65535, 65536, 65537]


def deep_attr(n, kinds="([{"):
    """a balanced attribute whose brackets nest `n` deep (counters of 8/16 bits are the target)"""
    close = {"(": ")", "[": "]", "{": "}"}
    opens = [kinds[i % len(kinds)] for i in range(n)]
    return "#[" + "".join(opens) + "x" + "".join(close[o] for o in reversed(opens)) + "]"


def size_probes(thorough=False):
    """Texts in which one structural quantity — bracket nesting depth inside an attribute, number of attributes,
    identifier / comment / whitespace length, type nesting, path length, number of generic arguments, fields,
    variants, declarations — sits at and around the limits of 8- and 16-bit counters.  Valid files and files with one
    error just past the deep structure."""
    out = []
    for n in (BOUNDARY_SIZES_THOROUGH if thorough else BOUNDARY_SIZES):
        for kinds in ("(", "([{"):
            a = deep_attr(n, kinds)
            out.append(f"start S {a} struct S terminal K {{ $T: () }}")
            out.append(a)
            out.append(a[:-1])                                   # the closing `]` missing
            out.append(a[:-2] + "]" + a[-2] + " struct S")       # last two closers swapped
            out.append("#[" + "(" * (n + 45) + ")" * n + "\n struct S")   # unterminated by that many
            out.append("#[" + "(" * n + ")" * (n + 1) + "]")      # one closer too many
        if n <= 4097:
            ident = "A" * n
            out.append(f"start {ident} struct {ident} terminal K {{ $T: () }}")
            out.append(f"start S struct S terminal K {{ ${'t' * n}: () }}")
            out.append("start S " + "#[a]" * n + " struct S terminal K { $T: () }")
            out.append("start S struct S terminal K { $T: () } //" + "c" * n)
            out.append("start" + " " * n + "S struct S terminal K { $T: () }")
            out.append("start S struct S terminal K { $T: " + "Vec<" * n + "u8" + ">" * n + " }")
            out.append("start S struct S terminal K { $T: " + "::".join(["p"] * n) + " }")
            out.append("start S struct S terminal K { $T: G<" + ", ".join(["u8"] * n) + "> }")
        if n <= 513:
            out.append("start S struct S(" + " ".join(["$T"] * n) + ") terminal K { $T: () }")
            out.append("start S enum S { " + " ".join(f"V{i}(" + " ".join(["$T"] * (i + 1)) + ")" for i in range(min(n, 40))) + " } terminal K { $T: () }")
            out.append("start S0 " + " ".join(f"struct S{i}" for i in range(n)) + " terminal K { $T: () }")
    return out


def size_grammars(thorough=False):
    """Grammars whose automaton / tables pass the limits of 8-bit indices: > 256 states, > 256 rules, > 256 terminals,
    > 256 nonterminals (a narrowed StateIndex / RuleIndex / column index is the target).  [(label, items)]"""
    def term(names):
        return {"kind": "terminal", "attrs": ["#[derive(Debug)]"], "name": "Tok", "variants": [{"name": n, "type": "usize"} for n in names]}
    def tup(syms):
        return {"kind": "tuple", "fields": [{"used": True, "sym": s} for s in syms]} if syms else {"kind": "empty"}
    out = []
    # one production of 270 symbols: a chain of > 256 states
    out.append(("size-chain270", [{"kind": "start", "name": "S"},
                {"kind": "struct", "attrs": ["#[derive(Debug)]"], "name": "S", "fieldset": tup([sym_t("ABC"[i % 3]) for i in range(270)])},
                term(["A", "B", "C"])]))
    # 300 alternatives: > 256 rules, a trie of > 256 states
    def bits(i):
        return [sym_t("AB"[(i >> k) & 1]) for k in range(9)]
    out.append(("size-wide300", [{"kind": "start", "name": "E"},
                {"kind": "enum", "attrs": ["#[derive(Debug)]"], "name": "E", "variants": [{"name": f"V{i}", "fieldset": tup(bits(i))} for i in range(300)]},
                term(["A", "B"])]))
    if not thorough:
        return out          # the next two cost the list-based model ≈ 45 s each (flat table lookups)
    # 260 terminals
    out.append(("size-terminals260", [{"kind": "start", "name": "E"},
                {"kind": "enum", "attrs": ["#[derive(Debug)]"], "name": "E", "variants": [{"name": f"V{i}", "fieldset": tup([sym_t(f"T{i}"), sym_t(f"T{(i * 7 + 1) % 260}")])} for i in range(260)]},
                term([f"T{i}" for i in range(260)])]))
    # 260 nonterminals in a chain
    items = [{"kind": "start", "name": "N0"}]
    for i in range(260):
        items.append({"kind": "struct", "attrs": ["#[derive(Debug)]"], "name": f"N{i}", "fieldset": tup([sym_t("A"), sym_n(f"N{i + 1}")] if i < 259 else [sym_t("B")])})
    items.append(term(["A", "B"]))
    out.append(("size-nonterminals260", items))
    return out


def malformed_texts(rng, bases, n):
    """Mutations of valid texts plus raw fragments: the stream for C07/C08."""
    out = []
    frag = ["#[", "#", "$", "/", "//", "$start", "$_", "$struct x", ":::", "#[(]\n", "#[a(])]", "#[foo", "#[€]", "#[doc = \"é\"]",
            "start", "struct", "enum E {", "terminal T { $A: () }", "start S struct S", "﻿start S", "a b", "x/y", "$9", "9", "a-b",
            "#[a]\n#[b] struct S", "struct S { a: }", "struct S ( )", "enum E { V( ) }", "terminal T { $A: }", "terminal T { $A: a:: }",
            "terminal T { $A: a<> }", "terminal T { $A: a<b,> }", "start S start S", "_", "struct _ {_: _}", "struct S {x: $}", "#[x]#[y]"]
    for f in frag:
        out.append(f)
    while len(out) < n:
        b = rng.choice(bases)
        cs = list(b)
        op = rng.random()
        if op < 0.25 and cs:
            i = rng.randrange(len(cs))
            cs[i:i + rng.randint(1, 3)] = []
        elif op < 0.5:
            i = rng.randint(0, len(cs))
            cs[i:i] = list(rng.choice(MULTIBYTE + frag + list("#$/:[](){}<>,_\n\r\t \"'")))
        elif op < 0.65 and cs:
            cs = cs[: rng.randrange(len(cs))]
        elif op < 0.8 and cs:
            i = rng.randrange(len(cs))
            cs[i] = rng.choice(list("#$/:[](){}<>,_ \n") + MULTIBYTE)
        elif op < 0.9:
            i = rng.randint(0, len(cs))
            cs[i:i] = list("#[" + rng.choice(ATTR_BODIES) + "]" + rng.choice(["", "\n", " "]))
        else:
            cs = [rng.choice(list("#$/:[](){}<>,_ \n\tabAB019\"") + MULTIBYTE) for _ in range(rng.randint(1, 30))]
        out.append("".join(cs))
    return out


# ---- statically invalid files (C10) --------------------------------------------------------

def inject_violation(items, rng):
    """Returns (items', label) with one static violation injected, or None."""
    import copy
    it = copy.deepcopy(items)
    nts = [d for d in it if d["kind"] in ("struct", "enum")]
    if not nts or len([d for d in it if d["kind"] == "terminal"]) != 1 or len([d for d in it if d["kind"] == "start"]) != 1:
        return None
    term = [d for d in it if d["kind"] == "terminal"][0]
    choice = rng.choice(["no-start", "two-starts", "no-terminal", "two-terminals", "undef-start", "lower-nt", "lower-t",
                         "lower-tenum", "upper-field", "clash-nt-nt", "clash-t-t", "clash-nt-t", "clash-tenum-nt", "clash-tenum-t",
                         "variant-name-clash", "variant-seq-clash", "undef-nt", "undef-t", "t-as-nt", "nt-as-t", "lower-variant",
                         "start-is-terminal", "tenum-as-nt",
                         # violations inside a declaration nothing refers to: no later stage (conflicts) can mask the verdict
                         "unused-unit-seq-clash", "unused-seq-clash", "unused-variant-name-clash", "unused-undef",
                         "unused-lower",
                         # sibling variants that differ only in the namespace of one symbol (`N` vs `$N`), one of the two
                         # undefined: the only violation is the undefined reference, not a symbol-sequence clash
                         "unused-sibling-cross-namespace", "unused-sibling-cross-namespace"])
    tnames = [v["name"] for v in term["variants"]]

    def all_fields():
        for d in nts:
            fss = [d["fieldset"]] if d["kind"] == "struct" else [v["fieldset"] for v in d["variants"]]
            for fs in fss:
                if fs["kind"] != "empty":
                    for f in fs["fields"]:
                        yield fs, f

    if choice == "no-start":
        it = [d for d in it if d["kind"] != "start"]
    elif choice == "two-starts":
        it.insert(rng.randint(0, len(it)), {"kind": "start", "name": nts[0]["name"]})
    elif choice == "no-terminal":
        it = [d for d in it if d["kind"] != "terminal"]
    elif choice == "two-terminals":
        it.insert(rng.randint(0, len(it)), {"kind": "terminal", "attrs": [], "name": "Other", "variants": []})
    elif choice == "undef-start":
        [d for d in it if d["kind"] == "start"][0]["name"] = "Nowhere"
    elif choice == "start-is-terminal" and term["variants"]:
        [d for d in it if d["kind"] == "start"][0]["name"] = term["variants"][0]["name"]
    elif choice == "lower-nt":
        old = nts[0]["name"]
        new = "_" + old[0].lower() + old[1:]
        rename_nt(it, old, new)
    elif choice == "lower-t" and term["variants"]:
        old = term["variants"][0]["name"]
        rename_t(it, old, "_9" + old[0].lower() + old[1:])
    elif choice == "lower-tenum":
        term["name"] = "tok"
    elif choice == "upper-field":
        named = [(fs, f) for fs, f in all_fields() if fs["kind"] == "named" and f["name"] is not None]
        if not named:
            return None
        rng.choice(named)[1]["name"] = "_Big"
    elif choice == "clash-nt-nt" and len(nts) >= 2:
        rename_nt(it, nts[1]["name"], nts[0]["name"], refs=False)
    elif choice == "clash-t-t" and len(term["variants"]) >= 2:
        term["variants"][1]["name"] = term["variants"][0]["name"]
    elif choice == "clash-nt-t" and term["variants"]:
        term["variants"][0]["name"] = nts[0]["name"]
    elif choice == "clash-tenum-nt":
        term["name"] = nts[-1]["name"]
    elif choice == "clash-tenum-t" and term["variants"]:
        term["name"] = term["variants"][-1]["name"]
    elif choice == "variant-name-clash":
        es = [d for d in nts if d["kind"] == "enum" and len(d["variants"]) >= 2]
        if not es:
            return None
        e = rng.choice(es)
        e["variants"][-1]["name"] = e["variants"][0]["name"]
    elif choice == "variant-seq-clash":
        es = [d for d in nts if d["kind"] == "enum" and len(d["variants"]) >= 1]
        if not es:
            return None
        e = rng.choice(es)
        v = copy.deepcopy(rng.choice(e["variants"]))
        v["name"] = "Dup"
        # same symbols, possibly a different fieldset flavour
        if v["fieldset"]["kind"] == "named" and rng.random() < 0.5:
            v["fieldset"] = {"kind": "tuple", "fields": [{"used": True, "sym": f["sym"]} for f in v["fieldset"]["fields"]]}
        e["variants"].append(v)
    elif choice in ("undef-nt", "undef-t", "t-as-nt", "nt-as-t", "tenum-as-nt"):
        fl = list(all_fields())
        if not fl:
            return None
        fs, f = rng.choice(fl)
        if choice == "undef-nt":
            f["sym"] = sym_n("Missing")
        elif choice == "undef-t":
            f["sym"] = sym_t("Missing")
        elif choice == "t-as-nt":
            if not term["variants"]:
                return None
            f["sym"] = sym_n(rng.choice(term["variants"])["name"])
        elif choice == "nt-as-t":
            f["sym"] = sym_t(rng.choice(nts)["name"])
        else:
            f["sym"] = sym_n(term["name"])
    elif choice == "lower-variant":
        es = [d for d in nts if d["kind"] == "enum" and d["variants"]]
        if not es:
            return None
        rng.choice(rng.choice(es)["variants"])["name"] = "lower"
    elif choice.startswith("unused-"):
        def fs_of(syms, named):
            if not syms:
                return {"kind": "empty"}
            if named:
                return {"kind": "named", "fields": [{"name": f"f{i}", "sym": s} for i, s in enumerate(syms)]}
            return {"kind": "tuple", "fields": [{"used": True, "sym": s} for s in syms]}
        some = [sym_t(rng.choice(tnames))] if tnames and rng.random() < 0.7 else [sym_n(nts[0]["name"])]
        name = "Zzunused"
        if choice == "unused-unit-seq-clash":
            d = {"kind": "enum", "attrs": [], "name": name, "variants": [{"name": "Alpha", "fieldset": {"kind": "empty"}}, {"name": "Beta", "fieldset": {"kind": "empty"}}]}
        elif choice == "unused-seq-clash":
            d = {"kind": "enum", "attrs": [], "name": name, "variants": [{"name": "Alpha", "fieldset": fs_of(some, False)}, {"name": "Beta", "fieldset": fs_of(some, rng.random() < 0.5)}]}
        elif choice == "unused-variant-name-clash":
            d = {"kind": "enum", "attrs": [], "name": name, "variants": [{"name": "Alpha", "fieldset": fs_of(some, False)}, {"name": "Alpha", "fieldset": {"kind": "empty"}}]}
        elif choice == "unused-sibling-cross-namespace":
            if tnames and rng.random() < 0.5 and tnames[0] not in [d["name"] for d in nts]:
                base, other = sym_t(tnames[0]), sym_n(tnames[0])        # `$T` defined, `T` is not a nonterminal
            elif nts[0]["name"] not in tnames:
                base, other = sym_n(nts[0]["name"]), sym_t(nts[0]["name"])  # `N` defined, `$N` is not a terminal
            else:
                return None
            pre = [sym_t(rng.choice(tnames))] if tnames and rng.random() < 0.5 else []
            va, vb = pre + [base], pre + [other]
            if rng.random() < 0.5:
                va, vb = vb, va
            d = {"kind": "enum", "attrs": [], "name": name, "variants": [{"name": "Alpha", "fieldset": fs_of(va, False)}, {"name": "Beta", "fieldset": fs_of(vb, rng.random() < 0.5)}]}
        elif choice == "unused-undef":
            d = {"kind": "struct", "attrs": [], "name": name, "fieldset": fs_of([rng.choice([sym_n("Missing"), sym_t("Missing")] + ([sym_n(tnames[0])] if tnames else []))], rng.random() < 0.5)}
        else:
            if rng.random() < 0.5:
                d = {"kind": "enum", "attrs": [], "name": name, "variants": [{"name": "alpha", "fieldset": fs_of(some, False)}]}
            else:
                d = {"kind": "struct", "attrs": [], "name": name, "fieldset": {"kind": "named", "fields": [{"name": "Big", "sym": some[0]}]}}
        it.insert(rng.randint(0, len(it)), d)
    else:
        return None
    return it, choice


def multi_violation(items, rng):
    """Returns (items', label): SEVERAL static violations of ONE kind in parallel positions of one scope (two or
    three different duplicated variant names in one enum, several duplicated symbol sequences, several clashing
    top-level names, several undefined references …), so that which one is reported is decided by the order in
    which the validator visits them.  The property fixes no order, but C14 demands that the answer is a function
    of the text, and the model fixes the order of the unchanged code."""
    import copy
    it = copy.deepcopy(items)
    nts = [d for d in it if d["kind"] in ("struct", "enum")]
    terms = [d for d in it if d["kind"] == "terminal"]
    if not nts or len(terms) != 1:
        return None
    term = terms[0]
    tnames = [v["name"] for v in term["variants"]]
    some = sym_t(tnames[0]) if tnames else sym_n(nts[0]["name"])
    kind = rng.choice(["variant-names", "variant-names", "variant-seqs", "toplevel", "undef", "lower", "terminal-names", "mixed-enum",
                       "nt-t-clashes", "nt-t-clashes", "mixed-toplevel"])
    groups = rng.randint(2, 3)
    base = rng.choice(["Add", "Neg", "Mul", "Zq", "Kx"])
    names = [f"{base}{chr(65 + j)}" for j in range(groups)]

    def tup(n):
        return {"kind": "empty"} if n == 0 else {"kind": "tuple", "fields": [{"used": True, "sym": some} for _ in range(n)]}

    if kind in ("variant-names", "mixed-enum"):
        vs = [{"name": n, "fieldset": None} for n in names] * 2
        rng.shuffle(vs)
        vs = [{"name": v["name"], "fieldset": tup(j)} for j, v in enumerate(vs)]     # pairwise distinct sequences
        if kind == "mixed-enum":
            # … and two pairs of equal symbol sequences as well
            vs += [{"name": "P0", "fieldset": tup(9)}, {"name": "P1", "fieldset": tup(10)}, {"name": "P2", "fieldset": tup(9)}, {"name": "P3", "fieldset": tup(10)}]
            rng.shuffle(vs)
        it.insert(rng.randint(0, len(it)), {"kind": "enum", "attrs": [], "name": "Zzmulti", "variants": vs})
    elif kind == "variant-seqs":
        seqs = list(range(1, groups + 1)) * 2
        rng.shuffle(seqs)
        vs = [{"name": f"V{j}", "fieldset": tup(n)} for j, n in enumerate(seqs)]
        it.insert(rng.randint(0, len(it)), {"kind": "enum", "attrs": [], "name": "Zzmulti", "variants": vs})
    elif kind == "toplevel":
        ds = [{"kind": "struct", "attrs": [], "name": "Zz" + n, "fieldset": tup(j % 3)} for j, n in enumerate(names * 2)]
        rng.shuffle(ds)
        for d in ds:
            it.insert(rng.randint(0, len(it)), d)
    elif kind in ("nt-t-clashes", "mixed-toplevel"):
        # several names used both for a nonterminal and for a terminal variant (and, in the mixed kind, a repeated
        # terminal variant and a repeated nonterminal as well): every pair is a top-level name clash
        for j, n in enumerate(names):
            it.insert(rng.randint(0, len(it)), {"kind": "struct", "attrs": [], "name": "Zz" + n, "fieldset": tup(j % 3)})
        vs = [{"name": "Zz" + n, "type": "()"} for n in names]
        if kind == "mixed-toplevel":
            vs.append({"name": "Zz" + names[0], "type": "usize"})
            it.insert(rng.randint(0, len(it)), {"kind": "struct", "attrs": [], "name": "Zz" + names[-1], "fieldset": tup(0)})
        rng.shuffle(vs)
        for v in vs:
            term["variants"].insert(rng.randint(0, len(term["variants"])), v)
    elif kind == "undef":
        missing = [sym_n("Missing" + n) if rng.random() < 0.5 else sym_t("Missing" + n) for n in names]
        if rng.random() < 0.5:
            fs = {"kind": "tuple", "fields": [{"used": True, "sym": x} for x in missing]}
            it.insert(rng.randint(0, len(it)), {"kind": "struct", "attrs": [], "name": "Zzmulti", "fieldset": fs})
        else:
            vs = [{"name": f"V{j}", "fieldset": {"kind": "tuple", "fields": [{"used": True, "sym": x}]}} for j, x in enumerate(missing)]
            it.insert(rng.randint(0, len(it)), {"kind": "enum", "attrs": [], "name": "Zzmulti", "variants": vs})
    elif kind == "lower":
        if rng.random() < 0.5:
            vs = [{"name": n[0].lower() + n[1:], "fieldset": tup(j)} for j, n in enumerate(names)]
            it.insert(rng.randint(0, len(it)), {"kind": "enum", "attrs": [], "name": "Zzmulti", "variants": vs})
        else:
            fs = {"kind": "named", "fields": [{"name": n, "sym": some} for n in names]}
            it.insert(rng.randint(0, len(it)), {"kind": "struct", "attrs": [], "name": "Zzmulti", "fieldset": fs})
    else:
        vs = [{"name": "Zz" + n, "type": "()"} for n in names] * 2
        rng.shuffle(vs)
        at = rng.randint(0, len(term["variants"]))
        term["variants"][at:at] = vs
    return it, "multi-" + kind


def near_miss(items, rng):
    """Returns (items', label): a WELL-FORMED file with declarations that are *nearly* in violation of a uniqueness
    rule — sibling variants whose symbol sequences differ but coincide under a plausible wrong key (names written
    back to back: [Ab, Cd] vs [AbCd]; a permutation; a duplicated symbol; a proper prefix; names differing in
    letter case only), variant names and top-level names that differ in case, by a suffix or by an underscore.
    Every such file must pass validation; a validator keyed too coarsely reports a clash that is not there."""
    import copy
    it = copy.deepcopy(items)
    nts = [d for d in it if d["kind"] in ("struct", "enum")]
    terms = [d for d in it if d["kind"] == "terminal"]
    if not nts or len(terms) != 1:
        return None
    term = terms[0]
    taken = {d["name"] for d in nts} | {v["name"] for v in term["variants"]} | {term["name"]}
    a, b = rng.choice([("Ab", "Cd"), ("Opt", "Expr"), ("Kw", "Arg"), ("X", "Y"), ("Aa", "A")])
    ab = a + b
    if {a, b, ab, a.upper() + "q", "Zznear"} & taken:
        return None
    kind = rng.choice(["concat-nn", "concat-tn", "concat-tt", "permutation", "duplication", "prefix", "case", "variant-names", "toplevel-names"])

    def tup(*syms):
        return {"kind": "tuple", "fields": [{"used": rng.random() < 0.8, "sym": x} for x in syms]}

    def add_nt(name):
        it.append({"kind": "struct", "attrs": [], "name": name, "fieldset": {"kind": "empty"}})

    def add_t(name):
        term["variants"].append({"name": name, "type": "()"})

    if kind == "concat-nn":
        add_nt(a); add_nt(b); add_nt(ab)
        vs = [tup(sym_n(a), sym_n(b)), tup(sym_n(ab))]
    elif kind == "concat-tn":
        add_t(a); add_nt(b); add_t(ab)
        vs = [tup(sym_t(a), sym_n(b)), tup(sym_t(ab))]
    elif kind == "concat-tt":
        add_t(a); add_t(b); add_t(ab)
        vs = [tup(sym_t(a), sym_t(b)), tup(sym_t(ab))]
    elif kind == "permutation":
        add_nt(a); add_t(b)
        vs = [tup(sym_n(a), sym_t(b)), tup(sym_t(b), sym_n(a))]
    elif kind == "duplication":
        add_nt(a)
        vs = [tup(sym_n(a), sym_n(a)), tup(sym_n(a)), tup(sym_n(a), sym_n(a), sym_n(a))]
    elif kind == "prefix":
        add_nt(a); add_t(b)
        vs = [tup(sym_n(a), sym_t(b)), tup(sym_n(a)), tup(sym_n(a), sym_t(b), sym_t(b))]
    elif kind == "case":
        up = a.upper() + "q"
        lo = a.upper() + "Q"
        add_nt(up); add_nt(lo)
        vs = [tup(sym_n(up)), tup(sym_n(lo))]
    else:
        vs = None
    if kind == "variant-names":
        names = rng.choice([["Ab", "AB", "Ab_", "Ab2"], ["V", "V_", "V0", "Vv"], ["Xy", "XY", "X_y"]])
        d = {"kind": "enum", "attrs": [], "name": "Zznear", "variants": [{"name": n, "fieldset": ({"kind": "empty"} if j == 0 else tup(*([sym_n(nts[0]["name"])] * j)))} for j, n in enumerate(names)]}
        it.insert(rng.randint(0, len(it)), d)
    elif kind == "toplevel-names":
        base = "Zznear"
        for j, n in enumerate([base, base + "2", base.upper(), base + "_"]):
            it.insert(rng.randint(0, len(it)), {"kind": "struct", "attrs": [], "name": n, "fieldset": ({"kind": "empty"} if j % 2 else tup(sym_n(nts[0]["name"])))})
    else:
        rng.shuffle(vs)
        d = {"kind": "enum", "attrs": [], "name": "Zznear", "variants": [{"name": f"V{j}", "fieldset": v} for j, v in enumerate(vs)]}
        it.insert(rng.randint(0, len(it)), d)
    return it, "near-" + kind


SENTINEL_NAMES = ["Eof", "EOF", "Eof2", "Augmented", "Epsilon", "Accept", "Reduce", "Shift", "Start", "End", "Terminal", "Quasiterminal"]


def sentinelize(items, rng):
    """Renames one terminal (and sometimes one nonterminal) after a word the generator might use for something of its
    own — the end-of-input column, the augmented start rule, ε: a user's `$Eof` is a terminal like any other."""
    import copy
    it = copy.deepcopy(items)
    terms = [d for d in it if d["kind"] == "terminal"]
    nts = [d["name"] for d in it if d["kind"] in ("struct", "enum")]
    if len(terms) != 1 or not terms[0]["variants"]:
        return it
    taken = set(nts) | {v["name"] for v in terms[0]["variants"]} | {terms[0]["name"]}
    free = [n for n in SENTINEL_NAMES if n not in taken]
    if not free:
        return it
    new = rng.choice(free[:3] if rng.random() < 0.7 else free)
    rename_t(it, rng.choice(terms[0]["variants"])["name"], new)
    if rng.random() < 0.3:
        free = [n for n in free if n != new]
        start = [d for d in it if d["kind"] == "start"][0]["name"]
        cand = [n for n in nts if n != start]
        if free and cand:
            rename_nt(it, rng.choice(cand), rng.choice(free))
    return it


def big_enum_violation(rng):
    """An enum with around 20, 32, 64 or 128 variants (the sizes at which sorting routines, small-vector types and
    bit sets change their algorithm) in which one variant name — or one symbol sequence — occurs two or three times, at
    random places; referred to by nothing, so that no later stage masks the verdict.  Returns (items, label)."""
    n = rng.choice([19, 20, 21, 22, 23, 31, 32, 33, 40, 63, 64, 65, 100, 128, 129])
    kind = rng.choice(["name", "name", "seq"])

    def seq(j):
        # pairwise distinct short sequences: the binary digits of j + 1 written with two terminals
        bits = bin(j + 1)[2:]
        return {"kind": "tuple", "fields": [{"used": True, "sym": sym_t("T" if b == "0" else "U")} for b in bits]}

    vs = [{"name": f"V{j}x", "fieldset": seq(j)} for j in range(n)]
    occ = sorted(rng.sample(range(n), rng.choice([2, 2, 3])))
    for o in occ[1:]:
        if kind == "name":
            vs[o]["name"] = vs[occ[0]]["name"]
        else:
            vs[o]["fieldset"] = seq(occ[0])
    items = [{"kind": "start", "name": "S"}, {"kind": "struct", "attrs": [], "name": "S", "fieldset": {"kind": "empty"}},
             {"kind": "enum", "attrs": [], "name": "Big", "variants": vs},
             {"kind": "terminal", "attrs": [], "name": "Tok", "variants": [{"name": "T", "type": "()"}, {"name": "U", "type": "()"}]}]
    if rng.random() < 0.5:
        items[1], items[2] = items[2], items[1]
    return items, f"big-enum-{kind}-{n}"


def rename_nt(items, old, new, refs=True):
    done = False
    for d in items:
        if d["kind"] in ("struct", "enum") and d["name"] == old and not done:
            d["name"] = new
            done = True
    if refs:
        for d in items:
            if d["kind"] == "start" and d["name"] == old:
                d["name"] = new
            fss = []
            if d["kind"] == "struct":
                fss = [d["fieldset"]]
            elif d["kind"] == "enum":
                fss = [v["fieldset"] for v in d["variants"]]
            for fs in fss:
                if fs["kind"] != "empty":
                    for f in fs["fields"]:
                        if f["sym"].get("n") == old:
                            f["sym"] = sym_n(new)


def rename_t(items, old, new):
    for d in items:
        if d["kind"] == "terminal":
            for v in d["variants"]:
                if v["name"] == old:
                    v["name"] = new
        fss = []
        if d["kind"] == "struct":
            fss = [d["fieldset"]]
        elif d["kind"] == "enum":
            fss = [v["fieldset"] for v in d["variants"]]
        for fs in fss:
            if fs["kind"] != "empty":
                for f in fs["fields"]:
                    if f["sym"].get("t") == old:
                        f["sym"] = sym_t(new)


# ---- Oset histories ------------------------------------------------------------------------

def oset_history(rng, ty, nops=12):
    def elem():
        if ty == "nat":
            return str(rng.choice([0, 1, 2, 3, 5, 8, 13, 255, 256, 4294967295, rng.randrange(20)]))
        if ty == "pair":
            return f"{rng.randrange(4)}.{rng.randrange(4)}"
        s = rng.choice(["", "a", "b", "ab", "aa", "B", "é", "z", "a\u0000", "ÿ", "€", "ba"])
        return "x" + s.encode().hex()

    def elems():
        n = rng.randint(0, 6)
        return ",".join(elem() for _ in range(n)) if n else "-"

    ops, live = [], []
    for _ in range(nops):
        if not live or rng.random() < 0.15:
            r = len(live)
            live.append(r)
            ops.append(f"new {r}" if rng.random() < 0.4 else f"from {r} {elems()}")
            continue
        r = rng.choice(live)
        k = rng.random()
        if k < 0.3:
            ops.append(f"ins {r} {elem()}")
        elif k < 0.45:
            ops.append(f"ext {r} {elems()}")
        elif k < 0.65:
            ops.append(f"has {r} {elem()}")
        elif k < 0.75:
            ops.append(f"iter {r}")
        elif k < 0.8:
            ops.append(f"len {r}")
        elif k < 0.86:
            ops.append(f"cmp {r} {rng.choice(live)}")
        elif k < 0.9:
            ops.append(f"eq {r} {rng.choice(live)}")
        elif k < 0.94:
            nr = len(live)
            live.append(nr)
            ops.append(f"clone {nr} {r}" if rng.random() < 0.8 else f"default {nr}")
            if len(live) >= 3 and rng.random() < 0.6:
                ops.append(f"clonefrom {rng.choice(live)} {rng.choice(live)}")
        elif k < 0.97:
            ops.append(f"empty {r}")
        else:
            ops.append(f"nth {r} {rng.choice([0, 0, 1, 2, 3, 5, 9])}")
    return ty + " " + ";".join(ops)
