#!/usr/bin/env python3
"""seed_store.py <id> <name> <detected_by comma list> <notes>
Copies a confirmed seeded change from /tmp/mut/<id>/demo into /verif/seeded/<name>/ (without build output)."""
import json, os, shutil, sys
sid, name, detected, notes = sys.argv[1:5]
src = f"/tmp/mut/{sid}/demo"
dst = f"/verif/seeded/{name}"
shutil.rmtree(dst, ignore_errors=True)
shutil.copytree(src, dst, ignore=shutil.ignore_patterns("target", "*.rlib", "*.rmeta", "Cargo.lock"))
m = json.load(open(os.path.join(src, "meta.json")))
m["confirmed"] = {
    "suite_with_patch": "cargo test --workspace --no-fail-fast --offline: 63 + 55 passed",
    "demo_with_patch": "fails", "demo_without_patch": "passes",
    "checked_in": f"scratch worktree /tmp/mut/{sid} (removed afterwards)",
}
m["checks_run"] = "python3 tools/seed_eval.py seeded/%s/patch.diff <ids> (applies to /repo, runs ./check <id> --tier quick, reverts)" % name
m["detected_by"] = detected.split(",")
m["notes"] = notes
json.dump(m, open(os.path.join(dst, "meta.json"), "w"), indent=1, ensure_ascii=False)
print("stored", dst, os.listdir(dst))
