#!/usr/bin/env python3
"""benign_eval.py <patch.diff> [<pid> ...]
Applies a behaviour-preserving refactoring to /repo, runs the quick checks (all 18 by default), undoes the
change, and reports every check that raised an alarm (there should be none)."""
import subprocess
import sys

patch = sys.argv[1]
pids = sys.argv[2:] or ["C%02d" % i for i in range(1, 19)]
assert subprocess.run(["git", "-C", "/repo", "status", "--porcelain"], capture_output=True, text=True).stdout.strip() == "", "/repo not clean"
subprocess.run(["git", "-C", "/repo", "apply", patch], check=True)
res = {}
try:
    for pid in pids:
        r = subprocess.run(["/verif/check", pid, "--tier", "quick"], capture_output=True, text=True, cwd="/verif")
        v = [l for l in r.stdout.splitlines() if l.startswith("VIOLATION")]
        first = [l for l in r.stderr.splitlines() if "violation:" in l][:1]
        res[pid] = (r.returncode, len(v), first[0][:300] if first else "")
finally:
    subprocess.run(["git", "-C", "/repo", "checkout", "--", "."], check=True)
bad = {p: x for p, x in res.items() if x[0] != 0 or x[1]}
print("checks run:", len(res), "alarms:", len(bad))
for pid, (rc, n, first) in bad.items():
    print(f"  FALSE ALARM? {pid}: rc={rc} violations={n} {first}")
