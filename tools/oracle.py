"""Reference oracle for small context-free grammars and LR automata.

Pure Python 3, standard library only.  Everything here is written straight from
the textbook definitions (Earley recognition; Aho/Sethi/Ullman canonical LR(1)
collection; LALR(1) = canonical LR(1) states merged by equal core) and aims to be
simple and obviously correct rather than fast.  Intended sizes: <= 8
nonterminals, <= 8 terminals, <= 20 rules, rhs length <= 6, input length <= 12.

Grammar = dict with keys "terminals", "nonterminals", "start", "rules"; a rule is
(lhs, rhs) and rhs symbols are ("t", name) / ("n", name); rule index = position.
Earley item  = (rule, dot, origin);  LR(1) item = (rule, dot, la)
where rule is a rule index or AUG (the augmented rule S' -> start) and la is a
terminal name or None (end of input).
"""
import sys

sys.setrecursionlimit(max(sys.getrecursionlimit(), 10000))

AUG = "aug"


# --------------------------------------------------------------------------- basics

def check_grammar(G):
    """Raise ValueError if G is not a well-formed grammar dict."""
    ts, ns = list(G["terminals"]), list(G["nonterminals"])
    if len(set(ts)) != len(ts) or len(set(ns)) != len(ns) or set(ts) & set(ns):
        raise ValueError("symbol names must be distinct and namespaces disjoint")
    if G["start"] not in ns:
        raise ValueError("start symbol is not a nonterminal")
    for lhs, rhs in G["rules"]:
        if lhs not in ns:
            raise ValueError("rule lhs %r is not a nonterminal" % (lhs,))
        for kind, name in rhs:
            if not ((kind == "t" and name in ts) or (kind == "n" and name in ns)):
                raise ValueError("bad rhs symbol %r" % ((kind, name),))


def _rhs(G, rule):
    """Right-hand side of a rule index, or of the augmented rule."""
    return [("n", G["start"])] if rule == AUG else [tuple(x) for x in G["rules"][rule][1]]


def _rules_for(G, A):
    """Indices of the rules whose lhs is A, in rule order."""
    return [i for i, (lhs, _) in enumerate(G["rules"]) if lhs == A]


def productive(G):
    """Nonterminals deriving at least one terminal string (least fixpoint)."""
    prod, changed = set(), True
    while changed:
        changed = False
        for lhs, rhs in G["rules"]:
            if lhs not in prod and all(k == "t" or x in prod for k, x in rhs):
                prod.add(lhs)
                changed = True
    return prod


def nullable(G):
    """Nonterminals deriving the empty string (least fixpoint)."""
    nul, changed = set(), True
    while changed:
        changed = False
        for lhs, rhs in G["rules"]:
            if lhs not in nul and all(k == "n" and x in nul for k, x in rhs):
                nul.add(lhs)
                changed = True
    return nul


def _first_seq(seq, fs, nul):
    """(FIRST of the symbol string seq, whether all of seq is nullable)."""
    out = set()
    for kind, name in seq:
        if kind == "t":
            out.add(name)
            return out, False
        out |= fs[name]
        if name not in nul:
            return out, False
    return out, True


def first_sets(G):
    """Sentential-form FIRST: a in FIRST(A) iff A =>* a delta (textbook fixpoint)."""
    nul = nullable(G)
    fs = {A: set() for A in G["nonterminals"]}
    changed = True
    while changed:
        changed = False
        for lhs, rhs in G["rules"]:
            new, _ = _first_seq(rhs, fs, nul)
            if not new <= fs[lhs]:
                fs[lhs] |= new
                changed = True
    return fs


# --------------------------------------------------------------------------- Earley

def _earley_sets(G, kinds):
    """Earley sets S[0..n] of items (rule, dot, origin); each set is iterated to a
    fixpoint of predict/complete, which handles nullable completions correctly."""
    n = len(kinds)
    sets = [set() for _ in range(n + 1)]
    sets[0].add((AUG, 0, 0))
    for k in range(n + 1):
        if k > 0:  # scan
            for r, d, o in sets[k - 1]:
                rhs = _rhs(G, r)
                if d < len(rhs) and rhs[d] == ("t", kinds[k - 1]):
                    sets[k].add((r, d + 1, o))
        changed = True
        while changed:
            changed = False
            for r, d, o in list(sets[k]):
                rhs = _rhs(G, r)
                new = []
                if d < len(rhs):
                    if rhs[d][0] == "n":  # predict
                        new = [(ri, 0, k) for ri in _rules_for(G, rhs[d][1])]
                elif r != AUG:  # complete
                    sym = ("n", G["rules"][r][0])
                    for r2, d2, o2 in list(sets[o]):
                        rhs2 = _rhs(G, r2)
                        if d2 < len(rhs2) and rhs2[d2] == sym:
                            new.append((r2, d2 + 1, o2))
                for it in new:
                    if it not in sets[k]:
                        sets[k].add(it)
                        changed = True
    return sets


def recognize(G, kinds):
    """Is the terminal-name sequence kinds derivable from the start symbol?"""
    return (AUG, 1, 0) in _earley_sets(G, list(kinds))[-1]


def _viable_flags(G, kinds):
    """flags[k] = kinds[:k] is a prefix of some sentence, for k = 0..len(kinds).

    Restrict G to rules mentioning only productive nonterminals; then every item in
    an Earley set can be completed to a sentence, so a prefix is viable iff its
    Earley set is non-empty (and the start symbol is productive)."""
    kinds = list(kinds)
    prod = productive(G)
    if G["start"] not in prod:
        return [False] * (len(kinds) + 1)
    rules = [(l, r) for l, r in G["rules"]
             if l in prod and all(k == "t" or x in prod for k, x in r)]
    sets = _earley_sets(dict(G, rules=rules), kinds)
    return [len(s) > 0 for s in sets]


def extendable(G, kinds):
    """Does some (possibly empty) terminal string v make kinds+v a sentence?"""
    return _viable_flags(G, kinds)[-1]


def first_dead_index(G, kinds):
    """Smallest i with kinds[:i+1] not extendable, else None.  (For empty kinds the
    answer is always None, even if the empty prefix itself is not extendable.)"""
    flags = _viable_flags(G, kinds)
    for i in range(len(kinds)):
        if not flags[i + 1]:
            return i
    return None


# --------------------------------------------------------------------------- trees

def _derivable(G, kinds):
    """(D, splits): D = least set of (A, i, j) with A =>* kinds[i:j]; splits(rhs,i,j)
    yields every boundary tuple (p0=i,...,pk=j) such that rhs[m] derives
    kinds[p_m:p_{m+1}] for all m (nonterminals judged by membership in D)."""
    n, D = len(kinds), set()

    def splits(rhs, i, j):
        if not rhs:
            if i == j:
                yield (i,)
            return
        kind, name = rhs[0]
        if kind == "t":
            if i < j and kinds[i] == name:
                for rest in splits(rhs[1:], i + 1, j):
                    yield (i,) + rest
        else:
            for m in range(i, j + 1):
                if (name, i, m) in D:
                    for rest in splits(rhs[1:], m, j):
                        yield (i,) + rest

    changed = True
    while changed:
        changed = False
        for lhs, rhs in G["rules"]:
            for i in range(n + 1):
                for j in range(i, n + 1):
                    if (lhs, i, j) not in D and any(True for _ in splits(list(rhs), i, j)):
                        D.add((lhs, i, j))
                        changed = True
    return D, splits


class _Cycle(Exception):
    pass


def count_trees(G, kinds, limit=2):
    """min(limit, number of derivation trees of kinds from start).

    Nodes are derivable triples (A,i,j); edges go to the nonterminal children of
    every rule instance all of whose children are derivable.  Every node then has
    >= 1 tree, so a cycle reachable from the root means infinitely many trees
    (-> limit); otherwise the graph is a DAG and memoised counting is exact."""
    kinds = list(kinds)
    D, splits = _derivable(G, kinds)
    root = (G["start"], 0, len(kinds))
    if root not in D:
        return 0
    memo, onstack = {}, set()

    def cnt(node):
        if node in memo:
            return memo[node]
        if node in onstack:
            raise _Cycle()
        onstack.add(node)
        A, i, j = node
        total = 0
        for ri in _rules_for(G, A):
            rhs = _rhs(G, ri)
            for b in splits(rhs, i, j):
                prod = 1
                for m, (kind, name) in enumerate(rhs):
                    if kind == "n":
                        prod = min(limit, prod * cnt((name, b[m], b[m + 1])))
                total = min(limit, total + prod)
        onstack.discard(node)
        memo[node] = total
        return total

    try:
        return cnt(root)
    except _Cycle:
        return limit


def parse_tree(G, kinds):
    """The unique derivation tree if count_trees == 1, else None.  Leaf = ("t", pos),
    internal node = ("n", rule_index, [children])."""
    kinds = list(kinds)
    if count_trees(G, kinds, 2) != 1:
        return None
    _, splits = _derivable(G, kinds)

    def build(A, i, j):
        opts = [(ri, b) for ri in _rules_for(G, A) for b in splits(_rhs(G, ri), i, j)]
        assert len(opts) == 1, "uniqueness violated"
        ri, b = opts[0]
        kids = []
        for m, (kind, name) in enumerate(_rhs(G, ri)):
            kids.append(("t", b[m]) if kind == "t" else build(name, b[m], b[m + 1]))
        return ("n", ri, kids)

    return build(G["start"], 0, len(kinds))


# --------------------------------------------------------------------------- LR(1) / LALR(1)

def _symbols(G):
    """All grammar symbols in a fixed order: terminals, then nonterminals."""
    return [("t", a) for a in G["terminals"]] + [("n", A) for A in G["nonterminals"]]


def lr1_items_closure(G, items, _ctx=None):
    """Textbook LR(1) closure: for [A -> alpha . B beta, a] add [B -> . gamma, b] for
    each rule B -> gamma and each b in FIRST(beta a).  Returns a frozenset."""
    fs, nul = _ctx if _ctx is not None else (first_sets(G), nullable(G))
    out = set(items)
    work = list(out)
    while work:
        r, d, la = work.pop()
        rhs = _rhs(G, r)
        if d < len(rhs) and rhs[d][0] == "n":
            las, all_nullable = _first_seq(rhs[d + 1:], fs, nul)
            las = set(las)
            if all_nullable:
                las.add(la)
            for ri in _rules_for(G, rhs[d][1]):
                for b in las:
                    if (ri, 0, b) not in out:
                        out.add((ri, 0, b))
                        work.append((ri, 0, b))
    return frozenset(out)


def _goto_set(G, items, sym, ctx):
    """Textbook goto(I, X) = closure of the items of I advanced over X."""
    moved = set()
    for r, d, la in items:
        rhs = _rhs(G, r)
        if d < len(rhs) and rhs[d] == sym:
            moved.add((r, d + 1, la))
    return lr1_items_closure(G, moved, ctx) if moved else frozenset()


def canonical_lr1(G):
    """Canonical LR(1) collection: {"states", "start": 0, "trans"}.  States are
    numbered in breadth-first discovery order, symbols tried in _symbols(G) order."""
    check_grammar(G)
    ctx = (first_sets(G), nullable(G))
    start = lr1_items_closure(G, {(AUG, 0, None)}, ctx)
    states, index, trans = [start], {start: 0}, {}
    i = 0
    while i < len(states):
        for sym in _symbols(G):
            tgt = _goto_set(G, states[i], sym, ctx)
            if tgt:
                if tgt not in index:
                    index[tgt] = len(states)
                    states.append(tgt)
                trans[(i, sym)] = index[tgt]
        i += 1
    return {"states": states, "start": 0, "trans": trans}


def _core(items):
    return frozenset((r, d) for r, d, _ in items)


def lalr(G):
    """LALR(1) machine: canonical LR(1) states merged by equal core, numbered by
    first appearance of the core in the canonical collection."""
    C = canonical_lr1(G)
    cores, merged, m = {}, [], {}
    for s, items in enumerate(C["states"]):
        c = _core(items)
        if c not in cores:
            cores[c] = len(merged)
            merged.append(set())
        m[s] = cores[c]
        merged[m[s]] |= items
    trans = {}
    for (s, sym), t in C["trans"].items():
        key = (m[s], sym)
        assert trans.get(key, m[t]) == m[t], "goto is determined by the core"
        trans[key] = m[t]
    return {"states": [frozenset(x) for x in merged], "start": m[C["start"]], "trans": trans}


def demands(G, state_items):
    """{la: set of actions} demanded by the items of one state."""
    out = {}
    for r, d, la in state_items:
        rhs = _rhs(G, r)
        if d < len(rhs):
            if rhs[d][0] == "t":
                out.setdefault(rhs[d][1], set()).add(("shift", rhs[d][1]))
        elif r == AUG:
            out.setdefault(None, set()).add(("accept",))
        else:
            out.setdefault(la, set()).add(("reduce", r))
    return out


def _la_order(G):
    return list(G["terminals"]) + [None]


def conflicts(G, M):
    """[(state_index, la, sorted_actions)] for every (state, la) with > 1 action."""
    out = []
    for s, items in enumerate(M["states"]):
        dem = demands(G, items)
        for la in _la_order(G):
            if len(dem.get(la, ())) > 1:
                out.append((s, la, sorted(dem[la])))
    return out


def is_lalr1(G):
    """True iff the LALR(1) machine of G has no conflicts."""
    return not conflicts(G, lalr(G))


def tables(G, M):
    """(action, goto) for a conflict-free machine; ValueError on any conflict."""
    action, goto = {}, {}
    for s, items in enumerate(M["states"]):
        for la, acts in demands(G, items).items():
            if len(acts) > 1:
                raise ValueError("conflict in state %d on %r: %r" % (s, la, sorted(acts)))
            (act,) = acts
            if act[0] == "shift":
                act = ("shift", M["trans"][(s, ("t", act[1]))])
            action[(s, la)] = act
    for (s, (kind, name)), t in M["trans"].items():
        if kind == "n":
            goto[(s, name)] = t
    return action, goto


def machines_isomorphic(M1, M2):
    """State mapping M1 -> M2 found by walking both machines from their start states
    along equal symbols; returned iff it is a bijection on all states, preserves
    item sets, and the transition maps correspond exactly.  Otherwise None."""
    if len(M1["states"]) != len(M2["states"]) or len(M1["trans"]) != len(M2["trans"]):
        return None
    out1 = {}
    for (s, sym), t in M1["trans"].items():
        out1.setdefault(s, []).append((sym, t))
    f = {M1["start"]: M2["start"]}
    work = [M1["start"]]
    while work:
        s = work.pop()
        for sym, t in out1.get(s, []):
            t2 = M2["trans"].get((f[s], sym))
            if t2 is None:
                return None
            if t in f:
                if f[t] != t2:
                    return None
            else:
                f[t] = t2
                work.append(t)
    n = len(M1["states"])
    if len(f) != n or len(set(f.values())) != n:
        return None
    if any(frozenset(M1["states"][s]) != frozenset(M2["states"][f[s]]) for s in f):
        return None
    image = {(f[s], sym): f[t] for (s, sym), t in M1["trans"].items()}
    return f if image == dict(M2["trans"]) else None


def lr_parse_error_index(G, action, goto, start_state, kinds, max_steps=100000):
    """Standard LR driver.  ("ok",) on accept; ("err", i) if the error is detected
    with lookahead kinds[i]; ("err", None) if detected at end of input."""
    kinds = list(kinds)
    stack, i = [start_state], 0
    for _ in range(max_steps):
        la = kinds[i] if i < len(kinds) else None
        err = ("err", i if i < len(kinds) else None)
        act = action.get((stack[-1], la))
        if act is None:
            return err
        if act[0] == "shift":
            stack.append(act[1])
            i += 1
        elif act[0] == "reduce":
            lhs, rhs = G["rules"][act[1]]
            if len(rhs) >= len(stack):
                raise RuntimeError("stack underflow: tables do not fit the grammar")
            if rhs:
                del stack[-len(rhs):]
            tgt = goto.get((stack[-1], lhs))
            if tgt is None:
                return err
            stack.append(tgt)
        else:
            return ("ok",)
    raise RuntimeError("LR driver exceeded %d steps" % max_steps)


_canon_cache = {}


def _canonical_tables(G):
    """Canonical LR(1) (start, action, goto), or "conflict"; memoised on G's value."""
    key = (tuple(G["terminals"]), tuple(G["nonterminals"]), G["start"],
           tuple((l, tuple(tuple(x) for x in r)) for l, r in G["rules"]))
    if key not in _canon_cache:
        M = canonical_lr1(G)
        _canon_cache[key] = "conflict" if conflicts(G, M) else (M["start"],) + tables(G, M)
    return _canon_cache[key]


def canonical_lr1_error_index(G, kinds):
    """lr_parse_error_index with canonical LR(1) tables, or "conflict" if the
    canonical LR(1) automaton of G has conflicts."""
    t = _canonical_tables(G)
    if t == "conflict":
        return "conflict"
    start, action, goto = t
    return lr_parse_error_index(G, action, goto, start, kinds)
