#!/usr/bin/env python3
"""Translator: reads the *current* sources under /repo and writes Lean data
files under lean/KikiVerif/Generated/ so that the theorems over them are
re-checked against what the code says now.

Purely syntactic (regular expressions over a known file shape).  If a file does
not have the expected shape the translator exits non-zero with a message; the
check then reports the obligation as broken.

  ParserRs.lean    from kiki/src/parser.rs   (tables, start state, kinds, reduce arms)
  ParserKiki.lean  from kiki/src/parser.kiki (the grammar of record, as data)
  LexTables.lean   from kiki/src/pipeline/tokenize.rs (reserved words, punctuation)
"""
import hashlib
import os
import re
import sys

sys.path.insert(0, os.path.dirname(os.path.abspath(__file__)))
import kiki_syntax

REPO = os.environ.get("KIKI_REPO", "/repo")
OUT = os.path.join(os.path.dirname(os.path.abspath(__file__)), "..", "lean", "KikiVerif", "Generated")


class Shape(Exception):
    pass


def lean_str(s):
    return '"' + s.replace("\\", "\\\\").replace('"', '\\"').replace("\n", "\\n") + '"'


def lean_list(items):
    return "[" + ", ".join(items) + "]"


def enum_variants(src, name):
    m = re.search(r"\nenum " + name + r" \{\n(.*?)\n\}", src, re.S)
    if not m:
        raise Shape(f"enum {name} not found")
    out = []
    for line in m.group(1).splitlines():
        mm = re.fullmatch(r"\s*(\w+) = (\d+),", line)
        if not mm:
            raise Shape(f"enum {name}: unexpected line {line!r}")
        if int(mm.group(2)) != len(out):
            raise Shape(f"enum {name}: discriminants not consecutive")
        out.append(mm.group(1))
    return out


def table_rows(src, name):
    m = re.search(r"\n(?:const|static) " + name + r": \[\[([^;]+); (\d+)\]; (\d+)\] = \[\n(.*?)\n\];", src, re.S)
    if not m:
        raise Shape(f"table {name} not found")
    cols, rows = int(m.group(2)), int(m.group(3))
    body = m.group(4)
    row_texts = re.findall(r"    \[\n(.*?)\n    \],", body, re.S)
    if len(row_texts) != rows:
        raise Shape(f"table {name}: {len(row_texts)} rows, header says {rows}")
    out = []
    for rt in row_texts:
        cells = [c.strip().rstrip(",") for c in rt.splitlines()]
        if len(cells) != cols:
            raise Shape(f"table {name}: row with {len(cells)} cells, header says {cols}")
        out.append(cells)
    return out


def extract_parser_rs():
    src = open(os.path.join(REPO, "kiki/src/parser.rs")).read()
    qk = enum_variants(src, "QuasiterminalKind")
    if qk[-1] != "Eof":
        raise Shape("QuasiterminalKind does not end with Eof")
    terminals = qk[:-1]
    nonterminals = enum_variants(src, "NonterminalKind")
    states = enum_variants(src, "State")
    rulekinds = enum_variants(src, "RuleKind")
    m = re.search(r"let mut states = vec!\[State::S(\d+)\];", src)
    if not m:
        raise Shape("start state not found")
    start = int(m.group(1))

    def act(cell):
        mm = re.fullmatch(r"Action::Shift\(State::S(\d+)\)", cell)
        if mm:
            return f".shift {mm.group(1)}"
        mm = re.fullmatch(r"Action::Reduce\(RuleKind::R(\d+)\)", cell)
        if mm:
            return f".reduce {mm.group(1)}"
        if cell == "Action::Accept":
            return ".accept"
        if cell == "Action::Err":
            return ".err"
        raise Shape(f"unexpected action cell {cell!r}")

    def goto(cell):
        mm = re.fullmatch(r"Some\(State::S(\d+)\)", cell)
        if mm:
            return f"some {mm.group(1)}"
        if cell == "None":
            return "none"
        raise Shape(f"unexpected goto cell {cell!r}")

    actions = [[act(c) for c in row] for row in table_rows(src, "ACTION_TABLE")]
    gotos = [[goto(c) for c in row] for row in table_rows(src, "GOTO_TABLE")]
    if len(actions) != len(states) or len(gotos) != len(states):
        raise Shape("table height != number of states")
    if any(len(r) != len(qk) for r in actions) or any(len(r) != len(nonterminals) for r in gotos):
        raise Shape("table width mismatch")

    # reduce arms: inline in pop_and_reduce (older generator) or separate reduce_rN functions
    m = re.search(r"\nfn pop_and_reduce\(.*?\n\}\n", src, re.S)
    if not m:
        raise Shape("pop_and_reduce not found")
    body = m.group(0)
    arms = re.split(r"\n        RuleKind::R(\d+) => ", body)[1:]
    reduces = []
    for idx_s, text in zip(arms[0::2], arms[1::2]):
        idx = int(idx_s)
        if idx != len(reduces):
            raise Shape("reduce arms out of order")
        mm = re.fullmatch(r"(\w+)\(states, nodes\),\s*(\}\s*)*", text.strip())
        if mm:
            fm = re.search(r"\nfn " + mm.group(1) + r"\(.*?\n\}\n", src, re.S)
            if not fm:
                raise Shape(f"reduce fn {mm.group(1)} not found")
            text = fm.group(0)
        pops = []
        for line in text.splitlines():
            line = line.strip()
            if line == "nodes.pop().unwrap();":
                pops.append(("discard", "", ""))
                continue
            mm = re.fullmatch(r"let (\w+) = Box::new\((\w+)::try_from\(nodes\.pop\(\)\.unwrap\(\)\)\.ok\(\)\.unwrap\(\)\);", line)
            if mm:
                pops.append(("nt", mm.group(1), mm.group(2)))
                continue
            mm = re.fullmatch(r"let (\w+) = nodes\.pop\(\)\.unwrap\(\)\.try_into_\w+_(\d+)\(\)\.ok\(\)\.unwrap\(\);", line)
            if mm:
                pops.append(("t", mm.group(1), mm.group(2)))
                continue
            if "nodes.pop()" in line:
                raise Shape(f"reduce arm R{idx}: unrecognised pop {line!r}")
        mm = re.search(r"states\.truncate\(states\.len\(\) - (\d+)\);", text)
        trunc = int(mm.group(1)) if mm else 0
        mm = re.search(r"\(\s*Node::(\w+)\((.*)\),\s*NonterminalKind::(\w+),\s*\)", text, re.S)
        if not mm:
            raise Shape(f"reduce arm R{idx}: result tuple not found")
        node_kind, ctor_text, nt_kind = mm.group(1), mm.group(2), mm.group(3)
        ctor_text = re.sub(r"\s+", "", ctor_text)
        cm = re.fullmatch(r"([\w:]+)(?:\{(.*)\}|\((.*)\))?", ctor_text)
        if not cm:
            raise Shape(f"reduce arm R{idx}: constructor {ctor_text!r}")
        ctor = cm.group(1)
        if cm.group(2) is not None:
            args = [tuple(a.split(":")) for a in cm.group(2).split(",") if a]
            arg_s = [f"(some {lean_str(a[0])}, {lean_str(a[1])})" for a in args]
        elif cm.group(3) is not None:
            arg_s = [f"(none, {lean_str(a)})" for a in cm.group(3).split(",") if a]
        else:
            arg_s = []
        if node_kind != nt_kind:
            raise Shape(f"reduce arm R{idx}: Node::{node_kind} vs NonterminalKind::{nt_kind}")
        pop_s = []
        for k, var, x in pops:
            if k == "discard":
                pop_s.append(".discard")
            elif k == "nt":
                pop_s.append(f".nt {lean_str(var)} {lean_str(x)}")
            else:
                pop_s.append(f".t {lean_str(var)} {x}")
        reduces.append(f"  ⟨{lean_str(nt_kind)}, {lean_str(ctor)}, {lean_list(pop_s)}, {trunc}, {lean_list(arg_s)}⟩")
    if len(reduces) != len(rulekinds):
        raise Shape("number of reduce arms != number of rule kinds")

    m = re.search(r"\npub fn parse<.*?\n\}\n", src, re.S)
    if not m:
        raise Shape("parse fn not found")
    parse_hash = hashlib.sha256(m.group(0).encode()).hexdigest()

    lines = [
        "/- GENERATED by tools/extract.py from kiki/src/parser.rs — do not edit. -/",
        "import KikiVerif.LR.Gen",
        "namespace KikiVerif.Generated.ParserRs",
        "open KikiVerif.LR (Action)",
        "",
        "inductive Pop where",
        "  | discard",
        "  | nt (var ty : String)",
        "  | t (var : String) (terminalIndex : Nat)",
        "deriving DecidableEq, Repr",
        "",
        "structure ReduceArm where",
        "  lhs : String",
        "  ctor : String",
        "  pops : List Pop            -- in pop order (right to left)",
        "  truncate : Nat",
        "  args : List (Option String × String)",
        "deriving DecidableEq, Repr",
        "",
        f"def terminalNames : List String := {lean_list([lean_str(t) for t in terminals])}",
        f"def nonterminalNames : List String := {lean_list([lean_str(t) for t in nonterminals])}",
        f"def numStates : Nat := {len(states)}",
        f"def startState : Nat := {start}",
        f"def parseFnSha256 : String := {lean_str(parse_hash)}",
        "",
        "def actionTable : List (List Action) := [",
        ",\n".join("  " + lean_list(r) for r in actions),
        "]",
        "",
        "def gotoTable : List (List (Option Nat)) := [",
        ",\n".join("  " + lean_list(r) for r in gotos),
        "]",
        "",
        "def reduceArms : List ReduceArm := [",
        ",\n".join(reduces),
        "]",
        "",
        "end KikiVerif.Generated.ParserRs",
        "",
    ]
    return "\n".join(lines)


def sym_lean(s):
    if "t" in s:
        return f".t {lean_str(s['t'])}"
    return f".n {lean_str(s['n'])}"


def fieldset_lean(fs):
    if fs["kind"] == "empty":
        return ".empty"
    if fs["kind"] == "named":
        fields = [
            f"({'none' if f['name'] is None else 'some ' + lean_str(f['name'])}, {sym_lean(f['sym'])})" for f in fs["fields"]
        ]
        return f".named {lean_list(fields)}"
    fields = [f"({'true' if f['used'] else 'false'}, {sym_lean(f['sym'])})" for f in fs["fields"]]
    return f".tuple {lean_list(fields)}"


def type_text(t):
    if t["kind"] == "unit":
        return "()"
    if t["kind"] == "path":
        return "::".join(t["path"])
    return "::".join(t["callee"]) + "<" + ", ".join(type_text(a) for a in t["args"]) + ">"


def extract_parser_kiki():
    text = open(os.path.join(REPO, "kiki/src/parser.kiki")).read()
    items = kiki_syntax.parse(text)
    starts = [i for i in items if i["kind"] == "start"]
    terms = [i for i in items if i["kind"] == "terminal"]
    if len(starts) != 1 or len(terms) != 1:
        raise Shape("parser.kiki: need exactly one start and one terminal declaration")
    decls = []
    for it in items:
        if it["kind"] == "struct":
            decls.append(f"  .struct {lean_str(it['name'])} ({fieldset_lean(it['fieldset'])})")
        elif it["kind"] == "enum":
            vs = [f"({lean_str(v['name'])}, {fieldset_lean(v['fieldset'])})" for v in it["variants"]]
            decls.append(f"  .enum {lean_str(it['name'])} {lean_list(vs)}")
    tvs = [f"({lean_str(v['name'])}, {lean_str(type_text(v['type']))})" for v in terms[0]["variants"]]
    lines = [
        "/- GENERATED by tools/extract.py from kiki/src/parser.kiki — do not edit. -/",
        "namespace KikiVerif.Generated.ParserKiki",
        "",
        "inductive S where",
        "  | t (name : String)",
        "  | n (name : String)",
        "deriving DecidableEq, Repr",
        "",
        "inductive FS where",
        "  | empty",
        "  | named (fields : List (Option String × S))     -- none = `_`",
        "  | tuple (fields : List (Bool × S))              -- false = `_:`",
        "deriving DecidableEq, Repr",
        "",
        "inductive Decl where",
        "  | struct (name : String) (fs : FS)",
        "  | enum (name : String) (variants : List (String × FS))",
        "deriving DecidableEq, Repr",
        "",
        f"def start : String := {lean_str(starts[0]['name'])}",
        f"def terminalEnumName : String := {lean_str(terms[0]['name'])}",
        f"def terminals : List (String × String) := {lean_list(tvs)}",
        "",
        "def decls : List Decl := [",
        ",\n".join(decls),
        "]",
        "",
        f"def sourceSha256 : String := {lean_str(hashlib.sha256(text.encode()).hexdigest())}",
        "",
        "end KikiVerif.Generated.ParserKiki",
        "",
    ]
    return "\n".join(lines)


def match_table(src, fn_name):
    m = re.search(r"\nfn " + fn_name + r"\([^)]*\) -> Option<\w+> \{\n    match \w+ \{\n(.*?)\n    \}\n\}", src, re.S)
    if not m:
        raise Shape(f"{fn_name} not found")
    arms = []
    for line in m.group(1).splitlines():
        line = line.strip()
        if not line:
            continue
        mm = re.fullmatch(r"(\"[^\"]*\"|'[^']*') => Some\(\w+::(\w+)\),", line)
        if mm:
            arms.append((mm.group(1)[1:-1], mm.group(2)))
            continue
        if re.fullmatch(r"_ => None,", line):
            continue
        raise Shape(f"{fn_name}: unexpected arm {line!r}")
    return arms


def extract_lex_tables():
    src = open(os.path.join(REPO, "kiki/src/pipeline/tokenize.rs")).read()
    rw = match_table(src, "get_reserved_word_kind")
    pk = match_table(src, "get_single_char_punctuation_kind")
    lines = [
        "/- GENERATED by tools/extract.py from kiki/src/pipeline/tokenize.rs — do not edit. -/",
        "namespace KikiVerif.Generated.LexTables",
        "",
        f"def reservedWords : List (String × String) := {lean_list([f'({lean_str(a)}, {lean_str(b)})' for a, b in rw])}",
        f"def punctuation : List (String × String) := {lean_list([f'({lean_str(a)}, {lean_str(b)})' for a, b in pk])}",
        "",
        "end KikiVerif.Generated.LexTables",
        "",
    ]
    return "\n".join(lines)


def write_if_changed(path, text):
    try:
        if open(path).read() == text:
            return
    except FileNotFoundError:
        pass
    with open(path, "w") as f:
        f.write(text)


def main():
    os.makedirs(OUT, exist_ok=True)
    rc = 0
    for name, fn in [("ParserRs", extract_parser_rs), ("ParserKiki", extract_parser_kiki), ("LexTables", extract_lex_tables)]:
        path = os.path.join(OUT, name + ".lean")
        try:
            write_if_changed(path, fn())
        except (Shape, ValueError, OSError) as e:
            print(f"extract: {name}: source no longer has the expected shape: {e}", file=sys.stderr)
            # leave a file that fails to compile, so no stale theorem survives
            write_if_changed(path, f"#eval (panic! {lean_str('extract failed: ' + str(e))} : Unit)\nexample : False := by decide\n")
            rc = 2
    return rc


if __name__ == "__main__":
    sys.exit(main())
