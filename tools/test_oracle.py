"""Self-test for oracle.py.  Run: python3 /verif/tools/test_oracle.py  (prints ok)."""
import itertools
import os
import sys
from collections import Counter

sys.dont_write_bytecode = True
sys.path.insert(0, os.path.dirname(os.path.abspath(__file__)))
import oracle as O  # noqa: E402


def mk(text, extra_nts=()):
    """'S -> a S b | eps ; T -> c' -> grammar dict.  Nonterminals = left-hand sides
    (+ extra_nts, which get no rules); every other name is a terminal; start = first lhs."""
    parsed = []
    for part in text.split(";"):
        lhs, alts = part.split("->")
        for alt in alts.split("|"):
            parsed.append((lhs.strip(), [x for x in alt.split() if x != "eps"]))
    nts = []
    for lhs, _ in parsed:
        if lhs not in nts:
            nts.append(lhs)
    nts += [x for x in extra_nts if x not in nts]
    terms = []
    for _, rhs in parsed:
        for x in rhs:
            if x not in nts and x not in terms:
                terms.append(x)
    rules = [(l, [("n", x) if x in nts else ("t", x) for x in r]) for l, r in parsed]
    return {"terminals": terms, "nonterminals": nts, "start": nts[0], "rules": rules}


def brute(G, L, depth=40, slack=8):
    """Counter {sentence tuple: number of leftmost derivations of <= depth steps} for
    sentences of length <= L, by exhaustive leftmost derivation.  Forms are pruned by
    minimal yield length > L and by form length > L + slack."""
    INF = 10 ** 9
    minlen = {A: INF for A in G["nonterminals"]}
    changed = True
    while changed:
        changed = False
        for lhs, rhs in G["rules"]:
            v = sum(1 if k == "t" else minlen[x] for k, x in rhs)
            if v < minlen[lhs]:
                minlen[lhs] = v
                changed = True
    out = Counter()

    def go(form, d):
        idx = next((i for i, (k, _) in enumerate(form) if k == "n"), None)
        if idx is None:
            out[tuple(x for _, x in form)] += 1
            return
        if d == 0:
            return
        for lhs, rhs in G["rules"]:
            if lhs == form[idx][1]:
                new = form[:idx] + tuple(rhs) + form[idx + 1:]
                if len(new) <= L + slack and \
                        sum(1 if k == "t" else minlen[x] for k, x in new) <= L:
                    go(new, d - 1)

    go((("n", G["start"]),), depth)
    return out


def all_strings(G, maxlen):
    for n in range(maxlen + 1):
        for w in itertools.product(G["terminals"], repeat=n):
            yield list(w)


def check_tree(G, kinds, tree):
    """Validate a parse tree: rules fit, leaves are positions 0..n-1 in order."""
    leaves = []

    def sym(t):
        if t[0] == "t":
            leaves.append(t[1])
            return ("t", kinds[t[1]])
        _, ri, kids = t
        lhs, rhs = G["rules"][ri]
        assert [sym(k) for k in kids] == [tuple(x) for x in rhs]
        return ("n", lhs)

    assert sym(tree) == ("n", G["start"])
    assert leaves == list(range(len(kinds)))


def expected_lr_result(G, w):
    """What an LR parser with the correct-prefix property must report."""
    i = O.first_dead_index(G, w)
    if i is not None:
        return ("err", i)
    return ("ok",) if O.recognize(G, w) else ("err", None)


def check_against_brute(G, maxlen, ext_len, depth=40, exact_counts=True):
    """recognize / extendable / first_dead_index / count_trees / parse_tree against
    brute-force enumeration, for all strings of length <= maxlen."""
    sent = brute(G, ext_len, depth)
    for w in all_strings(G, maxlen):
        assert O.recognize(G, w) == (tuple(w) in sent), w
        b_ext = [any(s[:k] == tuple(w[:k]) for s in sent) for k in range(len(w) + 1)]
        assert O.extendable(G, w) == b_ext[-1], w
        b_fdi = next((i for i in range(len(w)) if not b_ext[i + 1]), None)
        assert O.first_dead_index(G, w) == b_fdi, w
        c = O.count_trees(G, w)
        assert (c > 0) == (tuple(w) in sent), w
        if exact_counts:
            assert c == min(2, sent[tuple(w)]), (w, c, sent[tuple(w)])
            assert O.count_trees(G, w, limit=50) == min(50, sent[tuple(w)]), w
        t = O.parse_tree(G, w)
        assert (t is not None) == (c == 1), w
        if t is not None:
            check_tree(G, w, t)


def check_lr_agreement(G, maxlen):
    """LALR and canonical LR(1) drivers agree with recognize and first_dead_index
    (requires: every nonterminal productive, G LALR(1))."""
    assert O.productive(G) == set(G["nonterminals"])
    M = O.lalr(G)
    assert O.conflicts(G, M) == [] and O.is_lalr1(G)
    action, goto = O.tables(G, M)
    for w in all_strings(G, maxlen):
        res = O.lr_parse_error_index(G, action, goto, M["start"], w)
        assert (res == ("ok",)) == O.recognize(G, w), w
        assert res == expected_lr_result(G, w), (w, res)
        assert O.canonical_lr1_error_index(G, w) == res, w


# --------------------------------------------------------------------------- grammars

G_PAR = mk("E -> eps | E ( E )")
G_PAR2 = mk("S -> eps | ( S ) S")
G_LR = mk("S -> L = R | R ; L -> * R | id ; R -> L")
G_NOTLALR = mk("S -> a E c | a F d | b F c | b E d ; E -> e ; F -> e")
G_AMB = mk("E -> E + E | id")
G_UNPROD = mk("S -> a M b | U ; M -> eps | c ; U -> a U")     # U unproductive, FIRST(U)={a}
G_RULELESS = mk("S -> a | N b | S c", extra_nts=["N"])           # N has no rules
G_MID = mk("S -> a M N b ; M -> eps | c ; N -> eps | d N")       # eps in the middle
G_CYC = mk("S -> S S | eps | a")                                 # infinitely ambiguous
G_NULL = mk("S -> A B A ; A -> a | eps ; B -> b | eps")          # finitely ambiguous


def test_basics():
    assert O.productive(G_UNPROD) == {"S", "M"}
    assert O.nullable(G_UNPROD) == {"M"}
    assert O.first_sets(G_UNPROD) == {"S": {"a"}, "M": {"c"}, "U": {"a"}}
    assert O.productive(G_RULELESS) == {"S"}
    assert O.nullable(G_RULELESS) == set()
    assert O.first_sets(G_RULELESS) == {"S": {"a"}, "N": set()}
    assert O.nullable(G_MID) == {"M", "N"}
    assert O.first_sets(G_MID) == {"S": {"a"}, "M": {"c"}, "N": {"d"}}
    assert O.nullable(G_PAR) == {"E"} and O.first_sets(G_PAR) == {"E": {"("}}
    assert O.first_sets(G_LR) == {x: {"*", "id"} for x in "SLR"}
    assert O.nullable(G_NULL) == {"S", "A", "B"}
    assert O.first_sets(G_NULL) == {"S": {"a", "b"}, "A": {"a"}, "B": {"b"}}
    G = mk("S -> S a | U ; U -> U b")          # nothing productive; FIRST(U) empty
    assert O.productive(G) == set() and O.first_sets(G) == {"S": set(), "U": set()}
    assert not O.extendable(G, []) and not O.recognize(G, [])
    assert O.first_dead_index(G, []) is None and O.first_dead_index(G, ["a", "a"]) == 0
    try:
        O.check_grammar(dict(G_PAR, start="nope"))
        assert False
    except ValueError:
        pass


def test_recognize_and_trees():
    assert O.recognize(G_PAR, []) and O.recognize(G_PAR, list("(()())()"))
    assert not O.recognize(G_PAR, list("(()")) and not O.recognize(G_PAR, list("())("))
    assert O.extendable(G_PAR, list("(((((((((((("))
    assert O.first_dead_index(G_PAR, list("(()))(")) == 4
    assert O.first_dead_index(G_PAR, list("(()")) is None
    # eps in the middle of a rhs
    assert O.recognize(G_MID, ["a", "b"]) and O.recognize(G_MID, ["a", "c", "d", "d", "b"])
    assert not O.recognize(G_MID, ["a", "d", "c", "b"])
    assert O.parse_tree(G_MID, ["a", "b"]) == \
        ("n", 0, [("t", 0), ("n", 1, []), ("n", 3, []), ("t", 1)])
    assert O.parse_tree(G_MID, ["a", "c", "d", "b"]) == \
        ("n", 0, [("t", 0), ("n", 2, [("t", 1)]),
                  ("n", 4, [("t", 2), ("n", 3, [])]), ("t", 3)])
    assert O.parse_tree(G_MID, ["a"]) is None
    # ambiguity
    ids = ["id", "+", "id", "+", "id"]
    assert O.count_trees(G_AMB, ids) == 2 and O.count_trees(G_AMB, ids, limit=10) == 2
    assert O.count_trees(G_AMB, ids + ["+", "id"], limit=10) == 5
    assert O.count_trees(G_AMB, ["id", "+", "id"]) == 1 and O.count_trees(G_AMB, ["+"]) == 0
    assert O.parse_tree(G_AMB, ids) is None
    assert O.parse_tree(G_AMB, ["id", "+", "id"]) == \
        ("n", 0, [("n", 1, [("t", 0)]), ("t", 1), ("n", 1, [("t", 2)])])
    # cyclic / eps ambiguity: infinitely many trees -> limit
    for w in ([], ["a"], ["a", "a", "a"]):
        assert O.count_trees(G_CYC, w) == 2 and O.count_trees(G_CYC, w, limit=7) == 7
        assert O.parse_tree(G_CYC, w) is None
    G = mk("S -> A | a ; A -> S")
    assert O.count_trees(G, ["a"], limit=9) == 9 and O.count_trees(G, []) == 0
    # a cycle through an underivable nonterminal does not count
    G = mk("S -> a | S U | U ; U -> U | U S")
    assert O.count_trees(G, ["a"], limit=9) == 1 and O.parse_tree(G, ["a"]) == ("n", 0, [("t", 0)])
    # finite eps ambiguity
    assert O.count_trees(G_NULL, ["a"], limit=9) == 2
    assert O.count_trees(G_NULL, [], limit=9) == 1
    assert O.count_trees(G_NULL, ["a", "b", "a"], limit=9) == 1
    # unproductive / rule-less nonterminals
    assert O.recognize(G_UNPROD, ["a", "b"]) and not O.recognize(G_UNPROD, ["a", "a"])
    assert not O.extendable(G_UNPROD, ["a", "a"]) and O.extendable(G_UNPROD, ["a", "c"])
    assert O.first_dead_index(G_UNPROD, ["a", "a", "b"]) == 1
    assert O.recognize(G_RULELESS, ["a", "c", "c"]) and not O.recognize(G_RULELESS, ["b"])
    assert O.first_dead_index(G_RULELESS, ["a", "c", "b"]) == 2


def test_brute_force():
    check_against_brute(G_PAR, 4, 8)
    check_against_brute(G_PAR2, 4, 8)
    check_against_brute(G_LR, 4, 6)
    check_against_brute(G_AMB, 4, 6)
    check_against_brute(G_NOTLALR, 3, 3)
    check_against_brute(G_UNPROD, 4, 6)
    check_against_brute(G_RULELESS, 4, 5)
    check_against_brute(G_MID, 4, 6)
    check_against_brute(G_NULL, 4, 4)
    # cyclic grammar: brute force needs a real depth bound; every a^n is a sentence
    sent = brute(G_CYC, 4, depth=10, slack=2)
    for w in all_strings(G_CYC, 4):
        assert O.recognize(G_CYC, w) == (tuple(w) in sent) == True  # noqa: E712
        assert O.extendable(G_CYC, w) and O.first_dead_index(G_CYC, w) is None


def test_lr():
    # LALR but not SLR
    assert O.is_lalr1(G_LR)
    C, M = O.canonical_lr1(G_LR), O.lalr(G_LR)
    assert len(C["states"]) == 14 and len(M["states"]) == 10      # dragon book numbers
    assert O.conflicts(G_LR, C) == []
    # SLR would reduce R -> L on "=" after L; LALR must not
    s_after_L = M["trans"][(M["start"], ("n", "L"))]
    assert O.demands(G_LR, M["states"][s_after_L]) == \
        {"=": {("shift", "=")}, None: {("reduce", 4)}}
    assert (O.AUG, 0, None) in M["states"][M["start"]] and M["start"] == 0
    # LR(1) but not LALR(1)
    C, M = O.canonical_lr1(G_NOTLALR), O.lalr(G_NOTLALR)
    assert O.conflicts(G_NOTLALR, C) == [] and not O.is_lalr1(G_NOTLALR)
    confl = O.conflicts(G_NOTLALR, M)
    assert [(la, acts) for _, la, acts in confl] == \
        [("c", [("reduce", 4), ("reduce", 5)]), ("d", [("reduce", 4), ("reduce", 5)])]
    assert len(C["states"]) == len(M["states"]) + 1
    try:
        O.tables(G_NOTLALR, M)
        assert False
    except ValueError:
        pass
    for w in all_strings(G_NOTLALR, 3):
        assert O.canonical_lr1_error_index(G_NOTLALR, w) == expected_lr_result(G_NOTLALR, w), w
    assert O.canonical_lr1_error_index(G_NOTLALR, list("aec")) == ("ok",)
    assert O.canonical_lr1_error_index(G_NOTLALR, list("bec")) == ("ok",)
    assert O.canonical_lr1_error_index(G_NOTLALR, list("aee")) == ("err", 2)
    assert O.canonical_lr1_error_index(G_NOTLALR, list("ae")) == ("err", None)
    # ambiguous
    assert not O.is_lalr1(G_AMB)
    assert O.conflicts(G_AMB, O.canonical_lr1(G_AMB)) != []
    assert O.canonical_lr1_error_index(G_AMB, ["id"]) == "conflict"
    assert not O.is_lalr1(G_CYC) and not O.is_lalr1(G_NULL)
    # closure by hand: dragon book example 4.42-ish, S -> C C ; C -> c C | d
    G = mk("S -> C C ; C -> c C | d")
    I0 = O.lr1_items_closure(G, {(O.AUG, 0, None)})
    assert I0 == {(O.AUG, 0, None), (0, 0, None), (1, 0, "c"), (1, 0, "d"), (2, 0, "c"), (2, 0, "d")}
    C, M = O.canonical_lr1(G), O.lalr(G)
    assert C["states"][0] == I0 and len(C["states"]) == 10 and len(M["states"]) == 7
    assert O.is_lalr1(G)
    # agreement of LR drivers with recognize / first_dead_index
    check_lr_agreement(G_PAR, 5)
    check_lr_agreement(G_PAR2, 5)
    check_lr_agreement(G_LR, 5)
    check_lr_agreement(G_MID, 5)
    check_lr_agreement(G, 5)
    # grammars with unproductive / rule-less nonterminals still build; the LR driver
    # may shift past the first dead index there (no productive restriction)
    assert O.is_lalr1(G_UNPROD) and O.is_lalr1(G_RULELESS)
    M = O.lalr(G_UNPROD)
    action, goto = O.tables(G_UNPROD, M)
    assert O.lr_parse_error_index(G_UNPROD, action, goto, 0, ["a", "a"]) == ("err", None)
    assert O.first_dead_index(G_UNPROD, ["a", "a"]) == 1
    for Gx in (G_UNPROD, G_RULELESS):
        a, g = O.tables(Gx, O.lalr(Gx))
        for w in all_strings(Gx, 4):
            assert (O.lr_parse_error_index(Gx, a, g, 0, w) == ("ok",)) == O.recognize(Gx, w), w
    # step bound
    try:
        O.lr_parse_error_index(G_PAR, {(0, None): ("reduce", 0)}, {(0, "E"): 0}, 0, [])
        assert False
    except RuntimeError:
        pass
    assert O.lr_parse_error_index(G_PAR, {(0, None): ("reduce", 0)}, {}, 0, []) == ("err", None)


def test_isomorphism():
    for G in (G_PAR, G_LR, G_NOTLALR, G_AMB, G_UNPROD, G_RULELESS):
        M = O.lalr(G)
        n = len(M["states"])
        assert O.machines_isomorphic(M, M) == {i: i for i in range(n)}
        perm = [(i * 7 + 3) % n for i in range(n)] if n % 7 else list(reversed(range(n)))
        assert sorted(perm) == list(range(n))
        states = [None] * n
        for i, p in enumerate(perm):
            states[p] = M["states"][i]
        M2 = {"states": states, "start": perm[M["start"]],
              "trans": {(perm[s], sym): perm[t] for (s, sym), t in M["trans"].items()}}
        assert O.machines_isomorphic(M, M2) == {i: perm[i] for i in range(n)}
        assert O.machines_isomorphic(M2, M) == {perm[i]: i for i in range(n)}
        # perturbations are rejected
        key = sorted(M2["trans"], key=repr)[0]
        M3 = dict(M2, trans={k: v for k, v in M2["trans"].items() if k != key})
        assert O.machines_isomorphic(M, M3) is None and O.machines_isomorphic(M3, M) is None
        M4 = dict(M2, states=[frozenset(list(s)[1:]) if i == 0 else s
                              for i, s in enumerate(M2["states"])])
        assert O.machines_isomorphic(M, M4) is None
        M5 = dict(M2, states=M2["states"] + [frozenset()])
        assert O.machines_isomorphic(M, M5) is None
    assert O.machines_isomorphic(O.canonical_lr1(G_LR), O.lalr(G_LR)) is None
    C, M = O.canonical_lr1(G_PAR), O.lalr(G_PAR)
    assert (O.machines_isomorphic(C, M) is not None) == (len(C["states"]) == len(M["states"]))


if __name__ == "__main__":
    test_basics()
    test_recognize_and_trees()
    test_brute_force()
    test_lr()
    test_isomorphism()
    print("ok")
