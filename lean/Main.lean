/-
kvmodel — the executable Lean model behind the line protocol of
`harness/src/main.rs`: one request per line on stdin (mode = argv[1]), one
canonical answer per line on stdout.
-/
import KikiVerif.Driver.Sexp
import KikiVerif.Model.Driver
import KikiVerif.Model.Hash
import KikiVerif.Model.Oset
import KikiVerif.Spec.Lex
import KikiVerif.Proofs.Valid
import KikiVerif.Proofs.Tight
import KikiVerif.LR.Halt

open KikiVerif

def bigFuel : Nat := 1000000000

def words (line : String) : List String :=
  (line.trimAscii.toString.splitOn " ").filter (· ≠ "")

def doTokenize (line : String) : String :=
  match Sexp.unhex ((words line).headD "") with
  | none => "(bad-request)"
  | some src =>
    match Tokenize.tokenize src with
    | .ok ts => Sexp.tokens ts
    | .err e => Sexp.kerr e
    | .panic s => s!"(panic {Sexp.hex s.toList})"

def doScan (line : String) : String :=
  match Sexp.unhex ((words line).headD "") with
  | none => "(bad-request)"
  | some src =>
    match Spec.scan src with
    | .ok ts => Sexp.tokens ts
    | .err e => Sexp.kerr e
    | .panic s => s!"(panic {Sexp.hex s.toList})"

def withSrc (line : String) (k : Str → Str → String) : String :=
  match words line with
  | src :: sha :: _ =>
    match Sexp.unhex src with
    | some s => k s sha.toList
    | none => "(bad-request)"
  | [src] =>
    match Sexp.unhex src with
    | some s => k s "0000000000000000000000000000000000000000000000000000000000000000".toList
    | none => "(bad-request)"
  | _ => "(bad-request)"

def doStages (line : String) : String :=
  withSrc line fun src sha => Sexp.stages (Generate.stages src sha bigFuel)

def doGenerate (line : String) : String :=
  withSrc line fun src sha => Sexp.generate (Generate.stages src sha bigFuel)

def doHash (line : String) : String :=
  match Sexp.unhex ((words line).headD "") with
  | none => "(bad-request)"
  | some t =>
    match Hash.getGrammarHash t with
    | some h => s!"(some {Sexp.hex h})"
    | none => "(none)"

/-- `drive <hexsrc> <sha> <str>;<str>;…` with `<str>` = comma-separated declaration
indices of terminals, `-` for the empty string -/
def doDrive (line : String) : String :=
  match words line with
  | src :: sha :: rest =>
    match Sexp.unhex src with
    | none => "(bad-request)"
    | some s =>
      let st := Generate.stages s sha.toList bigFuel
      match st.vfile, st.enc, st.table with
      | some vf, some enc, some t =>
        let strs := (String.intercalate " " rest).splitOn ";"
        let A := Driver.autoOfTable t
        let outs := strs.filter (· ≠ "") |>.map fun str =>
          let idxs : List Nat := if str.trimAscii.toString = "-" then [] else
            (str.trimAscii.toString.splitOn ",").filterMap (·.toNat?)
          let input : List (LR.Tok Nat Nat) := idxs.zipIdx.map fun (d, i) => ⟨enc.tdecl.getD d 0, i⟩
          match Driver.run enc.ctx.g A input bigFuel with
          | .ok tree p =>
            match Driver.debugTree vf.rules tree with
            | some d => s!"(ok {Sexp.hex d} {p})"
            | none => "(bad-tree)"
          | .errAt i p => s!"(err (some {i}) {p})"
          | .errEof p => s!"(err none {p})"
          | .panic => "(panic)"
          | .timeout => "(timeout)"
        Sexp.list "drive" outs
      | _, _, _ => s!"(nogen {" ".intercalate (Sexp.stop st)})"
  | _ => "(bad-request)"

/-! `valid`: run the validator on an automaton given as numbers (declaration-index codes).
`<nT> <nN> <startSym> <startState> R <lhs>:<sym>,..;.. S <item>,..|.. A <cell>,..|.. G <cell>,..|..` -/

def splitOnNE (s : String) (sep : String) : List String := (s.splitOn sep).filter (· ≠ "")

def parseSym (s : String) : LR.Sym Nat Nat :=
  if s.startsWith "t" then .t (s.drop 1).toString.toNat! else .n (s.drop 1).toString.toNat!

def parseItem (s : String) : Valid.It :=
  match s.splitOn "." with
  | [r, d, la] => ⟨if r = "a" then none else some r.toNat!, d.toNat!, if la = "e" then none else some la.toNat!⟩
  | _ => ⟨none, 0, none⟩

def parseAct (s : String) : LR.Action :=
  if s = "a" then .accept else if s = "e" then .err
  else if s.startsWith "s" then .shift (s.drop 1).toString.toNat! else .reduce (s.drop 1).toString.toNat!

def section_ (ws : List String) (tag : String) : String :=
  match (ws.dropWhile (· ≠ tag)) with
  | _ :: x :: _ => if x ∈ ["R", "S", "A", "G"] then "" else x
  | _ => ""

def doValidWith (k : LR.Grammar Nat Nat → Nat → Valid.Cert → String) (line : String) : String :=
  match words line with
  | nT :: nN :: st :: ss :: rest =>
    let nT := nT.toNat!; let nN := nN.toNat!
    let rules : List (LR.Rule Nat Nat) := (splitOnNE (section_ rest "R") ";").map fun r =>
      match r.splitOn ":" with
      | [l, rhs] => ⟨l.toNat!, (splitOnNE rhs ",").map parseSym⟩
      | _ => ⟨0, []⟩
    let g : LR.Grammar Nat Nat := { rules := rules, start := st.toNat! }
    let states := ((section_ rest "S").splitOn "|").map fun s => (splitOnNE s ",").map parseItem
    let actions := ((section_ rest "A").splitOn "|").map fun s => (splitOnNE s ",").map parseAct
    let gotos := ((section_ rest "G").splitOn "|").map fun s => (splitOnNE s ",").map fun c => if c = "-" then none else some c.toNat!
    let C : Valid.Cert := { nT := nT, start := ss.toNat!, states := states, actions := actions, gotos := gotos,
                            first := Valid.computeFirst g nT nN }
    k g nN C
  | _ => "(bad-request)"

def doValid : String → String := doValidWith fun g nN C =>
  if Valid.validB g nN C then "(valid true)" else s!"(valid false {Sexp.hex (Valid.explain g nN C).toList})"

/-- `tight`: same request; the second validator (`Proofs/Tight.tightB`: every item in the closure of its
state's kernel, no empty target state) -/
def doTight : String → String := doValidWith fun g nN C =>
  s!"(tight {Valid.tightB g nN C} productive {Valid.productiveB g})"

/-- `halts`: same request; the termination certificates of `LR/Halt`: `certifiedF` (framed simulation of every
reduce run; by `Halt.certifiedF_halts` the driver then stops on every input) and `certified` (a potential is
searched and checked; by `Halt.certified_halts` the driver stops within `bound·(|w|+1)` steps) -/
def doHalts : String → String := doValidWith fun g _ C =>
  s!"(halts {Halt.certifiedF C g} potential {Halt.certified C g} bound {Halt.K (Halt.ccOf C) (Halt.findPot C g)})"

/-- `machine-num <hexsrc>`: the model's automaton for a grammar source, as numbers with
declaration-index codes (the `S` section of a `valid` request), plus a FIRST table (`F`).
Used to build the certificate for the tables extracted from `parser.rs` (C09). -/
def doMachineNum (line : String) : String :=
  withSrc line fun src sha =>
    let st := Generate.stages src sha bigFuel
    match st.enc, st.machine with
    | some enc, some m =>
      let tdec (code : Nat) : Nat := (enc.tdecl.idxOf? code).getD 0
      let ndec (code : Nat) : Nat := (enc.ndecl.idxOf? code).getD 0
      let item (i : Machine.Item) : String :=
        (if i.rule = enc.ctx.numRules then "a" else toString i.rule) ++ "." ++ toString i.dot ++ "." ++
        (if i.la = enc.ctx.nT then "e" else toString (tdec i.la))
      let states := "|".intercalate (m.states.map fun s => ",".intercalate (s.map item))
      -- grammar in declaration-index codes, for the FIRST table
      let conv : LR.Sym Nat Nat → LR.Sym Nat Nat
        | .t a => .t (tdec a)
        | .n b => .n (ndec b)
      let g : LR.Grammar Nat Nat :=
        { rules := enc.ctx.g.rules.map fun r => ⟨ndec r.lhs, r.rhs.map conv⟩, start := ndec enc.ctx.g.start }
      let ft := Valid.computeFirst g enc.ctx.nT enc.ctx.nN
      let first := "|".intercalate (ft.map fun (ts, e) => ",".intercalate (ts.map toString) ++ ":" ++ (if e then "1" else "0"))
      s!"{m.start} S {states} F {first}"
    | _, _ => "(no-machine)"

/-! oset: every element type is represented as `List Nat` (order-isomorphic) -/

def parseElem (ty : String) (s : String) : List Nat :=
  match ty with
  | "nat" => [s.toNat!]
  | "pair" => (s.splitOn ".").map (·.toNat!)
  | _ => match Sexp.unhex s with
    | some cs => (String.ofList cs).toUTF8.toList.map (·.toNat)
    | none => []

def showElem (ty : String) (e : List Nat) : String :=
  match ty with
  | "nat" => toString (e.headD 0)
  | "pair" => ".".intercalate (e.map toString)
  | _ => Sexp.hexOfBytes ⟨(e.map UInt8.ofNat).toArray⟩

def parseElems (ty : String) (s : String) : List (List Nat) :=
  if s = "" ∨ s = "-" then [] else (s.splitOn ",").map (parseElem ty)

def showSet (ty : String) (s : Oset (List Nat)) : String :=
  "[" ++ ",".intercalate (s.toList.map (showElem ty)) ++ "]"

def doOset (line : String) : String := Id.run do
  let ty := (words line).headD ""
  let rest := (line.trimAscii.toString.drop ty.length).toString
  let mut regs : List (Nat × Oset (List Nat)) := []
  let mut out : List String := []
  let get := fun (regs : List (Nat × Oset (List Nat))) (r : Nat) => (regs.lookup r).getD Oset.new
  for op in rest.splitOn ";" do
    let w := words op
    match w with
    | [] => pure ()
    | cmd :: rs :: args =>
      let r := rs.toNat!
      let arg := args.headD ""
      match cmd with
      | "new" => regs := (r, Oset.new) :: regs; out := out ++ [showSet ty (get regs r)]
      | "from" => regs := (r, Oset.ofList (parseElems ty arg)) :: regs; out := out ++ [showSet ty (get regs r)]
      | "ins" => regs := (r, (get regs r).insert (parseElem ty arg)) :: regs; out := out ++ [showSet ty (get regs r)]
      | "ext" => regs := (r, (get regs r).extend (parseElems ty arg)) :: regs; out := out ++ [showSet ty (get regs r)]
      | "has" => out := out ++ [toString ((get regs r).contains (parseElem ty arg))]
      | "iter" => out := out ++ [showSet ty (get regs r)]
      | "len" => out := out ++ [toString (get regs r).length]
      | "cmp" =>
        out := out ++ [match compare (get regs r).raw (get regs arg.toNat!).raw with
          | .lt => "less" | .eq => "equal" | .gt => "greater"]
      | "eq" => out := out ++ [toString ((get regs r).raw == (get regs arg.toNat!).raw)]
      | "clone" => regs := (r, get regs arg.toNat!) :: regs; out := out ++ [showSet ty (get regs r)]
      | "clonefrom" => regs := (r, get regs arg.toNat!) :: regs; out := out ++ [showSet ty (get regs r)]
      | "default" => regs := (r, Oset.new) :: regs; out := out ++ [showSet ty (get regs r)]
      | "empty" => out := out ++ [toString ((get regs r).length == 0)]
      | "nth" =>
        out := out ++ [match (get regs r).raw[arg.toNat!]? with
          | some x => showSet ty (Oset.ofList [x])
          | none => "none"]
      | _ => out := out ++ ["bad-op"]
    | _ => out := out ++ ["bad-op"]
  return "(oset " ++ " ".intercalate out ++ ")"

/-- `chars <lo> <hi>`: the character classes the tokenizer uses -/
def doChars (line : String) : String :=
  match (words line).map (·.toNat!) with
  | [lo, hi] => Id.run do
    let mut out : List String := []
    for cp in [lo:hi] do
      if (cp < 0xD800 ∨ (0xE000 ≤ cp ∧ cp < 0x110000)) then
        let c := Char.ofNat cp
        let b (x : Bool) (k : Nat) : Nat := if x then k else 0
        let bits := b (Text.isWhitespace c) 1 + b (Text.isAsciiAlpha c) 2 + b (Text.isAsciiAlnum c) 4 +
          b (Text.isAsciiUpper c) 8 + b (Text.isAsciiUpper c) 16 + b (Text.isAsciiLower c) 32
        if bits ≠ 0 ∨ cp < 128 then
          out := s!"{cp}:{bits}:{Text.clen c}:{(Text.toAsciiLower c).toNat}" :: out
    return "(chars " ++ " ".intercalate out.reverse ++ ")"
  | _ => "(bad-request)"

partial def loop (h : IO.FS.Stream) (out : IO.FS.Stream) (f : String → String) : IO Unit := do
  let line ← h.getLine
  if line.isEmpty then return ()
  if line.trimAscii.toString ≠ "" then
    out.putStrLn (f line)
  loop h out f

def main (args : List String) : IO UInt32 := do
  let stdin ← IO.getStdin
  let stdout ← IO.getStdout
  let f ← match args with
    | ["tokenize"] => pure doTokenize
    | ["scan"] => pure doScan
    | ["stages"] => pure doStages
    | ["generate"] => pure doGenerate
    | ["hash"] => pure doHash
    | ["drive"] => pure doDrive
    | ["valid"] => pure doValid
    | ["tight"] => pure doTight
    | ["halts"] => pure doHalts
    | ["machine-num"] => pure doMachineNum
    | ["oset"] => pure doOset
    | ["chars"] => pure doChars
    | _ => IO.eprintln "usage: kvmodel tokenize|stages|generate|hash|drive|oset|chars"; return 2
  loop stdin stdout f
  return 0
