/-
The static well-formedness rules of `.kiki` files (USER_GUIDE.md; property C10), as a predicate on the
AST, written independently of the validation code.
-/
import KikiVerif.Model.Ast

namespace KikiVerif
namespace Spec
open Ast Text

/-- "if the name contains a letter, its first letter is upper case" -/
def UpperOk (name : Str) : Prop :=
  ∀ c, name.find? isAsciiAlpha = some c → isAsciiUpper c = true

/-- "if the name contains a letter, its first letter is lower case" -/
def LowerOk (name : Str) : Prop :=
  ∀ c, name.find? isAsciiAlpha = some c → isAsciiLower c = true

def structs (f : File) : List Struct := f.items.filterMap fun | .struct s => some s | _ => none
def enums (f : File) : List Enum := f.items.filterMap fun | .enum e => some e | _ => none
def termEnums (f : File) : List TermEnum := f.items.filterMap fun | .terminal t => some t | _ => none
def startDecls (f : File) : List Ident := f.items.filterMap fun | .start i => some i | _ => none

/-- names of the declared nonterminals, in declaration order -/
def nonterminalNames (f : File) : List Str :=
  f.items.filterMap fun
    | .struct s => some s.name.name
    | .enum e => some e.name.name
    | _ => none

/-- every fieldset of the file (struct bodies and enum variants) -/
def fieldsets (f : File) : List Fieldset :=
  f.items.flatMap fun
    | .struct s => [s.fieldset]
    | .enum e => e.variants.map (·.fieldset)
    | _ => []

def namedFieldNames : Fieldset → List Str
  | .named fs => fs.filterMap fun fld => match fld.name with | .id i => some i.name | .us _ => none
  | _ => []

structure WellFormed (f : File) : Prop where
  /-- exactly one `start`, exactly one `terminal` declaration -/
  oneStart : ∃ s, startDecls f = [s]
  oneTerminal : ∃ t, termEnums f = [t]
  /-- the start symbol is a defined nonterminal -/
  startDefined : ∀ s, startDecls f = [s] → s.name ∈ nonterminalNames f
  /-- every referenced nonterminal is a defined nonterminal, every referenced terminal a defined terminal -/
  refsDefined : ∀ t, termEnums f = [t] → ∀ fs ∈ fieldsets f, ∀ sym ∈ fs.syms,
    match sym with
    | .n i => i.name ∈ nonterminalNames f
    | .t i => i.name ∈ t.variants.map (·.name.name)
  /-- nonterminal names, terminal variant names and the terminal enum name are pairwise distinct -/
  topLevelDistinct : ∀ t, termEnums f = [t] →
    (nonterminalNames f ++ t.variants.map (·.name.name) ++ [t.name.name]).Nodup
  /-- within each enum: distinct variant names and distinct field-symbol sequences -/
  variantNames : ∀ e ∈ enums f, (e.variants.map (·.name.name)).Nodup
  variantSeqs : ∀ e ∈ enums f, (e.variants.map fun v => v.fieldset.syms.map (·.toSym)).Nodup
  /-- capitalisation -/
  upperTypes : ∀ n ∈ nonterminalNames f, UpperOk n
  upperVariants : ∀ e ∈ enums f, ∀ v ∈ e.variants, UpperOk v.name.name
  upperTerminals : ∀ t, termEnums f = [t] → UpperOk t.name.name ∧ ∀ v ∈ t.variants, UpperOk v.name.name
  lowerFields : ∀ fs ∈ fieldsets f, ∀ n ∈ namedFieldNames fs, LowerOk n

end Spec
end KikiVerif
