/-
The static well-formedness rules of `.kiki` files (USER_GUIDE.md; property C10), as a predicate on the
AST, written independently of the validation code.
-/
import KikiVerif.Model.Ast

namespace KikiVerif
namespace Spec
open Ast Text

/-- "if the name contains a letter, its first letter is upper case" -/
def UpperOk (name : Str) : Prop :=
  ∀ c, name.find? isAsciiAlpha = some c → isAsciiUpper c = true

/-- "if the name contains a letter, its first letter is lower case" -/
def LowerOk (name : Str) : Prop :=
  ∀ c, name.find? isAsciiAlpha = some c → isAsciiLower c = true

def structs (f : File) : List Struct := f.items.filterMap fun | .struct s => some s | _ => none
def enums (f : File) : List Enum := f.items.filterMap fun | .enum e => some e | _ => none
def termEnums (f : File) : List TermEnum := f.items.filterMap fun | .terminal t => some t | _ => none
def startDecls (f : File) : List Ident := f.items.filterMap fun | .start i => some i | _ => none

/-- names of the declared nonterminals, in declaration order -/
def nonterminalNames (f : File) : List Str :=
  f.items.filterMap fun
    | .struct s => some s.name.name
    | .enum e => some e.name.name
    | _ => none

/-- every fieldset of the file (struct bodies and enum variants) -/
def fieldsets (f : File) : List Fieldset :=
  f.items.flatMap fun
    | .struct s => [s.fieldset]
    | .enum e => e.variants.map (·.fieldset)
    | _ => []

def namedFieldNames : Fieldset → List Str
  | .named fs => fs.filterMap fun fld => match fld.name with | .id i => some i.name | .us _ => none
  | _ => []

structure WellFormed (f : File) : Prop where
  /-- exactly one `start`, exactly one `terminal` declaration -/
  oneStart : ∃ s, startDecls f = [s]
  oneTerminal : ∃ t, termEnums f = [t]
  /-- the start symbol is a defined nonterminal -/
  startDefined : ∀ s, startDecls f = [s] → s.name ∈ nonterminalNames f
  /-- every referenced nonterminal is a defined nonterminal, every referenced terminal a defined terminal -/
  refsDefined : ∀ t, termEnums f = [t] → ∀ fs ∈ fieldsets f, ∀ sym ∈ fs.syms,
    match sym with
    | .n i => i.name ∈ nonterminalNames f
    | .t i => i.name ∈ t.variants.map (·.name.name)
  /-- nonterminal names, terminal variant names and the terminal enum name are pairwise distinct -/
  topLevelDistinct : ∀ t, termEnums f = [t] →
    (nonterminalNames f ++ t.variants.map (·.name.name) ++ [t.name.name]).Nodup
  /-- within each enum: distinct variant names and distinct field-symbol sequences -/
  variantNames : ∀ e ∈ enums f, (e.variants.map (·.name.name)).Nodup
  variantSeqs : ∀ e ∈ enums f, (e.variants.map fun v => v.fieldset.syms.map (·.toSym)).Nodup
  /-- capitalisation -/
  upperTypes : ∀ n ∈ nonterminalNames f, UpperOk n
  upperVariants : ∀ e ∈ enums f, ∀ v ∈ e.variants, UpperOk v.name.name
  upperTerminals : ∀ t, termEnums f = [t] → UpperOk t.name.name ∧ ∀ v ∈ t.variants, UpperOk v.name.name
  lowerFields : ∀ fs ∈ fieldsets f, ∀ n ∈ namedFieldNames fs, LowerOk n

end Spec
end KikiVerif

namespace KikiVerif
namespace Spec
open Ast Text

/-! ### truthful error reports (second half of C10) -/

/-- top-level definitions with the positions of their names, in the order validation meets them:
nonterminals in declaration order, then the terminal variants, then the terminal enum itself -/
def ntDefs (f : File) : List (Str × Nat) :=
  f.items.filterMap fun
    | .struct s => some (s.name.name, s.name.pos)
    | .enum e => some (e.name.name, e.name.pos)
    | _ => none

def topDefs (f : File) (t : TermEnum) : List (Str × Nat) :=
  ntDefs f ++ t.variants.map (fun v => (v.name.name, v.name.dpos)) ++ [(t.name.name, t.name.pos)]

/-- every name that must start with an upper-case letter, with the position reported for it -/
def upperOccs (f : File) : List (Str × Nat) :=
  f.items.flatMap fun
    | .struct s => [(s.name.name, s.name.pos)]
    | .enum e => (e.name.name, e.name.pos) :: e.variants.map fun v => (v.name.name, v.name.pos)
    | .terminal t => (t.name.name, t.name.pos) :: t.variants.map fun v => (v.name.name, v.name.dpos)
    | .start _ => []

/-- identifiers used as names of named fields -/
def fieldsetIdents : Fieldset → List Ident
  | .named fs => fs.filterMap fun fld => match fld.name with | .id i => some i | .us _ => none
  | _ => []

def fieldIdents (f : File) : List Ident := (fieldsets f).flatMap fieldsetIdents

def allSyms (f : File) : List SymId := (fieldsets f).flatMap (·.syms)

/-- `l` contains `a` and later `b` -/
def Before {α : Type} (l : List α) (a b : α) : Prop := ∃ pre mid post, l = pre ++ a :: mid ++ b :: post

inductive Truthful (f : File) : KErr → Prop
  | noStart : startDecls f = [] → Truthful f .noStartSymbol
  | multiStart : 2 ≤ (startDecls f).length → Truthful f (.multipleStartSymbols ((startDecls f).map (·.pos)))
  | noTerminal : termEnums f = [] → Truthful f .noTerminalEnum
  | multiTerminal : 2 ≤ (termEnums f).length →
      Truthful f (.multipleTerminalEnums ((termEnums f).map (·.name.pos)))
  | notUpper (name : Str) (pos : Nat) : (name, pos) ∈ upperOccs f → ¬ UpperOk name → Truthful f (.notUppercase pos)
  | notLower (i : Ident) : i ∈ fieldIdents f → ¬ LowerOk i.name → Truthful f (.notLowercase i.pos)
  | nameClash (t : TermEnum) (name : Str) (p q : Nat) : termEnums f = [t] →
      Before (topDefs f t) (name, p) (name, q) → Truthful f (.nameClash name p q)
  | variantNameClash (e : Enum) (name : Str) (p q : Nat) : e ∈ enums f →
      Before (e.variants.map fun v => (v.name.name, v.name.pos)) (name, p) (name, q) →
      Truthful f (.variantNameClash name p q)
  | variantSeqClash (e : Enum) (seq : List Sym') (p q : Nat) : e ∈ enums f →
      Before (e.variants.map fun v => (v.fieldset.syms.map (·.toSym), v.name.pos)) (seq, p) (seq, q) →
      Truthful f (.variantSeqClash seq p q)
  | undefNonterminal (i : Ident) : (SymId.n i ∈ allSyms f ∨ i ∈ startDecls f) → i.name ∉ nonterminalNames f →
      Truthful f (.undefinedNonterminal i.name i.pos)
  | undefTerminal (t : TermEnum) (i : TermIdent) : termEnums f = [t] → SymId.t i ∈ allSyms f →
      i.name ∉ t.variants.map (·.name.name) → Truthful f (.undefinedTerminal i.name i.dpos)

end Spec
end KikiVerif
