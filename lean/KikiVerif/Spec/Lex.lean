/-
The documented lexical rules of `.kiki` files (USER_GUIDE.md, "Lexical
structure"; KikiErr::Lex doc comments) as a left-to-right *scanner
specification*: maximal munch is explicit (`span`), comments and whitespace are
skipped by `dropWhile`, attributes are matched with a bracket stack.  It is
structurally unlike the character state machine of `tokenize.rs`; `C08` proves
the two equal.
-/
import KikiVerif.Model.Tokenize

namespace KikiVerif
namespace Spec
open Text

def isIdentStart (c : Char) : Bool := isAsciiAlpha c || c = '_'
def isIdentChar (c : Char) : Bool := isAsciiAlnum c || c = '_'

/-- the longest prefix satisfying `p`, and the rest -/
def span (p : Char → Bool) : Str → Str × Str
  | [] => ([], [])
  | c :: cs => if p c then let (a, b) := span p cs; (c :: a, b) else ([], c :: cs)

/-- the five reserved words -/
def reserved (w : Str) (p : Nat) : Option Token :=
  if w = "_".toList then some (.underscore p)
  else if w = "start".toList then some (.startKw p)
  else if w = "struct".toList then some (.structKw p)
  else if w = "enum".toList then some (.enumKw p)
  else if w = "terminal".toList then some (.terminalKw p)
  else none

/-- the single-character punctuation -/
def punct (c : Char) (p : Nat) : Option Token :=
  match c with
  | ':' => some (.colon p)
  | ',' => some (.comma p)
  | '(' => some (.lparen p)
  | ')' => some (.rparen p)
  | '{' => some (.lcurly p)
  | '}' => some (.rcurly p)
  | '<' => some (.langle p)
  | '>' => some (.rangle p)
  | _ => none

def closes (o c : Char) : Bool := (o = '(' && c = ')') || (o = '[' && c = ']') || (o = '{' && c = '}')
def isOpen (c : Char) : Bool := c = '(' || c = '[' || c = '{'
def isClose (c : Char) : Bool := c = ')' || c = ']' || c = '}'

/-- result of scanning the inside of an attribute -/
inductive AttrRes where
  | done (body : Str) (rest : Str)         -- `body` ends with the bracket that empties the stack
  | bad (index : Nat) (c : Option Char)    -- first offending character (or end of input)

/-- Scan after `#[` with a stack of open brackets (innermost first).  The attribute ends with the
bracket that closes the initial `[`.  A closing bracket of the wrong kind, a newline, or the end
of the input before that point is the first offending position. -/
def attrBody : Str → Nat → List Char → AttrRes
  | [], i, _ => .bad i none
  | c :: cs, i, stack =>
    if isOpen c then
      match attrBody cs (i + clen c) (c :: stack) with
      | .done b r => .done (c :: b) r
      | bad => bad
    else if isClose c then
      match stack with
      | [] => .bad i (some c)
      | o :: stack' =>
        if closes o c then
          if stack'.isEmpty then .done [c] cs
          else match attrBody cs (i + clen c) stack' with
            | .done b r => .done (c :: b) r
            | bad => bad
        else .bad i (some c)
    else if c = '\n' then .bad i (some c)
    else
      match attrBody cs (i + clen c) stack with
      | .done b r => .done (c :: b) r
      | bad => bad

/-- length of a `//` comment after the two slashes: everything up to and including the next
`\n` (or to the end of the input) -/
def commentLen : Str → Nat
  | [] => 0
  | c :: cs => if c = '\n' then 1 else 1 + commentLen cs

/-- what the scanner does at the head of the remaining input -/
inductive Step where
  | done                              -- end of input
  | skip (extra : Nat)                -- whitespace or a comment of `extra + 1` characters: no token
  | emit (t : Token) (extra : Nat)    -- one token made of the next `extra + 1` characters
  | bad (index : Nat) (c : Option Char)   -- lexical error: first offending position and character

/-- `cs` is the remaining input, starting at byte offset `i` of the source -/
def next (cs : Str) (i : Nat) : Step :=
  match cs with
  | [] => .done
  | c :: rest =>
    if isWhitespace c then .skip 0
    else if c = '/' then
      match rest with
      | d :: r => if d = '/' then .skip (1 + commentLen r) else .bad i (some '/')
      | [] => .bad i (some '/')
    else if isIdentStart c then
      -- maximal munch: the longest run of identifier characters
      let w := c :: (span isIdentChar rest).1
      .emit ((reserved w i).getD (.ident w i)) (span isIdentChar rest).1.length
    else if c = '$' then
      match rest with
      | d :: _ =>
        if isIdentStart d then
          let w := (span isIdentChar rest).1
          -- a reserved word after `$`: the error is just past it
          if (reserved w 0).isSome then .bad (i + 1 + blen w) (span isIdentChar rest).2.head?
          else .emit (.termIdent w (i + 1)) w.length
        else .bad i (some '$')
      | [] => .bad i (some '$')
    else if c = ':' then
      match rest with
      | d :: _ => if d = ':' then .emit (.dcolon i) 1 else .emit (.colon i) 0   -- maximal munch: `::` before `:`
      | [] => .emit (.colon i) 0
    else if c = '#' then
      match rest with
      | d :: r =>
        if d = '[' then
          match attrBody r (i + 2) ['['] with
          | .bad j ch => .bad j ch
          | .done body _ => .emit (.attr ('#' :: '[' :: body) i) (1 + body.length)
        else .bad i (some '#')
      | [] => .bad i (some '#')
    else match punct c i with
      | some tok => .emit tok 0
      | none => .bad i (some c)

theorem identStart_identChar {c : Char} (h : isIdentStart c = true) : isIdentChar c = true := by
  simp only [isIdentStart, isIdentChar, isAsciiAlnum, Bool.or_eq_true] at *
  rcases h with h | h
  · exact Or.inl (Or.inl h)
  · exact Or.inr h

theorem drop_succ_length_lt (cs : Str) (k : Nat) (h : cs ≠ []) : (cs.drop (k + 1)).length < cs.length := by
  cases cs with
  | nil => exact absurd rfl h
  | cons c cs => simp; omega

theorem next_ne_nil {cs : Str} {i : Nat} (h : next cs i ≠ .done) : cs ≠ [] := by
  intro e; subst e; exact h rfl

/-- the scanner: the tokens of `cs`, which starts at byte offset `i` of the source -/
def scanFrom (cs : Str) (i : Nat) : Res (List Token) :=
  match h : next cs i with
  | .done => .ok []
  | .bad j c => .err (.lex j c)
  | .skip k =>
    have : (cs.drop (k + 1)).length < cs.length := drop_succ_length_lt cs k (next_ne_nil (by rw [h]; simp))
    scanFrom (cs.drop (k + 1)) (i + blen (cs.take (k + 1)))
  | .emit t k =>
    have : (cs.drop (k + 1)).length < cs.length := drop_succ_length_lt cs k (next_ne_nil (by rw [h]; simp))
    match scanFrom (cs.drop (k + 1)) (i + blen (cs.take (k + 1))) with
    | .ok ts => .ok (t :: ts)
    | e => e
termination_by cs.length

/-! unfolding lemmas -/

theorem scanFrom_done {cs : Str} {i : Nat} (h : next cs i = .done) : scanFrom cs i = .ok [] := by
  rw [scanFrom]
  split <;> rename_i h' <;> rw [h] at h' <;> try cases h'

theorem scanFrom_bad {cs : Str} {i j : Nat} {c : Option Char} (h : next cs i = .bad j c) :
    scanFrom cs i = .err (.lex j c) := by
  rw [scanFrom]
  split <;> rename_i h' <;> rw [h] at h' <;> cases h'
  rfl

theorem scanFrom_skip {cs : Str} {i k : Nat} (h : next cs i = .skip k) :
    scanFrom cs i = scanFrom (cs.drop (k + 1)) (i + blen (cs.take (k + 1))) := by
  rw [scanFrom]
  split <;> rename_i h' <;> rw [h] at h' <;> try cases h'
  rfl

theorem scanFrom_emit {cs : Str} {i k : Nat} {t : Token} (h : next cs i = .emit t k) :
    scanFrom cs i =
      match scanFrom (cs.drop (k + 1)) (i + blen (cs.take (k + 1))) with
      | .ok ts => .ok (t :: ts)
      | e => e := by
  rw [scanFrom]
  split <;> rename_i h' <;> rw [h] at h' <;> try cases h'
  rfl

theorem next_whitespace (c : Char) (rest : Str) (i : Nat) (h : isWhitespace c = true) :
    next (c :: rest) i = .skip 0 := by
  unfold next
  simp only [h, if_true]

/-- the specification of `tokenize` -/
def scan (src : Str) : Res (List Token) := scanFrom src 0

end Spec
end KikiVerif
