/-
The concrete syntax of `.kiki` files as a function from the AST back to the sequence of (position-free)
tokens it was written with.  `cst_to_ast` is correct iff unparsing its result gives back the tokens of the
input in order (Properties/C09, `C09_flatten`): nothing is dropped, duplicated or reordered — items,
attributes, fields, variants, path segments, type arguments.
-/
import KikiVerif.Model.Ast

namespace KikiVerif
namespace Spec
open Ast

/-- a token without its position -/
inductive Tk where
  | underscore | ident (n : Str) | termIdent (n : Str) | attr (src : Str)
  | startKw | structKw | enumKw | terminalKw
  | colon | dcolon | comma | lparen | rparen | lcurly | rcurly | langle | rangle
deriving DecidableEq, Repr

def erase : Token → Tk
  | .underscore _ => .underscore
  | .ident n _ => .ident n
  | .termIdent n _ => .termIdent n
  | .attr s _ => .attr s
  | .startKw _ => .startKw
  | .structKw _ => .structKw
  | .enumKw _ => .enumKw
  | .terminalKw _ => .terminalKw
  | .colon _ => .colon
  | .dcolon _ => .dcolon
  | .comma _ => .comma
  | .lparen _ => .lparen
  | .rparen _ => .rparen
  | .lcurly _ => .lcurly
  | .rcurly _ => .rcurly
  | .langle _ => .langle
  | .rangle _ => .rangle

def unSym : SymId → List Tk
  | .n i => [.ident i.name]
  | .t i => [.termIdent i.name]

def unFieldName : FieldName → List Tk
  | .id i => [.ident i.name]
  | .us _ => [.underscore]

def unNamedField (f : NamedField) : List Tk := unFieldName f.name ++ [.colon] ++ unSym f.sym

def unTupleField : TupleField → List Tk
  | .used s => unSym s
  | .skipped s => [.underscore, .colon] ++ unSym s

def unFieldset : Fieldset → List Tk
  | .empty => []
  | .named fs => [.lcurly] ++ fs.flatMap unNamedField ++ [.rcurly]
  | .tuple fs => [.lparen] ++ fs.flatMap unTupleField ++ [.rparen]

def unAttrs (as : List Attr) : List Tk := as.map fun a => .attr a.src

/-- `a::b::c` -/
def unPath : List Ident → List Tk
  | [] => []
  | [i] => [.ident i.name]
  | i :: rest => .ident i.name :: .dcolon :: unPath rest

mutual
def unType : Ty → List Tk
  | .unit => [.lparen, .rparen]
  | .path p => unPath p
  | .complex callee args => unPath callee ++ [.langle] ++ unTypes args ++ [.rangle]
/-- comma-separated -/
def unTypes : List Ty → List Tk
  | [] => []
  | [t] => unType t
  | t :: rest => unType t ++ [.comma] ++ unTypes rest
end

def unVariant (v : Variant) : List Tk := [.ident v.name.name] ++ unFieldset v.fieldset

def unTermVariant (v : TermVariant) : List Tk := [.termIdent v.name.name, .colon] ++ unType v.ty

def unItem : Item → List Tk
  | .start i => [.startKw, .ident i.name]
  | .struct s => unAttrs s.attrs ++ [.structKw, .ident s.name.name] ++ unFieldset s.fieldset
  | .enum e => unAttrs e.attrs ++ [.enumKw, .ident e.name.name, .lcurly] ++ e.variants.flatMap unVariant ++ [.rcurly]
  | .terminal t =>
    unAttrs t.attrs ++ [.terminalKw, .ident t.name.name, .lcurly] ++ t.variants.flatMap unTermVariant ++ [.rcurly]

def unFile (f : File) : List Tk := f.items.flatMap unItem

end Spec
end KikiVerif
