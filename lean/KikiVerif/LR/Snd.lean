import KikiVerif.LR.Gen
/-! Safety + soundness from local soundness conditions -/
namespace KikiVerif.LR
variable {T N P : Type}

structure Sound (g : Grammar T N) (A : Auto T N) : Prop where
  /-- items are well formed -/
  wfItem : ∀ s r d a, A.items s ⟨r, d, a⟩ → ∃ rhs, g.rhsOf r = some rhs ∧ d ≤ rhs.length
  /-- start state has only dot-0 items -/
  startDot : ∀ r d a, A.items A.start ⟨r, d, a⟩ → d = 0
  /-- every kernel item of a target has a pre-image in *every* source -/
  kernel : ∀ s X t r d a rhs, A.delta s X = some t → A.items t ⟨r, d+1, a⟩ → g.rhsOf r = some rhs →
      rhs[d]? = some X ∧ ∃ a', A.items s ⟨r, d, a'⟩
  /-- dot-0 original items are demanded by some item of the same state -/
  closure0 : ∀ s j a rule, A.items s ⟨some j, 0, a⟩ → g.rules[j]? = some rule →
      ∃ r d a' rhs, A.items s ⟨r, d, a'⟩ ∧ g.rhsOf r = some rhs ∧ rhs[d]? = some (.n rule.lhs)
  /-- augmented initial item only in the start state, which is never a target -/
  aug0 : ∀ s a, A.items s ⟨none, 0, a⟩ → s = A.start
  noBack : ∀ s X, A.delta s X ≠ some A.start
  transN : ∀ s r d a rhs B, A.items s ⟨r, d, a⟩ → g.rhsOf r = some rhs → rhs[d]? = some (.n B) →
      ∃ t, A.delta s (.n B) = some t
  goto : ∀ s B, A.goto s B = A.delta s (.n B)
  actShift : ∀ s a t, A.action s a = .shift t → ∃ c, a = some c ∧ A.delta s (.t c) = some t
  actReduce : ∀ s a j, A.action s a = .reduce j → ∃ rule a', g.rules[j]? = some rule ∧
      A.items s ⟨some j, rule.rhs.length, a'⟩
  actAccept : ∀ s a, A.action s a = .accept → a = none ∧ ∃ a', A.items s ⟨none, 1, a'⟩

/-- consistent stacks: states (top first), nodes (top first), consumed input -/
inductive Stk (g : Grammar T N) (A : Auto T N) : List Nat → List (Tree T P) → List (Tok T P) → Prop
  | base : Stk g A [A.start] [] []
  | push {s ss t ts X s' u} : Stk g A (s :: ss) ts u → WF g t X → A.delta s X = some s' →
      Stk g A (s' :: s :: ss) (t :: ts) (u ++ t.yield)

theorem Stk.len {g : Grammar T N} {A : Auto T N} {ss ts} {u : List (Tok T P)} (h : Stk g A ss ts u) :
    ss.length = ts.length + 1 := by
  induction h with
  | base => rfl
  | push _ _ _ ih => simp [ih]

theorem WFL.snoc {g : Grammar T N} {t : Tree T P} {X} (hwf : WF g t X) :
    ∀ (l1 : List (Tree T P)) l2, WFL g l1 l2 → WFL g (l1 ++ [t]) (l2 ++ [X]) := by
  intro l1
  induction l1 with
  | nil => intro l2 h; cases h; exact .cons hwf .nil
  | cons c cs ih => intro l2 h; cases h with | cons h1 h2 => exact .cons h1 (ih _ h2)

/-- an item with dot `d` in the top state pins down the top `d` stack entries -/
theorem Stk.suffix {g : Grammar T N} {A : Auto T N} (hs : Sound g A) :
    ∀ d ss ts (u : List (Tok T P)), Stk g A ss ts u → ∀ top tl, ss = top :: tl → ∀ r a rhs, A.items top ⟨r, d, a⟩ →
      g.rhsOf r = some rhs →
      ∃ s0 tl0 u0 a0, ss.drop d = s0 :: tl0 ∧ A.items s0 ⟨r, 0, a0⟩ ∧ Stk g A (s0 :: tl0) (ts.drop d) u0 ∧
        d ≤ ts.length ∧ WFL g (ts.take d).reverse (rhs.take d) ∧ u = u0 ++ yieldList (ts.take d).reverse := by
  intro d
  induction d with
  | zero =>
    intro ss ts u h top tl hss r a rhs hit _
    subst hss
    exact ⟨top, tl, u, a, rfl, hit, by simpa using h, by simp, by simpa using WFL.nil, by simp [yieldList]⟩
  | succ d ih =>
    intro ss ts u h top tl hss r a rhs hit hrhs
    cases h with
    | base =>
      cases hss
      have := hs.startDot r (d+1) a hit
      omega
    | @push s ss' t ts' X s' u' hstk hwf hd =>
      cases hss
      obtain ⟨hX, a', hit'⟩ := hs.kernel s X top r d a rhs hd hit hrhs
      obtain ⟨s0, tl0, u0, a0, hdrop, hit0, hstk0, hle, hwfl, hu⟩ :=
        ih (s :: ss') ts' u' hstk s ss' rfl r a' rhs hit' hrhs
      refine ⟨s0, tl0, u0, a0, by simpa using hdrop, hit0, by simpa using hstk0, by simp; omega, ?_, ?_⟩
      · have hdlt : d < rhs.length := by
          have := List.getElem?_eq_some_iff.mp hX; exact this.1
        have e1 : (List.take (d + 1) (t :: ts')).reverse = (ts'.take d).reverse ++ [t] := by simp
        have e2 : rhs.take (d+1) = rhs.take d ++ [X] := by
          rw [List.take_add_one, hX]; rfl
        rw [e1, e2]
        exact WFL.snoc hwf _ _ hwfl
      · have e1 : (List.take (d + 1) (t :: ts')).reverse = (ts'.take d).reverse ++ [t] := by simp
        rw [e1, hu]
        have : ∀ (l : List (Tree T P)), yieldList (l ++ [t]) = yieldList l ++ t.yield := by
          intro l; induction l with
          | nil => simp [yieldList]
          | cons c cs ih3 => simp [yieldList, ih3]
        rw [this]; simp


theorem Stk.start_top {g : Grammar T N} {A : Auto T N} (hs : Sound g A) {tl ts} {u : List (Tok T P)}
    (h : Stk g A (A.start :: tl) ts u) : tl = [] ∧ ts = [] ∧ u = [] := by
  cases h with
  | base => exact ⟨rfl, rfl, rfl⟩
  | push _ _ hd => exact absurd hd (hs.noBack _ _)

theorem la_none {l : List (Tok T P)} (h : la l = none) : l = [] := by
  cases l <;> simp_all [la]

theorem la_some {l : List (Tok T P)} {c} (h : la l = some c) : ∃ tok rest, l = tok :: rest ∧ tok.kind = c := by
  cases l with
  | nil => simp [la] at h
  | cons tok rest => exact ⟨tok, rest, rfl, by simpa [la] using h⟩

/-- one step preserves consistency, never panics, and `ok` is sound -/
theorem step_inv {g : Grammar T N} {A : Auto T N} (hs : Sound g A) (c : Cfg T P) (u : List (Tok T P))
    (h : Stk g A c.states c.nodes u) :
    match step g A c with
    | .panic => False
    | .cont c' => ∃ u', Stk g A c'.states c'.nodes u' ∧ u' ++ c'.rest = u ++ c.rest
    | .ok t => WF g t (.n g.start) ∧ u = t.yield ∧ c.rest = []
    | .err => True := by
  obtain ⟨states, nodes, rest⟩ := c
  simp only at h
  have hlen := h.len
  cases states with
  | nil => simp at hlen
  | cons top tl =>
    simp only [step]
    cases hact : A.action top (la rest) with
    | err => simp
    | shift t =>
      obtain ⟨cK, hla, hd⟩ := hs.actShift top _ t hact
      obtain ⟨tok, rest', hr, hk⟩ := la_some hla
      subst hr
      simp only
      refine ⟨u ++ (Tree.leaf tok).yield, .push h (hk ▸ WF.leaf tok) hd, by simp [Tree.yield]⟩
    | accept =>
      obtain ⟨hla, a', hit⟩ := hs.actAccept top _ hact
      have hrest := la_none hla
      obtain ⟨s0, tl0, u0, a0, hdrop, hit0, hstk0, hle, hwfl, hu⟩ :=
        Stk.suffix hs 1 _ _ _ h top tl rfl none a' [.n g.start] hit rfl
      have hs0 := hs.aug0 s0 a0 hit0
      subst hs0
      obtain ⟨_, hts, hu0⟩ := Stk.start_top hs hstk0
      cases nodes with
      | nil => simp at hle
      | cons t ts =>
        simp only
        simp at hts hwfl hu
        subst hts hu0
        cases hwfl with
        | cons h1 _ => exact ⟨h1, by simpa [yieldList] using hu, hrest⟩
    | reduce j =>
      obtain ⟨rule, a', hr, hit⟩ := hs.actReduce top _ j hact
      have hrhs : g.rhsOf (some j) = some rule.rhs := by simp [Grammar.rhsOf, hr]
      obtain ⟨s0, tl0, u0, a0, hdrop, hit0, hstk0, hle, hwfl, hu⟩ :=
        Stk.suffix hs rule.rhs.length _ _ _ h top tl rfl (some j) a' rule.rhs hit hrhs
      obtain ⟨r', d', a'', rhs', hit', hrhs', hget'⟩ := hs.closure0 s0 j a0 rule hit0 hr
      obtain ⟨t, hd⟩ := hs.transN s0 r' d' a'' rhs' rule.lhs hit' hrhs' hget'
      have hgoto : A.goto s0 rule.lhs = some t := by rw [hs.goto]; exact hd
      have hn : ¬ (nodes.length < rule.rhs.length ∨ (top :: tl).length < rule.rhs.length) := by
        simp at hlen ⊢; omega
      simp only [hr, hn, if_false, hdrop, hgoto]
      refine ⟨u0 ++ (Tree.node j (nodes.take rule.rhs.length).reverse).yield, ?_, ?_⟩
      · refine .push hstk0 (WF.node j rule _ hr ?_) hd
        simpa using hwfl
      · simp [Tree.yield, hu]

end KikiVerif.LR
#print axioms KikiVerif.LR.step_inv
