/-
A candidate LR automaton as plain data (`Cert`): item sets per state, ACTION / GOTO rows, FIRST table —
and the `Auto` it denotes.  Used by the front-end model (tables extracted from `parser.rs`), by the
validator (`Proofs/Valid`) and by the correspondence check (machine and table of the implementation).
-/
import KikiVerif.LR.Gen

namespace KikiVerif
namespace Valid
open LR

abbrev It := Item Nat

/-- FIRST table entry: terminals and nullability of a nonterminal -/
abbrev FirstTbl := List (List Nat × Bool)

structure Cert where
  nT : Nat
  start : Nat
  states : List (List It)
  actions : List (List Action)            -- rows: columns 0..nT-1 terminals, column nT = end of input
  gotos : List (List (Option Nat))
  first : FirstTbl

def Cert.act (C : Cert) (s : Nat) (la : Option Nat) : Action :=
  match la with
  | none => ((C.actions[s]?).bind (·[C.nT]?)).getD .err
  | some c => if c < C.nT then ((C.actions[s]?).bind (·[c]?)).getD .err else .err

def Cert.goto (C : Cert) (s B : Nat) : Option Nat := ((C.gotos[s]?).bind (·[B]?)).join

def Cert.items (C : Cert) (s : Nat) : List It := C.states.getD s []

def Cert.delta (C : Cert) (s : Nat) : Sym Nat Nat → Option Nat
  | .t c => match C.act s (some c) with
    | .shift t => some t
    | _ => none
  | .n B => C.goto s B

def seqTerms (ft : FirstTbl) : List (Sym Nat Nat) → List Nat
  | [] => []
  | .t c :: _ => [c]
  | .n B :: rest => (ft.getD B ([], false)).1 ++ (if (ft.getD B ([], false)).2 then seqTerms ft rest else [])

def seqNullable (ft : FirstTbl) : List (Sym Nat Nat) → Bool
  | [] => true
  | .t _ :: _ => false
  | .n B :: rest => (ft.getD B ([], false)).2 && seqNullable ft rest

/-- FIRST(β a) -/
def firstSeq (ft : FirstTbl) (β : List (Sym Nat Nat)) (a : Option Nat) : List (Option Nat) :=
  (seqTerms ft β).map some ++ (if seqNullable ft β then [a] else [])

def mkAuto (C : Cert) : Auto Nat Nat :=
  { start := C.start
    items := fun s it => it ∈ C.items s
    delta := C.delta
    action := C.act
    goto := C.goto
    first := fun β a b => b ∈ firstSeq C.first β a }

end Valid
end KikiVerif
