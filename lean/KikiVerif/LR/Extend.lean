import KikiVerif.LR.Snd
import KikiVerif.LR.Via
import KikiVerif.LR.Early
/-!
The consumed part of the input is always a prefix of some sentence (when every nonterminal is productive),
and together with `LR/Early.lean`: the error is reported at the first token that makes the prefix dead.
-/
namespace KikiVerif.LR
variable {T N P : Type}

theorem yieldList_append (a b : List (Tree T P)) : yieldList (a ++ b) = yieldList a ++ yieldList b := by
  induction a with
  | nil => simp [yieldList]
  | cons c cs ih => simp [yieldList, ih]

theorem WFL.append {g : Grammar T N} : ∀ {t1 : List (Tree T P)} {a t2 b}, WFL g t1 a → WFL g t2 b →
    WFL g (t1 ++ t2) (a ++ b) := by
  intro t1
  induction t1 with
  | nil => intro a t2 b h1 h2; cases h1; simpa using h2
  | cons c cs ih => intro a t2 b h1 h2; cases h1 with | cons hc hcs => exact .cons hc (ih hcs h2)

theorem WFL.split {g : Grammar T N} : ∀ (a : List (Sym T N)) {ts : List (Tree T P)} {b}, WFL g ts (a ++ b) →
    ∃ t1 t2, ts = t1 ++ t2 ∧ WFL g t1 a ∧ WFL g t2 b := by
  intro a
  induction a with
  | nil => intro ts b h; exact ⟨[], ts, rfl, .nil, by simpa using h⟩
  | cons x xs ih =>
    intro ts b h
    cases h with
    | cons hc hcs =>
      obtain ⟨t1, t2, rfl, h1, h2⟩ := ih hcs
      exact ⟨_ :: t1, t2, rfl, .cons hc h1, h2⟩

/-- a derivation can be folded back over trees of its last sentential form -/
theorem Derives.fold {g : Grammar T N} {α β : List (Sym T N)} (h : Derives g α β) :
    ∀ ts : List (Tree T P), WFL g ts β → ∃ ts', WFL g ts' α ∧ yieldList ts' = yieldList ts := by
  induction h with
  | refl => intro ts h; exact ⟨ts, h, rfl⟩
  | @step pre post rule _ hmem ih =>
    intro ts h
    rw [List.append_assoc] at h
    obtain ⟨t1, t23, rfl, h1, h23⟩ := WFL.split pre h
    obtain ⟨t2, t3, rfl, h2, h3⟩ := WFL.split rule.rhs h23
    obtain ⟨j, hj, hget⟩ := List.getElem_of_mem hmem
    have hj' : g.rules[j]? = some rule := by rw [List.getElem?_eq_getElem hj, hget]
    obtain ⟨ts', hw, hy⟩ := ih (t1 ++ Tree.node j t2 :: t3) (WFL.append h1 (.cons (.node j rule t2 hj' h2) h3))
    refine ⟨ts', hw, ?_⟩
    rw [hy]
    simp [yieldList_append, yieldList, Tree.yield]

/-- nonterminals that can occur in a sentential form -/
def Occurs (g : Grammar T N) (B : N) : Prop := B = g.start ∨ ∃ rule ∈ g.rules, Sym.n B ∈ rule.rhs

/-- every nonterminal of the grammar derives at least one token sequence -/
def Productive (g : Grammar T N) (P : Type) : Prop := ∀ B, Occurs g B → ∃ t : Tree T P, WF g t (.n B)

theorem Derives.occurs {g : Grammar T N} {β : List (Sym T N)} (h : Derives g [.n g.start] β) :
    ∀ B, Sym.n B ∈ β → Occurs g B := by
  generalize hα : [Sym.n g.start] = α at h
  induction h with
  | refl =>
    intro B hB
    subst hα
    simp only [List.mem_singleton] at hB
    injection hB with e
    exact Or.inl e
  | @step pre post rule _ hmem ih =>
    intro B hB
    simp only [List.mem_append] at hB
    rcases hB with (hB | hB) | hB
    · exact ih B (by simp [hB])
    · exact Or.inr ⟨rule, hmem, hB⟩
    · exact ih B (by simp [hB])

theorem trees_for [Inhabited P] {g : Grammar T N} (hp : Productive g P) :
    ∀ β : List (Sym T N), (∀ B, Sym.n B ∈ β → Occurs g B) → ∃ ts : List (Tree T P), WFL g ts β := by
  intro β
  induction β with
  | nil => intro _; exact ⟨[], .nil⟩
  | cons X β ih =>
    intro h
    obtain ⟨ts, hts⟩ := ih (fun B hB => h B (List.mem_cons_of_mem _ hB))
    cases X with
    | t a => exact ⟨.leaf ⟨a, default⟩ :: ts, .cons (.leaf ⟨a, default⟩) hts⟩
    | n B =>
      obtain ⟨t, ht⟩ := hp B (h B List.mem_cons_self)
      exact ⟨t :: ts, .cons ht hts⟩

/-- the tree stack spells a symbol stack -/
theorem Stk.spell {g : Grammar T N} {A : Auto T N} {ss ts} {u : List (Tok T P)} (h : Stk g A ss ts u) :
    ∃ γ, StkS A ss γ ∧ WFL g ts.reverse γ ∧ yieldList ts.reverse = u := by
  induction h with
  | base => exact ⟨[], .base, .nil, rfl⟩
  | @push s ss t ts X s' u _ hwf hd ih =>
    obtain ⟨γ, h1, h2, h3⟩ := ih
    refine ⟨γ ++ [X], .push h1 hd, ?_, ?_⟩
    · rw [List.reverse_cons]; exact WFL.snoc hwf _ _ h2
    · rw [List.reverse_cons, yieldList_append, h3]; simp [yieldList]

/-- the invariant along a run -/
theorem steps_stk {g : Grammar T N} {A : Auto T N} (hs : Sound g A) {c c' : Cfg T P} (h : Steps g A c c') :
    ∀ u, Stk g A c.states c.nodes u → ∃ u', Stk g A c'.states c'.nodes u' ∧ u' ++ c'.rest = u ++ c.rest := by
  induction h with
  | refl => intro u hu; exact ⟨u, hu, rfl⟩
  | head hstep _ ih =>
    intro u hu
    have := step_inv hs _ u hu
    rw [hstep] at this
    obtain ⟨u1, h1, e1⟩ := this
    obtain ⟨u2, h2, e2⟩ := ih u1 h1
    exact ⟨u2, h2, by rw [e2, e1]⟩

/-- every state on a stack has at least one item -/
def NonEmpty (A : Auto T N) : Prop := ∀ s X t, A.delta s X = some t → ∃ it, A.items t it

/-- **the consumed input is a viable prefix**: whatever configuration the run reaches, the tokens consumed so
far can be continued to a sentence -/
theorem consumed_extends [Inhabited P] {g : Grammar T N} {A : Auto T N} (hs : Sound g A)
    (hc : Complete (P := P) g A) (hcs : CoreSound g A) (hne : NonEmpty A) (hp : Productive g P)
    {w : List (Tok T P)} {c : Cfg T P} (hrun : Steps g A ⟨[A.start], [], w⟩ c) :
    ∃ pre, w = pre ++ c.rest ∧ ∃ suf t, WF g t (.n g.start) ∧ t.yield = pre ++ suf := by
  obtain ⟨u, hstk, hu⟩ := steps_stk hs hrun [] .base
  obtain ⟨states, nodes, rest⟩ := c
  simp only [List.nil_append] at hu hstk ⊢
  refine ⟨u, hu.symm, ?_⟩
  obtain ⟨γ, hS, hwfl, hy⟩ := hstk.spell
  -- some item of the top state
  have htop : ∃ top tl, states = top :: tl ∧ ∃ it, A.items top it := by
    cases hS with
    | base => exact ⟨A.start, [], rfl, _, hc.start⟩
    | push _ hd => exact ⟨_, _, rfl, hne _ _ _ hd⟩
  obtain ⟨top, tl, hss, ⟨r, d, a⟩, hit⟩ := htop
  obtain ⟨δ, ζ, rhs, hr, hγ, hder⟩ := viable hcs _ _ hS top tl hss r d a hit
  -- trees for what is still to come
  have hocc : ∀ B, Sym.n B ∈ rhs.drop d ++ ζ → Occurs g B := by
    intro B hB
    apply hder.occurs B
    simp only [List.mem_append] at hB ⊢
    rcases hB with hB | hB
    · exact Or.inl (Or.inr (List.mem_of_mem_drop hB))
    · exact Or.inr hB
  obtain ⟨more, hmore⟩ := trees_for hp _ hocc
  have hall : WFL g (nodes.reverse ++ more) (δ ++ rhs ++ ζ) := by
    have := WFL.append hwfl hmore
    rw [hγ] at this
    have e : δ ++ List.take d rhs ++ (List.drop d rhs ++ ζ) = δ ++ rhs ++ ζ := by
      rw [List.append_assoc δ, ← List.append_assoc (List.take d rhs), List.take_append_drop, List.append_assoc]
    rw [e] at this
    exact this
  obtain ⟨ts', hw', hy'⟩ := hder.fold _ hall
  cases hw' with
  | cons ht hnil =>
    cases hnil
    refine ⟨yieldList more, _, ht, ?_⟩
    simp only [yieldList, List.append_nil] at hy'
    rw [hy', yieldList_append, hy]

/-- **C03, generic form.**  When the run stops with an error:
* the consumed tokens `pre` are a prefix of a sentence (so is every shorter prefix);
* if a token `a` is the lookahead (`Err(Some(a))`), no sentence starts with `pre ++ [a]`: `a` is the first
  offending token, and the run did not depend on anything after `a`;
* if the input is exhausted (`Err(None)`), the input is not a sentence (but a proper prefix of one). -/
theorem first_offending [Inhabited P] {g : Grammar T N} {A : Auto T N} (hs : Sound g A)
    (hc : Complete (P := P) g A) (hcs : CoreSound g A) (hne : NonEmpty A) (hp : Productive g P)
    {w : List (Tok T P)} {c : Cfg T P} (hrun : Steps g A ⟨[A.start], [], w⟩ c) (herr : step g A c = .err) :
    ∃ pre, w = pre ++ c.rest ∧
      (∃ suf t, WF g t (.n g.start) ∧ t.yield = pre ++ suf) ∧
      (∀ a r, c.rest = a :: r → ∀ r' t, WF g t (.n g.start) → t.yield ≠ pre ++ a :: r') ∧
      (c.rest = [] → ∀ t, WF g t (.n g.start) → t.yield ≠ w) := by
  obtain ⟨pre, hw, hext⟩ := consumed_extends hs hc hcs hne hp hrun
  refine ⟨pre, hw, hext, ?_, ?_⟩
  · intro a r hrest r' t ht
    rw [hrest] at hw
    subst hw
    exact no_early_error hc hrun hrest herr r' t ht
  · intro _ t ht
    exact error_not_sentence hc hrun herr t ht

end KikiVerif.LR
