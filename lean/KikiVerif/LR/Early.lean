import KikiVerif.LR.Gen
/-!
The error is not reported early: if the run on `pre ++ a :: r` stops with an error while `a` is the
lookahead, then no continuation `pre ++ a :: r'` is a sentence.  Only `Complete` is needed: the parser
looks at nothing but the kind of the lookahead, so the run on `pre ++ a :: r'` reaches the same error, while
completeness would make it accept.
-/
namespace KikiVerif.LR
variable {T N P : Type}

/-- a step with a non-empty rest depends on the head of the rest only -/
theorem step_head (g : Grammar T N) (A : Auto T N) (ss : List Nat) (ns : List (Tree T P)) (x : Tok T P)
    (r r' : List (Tok T P)) :
    (step g A ⟨ss, ns, x :: r⟩ = .err → step g A ⟨ss, ns, x :: r'⟩ = .err) ∧
    (∀ c1, step g A ⟨ss, ns, x :: r⟩ = .cont c1 →
      (c1.rest = x :: r ∧ step g A ⟨ss, ns, x :: r'⟩ = .cont ⟨c1.states, c1.nodes, x :: r'⟩) ∨
      (c1.rest = r ∧ step g A ⟨ss, ns, x :: r'⟩ = .cont ⟨c1.states, c1.nodes, r'⟩)) := by
  unfold step
  simp only [la, List.head?_cons, Option.map_some]
  cases ss with
  | nil => exact ⟨fun h => (by cases h), fun c1 h => by cases h⟩
  | cons top tl =>
    simp only
    cases A.action top (some x.kind) with
    | shift s =>
      simp only
      exact ⟨fun h => (by cases h), fun c1 h => by cases h; exact Or.inr ⟨rfl, rfl⟩⟩
    | reduce j =>
      simp only
      cases g.rules[j]? with
      | none => exact ⟨fun h => (by cases h), fun c1 h => by cases h⟩
      | some rule =>
        simp only
        split
        · exact ⟨fun h => (by cases h), fun c1 h => by cases h⟩
        · split
          · exact ⟨fun h => (by cases h), fun c1 h => by cases h⟩
          · split
            · exact ⟨fun h => h, fun c1 h => by cases h⟩
            · exact ⟨fun h => (by cases h), fun c1 h => by cases h; exact Or.inl ⟨rfl, rfl⟩⟩
    | accept =>
      simp only
      cases ns with
      | nil => exact ⟨fun h => (by cases h), fun c1 h => by cases h⟩
      | cons t _ => exact ⟨fun h => (by cases h), fun c1 h => by cases h⟩
    | err => exact ⟨fun h => h, fun c1 h => by cases h⟩

/-- a step never lengthens the rest -/
theorem step_rest_le {g : Grammar T N} {A : Auto T N} {c c1 : Cfg T P} (h : step g A c = .cont c1) :
    c1.rest.length ≤ c.rest.length := by
  unfold step at h
  split at h
  · cases h
  · split at h
    · split at h
      · cases h
      · rename_i hr; cases h; simp [hr]
    · split at h
      · cases h
      · simp only at h
        split at h
        · cases h
        · split at h
          · cases h
          · split at h
            · cases h
            · cases h; exact Nat.le_refl _
    · split at h <;> cases h
    · cases h

theorem steps_rest_le {g : Grammar T N} {A : Auto T N} {c c' : Cfg T P} (h : Steps g A c c') :
    c'.rest.length ≤ c.rest.length := by
  induction h with
  | refl => exact Nat.le_refl _
  | head hs _ ih => exact Nat.le_trans ih (step_rest_le hs)

/-- the part of the run before `a` becomes... is consumed does not depend on what follows `a` -/
theorem steps_replace {g : Grammar T N} {A : Auto T N} {a : Tok T P} {r r' : List (Tok T P)} :
    ∀ {c0 c : Cfg T P}, Steps g A c0 c → ∀ q q2, c0.rest = q ++ a :: r → c.rest = q2 ++ a :: r →
      Steps g A ⟨c0.states, c0.nodes, q ++ a :: r'⟩ ⟨c.states, c.nodes, q2 ++ a :: r'⟩ := by
  intro c0 c h
  induction h with
  | refl c =>
    intro q q2 h1 h2
    have : q = q2 := by
      rw [h1] at h2
      exact (List.append_left_inj _).mp h2
    subst this
    exact .refl _
  | @head c c1 c2 hs hrest ih =>
    intro q q2 h1 h2
    obtain ⟨ss, ns, rest⟩ := c
    simp only at h1
    subst h1
    cases q with
    | nil =>
      simp only [List.nil_append] at hs ⊢
      rcases (step_head g A ss ns a r r').2 c1 hs with ⟨e1, e2⟩ | ⟨e1, _⟩
      · exact .head e2 (ih [] q2 (by simpa using e1) h2)
      · -- `a` was shifted: the rest is shorter than `a :: r` from now on
        have := steps_rest_le hrest
        rw [e1, h2] at this
        simp at this
        omega
    | cons x q1 =>
      simp only [List.cons_append] at hs ⊢
      rcases (step_head g A ss ns x (q1 ++ a :: r) (q1 ++ a :: r')).2 c1 hs with ⟨e1, e2⟩ | ⟨e1, e2⟩
      · exact .head e2 (ih (x :: q1) q2 (by simpa using e1) h2)
      · exact .head e2 (ih q1 q2 e1 h2)

/-- runs are deterministic: two stuck configurations reached from the same start coincide -/
theorem steps_det {g : Grammar T N} {A : Auto T N} {c0 c1 c2 : Cfg T P} (h1 : Steps g A c0 c1)
    (h2 : Steps g A c0 c2) (n1 : ∀ c, step g A c1 ≠ .cont c) (n2 : ∀ c, step g A c2 ≠ .cont c) : c1 = c2 := by
  induction h1 with
  | refl c =>
    cases h2 with
    | refl => rfl
    | head hs _ => exact absurd hs (n1 _)
  | head hs _ ih =>
    cases h2 with
    | refl => exact absurd hs (n2 _)
    | head hs' h2' =>
      rw [hs] at hs'
      cases hs'
      exact ih h2' n1

/-- an error stop excludes every sentence with the same tokens up to and including the lookahead -/
theorem no_early_error {g : Grammar T N} {A : Auto T N} (hc : Complete (P := P) g A)
    {pre : List (Tok T P)} {a : Tok T P} {r : List (Tok T P)} {c : Cfg T P}
    (hrun : Steps g A ⟨[A.start], [], pre ++ a :: r⟩ c) (hrest : c.rest = a :: r) (herr : step g A c = .err)
    (r' : List (Tok T P)) (t : Tree T P) (hwf : WF g t (.n g.start)) : t.yield ≠ pre ++ a :: r' := by
  intro hy
  have hsim := steps_replace (r' := r') hrun pre [] rfl (by simpa using hrest)
  simp only [List.nil_append] at hsim
  have herr' : step g A ⟨c.states, c.nodes, a :: r'⟩ = .err := by
    have := (step_head g A c.states c.nodes a r r').1
    obtain ⟨ss, ns, rest⟩ := c
    simp only at hrest; subst hrest
    exact this herr
  obtain ⟨c2, hsteps2, hok⟩ := run_complete hc t hwf
  rw [hy] at hsteps2
  have := steps_det hsim hsteps2 (fun c h => by rw [herr'] at h; cases h) (fun c h => by rw [hok] at h; cases h)
  rw [← this, herr'] at hok
  cases hok

/-- an error stop at the end of the input: the input is not a sentence -/
theorem error_not_sentence {g : Grammar T N} {A : Auto T N} (hc : Complete (P := P) g A)
    {w : List (Tok T P)} {c : Cfg T P}
    (hrun : Steps g A ⟨[A.start], [], w⟩ c) (herr : step g A c = .err)
    (t : Tree T P) (hwf : WF g t (.n g.start)) : t.yield ≠ w := by
  intro hy
  obtain ⟨c2, hsteps2, hok⟩ := run_complete hc t hwf
  rw [hy] at hsteps2
  have := steps_det hrun hsteps2 (fun c h => by rw [herr] at h; cases h) (fun c h => by rw [hok] at h; cases h)
  rw [← this, herr] at hok
  cases hok

end KikiVerif.LR
