/-
Termination of the table-driven LR driver from a *checked potential*.

The driver (`LR.step`, iterated by `LR.runCfg`) consumes one token per shift, so only runs of reductions
under one fixed lookahead can make it diverge.  A reduction by `A → α` in top state `s` pops `|α|` states,
exposes a state `v` from which `s` is reached by `|α|` transitions, and pushes `goto v A`.  Give every pair
(lookahead column `a`, state `s`) a potential `φ a s : Nat` and pick a weight `cc` for the stack height.  If

      cc + φ a (goto v A) + 1  ≤  cc · |α| + φ a s          (★)

holds for every such `(a, s, v)`, then `cc · height + φ a top` strictly decreases with every reduction, and
`|rest| · (cc + max φ + 1) + cc · height + φ a top` strictly decreases with *every* step.  Hence the driver
stops after at most `(|w| + 1) · (cc + max φ + 1)` steps on every input `w` — sentence or not.

`haltsB` checks (★) on plain data (a `Valid.Cert`: ACTION and GOTO rows) over all `v` that reach `s` by `|α|`
transitions (an over-approximation of the states a reduction can expose).  `findPot` searches a potential by
relaxation; it is *not trusted*: only the final check enters the proof.  (A potential exists iff the graph of
possible reductions under one lookahead has no cycle that does not lower the stack.)
-/
import KikiVerif.LR.Cert

namespace KikiVerif
namespace Halt
open LR Valid

abbrev Pot := List (List Nat)

def Pot.get (φ : Pot) (a s : Nat) : Nat := (φ.getD a []).getD s 0

def rowMax (l : List Nat) : Nat := l.foldl max 0
def pmax (φ : Pot) : Nat := rowMax (φ.map rowMax)

theorem foldl_max_spec (l : List Nat) : ∀ init, init ≤ l.foldl max init ∧ ∀ x ∈ l, x ≤ l.foldl max init := by
  induction l with
  | nil => intro init; exact ⟨Nat.le_refl _, fun x h => by cases h⟩
  | cons y ys ih =>
    intro init
    obtain ⟨h1, h2⟩ := ih (max init y)
    refine ⟨Nat.le_trans (Nat.le_max_left _ _) h1, fun x hx => ?_⟩
    rcases List.mem_cons.mp hx with rfl | hx
    · exact Nat.le_trans (Nat.le_max_right _ _) h1
    · exact h2 x hx

theorem le_rowMax {l : List Nat} {x : Nat} (h : x ∈ l) : x ≤ rowMax l := (foldl_max_spec l 0).2 x h

theorem get_le_pmax (φ : Pot) (a s : Nat) : φ.get a s ≤ pmax φ := by
  unfold Pot.get
  rw [List.getD_eq_getElem?_getD, List.getD_eq_getElem?_getD]
  cases hrow : φ[a]? with
  | none => simp
  | some row =>
    cases hx : row[s]? with
    | none => simp [hx]
    | some x =>
      simp only [Option.getD_some, hx]
      have h1 : x ≤ rowMax row := le_rowMax (List.mem_of_getElem? hx)
      have h2 : rowMax row ≤ pmax φ := le_rowMax (List.mem_map.mpr ⟨row, List.mem_of_getElem? hrow, rfl⟩)
      exact Nat.le_trans h1 h2

/-- the ACTION column of a lookahead: terminals `0..nT-1`, end of input `nT` -/
def col (C : Cert) : La Nat → Nat
  | none => C.nT
  | some c => c

def actCol (C : Cert) (s a : Nat) : Action := ((C.actions[s]?).bind (·[a]?)).getD .err

theorem act_eq {C : Cert} {s : Nat} {l : La Nat} (h : C.act s l ≠ .err) :
    C.act s l = actCol C s (col C l) ∧ col C l < C.nT + 1 := by
  cases l with
  | none => exact ⟨rfl, Nat.lt_succ_self _⟩
  | some c =>
    unfold Cert.act at h ⊢
    simp only at h ⊢
    split
    · rename_i hc; exact ⟨rfl, Nat.lt_succ_of_lt hc⟩
    · rename_i hc; simp [hc] at h

def shiftTarget : Action → Option Nat
  | .shift t => some t
  | _ => none

/-- every state a shift or a goto can push on top of `v` -/
def succs (C : Cert) (v : Nat) : List Nat :=
  (C.actions.getD v []).filterMap shiftTarget ++ (C.gotos.getD v []).filterMap id

theorem mem_succs_of_shift {C : Cert} {v w : Nat} {l : La Nat} (h : C.act v l = .shift w) : w ∈ succs C v := by
  have hne : C.act v l ≠ .err := by rw [h]; exact fun e => by cases e
  rw [(act_eq hne).1] at h
  unfold actCol at h
  cases hrow : C.actions[v]? with
  | none => simp [hrow] at h
  | some row =>
    simp only [hrow, Option.bind_some] at h
    cases hx : row[col C l]? with
    | none => simp [hx] at h
    | some x =>
      simp only [hx, Option.getD_some] at h
      subst h
      refine List.mem_append_left _ (List.mem_filterMap.mpr ⟨.shift w, ?_, rfl⟩)
      rw [List.getD_eq_getElem?_getD, hrow]
      exact List.mem_of_getElem? hx

theorem mem_succs_of_goto {C : Cert} {v w B : Nat} (h : C.goto v B = some w) : w ∈ succs C v := by
  unfold Cert.goto at h
  cases hrow : C.gotos[v]? with
  | none => simp [hrow] at h
  | some row =>
    simp only [hrow, Option.bind_some] at h
    cases hx : row[B]? with
    | none => simp [hx] at h
    | some x =>
      simp only [hx, Option.join_some] at h
      subst h
      refine List.mem_append_right _ (List.mem_filterMap.mpr ⟨some w, ?_, rfl⟩)
      rw [List.getD_eq_getElem?_getD, hrow]
      exact List.mem_of_getElem? hx

/-- the state stack is a path of the automaton, top first, inside `0..n-1` -/
inductive StackOK (C : Cert) (n : Nat) : List Nat → Prop
  | one {s} : s < n → StackOK C n [s]
  | push {w v rest} : w < n → w ∈ succs C v → StackOK C n (v :: rest) → StackOK C n (w :: v :: rest)

theorem StackOK.link {C : Cert} {n : Nat} {st : List Nat} (h : StackOK C n st) :
    ∀ k w v, st[k]? = some w → st[k+1]? = some v → w ∈ succs C v ∧ v < n := by
  induction h with
  | one _ => intro k w v _ h2; simp at h2
  | @push w0 v0 rest hw hl hrest ih =>
    intro k w v h1 h2
    cases k with
    | zero =>
      simp at h1 h2; subst h1; subst h2
      refine ⟨hl, ?_⟩
      cases hrest with
      | one h => exact h
      | push h _ _ => exact h
    | succ k => exact ih k w v (by simpa using h1) (by simpa using h2)

theorem StackOK.tail {C : Cert} {n : Nat} {st : List Nat} (h : StackOK C n st) :
    ∀ k t' st', st.drop k = t' :: st' → StackOK C n (t' :: st') := by
  induction h with
  | @one s hs =>
    intro k t' st' hd
    cases k with
    | zero => simp at hd; obtain ⟨rfl, rfl⟩ := hd; exact .one hs
    | succ k => simp at hd
  | @push w0 v0 rest hw hl hrest ih =>
    intro k t' st' hd
    cases k with
    | zero => simp at hd; obtain ⟨rfl, rfl⟩ := hd; exact .push hw hl hrest
    | succ k => exact ih k t' st' (by simpa using hd)

theorem StackOK.head_lt {C : Cert} {n : Nat} {s : Nat} {st : List Nat} (h : StackOK C n (s :: st)) : s < n := by
  cases h with
  | one h => exact h
  | push h _ _ => exact h

def preds (C : Cert) (n : Nat) (S : List Nat) : List Nat :=
  (List.range n).filter fun v => (succs C v).any fun w => S.contains w

/-- the states from which `s` is reached by `k` transitions -/
def predk (C : Cert) (n : Nat) (s : Nat) : Nat → List Nat
  | 0 => [s]
  | k + 1 => preds C n (predk C n s k)

theorem StackOK.mem_predk {C : Cert} {n : Nat} {top : Nat} {st : List Nat} (h : StackOK C n (top :: st)) :
    ∀ k v, (top :: st)[k]? = some v → v ∈ predk C n top k := by
  intro k
  induction k with
  | zero => intro v hv; simp at hv; subst hv; simp [predk]
  | succ k ih =>
    intro v hv
    have hk : ∃ w, (top :: st)[k]? = some w := by
      have : k < (top :: st).length := by
        have := (List.getElem?_eq_some_iff.mp hv).1
        omega
      exact ⟨_, List.getElem?_eq_getElem this⟩
    obtain ⟨w, hw⟩ := hk
    obtain ⟨hl, hvn⟩ := h.link k w v hw hv
    simp only [predk, preds, List.mem_filter, List.mem_range, List.any_eq_true]
    exact ⟨hvn, w, hl, by simpa using ih w hw⟩

/-- the inequality (★) for every lookahead column, reducing state and exposable state -/
def redOK (C : Cert) (g : Grammar Nat Nat) (n cc : Nat) (φ : Pot) : Bool :=
  (List.range (C.nT + 1)).all fun a => (List.range n).all fun s =>
    match actCol C s a with
    | .reduce r =>
      match g.rules[r]? with
      | none => true
      | some rule =>
        (predk C n s rule.rhs.length).all fun v =>
          match C.goto v rule.lhs with
          | none => true
          | some s' => decide (cc + φ.get a s' + 1 ≤ cc * rule.rhs.length + φ.get a s)
    | _ => true

def rangeOK (C : Cert) (n : Nat) : Bool :=
  decide (C.start < n) && (List.range n).all fun v => (succs C v).all fun w => decide (w < n)

def haltsB (C : Cert) (g : Grammar Nat Nat) (cc : Nat) (φ : Pot) : Bool :=
  rangeOK C C.actions.length && redOK C g C.actions.length cc φ

variable {P : Type}

/-- what a continuing step does to the state stack and the rest -/
theorem step_cases {g : Grammar Nat Nat} {A : Auto Nat Nat} {c c' : Cfg Nat P} (h : step g A c = .cont c') :
    (∃ top sts tok rest s, c.states = top :: sts ∧ c.rest = tok :: rest ∧ A.action top (la c.rest) = .shift s ∧
        c'.states = s :: c.states ∧ c'.rest = rest) ∨
    (∃ top sts r rule t' st' s', c.states = top :: sts ∧ A.action top (la c.rest) = .reduce r ∧
        g.rules[r]? = some rule ∧ c.states.drop rule.rhs.length = t' :: st' ∧ A.goto t' rule.lhs = some s' ∧
        c'.states = s' :: t' :: st' ∧ c'.rest = c.rest) := by
  unfold step at h
  split at h
  · cases h
  · rename_i top sts hst
    split at h
    · rename_i s hact
      split at h
      · cases h
      · rename_i tok rest hr
        cases h
        exact Or.inl ⟨top, sts, tok, rest, s, hst, hr, hact, rfl, rfl⟩
    · rename_i r hact
      split at h
      · cases h
      · rename_i rule hrule
        simp only at h
        split at h
        · cases h
        · split at h
          · cases h
          · rename_i t' st' hdrop
            split at h
            · cases h
            · rename_i s' hgoto
              cases h
              exact Or.inr ⟨top, sts, r, rule, t', st', s', hst, hact, hrule, hdrop, hgoto, rfl, rfl⟩
    · split at h <;> cases h
    · cases h

def K (cc : Nat) (φ : Pot) : Nat := cc + pmax φ + 1

/-- the measure: strictly decreasing along every step -/
def psi (C : Cert) (cc : Nat) (φ : Pot) (c : Cfg Nat P) : Nat :=
  c.rest.length * K cc φ + cc * c.states.length + φ.get (col C (la c.rest)) (c.states.headD 0)

theorem redOK_use {C : Cert} {g : Grammar Nat Nat} {n cc : Nat} {φ : Pot} (h : redOK C g n cc φ = true)
    {a s r : Nat} {rule : Rule Nat Nat} {v s' : Nat} (ha : a < C.nT + 1) (hs : s < n)
    (hact : actCol C s a = .reduce r) (hrule : g.rules[r]? = some rule)
    (hv : v ∈ predk C n s rule.rhs.length) (hg : C.goto v rule.lhs = some s') :
    cc + φ.get a s' + 1 ≤ cc * rule.rhs.length + φ.get a s := by
  unfold redOK at h
  have h1 := List.all_eq_true.mp h a (List.mem_range.mpr ha)
  have h2 := List.all_eq_true.mp h1 s (List.mem_range.mpr hs)
  simp only [hact, hrule] at h2
  have h3 := List.all_eq_true.mp h2 v hv
  simp only [hg] at h3
  exact of_decide_eq_true h3

theorem step_decreases {C : Cert} {g : Grammar Nat Nat} {cc : Nat} {φ : Pot}
    (hh : haltsB C g cc φ = true) {c c' : Cfg Nat P} (hst : StackOK C C.actions.length c.states)
    (hs : step g (mkAuto C) c = .cont c') :
    StackOK C C.actions.length c'.states ∧ psi C cc φ c' + 1 ≤ psi C cc φ c := by
  unfold haltsB at hh
  obtain ⟨hrange, hred⟩ := Bool.and_eq_true_iff.mp hh
  unfold rangeOK at hrange
  obtain ⟨_, hsuccs⟩ := Bool.and_eq_true_iff.mp hrange
  have hlt : ∀ v w, v < C.actions.length → w ∈ succs C v → w < C.actions.length := fun v w hv hw =>
    of_decide_eq_true (List.all_eq_true.mp (List.all_eq_true.mp hsuccs v (List.mem_range.mpr hv)) w hw)
  rcases step_cases hs with ⟨top, sts, tok, rest, s, hstates, hrest, hact, hst', hrest'⟩ |
      ⟨top, sts, r, rule, t', st', s', hstates, hact, hrule, hdrop, hgoto, hst', hrest'⟩
  · -- shift
    have hact' : C.act top (la c.rest) = .shift s := hact
    have hmem := mem_succs_of_shift hact'
    rw [hstates] at hst
    have htop := hst.head_lt
    refine ⟨by rw [hst', hstates]; exact .push (hlt top s htop hmem) hmem hst, ?_⟩
    unfold psi
    rw [hst', hrest', hrest, hstates]
    simp only [List.length_cons, List.headD_cons]
    have b1 := get_le_pmax φ (col C (la rest)) s
    have e1 : (rest.length + 1) * K cc φ = rest.length * K cc φ + K cc φ := Nat.succ_mul _ _
    have e2 : cc * (sts.length + 1 + 1) = cc * (sts.length + 1) + cc := Nat.mul_succ _ _
    unfold K at e1 ⊢
    omega
  · -- reduce
    have hact' : C.act top (la c.rest) = .reduce r := hact
    have hne : C.act top (la c.rest) ≠ .err := by rw [hact']; exact fun e => by cases e
    obtain ⟨hcol, hcollt⟩ := act_eq hne
    rw [hcol] at hact'
    have hgoto' : C.goto t' rule.lhs = some s' := hgoto
    have hmem := mem_succs_of_goto hgoto'
    have htail := hst.tail _ _ _ hdrop
    have ht' := htail.head_lt
    rw [hstates] at hst hdrop
    have htop := hst.head_lt
    have hget : (top :: sts)[rule.rhs.length]? = some t' := by
      have := List.getElem?_drop (xs := top :: sts) (i := rule.rhs.length) (j := 0)
      rw [hdrop] at this
      simpa using this.symm
    have hv := hst.mem_predk _ _ hget
    have hineq := redOK_use hred hcollt htop hact' hrule hv hgoto'
    refine ⟨by rw [hst']; exact .push (hlt t' s' ht' hmem) hmem htail, ?_⟩
    unfold psi
    rw [hst', hrest', hstates]
    simp only [List.length_cons, List.headD_cons]
    have hlen : (top :: sts).length = rule.rhs.length + (st'.length + 1) := by
      have := congrArg List.length hdrop
      simp only [List.length_drop, List.length_cons] at this ⊢
      omega
    simp only [List.length_cons] at hlen
    rw [hlen]
    have e1 : cc * (rule.rhs.length + (st'.length + 1)) = cc * rule.rhs.length + cc * (st'.length + 1) :=
      Nat.mul_add _ _ _
    have e2 : cc * (st'.length + 1 + 1) = cc * (st'.length + 1) + cc := Nat.mul_succ _ _
    omega

theorem runCfg_halts {C : Cert} {g : Grammar Nat Nat} {cc : Nat} {φ : Pot} (hh : haltsB C g cc φ = true) :
    ∀ (fuel : Nat) (c : Cfg Nat P), StackOK C C.actions.length c.states → psi C cc φ c < fuel →
      ∃ r, runCfg g (mkAuto C) fuel c = some r := by
  intro fuel
  induction fuel with
  | zero => intro c _ h; omega
  | succ fuel ih =>
    intro c hst hlt
    unfold runCfg
    cases hs : step g (mkAuto C) c with
    | cont c' =>
      obtain ⟨hst', hdec⟩ := step_decreases hh hst hs
      exact ih c' hst' (by omega)
    | ok t => exact ⟨_, rfl⟩
    | err => exact ⟨_, rfl⟩
    | panic => exact ⟨_, rfl⟩

/-- **the driver stops on every input**, within `(|w| + 1) · (cc + max φ + 1)` steps -/
theorem run_halts {C : Cert} {g : Grammar Nat Nat} {cc : Nat} {φ : Pot} (hh : haltsB C g cc φ = true)
    (w : List (Tok Nat P)) :
    ∃ r, runCfg g (mkAuto C) ((w.length + 1) * K cc φ) ⟨[C.start], [], w⟩ = some r := by
  have hstart : C.start < C.actions.length := by
    unfold haltsB rangeOK at hh
    exact of_decide_eq_true (Bool.and_eq_true_iff.mp (Bool.and_eq_true_iff.mp hh).1).1
  refine runCfg_halts hh _ _ (.one hstart) ?_
  unfold psi
  simp only [List.length_cons, List.length_nil, List.headD_cons]
  have b1 := get_le_pmax φ (col C (la w)) C.start
  have e1 : (w.length + 1) * K cc φ = w.length * K cc φ + K cc φ := Nat.succ_mul _ _
  unfold K at e1 ⊢
  omega

/-! ### searching a potential (untrusted) -/

/-- one relaxation pass for one lookahead column: `φ s := max (φ s) (φ (goto v A) + cc + 1 - cc·|α|)` -/
def relaxRow (C : Cert) (g : Grammar Nat Nat) (n cc a : Nat) (row : List Nat) : List Nat :=
  (List.range n).map fun s =>
    let cur := row.getD s 0
    match actCol C s a with
    | .reduce r =>
      match g.rules[r]? with
      | none => cur
      | some rule =>
        (predk C n s rule.rhs.length).foldl (fun m v =>
          match C.goto v rule.lhs with
          | none => m
          | some s' => max m (row.getD s' 0 + cc + 1 - cc * rule.rhs.length)) cur
    | _ => cur

def relaxLoop (C : Cert) (g : Grammar Nat Nat) (n cc a : Nat) : Nat → List Nat → List Nat
  | 0, row => row
  | fuel + 1, row =>
    let row' := relaxRow C g n cc a row
    if row' == row then row else relaxLoop C g n cc a fuel row'

/-- weight of the stack height: larger than any simple path is long -/
def ccOf (C : Cert) : Nat := C.actions.length + 1

def findPot (C : Cert) (g : Grammar Nat Nat) : Pot :=
  let n := C.actions.length
  (List.range (C.nT + 1)).map fun a => relaxLoop C g n (ccOf C) a (n + 1) (List.replicate n 0)

/-- the executable certificate check: search, then check -/
def certified (C : Cert) (g : Grammar Nat Nat) : Bool := haltsB C g (ccOf C) (findPot C g)

/-- the number of steps after which the driver has stopped, given a certificate -/
def stepBound (C : Cert) (g : Grammar Nat Nat) (len : Nat) : Nat := (len + 1) * K (ccOf C) (findPot C g)

theorem certified_halts {C : Cert} {g : Grammar Nat Nat} (h : certified C g = true) (w : List (Tok Nat P)) :
    ∃ r, runCfg g (mkAuto C) (stepBound C g w.length) ⟨[C.start], [], w⟩ = some r :=
  run_halts h w

/-! ### a second, sharper certificate: framed simulation of the reduce runs

The potential above looks at the top state only and over-approximates what a reduction exposes, so it can fail on
automata in which one state is entered from several contexts.  The certificate below is exact on the known part of
the stack.  Take the top state `s` and the state `v` under it (the *floor*), and follow the reductions the table
prescribes under lookahead `a` on the two-element stack `[s, v]` alone: as long as a reduction pops less than the
known stack, what it exposes is known, and the simulation is the real run.  It ends when the action is not a
reduction, when a goto is missing, or when a reduction would pop the floor (the run *escapes*).  If every such
simulation — for every lookahead, every transition `v → s`, and every single state — ends within `F` steps, the
driver stops on every input: between two shifts, each escape exposes a state strictly below the previous floor. -/

def redRun (C : Cert) (g : Grammar Nat Nat) (a : Nat) : Nat → List Nat → Bool
  | 0, _ => false
  | f + 1, st =>
    match st with
    | [] => true
    | top :: _ =>
      match actCol C top a with
      | .reduce r =>
        match g.rules[r]? with
        | none => true
        | some rule =>
          match st.drop rule.rhs.length with
          | [] => true
          | t' :: st' =>
            match C.goto t' rule.lhs with
            | none => true
            | some s' => redRun C g a f (s' :: t' :: st')
      | _ => true

def framesOK (C : Cert) (g : Grammar Nat Nat) (n F : Nat) : Bool :=
  (List.range (C.nT + 1)).all fun a => (List.range n).all fun v =>
    redRun C g a F [v] && (succs C v).all fun s => redRun C g a F [s, v]

def haltsF (C : Cert) (g : Grammar Nat Nat) (F : Nat) : Bool :=
  rangeOK C C.actions.length && framesOK C g C.actions.length F

/-- the run from `c` ends -/
def Halts (g : Grammar Nat Nat) (C : Cert) (c : Cfg Nat P) : Prop :=
  ∃ fuel r, runCfg g (mkAuto C) fuel c = some r

theorem Halts.of_cont {g : Grammar Nat Nat} {C : Cert} {c c' : Cfg Nat P} (h : step g (mkAuto C) c = .cont c')
    (hc : Halts g C c') : Halts g C c := by
  obtain ⟨fuel, r, hr⟩ := hc
  exact ⟨fuel + 1, r, by simp only [runCfg, h]; exact hr⟩

theorem Halts.of_stop {g : Grammar Nat Nat} {C : Cert} {c : Cfg Nat P}
    (h : ∀ c', step g (mkAuto C) c ≠ .cont c') : Halts g C c := by
  cases hs : step g (mkAuto C) c with
  | cont c' => exact absurd hs (h c')
  | ok t => exact ⟨1, (.ok t, c), by simp [runCfg, hs]⟩
  | err => exact ⟨1, (.err, c), by simp [runCfg, hs]⟩
  | panic => exact ⟨1, (.panic, c), by simp [runCfg, hs]⟩

theorem stackOK_step {C : Cert} {g : Grammar Nat Nat}
    (hrange : rangeOK C C.actions.length = true) {c c' : Cfg Nat P} (hst : StackOK C C.actions.length c.states)
    (hs : step g (mkAuto C) c = .cont c') : StackOK C C.actions.length c'.states := by
  unfold rangeOK at hrange
  obtain ⟨_, hsuccs⟩ := Bool.and_eq_true_iff.mp hrange
  have hlt : ∀ v w, v < C.actions.length → w ∈ succs C v → w < C.actions.length := fun v w hv hw =>
    of_decide_eq_true (List.all_eq_true.mp (List.all_eq_true.mp hsuccs v (List.mem_range.mpr hv)) w hw)
  rcases step_cases hs with ⟨top, sts, tok, rest, s, hstates, hrest, hact, hst', hrest'⟩ |
      ⟨top, sts, r, rule, t', st', s', hstates, hact, hrule, hdrop, hgoto, hst', hrest'⟩
  · have hact' : C.act top (la c.rest) = .shift s := hact
    have hmem := mem_succs_of_shift hact'
    rw [hstates] at hst
    rw [hst', hstates]
    exact .push (hlt top s hst.head_lt hmem) hmem hst
  · have hgoto' : C.goto t' rule.lhs = some s' := hgoto
    have hmem := mem_succs_of_goto hgoto'
    have htail := hst.tail _ _ _ hdrop
    rw [hst']
    exact .push (hlt t' s' htail.head_lt hmem) hmem htail

/-- framing: the real run on `K ++ below` follows the simulation on `K` until it stops, shifts or escapes -/
theorem frame {C : Cert} {g : Grammar Nat Nat} (hrange : rangeOK C C.actions.length = true)
    (rest : List (Tok Nat P)) (below : List Nat)
    (Hshift : ∀ c' : Cfg Nat P, c'.rest.length < rest.length → StackOK C C.actions.length c'.states → Halts g C c')
    (Hesc : ∀ (j s' t' : Nat) (st' : List Nat) (nodes' : List (Tree Nat P)), below.drop j = t' :: st' →
      StackOK C C.actions.length (s' :: t' :: st') → Halts g C ⟨s' :: t' :: st', nodes', rest⟩) :
    ∀ (f : Nat) (K : List Nat) (nodes : List (Tree Nat P)),
      (col C (la rest) < C.nT + 1 → redRun C g (col C (la rest)) f K = true) →
      StackOK C C.actions.length (K ++ below) → Halts g C ⟨K ++ below, nodes, rest⟩ := by
  intro f
  induction f with
  | zero =>
    intro K nodes hcert hst
    -- no simulation fuel: the certificate can only hold vacuously (lookahead column out of range: every action is `err`)
    apply Halts.of_stop
    intro c' hs
    rcases step_cases hs with ⟨top, sts, tok, rest', s, hstates, hrest, hact, _, _⟩ |
        ⟨top, sts, r, rule, t', st', s', hstates, hact, _, _, _, _, _⟩
    · have hact' : C.act top (la rest) = .shift s := hact
      have hne : C.act top (la rest) ≠ .err := by rw [hact']; exact fun e => by cases e
      have := hcert (act_eq hne).2
      simp [redRun] at this
    · have hact' : C.act top (la rest) = .reduce r := hact
      have hne : C.act top (la rest) ≠ .err := by rw [hact']; exact fun e => by cases e
      have := hcert (act_eq hne).2
      simp [redRun] at this
  | succ f ih =>
    intro K nodes hcert hst
    cases hs : step g (mkAuto C) ⟨K ++ below, nodes, rest⟩ with
    | ok t => exact Halts.of_stop (fun c' h => by rw [hs] at h; cases h)
    | err => exact Halts.of_stop (fun c' h => by rw [hs] at h; cases h)
    | panic => exact Halts.of_stop (fun c' h => by rw [hs] at h; cases h)
    | cont c' =>
      have hst' := stackOK_step hrange (c := ⟨K ++ below, nodes, rest⟩) hst hs
      refine Halts.of_cont hs ?_
      rcases step_cases hs with ⟨top, sts, tok, rest', s, hstates, hrest, hact, hcs, hcr⟩ |
          ⟨top, sts, r, rule, t', st', s', hstates, hact, hrule, hdrop, hgoto, hcs, hcr⟩
      · -- shift: the rest gets shorter
        simp only at hrest hcr
        exact Hshift c' (by rw [hcr, hrest]; simp) hst'
      · -- reduce
        simp only at hstates hact hdrop hcr
        have hact' : C.act top (la rest) = .reduce r := hact
        have hne : C.act top (la rest) ≠ .err := by rw [hact']; exact fun e => by cases e
        obtain ⟨hcol, hcollt⟩ := act_eq hne
        rw [hcol] at hact'
        have hgoto' : C.goto t' rule.lhs = some s' := hgoto
        have hrun := hcert hcollt
        -- the known part starts with the same top
        cases K with
        | nil =>
          -- nothing known: the whole stack is `below`; treat as an escape at depth `|α|`
          simp only [List.nil_append] at hstates hdrop hst
          have hc' : c' = ⟨s' :: t' :: st', c'.nodes, rest⟩ := by
            cases c'; simp only at hcs hcr; subst hcs; subst hcr; rfl
          rw [hc']
          rw [hc'] at hst'
          exact Hesc rule.rhs.length s' t' st' _ hdrop hst'
        | cons k0 K' =>
          have htop : k0 = top := by
            simp only [List.cons_append] at hstates
            exact (List.cons.inj hstates).1
          subst htop
          simp only [redRun, hact', hrule] at hrun
          have hc' : c' = ⟨s' :: t' :: st', c'.nodes, rest⟩ := by
            cases c'; simp only at hcs hcr; subst hcs; subst hcr; rfl
          cases hK : (k0 :: K').drop rule.rhs.length with
          | nil =>
            -- escape: the reduction pops the whole known part
            have hlen : (k0 :: K').length ≤ rule.rhs.length := List.drop_eq_nil_iff.mp hK
            have hd : ((k0 :: K') ++ below).drop rule.rhs.length = below.drop (rule.rhs.length - (k0 :: K').length) := by
              rw [List.drop_append, List.drop_eq_nil_iff.mpr hlen, List.nil_append]
            rw [hd] at hdrop
            rw [hc']
            rw [hc'] at hst'
            exact Hesc _ s' t' st' _ hdrop hst'
          | cons t'' st'' =>
            have hlen : rule.rhs.length < (k0 :: K').length := by
              have : ¬ (k0 :: K').length ≤ rule.rhs.length := fun h => by
                rw [List.drop_eq_nil_iff.mpr h] at hK; cases hK
              omega
            have hd : ((k0 :: K') ++ below).drop rule.rhs.length = (t'' :: st'') ++ below := by
              rw [List.drop_append_of_le_length (Nat.le_of_lt hlen), hK]
            rw [hd] at hdrop
            simp only [List.cons_append] at hdrop
            obtain ⟨rfl, rfl⟩ := List.cons.inj hdrop
            rw [hK] at hrun
            simp only [hgoto'] at hrun
            rw [hc']
            rw [hc'] at hst'
            have := ih (s' :: t'' :: st'') c'.nodes (fun _ => hrun) (by simpa using hst')
            simpa using this

theorem framesOK_use {C : Cert} {g : Grammar Nat Nat} {n F : Nat} (h : framesOK C g n F = true) {a v : Nat}
    (ha : a < C.nT + 1) (hv : v < n) :
    redRun C g a F [v] = true ∧ ∀ s ∈ succs C v, redRun C g a F [s, v] = true := by
  unfold framesOK at h
  have h1 := List.all_eq_true.mp h a (List.mem_range.mpr ha)
  have h2 := List.all_eq_true.mp h1 v (List.mem_range.mpr hv)
  obtain ⟨h3, h4⟩ := Bool.and_eq_true_iff.mp h2
  exact ⟨h3, fun s hs => List.all_eq_true.mp h4 s hs⟩

/-- every configuration whose stack is a path of the automaton halts -/
theorem halts_all {C : Cert} {g : Grammar Nat Nat} {F : Nat} (hh : haltsF C g F = true) :
    ∀ (len : Nat) (rest : List (Tok Nat P)), rest.length = len →
    ∀ (h : Nat) (c : Cfg Nat P), c.rest = rest → c.states.length = h → StackOK C C.actions.length c.states →
      Halts g C c := by
  unfold haltsF at hh
  obtain ⟨hrange, hframes⟩ := Bool.and_eq_true_iff.mp hh
  intro len
  induction len using Nat.strongRecOn with
  | _ len ihlen =>
    intro rest hlen h
    induction h using Nat.strongRecOn with
    | _ h ihh =>
      intro c hrest hheight hst
      have Hshift : ∀ c' : Cfg Nat P, c'.rest.length < rest.length → StackOK C C.actions.length c'.states →
          Halts g C c' := fun c' hl hs' => ihlen c'.rest.length (by omega) c'.rest rfl _ c' rfl rfl hs'
      obtain ⟨states, nodes, rest0⟩ := c
      simp only at hrest hheight hst
      subst hrest
      cases hst with
      | @one s hs =>
        have := frame (g := g) hrange rest0 [] Hshift (fun j s' t' st' nodes' hd _ => by simp at hd)
          F [s] nodes (fun ha => (framesOK_use hframes ha hs).1) (by simpa using StackOK.one hs)
        simpa using this
      | @push w v below hw hl hrest' =>
        have hv := hrest'.head_lt
        have Hesc : ∀ (j s' t' : Nat) (st' : List Nat) (nodes' : List (Tree Nat P)), below.drop j = t' :: st' →
            StackOK C C.actions.length (s' :: t' :: st') → Halts g C ⟨s' :: t' :: st', nodes', rest0⟩ := by
          intro j s' t' st' nodes' hd hs'
          have hl2 : (t' :: st').length ≤ below.length := by
            rw [← hd, List.length_drop]; omega
          simp only [List.length_cons] at hl2 hheight
          exact ihh (st'.length + 1 + 1) (by omega) ⟨s' :: t' :: st', nodes', rest0⟩ rfl (by simp) hs'
        have := frame (g := g) hrange rest0 below Hshift Hesc F [w, v] nodes
          (fun ha => (framesOK_use hframes ha hv).2 w hl) (by simpa using StackOK.push hw hl hrest')
        simpa using this

/-- **the driver stops on every input** (second certificate) -/
theorem run_haltsF {C : Cert} {g : Grammar Nat Nat} {F : Nat} (hh : haltsF C g F = true) (w : List (Tok Nat P)) :
    ∃ fuel r, runCfg g (mkAuto C) fuel ⟨[C.start], [], w⟩ = some r := by
  have hstart : C.start < C.actions.length := by
    unfold haltsF rangeOK at hh
    exact of_decide_eq_true (Bool.and_eq_true_iff.mp (Bool.and_eq_true_iff.mp hh).1).1
  exact halts_all hh w.length w rfl 1 ⟨[C.start], [], w⟩ rfl rfl (.one hstart)

/-- simulation fuel: generous.  (A legitimate reduce run on a known stack builds the ε-derivations of nullable
symbols; it is short unless nullable nonterminals nest to exponential size — then the check fails although the
driver stops: the check is sufficient, not necessary.) -/
def simFuel (C : Cert) (g : Grammar Nat Nat) : Nat := 4 * (C.actions.length + g.rules.length) + 2000

/-- the executable check of the second certificate -/
def certifiedF (C : Cert) (g : Grammar Nat Nat) : Bool := haltsF C g (simFuel C g)

theorem certifiedF_halts {C : Cert} {g : Grammar Nat Nat} (h : certifiedF C g = true) (w : List (Tok Nat P)) :
    ∃ fuel r, runCfg g (mkAuto C) fuel ⟨[C.start], [], w⟩ = some r :=
  run_haltsF h w

end Halt
end KikiVerif
