/-! Generic LR theory prototype: completeness from local validity conditions -/
namespace KikiVerif.LR

inductive Sym (T N : Type) where
  | t (a : T)
  | n (b : N)
  deriving DecidableEq, Repr

structure Rule (T N : Type) where
  lhs : N
  rhs : List (Sym T N)
  deriving DecidableEq

structure Grammar (T N : Type) where
  rules : List (Rule T N)
  start : N

structure Tok (T P : Type) where
  kind : T
  payload : P

inductive Tree (T P : Type) where
  | leaf (tok : Tok T P)
  | node (rule : Nat) (children : List (Tree T P))

variable {T N P : Type}

mutual
def Tree.yield : Tree T P → List (Tok T P)
  | .leaf t => [t]
  | .node _ cs => yieldList cs
def yieldList : List (Tree T P) → List (Tok T P)
  | [] => []
  | c :: cs => c.yield ++ yieldList cs
end

mutual
def Tree.size : Tree T P → Nat
  | .leaf _ => 1
  | .node _ cs => 1 + sizeList cs
def sizeList : List (Tree T P) → Nat
  | [] => 0
  | c :: cs => c.size + sizeList cs
end

mutual
inductive WF (g : Grammar T N) : Tree T P → Sym T N → Prop
  | leaf (tok : Tok T P) : WF g (.leaf tok) (.t tok.kind)
  | node (r : Nat) (rule : Rule T N) (cs : List (Tree T P)) :
      g.rules[r]? = some rule → WFL g cs rule.rhs → WF g (.node r cs) (.n rule.lhs)
inductive WFL (g : Grammar T N) : List (Tree T P) → List (Sym T N) → Prop
  | nil : WFL g [] []
  | cons {c cs x xs} : WF g c x → WFL g cs xs → WFL g (c :: cs) (x :: xs)
end

abbrev La (T : Type) := Option T

def la (l : List (Tok T P)) : La T := l.head?.map (·.kind)

structure Item (T : Type) where
  rule : Option Nat
  dot : Nat
  la : La T
  deriving DecidableEq

def Grammar.rhsOf (g : Grammar T N) : Option Nat → Option (List (Sym T N))
  | none => some [.n g.start]
  | some i => g.rules[i]?.map (·.rhs)

inductive Action where
  | shift (s : Nat) | reduce (r : Nat) | accept | err
  deriving DecidableEq, Repr

structure Auto (T N : Type) where
  start : Nat
  items : Nat → Item T → Prop
  delta : Nat → Sym T N → Option Nat
  action : Nat → La T → Action
  goto : Nat → N → Option Nat
  first : List (Sym T N) → La T → La T → Prop

structure Cfg (T P : Type) where
  states : List Nat
  nodes : List (Tree T P)
  rest : List (Tok T P)

inductive StepRes (T P : Type) where
  | ok (t : Tree T P)
  | err
  | panic
  | cont (c : Cfg T P)

def step (g : Grammar T N) (A : Auto T N) (c : Cfg T P) : StepRes T P :=
  match c.states with
  | [] => .panic
  | top :: _ =>
    match A.action top (la c.rest) with
    | .shift s =>
      match c.rest with
      | [] => .panic
      | tok :: rest => .cont { states := s :: c.states, nodes := .leaf tok :: c.nodes, rest := rest }
    | .reduce r =>
      match g.rules[r]? with
      | none => .panic
      | some rule =>
        let k := rule.rhs.length
        if c.nodes.length < k ∨ c.states.length < k then .panic else
        match c.states.drop k with
        | [] => .panic
        | t' :: st' =>
          match A.goto t' rule.lhs with
          | none => .err
          | some s' => .cont { states := s' :: t' :: st', nodes := .node r (c.nodes.take k).reverse :: c.nodes.drop k, rest := c.rest }
    | .accept =>
      match c.nodes with
      | [] => .panic
      | t :: _ => .ok t
    | .err => .err

/-- the `loop { … }` of the emitted `parse`: iterate `step` until it does not continue; returns the
final step result together with the configuration it was taken in.  `none` = out of fuel. -/
def runCfg (g : Grammar T N) (A : Auto T N) : Nat → Cfg T P → Option (StepRes T P × Cfg T P)
  | 0, _ => none
  | fuel + 1, c =>
    match step g A c with
    | .cont c' => runCfg g A fuel c'
    | r => some (r, c)

inductive Steps (g : Grammar T N) (A : Auto T N) : Cfg T P → Cfg T P → Prop
  | refl (c) : Steps g A c c
  | head {c c1 c2} : step g A c = .cont c1 → Steps g A c1 c2 → Steps g A c c2

theorem Steps.trans {g : Grammar T N} {A : Auto T N} {a b c : Cfg T P}
    (h1 : Steps g A a b) (h2 : Steps g A b c) : Steps g A a c := by
  induction h1 with
  | refl => exact h2
  | head hs _ ih => exact .head hs (ih h2)

/-- completeness-side validity conditions -/
structure Complete (g : Grammar T N) (A : Auto T N) : Prop where
  start : A.items A.start ⟨none, 0, none⟩
  closure : ∀ s r d a rhs B j rule' b, A.items s ⟨r, d, a⟩ → g.rhsOf r = some rhs →
      rhs[d]? = some (.n B) → g.rules[j]? = some rule' → rule'.lhs = B →
      A.first (rhs.drop (d+1)) a b → A.items s ⟨some j, 0, b⟩
  trans : ∀ s r d a rhs X, A.items s ⟨r, d, a⟩ → g.rhsOf r = some rhs → rhs[d]? = some X →
      ∃ t, A.delta s X = some t ∧ A.items t ⟨r, d+1, a⟩
  shift : ∀ s r d a rhs c t, A.items s ⟨r, d, a⟩ → g.rhsOf r = some rhs → rhs[d]? = some (.t c) →
      A.delta s (.t c) = some t → A.action s (some c) = .shift t
  reduce : ∀ s j a rule, A.items s ⟨some j, rule.rhs.length, a⟩ → g.rules[j]? = some rule →
      A.action s a = .reduce j
  accept : ∀ s, A.items s ⟨none, 1, none⟩ → A.action s none = .accept
  goto : ∀ s B, A.goto s B = A.delta s (.n B)
  firstComplete : ∀ (ts : List (Tree T P)) β (rest : List (Tok T P)), WFL g ts β →
      A.first β (la rest) (la (yieldList ts ++ rest))

theorem wfl_length {g : Grammar T N} {cs : List (Tree T P)} {xs} (h : WFL g cs xs) :
    cs.length = xs.length := by
  induction cs generalizing xs with
  | nil => cases h; rfl
  | cons c cs ih => cases h with | cons h1 h2 => simp [ih h2]


theorem drop_eq_cons_get {α} {l : List α} {d : Nat} {x : α} {xs : List α} (h : l.drop d = x :: xs) :
    l[d]? = some x ∧ l.drop (d+1) = xs := by
  induction l generalizing d with
  | nil => simp at h
  | cons y ys ih =>
    cases d with
    | zero => simp at h; simp [h.1, h.2]
    | succ d => simp at h; simpa using ih h

theorem la_append_cons (tok : Tok T P) (l : List (Tok T P)) : la (tok :: l) = some tok.kind := rfl

/-- children loop, given the induction hypothesis for all trees of size ≤ n -/
theorem parse_children {g : Grammar T N} {A : Auto T N} (hc : Complete (P := P) g A) (n : Nat)
    (IH : ∀ (t : Tree T P), t.size ≤ n → ∀ r cs, t = .node r cs → ∀ rule, g.rules[r]? = some rule →
      WFL g cs rule.rhs → ∀ s ss nodes rest gs, A.items s ⟨some r, 0, la rest⟩ →
      A.delta s (.n rule.lhs) = some gs →
      Steps g A ⟨s :: ss, nodes, t.yield ++ rest⟩ ⟨gs :: s :: ss, t :: nodes, rest⟩) :
    ∀ (cs : List (Tree T P)) xs, WFL g cs xs → sizeList cs ≤ n →
    ∀ r rhs d, g.rhsOf r = some rhs → rhs.drop d = xs →
    ∀ top ss nodes rest, A.items top ⟨r, d, la rest⟩ →
    ∃ pushed top' tl, pushed.length = cs.length ∧ pushed ++ top :: ss = top' :: tl ∧
      A.items top' ⟨r, d + cs.length, la rest⟩ ∧
      Steps g A ⟨top :: ss, nodes, yieldList cs ++ rest⟩ ⟨pushed ++ top :: ss, cs.reverse ++ nodes, rest⟩ := by
  intro cs
  induction cs with
  | nil =>
    intro xs _ _ r rhs d _ _ top ss nodes rest hit
    exact ⟨[], top, ss, rfl, rfl, by simpa using hit, by simpa [yieldList] using Steps.refl _⟩
  | cons c cs ih =>
    intro xs hwf hsz r rhs d hrhs hdrop top ss nodes rest hit
    cases hwf with
    | @cons _ _ x xs' hc1 hcs =>
    have hsz' : c.size ≤ n ∧ sizeList cs ≤ n := by simp [sizeList] at hsz; omega
    obtain ⟨hget, hdrop'⟩ := drop_eq_cons_get hdrop
    -- the lookahead after this child
    have hfirst := hc.firstComplete cs xs' rest hcs
    -- one step (or sub-run) for child c, reaching a state containing the advanced item
    have hchild : ∃ t1, A.delta top x = some t1 ∧ A.items t1 ⟨r, d+1, la rest⟩ ∧
        Steps g A ⟨top :: ss, nodes, c.yield ++ (yieldList cs ++ rest)⟩
                  ⟨t1 :: top :: ss, c :: nodes, yieldList cs ++ rest⟩ := by
      obtain ⟨t1, hd, hi⟩ := hc.trans top r d (la rest) rhs x hit hrhs hget
      refine ⟨t1, hd, hi, ?_⟩
      cases hc1 with
      | leaf tok =>
        have hact := hc.shift top r d (la rest) rhs tok.kind t1 hit hrhs hget hd
        refine .head ?_ (.refl _)
        simp [step, Tree.yield, la, hact]
      | node r' rule' cs' hr' hwf' =>
        have hitem : A.items top ⟨some r', 0, la (yieldList cs ++ rest)⟩ :=
          hc.closure top r d (la rest) rhs rule'.lhs r' rule' _ hit hrhs hget hr' rfl (by rw [hdrop']; exact hfirst)
        exact IH _ hsz'.1 r' cs' rfl rule' hr' hwf' top ss nodes _ t1 hitem hd
    obtain ⟨t1, _, hi1, hsteps1⟩ := hchild
    obtain ⟨pushed, top', tl, hlen, hstk, hit', hsteps2⟩ :=
      ih xs' hcs hsz'.2 r rhs (d+1) hrhs hdrop' t1 (top :: ss) (c :: nodes) rest hi1
    refine ⟨pushed ++ [t1], top', tl, by simp [hlen], by simpa using hstk, ?_, ?_⟩
    · have : d + (c :: cs).length = d + 1 + cs.length := by simp; omega
      rw [this]; exact hit'
    · have e1 : yieldList (c :: cs) ++ rest = c.yield ++ (yieldList cs ++ rest) := by simp [yieldList]
      rw [e1]
      refine hsteps1.trans ?_
      simpa using hsteps2


theorem tree_size_pos (t : Tree T P) : 0 < t.size := by
  cases t <;> simp [Tree.size] <;> omega

theorem parse_tree {g : Grammar T N} {A : Auto T N} (hc : Complete (P := P) g A) :
    ∀ n (t : Tree T P), t.size ≤ n → ∀ r cs, t = .node r cs → ∀ rule, g.rules[r]? = some rule →
      WFL g cs rule.rhs → ∀ s ss nodes rest gs, A.items s ⟨some r, 0, la rest⟩ →
      A.delta s (.n rule.lhs) = some gs →
      Steps g A ⟨s :: ss, nodes, t.yield ++ rest⟩ ⟨gs :: s :: ss, t :: nodes, rest⟩ := by
  intro n
  induction n with
  | zero => intro t ht; have := tree_size_pos t; omega
  | succ n ih =>
    intro t ht r cs htc rule hr hwf s ss nodes rest gs hit hd
    subst htc
    have hsz : sizeList cs ≤ n := by simp [Tree.size] at ht; omega
    have hrhs : g.rhsOf (some r) = some rule.rhs := by simp [Grammar.rhsOf, hr]
    obtain ⟨pushed, top', tl, hlen, hstk, hit', hsteps⟩ :=
      parse_children hc n ih cs rule.rhs hwf hsz (some r) rule.rhs 0 hrhs (by simp) s ss nodes rest hit
    have hk : cs.length = rule.rhs.length := wfl_length hwf
    have hact : A.action top' (la rest) = .reduce r := by
      apply hc.reduce top' r (la rest) rule _ hr
      simpa [hk] using hit'
    simp only [Tree.yield]
    refine hsteps.trans (.head ?_ (.refl _))
    have hdrop : (pushed ++ s :: ss).drop rule.rhs.length = s :: ss := by
      rw [← hk, ← hlen]; simp
    have hgoto : A.goto s rule.lhs = some gs := by rw [hc.goto]; exact hd
    simp only [step, hstk, hact, hr]
    rw [← hstk]
    have hn1 : ¬ ((cs.reverse ++ nodes).length < rule.rhs.length ∨ (pushed ++ s :: ss).length < rule.rhs.length) := by
      simp [← hk, hlen]
    simp only [hn1, if_false, hdrop, hgoto]
    have : (cs.reverse ++ nodes).take rule.rhs.length = cs.reverse := by
      rw [← hk]; simp
    have h2 : (cs.reverse ++ nodes).drop rule.rhs.length = nodes := by
      rw [← hk]; simp
    simp [this, h2]

/-- sentence ⇒ accepted, with that very tree -/
theorem run_complete {g : Grammar T N} {A : Auto T N} (hc : Complete (P := P) g A)
    (t : Tree T P) (hwf : WF g t (.n g.start)) :
    ∃ c, Steps g A ⟨[A.start], [], t.yield⟩ c ∧ step g A c = .ok t := by
  generalize hX : Sym.n g.start = X at hwf
  cases hwf with
  | leaf tok => cases hX
  | node r rule cs hr hwfl =>
    have hstart : rule.lhs = g.start := by injection hX with h; exact h.symm
    obtain ⟨gs, hd, hi⟩ := hc.trans A.start none 0 none [.n g.start] (.n g.start) hc.start rfl rfl
    have hitem : A.items A.start ⟨some r, 0, la ([] : List (Tok T P))⟩ := by
      apply hc.closure A.start none 0 none [.n g.start] g.start r rule _ hc.start rfl rfl hr hstart
      have := hc.firstComplete ([] : List (Tree T P)) [] ([] : List (Tok T P)) .nil
      simpa [yieldList, la] using this
    have hsteps := parse_tree hc _ (.node r cs) (Nat.le_refl _) r cs rfl rule hr hwfl A.start [] [] [] gs hitem (by rw [hstart]; exact hd)
    refine ⟨_, by simpa using hsteps, ?_⟩
    have := hc.accept gs hi
    simp [step, la, this]

end KikiVerif.LR

