import KikiVerif.LR.Gen
/-! Viable prefixes from inductive core-soundness (for the C03 "no shift past a dead prefix" half) -/
namespace KikiVerif.LR
variable {T N : Type}

inductive Derives (g : Grammar T N) : List (Sym T N) → List (Sym T N) → Prop
  | refl (α) : Derives g α α
  | step {α pre post rule} : Derives g α (pre ++ .n rule.lhs :: post) → rule ∈ g.rules →
      Derives g α (pre ++ rule.rhs ++ post)

inductive CoreReach (g : Grammar T N) (K : Option Nat → Nat → Prop) : Option Nat → Nat → Prop
  | kernel {r d} : K r d → CoreReach g K r d
  | step {r d rhs j rule} : CoreReach g K r d → g.rhsOf r = some rhs → rhs[d]? = some (.n rule.lhs) →
      g.rules[j]? = some rule → CoreReach g K (some j) 0

structure CoreSound (g : Grammar T N) (A : Auto T N) : Prop where
  start : ∀ r d a, A.items A.start ⟨r, d, a⟩ → CoreReach g (fun r d => r = none ∧ d = 0) r d
  trans : ∀ s X t, A.delta s X = some t → ∀ r d a, A.items t ⟨r, d, a⟩ →
      CoreReach g (fun r d => ∃ d' a' rhs, d = d'+1 ∧ A.items s ⟨r, d', a'⟩ ∧ g.rhsOf r = some rhs ∧
        rhs[d']? = some X) r d

/-- state stack (top first) with the symbols spelled by it (bottom first) -/
inductive StkS (A : Auto T N) : List Nat → List (Sym T N) → Prop
  | base : StkS A [A.start] []
  | push {s ss γ X s'} : StkS A (s :: ss) γ → A.delta s X = some s' → StkS A (s' :: s :: ss) (γ ++ [X])

def Viable (g : Grammar T N) (γ : List (Sym T N)) (r : Option Nat) (d : Nat) : Prop :=
  ∃ δ ζ rhs, g.rhsOf r = some rhs ∧ γ = δ ++ rhs.take d ∧ Derives g [.n g.start] (δ ++ rhs ++ ζ)

theorem viable_closure {g : Grammar T N} {γ r d rhs j rule}
    (h : Viable g γ r d) (hr : g.rhsOf r = some rhs) (hget : rhs[d]? = some (.n rule.lhs))
    (hj : g.rules[j]? = some rule) : Viable g γ (some j) 0 := by
  obtain ⟨δ, ζ, rhs', hr', hγ, hder⟩ := h
  have : rhs' = rhs := by rw [hr] at hr'; injection hr' with h; exact h.symm
  subst this
  refine ⟨γ, rhs'.drop (d+1) ++ ζ, rule.rhs, by simp [Grammar.rhsOf, hj], by simp, ?_⟩
  have hsplit : rhs' = rhs'.take d ++ .n rule.lhs :: rhs'.drop (d+1) := by
    have hd : d < rhs'.length := (List.getElem?_eq_some_iff.mp hget).1
    have hx : rhs'[d] = .n rule.lhs := (List.getElem?_eq_some_iff.mp hget).2
    conv => lhs; rw [← List.take_append_drop d rhs']
    rw [List.drop_eq_getElem_cons hd, hx]
  have hmem : rule ∈ g.rules := List.mem_of_getElem? hj
  have h1 : Derives g [.n g.start] ((δ ++ rhs'.take d) ++ .n rule.lhs :: (rhs'.drop (d+1) ++ ζ)) := by
    have : (δ ++ rhs'.take d) ++ .n rule.lhs :: (rhs'.drop (d+1) ++ ζ) = δ ++ rhs' ++ ζ := by
      conv => rhs; rw [hsplit]
      simp
    rw [this]; exact hder
  have h2 := Derives.step h1 hmem
  rw [hγ]
  simpa using h2

theorem viable_of_coreReach {g : Grammar T N} {K γ} (hK : ∀ r d, K r d → Viable g γ r d) :
    ∀ r d, CoreReach g K r d → Viable g γ r d := by
  intro r d h
  induction h with
  | kernel hk => exact hK _ _ hk
  | step _ hr hget hj ih => exact viable_closure ih hr hget hj

theorem viable {g : Grammar T N} {A : Auto T N} (hcs : CoreSound g A) :
    ∀ ss γ, StkS A ss γ → ∀ top tl, ss = top :: tl → ∀ r d a, A.items top ⟨r, d, a⟩ → Viable g γ r d := by
  intro ss γ h
  induction h with
  | base =>
    intro top tl hss r d a hit
    cases hss
    refine viable_of_coreReach ?_ r d (hcs.start r d a hit)
    rintro r d ⟨rfl, rfl⟩
    exact ⟨[], [], [.n g.start], rfl, by simp, by simpa using Derives.refl _⟩
  | @push s ss γ X s' hstk hd ih =>
    intro top tl hss r d a hit
    cases hss
    refine viable_of_coreReach ?_ r d (hcs.trans s X _ hd r d a hit)
    rintro r d ⟨d', a', rhs, rfl, hit', hr, hget⟩
    obtain ⟨δ, ζ, rhs', hr', hγ, hder⟩ := ih s ss rfl _ d' a' hit'
    have : rhs' = rhs := by rw [hr] at hr'; injection hr' with h; exact h.symm
    subst this
    refine ⟨δ, ζ, rhs', hr, ?_, hder⟩
    rw [hγ, List.take_add_one, hget]; simp

end KikiVerif.LR
#print axioms KikiVerif.LR.viable
