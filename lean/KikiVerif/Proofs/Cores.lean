/-
Cores (`(rule, dot)` pairs): the set of cores of a closure is determined by the cores of its kernel —
lookaheads play no part.  This is what makes LALR merging stable: re-deriving a transition target after a
state has gained lookaheads finds the same state again.
-/
import KikiVerif.Proofs.Closure

set_option linter.unusedSimpArgs false
set_option linter.unusedVariables false

namespace KikiVerif
namespace Machine
open LR (Sym Rule Grammar)

abbrev Core := Nat × Nat

def coreOf (x : Item) : Core := (x.rule, x.dot)

/-- the two states have the same set of cores -/
def SameCores (A B : State) : Prop := ∀ p : Core, (∃ x ∈ A, coreOf x = p) ↔ (∃ x ∈ B, coreOf x = p)

theorem SameCores.refl (A : State) : SameCores A A := fun _ => Iff.rfl
theorem SameCores.symm {A B : State} (h : SameCores A B) : SameCores B A := fun p => (h p).symm
theorem SameCores.trans {A B C : State} (h1 : SameCores A B) (h2 : SameCores B C) : SameCores A C :=
  fun p => (h1 p).trans (h2 p)

theorem areCoresEqual_iff_same {a b : State} : areCoresEqual a b = true ↔ SameCores a b := by
  unfold areCoresEqual isCoreSubset
  simp only [Bool.and_eq_true, List.all_eq_true, List.any_eq_true, beq_iff_eq]
  constructor
  · rintro ⟨h1, h2⟩ p
    constructor
    · rintro ⟨x, hx, rfl⟩
      obtain ⟨y, hy, e1, e2⟩ := h1 x hx
      exact ⟨y, hy, by simp [coreOf, e1, e2]⟩
    · rintro ⟨x, hx, rfl⟩
      obtain ⟨y, hy, e1, e2⟩ := h2 x hx
      exact ⟨y, hy, by simp [coreOf, e1, e2]⟩
  · intro h
    constructor
    · intro x hx
      obtain ⟨y, hy, e⟩ := (h (coreOf x)).mp ⟨x, hx, rfl⟩
      simp only [coreOf, Prod.mk.injEq] at e
      exact ⟨y, hy, e.1.symm, e.2.symm⟩
    · intro x hx
      obtain ⟨y, hy, e⟩ := (h (coreOf x)).mpr ⟨x, hx, rfl⟩
      simp only [coreOf, Prod.mk.injEq] at e
      exact ⟨y, hy, e.1.symm, e.2.symm⟩

/-! ### implication at the level of cores -/

def someOf : Option FirstSet → Bool
  | some f => f.eps || !f.terminals.isEmpty
  | none => false

/-- does an item with this sequence after the nonterminal right of its dot imply anything at all?
(its lookahead list is empty only when the sequence is not nullable and has an empty FIRST set) -/
def impliesSome (fm : List FirstSet) (afterDot : List (Sym Nat Nat)) : Bool := someOf (firstOfSeq fm afterDot [])

def impliedCores (c : Ctx) (fm : List FirstSet) (p : Core) : List Core :=
  match (rhsOf c p.1)[p.2]? with
  | some (.n b) =>
    match impliesSome fm ((rhsOf c p.1).drop (p.2 + 1)) with
    | true => (ruleIndicesFor c b).map fun r => (r, 0)
    | false => []
  | _ => []

theorem ofList_ne_nil {l : List Nat} (h : l ≠ []) : ∃ x, x ∈ (Oset.ofList l).raw := by
  cases l with
  | nil => exact absurd rfl h
  | cons a _ => exact ⟨a, (Oset.mem_ofList _ a).mpr List.mem_cons_self⟩

theorem las_aux (la : Nat) : ∀ (o : Option FirstSet) (las : List Nat),
    (match o with
      | none => none
      | some f => if f.eps = true then some (Oset.ofList (f.terminals ++ [la])).raw else some (Oset.ofList f.terminals).raw)
      = some las → ((∃ a, a ∈ las) ↔ someOf o = true) := by
  intro o las h
  cases o with
  | none => cases h
  | some f =>
    simp only at h
    simp only [someOf]
    cases he : f.eps with
    | true =>
      rw [he] at h
      simp only [if_true] at h
      cases h
      simp only [Bool.true_or, iff_true]
      exact ⟨la, (Oset.mem_ofList _ _).mpr (by simp)⟩
    | false =>
      rw [he] at h
      simp only [Bool.false_eq_true, if_false] at h
      cases h
      simp only [Bool.false_or, Bool.not_eq_true', List.isEmpty_eq_false_iff]
      constructor
      · rintro ⟨a, ha⟩
        have := (Oset.mem_ofList _ a).mp ha
        intro e; rw [e] at this; cases this
      · exact ofList_ne_nil

theorem las_spec {fm : List FirstSet} {after : List (Sym Nat Nat)} {la : Nat} {las : List Nat}
    (h : augmentedFirst fm after la = some las) : (∃ a, a ∈ las) ↔ impliesSome fm after = true := by
  unfold augmentedFirst at h
  unfold impliesSome
  exact las_aux la _ las h

theorem implied_cores {c : Ctx} {fm : List FirstSet} {x : Item} {imp : List Item}
    (h : impliedItems c fm x = some imp) (q : Core) :
    (∃ y ∈ imp, coreOf y = q) ↔ q ∈ impliedCores c fm (coreOf x) := by
  unfold impliedItems symRightOfDot at h
  unfold impliedCores
  simp only [coreOf]
  split at h
  · rename_i b hs
    rw [hs]
    simp only
    split at h
    · cases h
    · rename_i las hlas
      cases h
      have hsp := las_spec hlas
      by_cases hsome : impliesSome fm (List.drop (x.dot + 1) (rhsOf c x.rule)) = true
      · rw [hsome]
        obtain ⟨la, hla⟩ := hsp.mpr hsome
        simp only [List.mem_flatMap, List.mem_map]
        constructor
        · rintro ⟨y, ⟨la', _, r, hr, rfl⟩, rfl⟩
          exact ⟨r, hr, rfl⟩
        · rintro ⟨r, hr, rfl⟩
          exact ⟨⟨r, la, 0⟩, ⟨la, hla, r, hr, rfl⟩, rfl⟩
      · have hfalse : impliesSome fm (List.drop (x.dot + 1) (rhsOf c x.rule)) = false := by simpa using hsome
        rw [hfalse]
        simp only [List.mem_flatMap, List.mem_map]
        constructor
        · rintro ⟨y, ⟨la', hla', _⟩, _⟩
          exact absurd (hsp.mp ⟨la', hla'⟩) hsome
        · intro hq; cases hq
  · rename_i hs
    cases h
    constructor
    · rintro ⟨y, hy, _⟩; cases hy
    · intro hq
      split at hq
      · rename_i b hb
        exact absurd hb (hs b)
      · cases hq

/-- cores generated from a set of kernel cores -/
inductive CReach (c : Ctx) (fm : List FirstSet) (KC : Core → Prop) : Core → Prop
  | kernel {p} : KC p → CReach c fm KC p
  | step {p q} : CReach c fm KC p → q ∈ impliedCores c fm p → CReach c fm KC q

theorem CReach.mono {c : Ctx} {fm : List FirstSet} {KC KC' : Core → Prop} (h : ∀ p, KC p → KC' p) {q : Core}
    (hq : CReach c fm KC q) : CReach c fm KC' q := by
  induction hq with
  | kernel hk => exact .kernel (h _ hk)
  | step _ hi ih => exact .step ih hi

/-- the cores of a closed, kernel-generated set are exactly the cores generated from the kernel's cores -/
theorem closure_cores {c : Ctx} {fm : List FirstSet} {K S : List Item}
    (hK : ∀ x ∈ K, x ∈ S) (hcl : Closed c fm S) (hr : ∀ y ∈ S, Reach c fm K y)
    (ht : ∀ x ∈ S, ∃ imp, impliedItems c fm x = some imp) (q : Core) :
    (∃ y ∈ S, coreOf y = q) ↔ CReach c fm (fun p => ∃ x ∈ K, coreOf x = p) q := by
  constructor
  · rintro ⟨y, hy, rfl⟩
    have := hr y hy
    clear hy
    induction this with
    | kernel hk => exact .kernel ⟨_, hk, rfl⟩
    | step _ himp hyi ih => exact .step ih ((implied_cores himp _).mp ⟨_, hyi, rfl⟩)
  · intro h
    induction h with
    | kernel hk =>
      obtain ⟨x, hx, rfl⟩ := hk
      exact ⟨x, hK x hx, rfl⟩
    | step _ hi ih =>
      obtain ⟨x, hx, rfl⟩ := ih
      obtain ⟨imp, himp⟩ := ht x hx
      obtain ⟨y, hy, e⟩ := (implied_cores himp _).mpr hi
      exact ⟨y, hcl x hx imp himp y hy, e⟩

/-! ### moving the dot, at the level of cores -/

theorem symRightOfDot_core {c : Ctx} {x y : Item} (h : coreOf x = coreOf y) : symRightOfDot c x = symRightOfDot c y := by
  simp only [coreOf, Prod.mk.injEq] at h
  unfold symRightOfDot
  rw [h.1, h.2]

end Machine
end KikiVerif
