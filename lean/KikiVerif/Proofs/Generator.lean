/-
`validated_ast_to_machine`, end to end: whenever it returns a machine, that machine satisfies `MachineOK` —
closed, well-formed states; kernel-backed, functional transitions; a transition (to a state holding the moved
items with their lookaheads) for every symbol right of a dot; the augmented item in the start state only.
-/
import KikiVerif.Proofs.Normalize

set_option linter.unusedSimpArgs false
set_option linter.unusedVariables false

namespace KikiVerif
namespace Machine
open LR (Sym Rule Grammar)

structure MachineOK (c : Ctx) (fm : List FirstSet) (m : Machine) : Prop where
  startLt : m.start < m.states.length
  good : ∀ s, s < m.states.length → Good c fm (m.states.getD s [])
  startItem : startItem c ∈ m.states.getD m.start []
  zero : ∀ y ∈ m.states.getD m.start [], y.dot = 0
  aug : ∀ s, s < m.states.length → s ≠ m.start → ∀ y ∈ m.states.getD s [], y.dot = 0 → y.rule < c.numRules
  trans : ∀ t ∈ m.transitions, t.frm < m.states.length ∧ t.to < m.states.length ∧ t.to ≠ m.start ∧
    KernelOK c (m.states.getD t.frm []) (m.states.getD t.to []) t.sym
  func : ∀ t1 ∈ m.transitions, ∀ t2 ∈ m.transitions, t1.frm = t2.frm → t1.sym = t2.sym → t1.to = t2.to
  done : ∀ s, s < m.states.length → ∀ x ∈ m.states.getD s [], ∀ X, symRightOfDot c x = some X →
    ∃ t', (⟨s, t', X⟩ : Transition) ∈ m.transitions ∧
      ∀ y ∈ transitionItems c (m.states.getD s []) X, y ∈ m.states.getD t' []
  hasKernel : ∀ t ∈ m.transitions, ∃ y ∈ m.states.getD t.to [], 1 ≤ y.dot
  tnodup : m.transitions.Nodup
  inhabited : ∀ s, s < m.states.length → ∃ y, y ∈ m.states.getD s []
  distinct : ∀ s1 s2, s1 < m.states.length → s2 < m.states.length →
    SameCores (m.states.getD s1 []) (m.states.getD s2 []) → s1 = s2
  just : ∀ s, s < m.states.length → ∀ y ∈ m.states.getD s [], Deriv c fm m.start m.transitions s y
  zcore : ∀ y ∈ m.states.getD m.start [], CReach c fm (fun p => p = (c.numRules, 0)) (coreOf y)
  tcore : ∀ t ∈ m.transitions, ∀ y ∈ m.states.getD t.to [],
    CReach c fm (fun p => ∃ x ∈ transitionItems c (m.states.getD t.frm []) t.sym, coreOf x = p) (coreOf y)

theorem deriv_transport {c : Ctx} {fm : List FirstSet} {b : Builder} {m : Machine} (iso : Iso b m) {i : Nat} {y : Item}
    (h : Deriv c fm 0 b.transitions i y) : Deriv c fm (renum b 0) m.transitions (renum b i) y := by
  induction h with
  | start => exact .start
  | closure _ himp hyi ih => exact .closure ih himp hyi
  | goto _ hsym htr ih => exact .goto ih hsym ((iso.trans _).mpr ⟨_, htr, rfl⟩)

theorem machineOK_of_builder {c : Ctx} {fm : List FirstSet} {b : Builder} {m : Machine}
    (inv : BInv c fm (fun _ _ => False) b) (hq : b.queue = [])
    (h : normalize b = some m) : MachineOK c fm m := by
  have hs := inv.hasStart
  have hdl : ∀ i j, i < b.states.length → j < b.states.length → b.states.getD i [] = b.states.getD j [] → i = j := by
    intro i j hi hj e
    exact inv.distinct i j hi hj (by rw [e]; exact SameCores.refl _)
  have iso := normalize_iso h inv.nonempty hdl
  refine
    { startLt := by rw [iso.start]; exact iso.lt 0 inv.nonempty
      good := ?_
      startItem := by rw [iso.start, iso.state 0 inv.nonempty]; exact hs
      zero := by rw [iso.start, iso.state 0 inv.nonempty]; exact inv.zero
      aug := ?_
      trans := ?_
      func := ?_
      done := ?_
      hasKernel := ?_
      tnodup := Oset.Sorted.nodup iso.tsorted
      inhabited := by
        intro s hs'
        obtain ⟨i, hi, rfl⟩ := iso.surj s hs'
        rw [iso.state i hi]
        exact inv.inhabited i hi
      distinct := by
        intro s1 s2 h1 h2 hsc
        obtain ⟨i1, hi1, rfl⟩ := iso.surj s1 h1
        obtain ⟨i2, hi2, rfl⟩ := iso.surj s2 h2
        rw [iso.state i1 hi1, iso.state i2 hi2] at hsc
        rw [inv.distinct i1 i2 hi1 hi2 hsc]
      just := by
        intro s hs' y hy
        obtain ⟨i, hi, rfl⟩ := iso.surj s hs'
        rw [iso.state i hi] at hy
        rw [iso.start]
        exact deriv_transport iso (inv.just i hi y hy)
      zcore := by rw [iso.start, iso.state 0 inv.nonempty]; exact inv.zcore
      tcore := ?_ }
  · intro s hs'
    obtain ⟨i, hi, rfl⟩ := iso.surj s hs'
    rw [iso.state i hi]; exact inv.good i hi
  · intro s hs' hne y hy hd
    obtain ⟨i, hi, rfl⟩ := iso.surj s hs'
    rw [iso.state i hi] at hy
    have hi0 : i ≠ 0 := by
      intro e; subst e; exact hne iso.start.symm
    exact inv.aug i hi hi0 y hy hd
  · intro t' ht'
    obtain ⟨t, ht, rfl⟩ := (iso.trans t').mp ht'
    have ok := inv.trans t ht
    simp only
    refine ⟨iso.lt _ ok.frm, iso.lt _ ok.to, ?_, ?_⟩
    · rw [iso.start]
      intro e
      exact ok.ne0 (iso.inj _ _ ok.to inv.nonempty e)
    · rw [iso.state _ ok.frm, iso.state _ ok.to]; exact ok.kernel
  · intro t1' h1 t2' h2 e1 e2
    obtain ⟨t1, ht1, rfl⟩ := (iso.trans t1').mp h1
    obtain ⟨t2, ht2, rfl⟩ := (iso.trans t2').mp h2
    simp only at e1 e2 ⊢
    have ok1 := inv.trans t1 ht1
    have ok2 := inv.trans t2 ht2
    have := iso.inj _ _ ok1.frm ok2.frm e1
    rw [inv.func t1 ht1 t2 ht2 this e2]
  · intro s hs' x hx X hX
    obtain ⟨i, hi, rfl⟩ := iso.surj s hs'
    rw [iso.state i hi] at hx ⊢
    have hnq : i ∉ b.queue := by rw [hq]; simp
    rcases inv.done i hi hnq X ⟨x, hx, hX⟩ with hf | ⟨j, hj, hsub⟩
    · exact absurd hf id
    · have ok := inv.trans _ hj
      refine ⟨renum b j, (iso.trans _).mpr ⟨_, hj, rfl⟩, ?_⟩
      rw [iso.state j ok.to]
      exact hsub
  · intro t' ht'
    obtain ⟨t, ht, rfl⟩ := (iso.trans t').mp ht'
    have ok := inv.trans t ht
    simp only
    rw [iso.state _ ok.to]
    exact ok.hasKernel
  · intro t' ht' y hy
    obtain ⟨t, ht, rfl⟩ := (iso.trans t').mp ht'
    have ok := inv.trans t ht
    simp only at hy ⊢
    rw [iso.state _ ok.to] at hy
    rw [iso.state _ ok.frm]
    exact (inv.tcore t ht (coreOf y)).mp ⟨y, hy, rfl⟩

/-- conversely, everything the propagation rules generate is in the machine -/
theorem deriv_mem {c : Ctx} {fm : List FirstSet} {m : Machine} (mok : MachineOK c fm m) {s : Nat} {y : Item}
    (h : Deriv c fm m.start m.transitions s y) : s < m.states.length ∧ y ∈ m.states.getD s [] := by
  induction h with
  | start => exact ⟨mok.startLt, mok.startItem⟩
  | closure _ himp hyi ih => exact ⟨ih.1, (mok.good _ ih.1).closed _ ih.2 _ himp _ hyi⟩
  | @goto s t x X _ hsym htr ih =>
    obtain ⟨t', htr', hsub⟩ := mok.done s ih.1 x ih.2 X hsym
    have hto : t' = t := mok.func _ htr' _ htr rfl rfl
    subst hto
    exact ⟨(mok.trans _ htr).2.1, hsub _ (mem_transitionItems.mpr ⟨x, ih.2, hsym, rfl⟩)⟩

/-- **the item sets of the generated machine, lookaheads included, are exactly what the LALR(1) propagation
rules generate** over the machine's own transition graph (least fixed point: start item, closure with
`FIRST(β a)` lookaheads, moving the dot along transitions — contributions of all predecessor states united) -/
theorem items_exact {c : Ctx} {fm : List FirstSet} {m : Machine} (mok : MachineOK c fm m) (s : Nat) (y : Item) :
    (s < m.states.length ∧ y ∈ m.states.getD s []) ↔ Deriv c fm m.start m.transitions s y :=
  ⟨fun h => mok.just s h.1 y h.2, deriv_mem mok⟩

/-- **the automaton builder, every grammar**: whenever `validated_ast_to_machine` returns a machine, it is a
well-formed LALR-style automaton in the sense of `MachineOK`, w.r.t. a FIRST table that is closed under the
FIRST equations -/
theorem machineOf_ok {c : Ctx} (hwf : CtxWF c) {fuel : Nat} {m : Machine} (h : machineOf c fuel = some (some m)) :
    ∃ fm, firstSets c fuel = some (some fm) ∧ MachineOK c fm m := by
  unfold machineOf at h
  split at h
  · cases h
  · cases h
  · rename_i fm hfm
    refine ⟨fm, hfm, ?_⟩
    have hfb := firstSets_bound hwf hfm
    split at h
    · cases h
    · cases h
    · rename_i start hstart
      obtain ⟨inv0, hs0⟩ := initial_inv hwf hfb hstart
      split at h
      · cases h
      · cases h
      · rename_i b hb
        obtain ⟨inv, hq⟩ := buildLoop_spec hwf hfb _ _ _ inv0 hb
        simp only [Option.some.injEq] at h
        exact machineOK_of_builder inv hq h

end Machine
end KikiVerif
