/-
The generated automaton *is* the LALR(1) automaton in the textbook sense: the canonical LR(1) collection
(`CanonState`: closure of the augmented initial item; closures of the moved items of a canonical state) merged
by core.  For every grammar (`CtxOK`):
  * every canonical LR(1) state is contained in exactly one state of the machine, which has the same cores;
  * every item of every machine state, lookahead included, lies in some canonical state with the same cores.
So a machine state's items are precisely the union of the canonical states sharing its core.
-/
import KikiVerif.Proofs.Generator
import KikiVerif.Proofs.NoPanic

set_option linter.unusedSimpArgs false
set_option linter.unusedVariables false

namespace KikiVerif
namespace Machine
open LR (Sym Rule Grammar)

/-! ### the canonical LR(1) collection -/

/-- closure of a set of LR(1) items -/
inductive PClos (c : Ctx) (fm : List FirstSet) (K : Item → Prop) : Item → Prop
  | base {x} : K x → PClos c fm K x
  | step {x y imp} : PClos c fm K x → impliedItems c fm x = some imp → y ∈ imp → PClos c fm K y

/-- the items of `I` with `X` right of the dot, dot moved -/
def Moved (c : Ctx) (I : Item → Prop) (X : Sym Nat Nat) : Item → Prop :=
  fun y => ∃ x, I x ∧ symRightOfDot c x = some X ∧ y = { x with dot := x.dot + 1 }

/-- the states of the canonical LR(1) automaton -/
inductive CanonState (c : Ctx) (fm : List FirstSet) : (Item → Prop) → Prop
  | init : CanonState c fm (PClos c fm (fun x => x = startItem c))
  | goto {I : Item → Prop} {X : Sym Nat Nat} : CanonState c fm I → (∃ x, I x ∧ symRightOfDot c x = some X) →
      CanonState c fm (PClos c fm (Moved c I X))

def coresP (I : Item → Prop) : Core → Prop := fun p => ∃ x, I x ∧ coreOf x = p

/-- same cores: a set of items and a machine state -/
def SameCoresPS (I : Item → Prop) (S : State) : Prop := ∀ p, coresP I p ↔ ∃ y ∈ S, coreOf y = p

/-! ### cores of closures of sets -/

theorem pclos_cores {c : Ctx} {fm : List FirstSet} {K : Item → Prop}
    (ht : ∀ x, ∃ imp, impliedItems c fm x = some imp) (q : Core) :
    coresP (PClos c fm K) q ↔ CReach c fm (coresP K) q := by
  constructor
  · rintro ⟨y, hy, rfl⟩
    induction hy with
    | base hk => exact .kernel ⟨_, hk, rfl⟩
    | step _ himp hyi ih => exact .step ih ((implied_cores himp _).mp ⟨_, hyi, rfl⟩)
  · intro h
    induction h with
    | kernel hk =>
      obtain ⟨x, hx, rfl⟩ := hk
      exact ⟨x, .base hx, rfl⟩
    | step _ hi ih =>
      obtain ⟨x, hx, rfl⟩ := ih
      obtain ⟨imp, himp⟩ := ht x
      obtain ⟨y, hy, e⟩ := (implied_cores himp _).mpr hi
      exact ⟨y, .step hx himp hy, e⟩

theorem moved_cores {c : Ctx} {I : Item → Prop} {S : State} (X : Sym Nat Nat) (h : SameCoresPS I S) (p : Core) :
    coresP (Moved c I X) p ↔ ∃ y ∈ transitionItems c S X, coreOf y = p := by
  constructor
  · rintro ⟨y, ⟨x, hx, hs, rfl⟩, rfl⟩
    obtain ⟨x2, hx2, e⟩ := (h (coreOf x)).mp ⟨x, hx, rfl⟩
    refine ⟨{ x2 with dot := x2.dot + 1 }, mem_transitionItems.mpr ⟨x2, hx2, ?_, rfl⟩, ?_⟩
    · rw [symRightOfDot_core e]; exact hs
    · simp only [coreOf, Prod.mk.injEq] at e ⊢
      exact ⟨e.1, by rw [e.2]⟩
  · rintro ⟨y, hy, rfl⟩
    obtain ⟨x, hx, hs, rfl⟩ := mem_transitionItems.mp hy
    obtain ⟨x2, hx2, e⟩ := (h (coreOf x)).mpr ⟨x, hx, rfl⟩
    refine ⟨{ x2 with dot := x2.dot + 1 }, ⟨x2, hx2, ?_, rfl⟩, ?_⟩
    · rw [symRightOfDot_core e]; exact hs
    · simp only [coreOf, Prod.mk.injEq] at e ⊢
      exact ⟨e.1, by rw [e.2]⟩

theorem creach_iff {c : Ctx} {fm : List FirstSet} {KC KC' : Core → Prop} (h : ∀ p, KC p ↔ KC' p) (q : Core) :
    CReach c fm KC q ↔ CReach c fm KC' q :=
  ⟨CReach.mono fun p => (h p).mp, CReach.mono fun p => (h p).mpr⟩

/-! ### machine states and their cores -/

variable {c : Ctx} {fm : List FirstSet} {m : Machine}

/-- the cores of a transition target are exactly those generated from the moved cores of the source -/
theorem target_cores (mok : MachineOK c fm m) {t : Transition} (ht : t ∈ m.transitions) (q : Core) :
    (∃ y ∈ m.states.getD t.to [], coreOf y = q) ↔
      CReach c fm (fun p => ∃ x ∈ transitionItems c (m.states.getD t.frm []) t.sym, coreOf x = p) q := by
  obtain ⟨hfrm, hto, _, hk⟩ := mok.trans t ht
  constructor
  · rintro ⟨y, hy, rfl⟩; exact mok.tcore t ht y hy
  · intro h
    have hgood := mok.good t.to hto
    -- the moved items are in the target
    have hsub : ∀ y ∈ transitionItems c (m.states.getD t.frm []) t.sym, y ∈ m.states.getD t.to [] := by
      intro y hy
      obtain ⟨x, hx, hs, rfl⟩ := mem_transitionItems.mp hy
      obtain ⟨t', htr', hsub'⟩ := mok.done t.frm hfrm x hx t.sym hs
      have : t' = t.to := mok.func _ htr' t ht rfl rfl
      subst this
      exact hsub' _ (mem_transitionItems.mpr ⟨x, hx, hs, rfl⟩)
    induction h with
    | kernel hk' =>
      obtain ⟨x, hx, rfl⟩ := hk'
      exact ⟨x, hsub x hx, rfl⟩
    | step _ hi ih =>
      obtain ⟨x, hx, rfl⟩ := ih
      obtain ⟨imp, himp⟩ := hgood.total x hx
      obtain ⟨y, hy, e⟩ := (implied_cores himp _).mpr hi
      exact ⟨y, hgood.closed x hx imp himp y hy, e⟩

/-- the cores of the start state are exactly those generated from the core of the augmented initial item -/
theorem start_cores (mok : MachineOK c fm m) (q : Core) :
    (∃ y ∈ m.states.getD m.start [], coreOf y = q) ↔ CReach c fm (fun p => p = (c.numRules, 0)) q := by
  constructor
  · rintro ⟨y, hy, rfl⟩; exact mok.zcore y hy
  · intro h
    have hgood := mok.good m.start mok.startLt
    induction h with
    | kernel hk' => subst hk'; exact ⟨startItem c, mok.startItem, rfl⟩
    | step _ hi ih =>
      obtain ⟨x, hx, rfl⟩ := ih
      obtain ⟨imp, himp⟩ := hgood.total x hx
      obtain ⟨y, hy, e⟩ := (implied_cores himp _).mpr hi
      exact ⟨y, hgood.closed x hx imp himp y hy, e⟩

/-! ### canonical states sit inside machine states -/

theorem canon_in_machine (ok : Assemble.CtxOK c) (hlen : fm.length = c.nN) (mok : MachineOK c fm m)
    {I : Item → Prop} (h : CanonState c fm I) :
    ∃ s, s < m.states.length ∧ SameCoresPS I (m.states.getD s []) ∧ ∀ y, I y → y ∈ m.states.getD s [] := by
  have htot : ∀ x, ∃ imp, impliedItems c fm x = some imp := NoPanic.impliedItems_some ok hlen
  induction h with
  | init =>
    have hgood := mok.good m.start mok.startLt
    refine ⟨m.start, mok.startLt, ?_, ?_⟩
    · intro p
      rw [pclos_cores htot p, start_cores mok p]
      apply creach_iff
      intro p'
      constructor
      · rintro ⟨x, rfl, rfl⟩; rfl
      · rintro rfl; exact ⟨startItem c, rfl, rfl⟩
    · intro y hy
      induction hy with
      | base hk => subst hk; exact mok.startItem
      | step _ himp hyi ih => exact hgood.closed _ ih _ himp _ hyi
  | @goto I X _ hX ih =>
    obtain ⟨s, hs, hsc, hsub⟩ := ih
    obtain ⟨x, hx, hsym⟩ := hX
    obtain ⟨t', htr, hmoved⟩ := mok.done s hs x (hsub x hx) X hsym
    have hto := (mok.trans _ htr).2.1
    have hgood := mok.good t' hto
    refine ⟨t', hto, ?_, ?_⟩
    · intro p
      rw [pclos_cores htot p, target_cores mok htr p]
      exact creach_iff (moved_cores X hsc) p
    · intro y hy
      induction hy with
      | base hk =>
        obtain ⟨x', hx', hs', rfl⟩ := hk
        exact hmoved _ (mem_transitionItems.mpr ⟨x', hsub x' hx', hs', rfl⟩)
      | step _ himp hyi ih' => exact hgood.closed _ ih' _ himp _ hyi

/-! ### machine items lie in canonical states -/

theorem machine_in_canon (ok : Assemble.CtxOK c) (hlen : fm.length = c.nN) (mok : MachineOK c fm m) {s : Nat} {y : Item}
    (h : Deriv c fm m.start m.transitions s y) :
    ∃ I, CanonState c fm I ∧ SameCoresPS I (m.states.getD s []) ∧ I y := by
  have htot : ∀ x, ∃ imp, impliedItems c fm x = some imp := NoPanic.impliedItems_some ok hlen
  induction h with
  | start =>
    obtain ⟨s', hs', hsc, hsub⟩ := canon_in_machine ok hlen mok (CanonState.init (c := c) (fm := fm))
    -- that state is the start state: same cores
    have hstart : s' = m.start := by
      apply mok.distinct s' m.start hs' mok.startLt
      intro p
      rw [← hsc p, pclos_cores htot p, start_cores mok p]
      apply creach_iff
      intro p'
      constructor
      · rintro ⟨x, rfl, rfl⟩; rfl
      · rintro rfl; exact ⟨startItem c, rfl, rfl⟩
    subst hstart
    exact ⟨_, .init, hsc, .base rfl⟩
  | closure _ himp hyi ih =>
    obtain ⟨I, hI, hsc, hx⟩ := ih
    -- canonical states are closures, hence closed
    have hclosed : ∀ {I : Item → Prop}, CanonState c fm I → ∀ x, I x → ∀ imp, impliedItems c fm x = some imp →
        ∀ y ∈ imp, I y := by
      intro I hI
      cases hI with
      | init => intro x hx imp himp y hy; exact .step hx himp hy
      | goto _ _ => intro x hx imp himp y hy; exact .step hx himp hy
    exact ⟨I, hI, hsc, hclosed hI _ hx _ himp _ hyi⟩
  | @goto s t x X hd hsym htr ih =>
    obtain ⟨I, hI, hsc, hx⟩ := ih
    have hI' : CanonState c fm (PClos c fm (Moved c I X)) := .goto hI ⟨x, hx, hsym⟩
    obtain ⟨t', ht', hsc', hsub'⟩ := canon_in_machine ok hlen mok hI'
    have hto := (mok.trans _ htr).2.1
    have : t' = t := by
      apply mok.distinct t' t ht' hto
      intro p
      rw [← hsc' p, pclos_cores htot p, target_cores mok htr p]
      exact creach_iff (moved_cores X hsc) p
    subst this
    exact ⟨_, hI', hsc', .base ⟨x, hx, hsym, rfl⟩⟩

/-- **the generated automaton is the canonical LR(1) collection merged by core** -/
theorem lalr_exact (ok : Assemble.CtxOK c) (hlen : fm.length = c.nN) (mok : MachineOK c fm m) :
    (∀ I, CanonState c fm I → ∃ s, s < m.states.length ∧ SameCoresPS I (m.states.getD s []) ∧
        ∀ y, I y → y ∈ m.states.getD s []) ∧
    (∀ s, s < m.states.length → ∀ y ∈ m.states.getD s [],
        ∃ I, CanonState c fm I ∧ SameCoresPS I (m.states.getD s []) ∧ I y) ∧
    (∀ s, s < m.states.length → ∃ I, CanonState c fm I ∧ SameCoresPS I (m.states.getD s [])) := by
  refine ⟨fun I hI => canon_in_machine ok hlen mok hI, ?_, ?_⟩
  · intro s hs y hy
    exact machine_in_canon ok hlen mok (mok.just s hs y hy)
  · intro s hs
    have := mok.inhabited s hs
    obtain ⟨y, hy⟩ := this
    obtain ⟨I, hI, hsc, _⟩ := machine_in_canon ok hlen mok (mok.just s hs y hy)
    exact ⟨I, hI, hsc⟩

end Machine
end KikiVerif
