/-
End to end: `generate` (the model `Generate.stages`, which mirrors `lib.rs::generate` stage by stage with every
`unwrap` / slice / index site explicit) never reaches a panic site, for every source text and every fuel.
-/
import KikiVerif.Proofs.EmitTotal
import KikiVerif.Proofs.ParseErr
import KikiVerif.Proofs.NoPanic
import KikiVerif.Properties.C09
import KikiVerif.Properties.C08
import KikiVerif.Model.Generate

set_option linter.unusedSimpArgs false
set_option linter.unusedVariables false

namespace KikiVerif
namespace Pipeline
open Spec EmitTotal

/-- the AST of a tokenized and parsed file has no `$` in its terminal names -/
theorem front_dollarFree (src : Str) (toks : List Token) (htok : Tokenize.tokenize src = .ok toks) (fuel : Nat)
    (cst : FrontParse.CTree) (hp : FrontParse.parse toks fuel = some (.ok cst)) (ast : Ast.File)
    (ha : FrontParse.cstToAst cst = some ast) : DollarFree ast := by
  obtain ⟨ast', h1, h2⟩ := C09.C09_flatten toks fuel cst hp
  rw [ha] at h1
  cases h1
  intro n hn
  rw [h2] at hn
  obtain ⟨tok, htokm, he⟩ := List.mem_map.mp hn
  cases tok with
  | termIdent n' p =>
    simp only [erase, Tk.termIdent.injEq] at he
    subst he
    obtain ⟨_, hpos⟩ := tokenize_positions src toks htok _ htokm
    exact Tokenize.removeDollars_identChars n' hpos.2
  | _ => simp only [erase] at he; cases he

/-- **`generate` never panics**: whatever the source text and the fuel, the pipeline never stops at a panic
site — tokenizer slices, front-end parser, parse-error slice, `cst_to_ast`, validation, symbol coding,
FIRST-map `unwrap`s, `index_map[i]`, `rules[i]`, `get_shift_dest(..).unwrap()`, "Impossible: goto conflict",
table index checks, `get_type(..).unwrap()`, method lookup, unique-identifier search -/
theorem stages_no_panic (src sha : Str) (fuel : Nat) (site : String) :
    (Generate.stages src sha fuel).stop ≠ .panic site := by
  unfold Generate.stages
  simp only [Id.run, bind, pure]
  -- tokenize
  rcases C08.C08_tokenize_total src with ⟨toks, htok⟩ | ⟨j, c, htok⟩
  case inr => rw [htok]; intro h; cases h
  rw [htok]
  simp only
  -- parse
  cases hp : FrontParse.parse toks fuel with
  | none => intro h; cases h
  | some out =>
    have hpc := C09.C09_parse_correct toks fuel out hp
    cases out with
    | panic => exact absurd hpc.1 (by simp)
    | unexpected idx =>
      simp only
      obtain ⟨e, he⟩ : ∃ e, FrontParse.unexpectedToErr src (idx.bind (toks[·]?)) = .ok e := by
        obtain ⟨h1, h2, h3⟩ := C09.C09_error_span src toks htok fuel idx hp
        cases hb : idx.bind (toks[·]?) with
        | none => exact ⟨_, h3⟩
        | some t => exact ⟨_, h2 t hb⟩
      rw [he]; intro h; cases h
    | ok cst =>
      simp only
      obtain ⟨ast, hast, _⟩ := C09.C09_flatten toks fuel cst hp
      rw [hast]
      simp only
      have hdf := front_dollarFree src toks htok fuel cst hp ast hast
      cases hv : Validate.validateAst ast with
      | err e => intro h; cases h
      | panic s => exact absurd hv (Validate.validate_no_panic ast s)
      | ok vf =>
        simp only
        obtain ⟨enc, henc⟩ := encode_total hv hdf
        rw [henc]
        simp only
        have ok := Encode.encode_ok henc
        cases hm : Machine.machineOf enc.ctx fuel with
        | none => intro h; cases h
        | some r =>
          cases r with
          | none => exact absurd hm (NoPanic.machineOf_no_panic ok fuel)
          | some m =>
            simp only
            obtain ⟨fm, _, mok⟩ := Machine.machineOf_ok ok.terms hm
            cases ht : Table.machineToTable enc.ctx m with
            | conflict s a b => intro h; cases h
            | panic s => exact absurd ht (NoPanic.machineToTable_no_panic ok mok s)
            | ok t =>
              simp only
              obtain ⟨md, hmd⟩ := moduleOf_total hv hdf enc t sha
              rw [hmd]
              intro h; cases h

end Pipeline
end KikiVerif
