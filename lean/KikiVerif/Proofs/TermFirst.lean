/-
Termination of `get_first_sets`: the fixpoint loop ends after at most `nN * (nT + 1)` changing passes —
every changing pass adds a terminal to some FIRST set or makes a nonterminal nullable, and there is room for
only `nN * (nT + 1)` such additions.  So the model's loop returns for every fuel above that bound.
-/
import KikiVerif.Proofs.NoPanic

set_option linter.unusedSimpArgs false
set_option linter.unusedVariables false

namespace KikiVerif
namespace Machine
open LR (Sym Rule Grammar)

/-! ### counting -/

/-- a duplicate-free list of numbers below `n` has at most `n` elements -/
theorem nodup_lt_length : ∀ (n : Nat) (l : List Nat), l.Nodup → (∀ x ∈ l, x < n) → l.length ≤ n := by
  intro n
  induction n with
  | zero =>
    intro l _ h
    cases l with
    | nil => simp
    | cons x _ => exact absurd (h x List.mem_cons_self) (Nat.not_lt_zero _)
  | succ n ih =>
    intro l hnd h
    by_cases hm : n ∈ l
    · have h1 := ih (l.erase n) (hnd.erase n) (by
        intro x hx
        have hxl := List.mem_of_mem_erase hx
        have hne : x ≠ n := fun e => by
          subst e
          exact (List.Nodup.mem_erase_iff hnd).mp hx |>.1 rfl
        have := h x hxl
        omega)
      rw [List.length_erase_of_mem hm] at h1
      omega
    · have := ih l hnd (by
        intro x hx
        have := h x hx
        have hne : x ≠ n := fun e => hm (e ▸ hx)
        omega)
      omega

/-- a duplicate-free list included in another duplicate-free list is not longer -/
theorem nodup_subset_length : ∀ (a b : List Nat), a.Nodup → a ⊆ b → a.length ≤ b.length := by
  intro a
  induction a with
  | nil => intro b _ _; simp
  | cons x a ih =>
    intro b hnd hsub
    rw [List.nodup_cons] at hnd
    have hx : x ∈ b := hsub List.mem_cons_self
    have := ih (b.erase x) hnd.2 (by
      intro y hy
      have hne : y ≠ x := fun e => hnd.1 (e ▸ hy)
      exact (List.mem_erase_of_ne hne).mpr (hsub (List.mem_cons_of_mem _ hy)))
    rw [List.length_erase_of_mem hx] at this
    have hpos : 0 < b.length := List.length_pos_of_mem hx
    simp; omega

/-! ### the measure -/

def entrySize (f : FirstSet) : Nat := f.terminals.length + (if f.eps then 1 else 0)

def mu (fm : List FirstSet) : Nat := (fm.map entrySize).sum

theorem sum_le_mul (l : List Nat) (k : Nat) (h : ∀ x ∈ l, x ≤ k) : l.sum ≤ l.length * k := by
  induction l with
  | nil => simp
  | cons x xs ih =>
    have h1 := h x List.mem_cons_self
    have h2 := ih (fun y hy => h y (List.mem_cons_of_mem _ hy))
    simp only [List.sum_cons, List.length_cons, Nat.succ_mul]
    omega

theorem mu_bound {nT : Nat} {fm : List FirstSet} (hs : FmSorted fm) (hb : FmBound nT fm) :
    mu fm ≤ fm.length * (nT + 1) := by
  unfold mu
  have := sum_le_mul (fm.map entrySize) (nT + 1) (by
    intro x hx
    obtain ⟨f, hf, rfl⟩ := List.mem_map.mp hx
    unfold entrySize
    have := nodup_lt_length nT f.terminals (Oset.Sorted.nodup (hs f hf)) (hb f hf)
    split <;> omega)
  simpa using this

theorem mu_set {fm : List FirstSet} {i : Nat} {old new : FirstSet} (h : fm[i]? = some old) :
    mu (fm.set i new) + entrySize old = mu fm + entrySize new := by
  unfold mu
  induction fm generalizing i with
  | nil => simp at h
  | cons f fs ih =>
    cases i with
    | zero =>
      simp only [List.getElem?_cons_zero, Option.some.injEq] at h
      subst h
      simp only [List.set_cons_zero, List.map_cons, List.sum_cons]
      omega
    | succ j =>
      simp only [List.getElem?_cons_succ] at h
      have := ih h
      simp only [List.set_cons_succ, List.map_cons, List.sum_cons]
      omega

/-! ### one rule, one pass -/

theorem expandRule_mu {fm fm' : List FirstSet} {r : Rule Nat Nat} {ch : Bool} (hs : FmSorted fm)
    (h : expandRule fm r = some (fm', ch)) : mu fm ≤ mu fm' ∧ (ch = true → mu fm < mu fm') := by
  unfold expandRule at h
  split at h
  · rename_i cur old hcur hold
    simp only [addAll] at h
    cases h
    have hold_sorted : Oset.Sorted old.terminals := hs old (List.mem_of_getElem? hold)
    have hext_sorted := Oset.extend_sorted (⟨old.terminals⟩ : Oset Nat) cur.terminals
    have hlen : old.terminals.length ≤ (Oset.extend ⟨old.terminals⟩ cur.terminals).raw.length :=
      nodup_subset_length _ _ (Oset.Sorted.nodup hold_sorted)
        (fun x hx => (Oset.mem_extend _ _ x).mpr (Or.inl hx))
    have hset := mu_set (new := ⟨(Oset.extend ⟨old.terminals⟩ cur.terminals).raw, old.eps || cur.eps⟩) hold
    simp only [entrySize] at hset
    constructor
    · cases ho : old.eps <;> cases hc : cur.eps <;> simp [ho, hc] at hset ⊢ <;> omega
    · intro hch
      simp only [Bool.or_eq_true, bne_iff_ne, ne_eq] at hch
      cases ho : old.eps <;> cases hc : cur.eps <;> simp [ho, hc] at hset hch ⊢ <;> omega
  · cases h

theorem expand_mu : ∀ (rules : List (Rule Nat Nat)) (fm fm' : List FirstSet) (ch ch' : Bool), FmSorted fm →
    expand rules fm ch = some (fm', ch') → mu fm ≤ mu fm' ∧ (ch' = true → ch = true ∨ mu fm < mu fm') := by
  intro rules
  induction rules with
  | nil =>
    intro fm fm' ch ch' _ h
    simp only [expand] at h
    cases h
    exact ⟨Nat.le_refl _, fun h => Or.inl h⟩
  | cons r rs ih =>
    intro fm fm' ch ch' hs h
    simp only [expand] at h
    split at h
    · cases h
    · rename_i fm1 ch1 h1
      obtain ⟨hs1, _, _⟩ := expandRule_spec hs h1
      obtain ⟨m1, m2⟩ := expandRule_mu hs h1
      obtain ⟨m3, m4⟩ := ih fm1 fm' (ch || ch1) ch' hs1 h
      refine ⟨Nat.le_trans m1 m3, fun hch => ?_⟩
      rcases m4 hch with h5 | h5
      · simp only [Bool.or_eq_true] at h5
        rcases h5 with h5 | h5
        · exact Or.inl h5
        · exact Or.inr (Nat.lt_of_lt_of_le (m2 h5) m3)
      · exact Or.inr (Nat.lt_of_le_of_lt m1 h5)

/-! ### the loop -/

theorem firstLoop_terminates {c : Ctx} (ok : Assemble.CtxOK c) :
    ∀ (k : Nat) (fm : List FirstSet), fm.length = c.nN → FmSorted fm → FmBound c.nT fm →
      c.nN * (c.nT + 1) - mu fm < k → firstLoop c.g.rules k fm ≠ none := by
  intro k
  induction k with
  | zero => intro fm _ _ _ h; omega
  | succ k ih =>
    intro fm hlen hs hb hk
    obtain ⟨⟨fm', ch⟩, he, hl'⟩ := NoPanic.expand_some (c := c) c.g.rules fm false hlen (NoPanic.rules_ok ok)
    simp only [firstLoop, he]
    split
    · rename_i hch
      obtain ⟨hs', _, _⟩ := expand_spec c.g.rules fm fm' false ch hs he
      have hb' := expand_bound c.g.rules fm fm' false ch hb ok.terms he
      obtain ⟨_, m2⟩ := expand_mu c.g.rules fm fm' false ch hs he
      have hlt : mu fm < mu fm' := by
        rcases m2 hch with h | h
        · cases h
        · exact h
      have hbound := mu_bound hs' hb'
      rw [hl'] at hbound
      exact ih fm' hl' hs' hb' (by omega)
    · intro h; cases h

/-- **`get_first_sets` terminates**: with any fuel above `nN * (nT + 1)` the model's loop returns -/
theorem firstSets_terminates {c : Ctx} (ok : Assemble.CtxOK c) (fuel : Nat) (h : c.nN * (c.nT + 1) < fuel) :
    firstSets c fuel ≠ none := by
  unfold firstSets
  apply firstLoop_terminates ok fuel _ (by simp [emptyFirst]) (emptyFirst_sorted _)
  · intro f hf a ha
    unfold emptyFirst at hf
    have := List.eq_of_mem_replicate hf
    subst this
    cases ha
  · omega

end Machine
end KikiVerif
