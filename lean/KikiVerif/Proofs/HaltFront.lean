/-
Termination of the front-end parse loop (`parser::parse`) on every token sequence: the potential of `LR/Halt`
is searched and checked, inside the kernel, for the tables the translator extracted from `parser.rs` on this run.
-/
import KikiVerif.LR.Halt
import KikiVerif.Model.FrontParse
import KikiVerif.Proofs.Run

set_option linter.unusedSimpArgs false
set_option linter.unusedVariables false

namespace KikiVerif
namespace HaltFront
open LR

/-- the reductions of `parser.rs` admit a potential: checked by evaluation in the kernel on the extracted tables -/
theorem front_certified : Halt.certified FrontParse.frontCert FrontParse.armG = true := by decide +kernel

/-- steps after which `parser::parse` has stopped on `len` tokens -/
def parseBound (len : Nat) : Nat := Halt.stepBound FrontParse.frontCert FrontParse.armG len

/-- **`parser::parse` stops on every token sequence**, sentence or not, within `parseBound` steps -/
theorem front_parse_halts (toks : List Token) (k : Nat) :
    ∃ out, FrontParse.parse toks (parseBound toks.length + k) = some out := by
  obtain ⟨r, hr⟩ := Halt.certified_halts front_certified (toks.map FrontParse.mkTok)
  rw [List.length_map] at hr
  have h2 := runCfg_mono _ _ _ hr k
  unfold FrontParse.parse
  have e : FrontParse.frontAuto.start = FrontParse.frontCert.start := rfl
  rw [e]
  unfold parseBound
  unfold FrontParse.frontAuto
  rw [h2]
  exact ⟨_, rfl⟩

/-- the bound is linear in the number of tokens -/
theorem parseBound_linear (len : Nat) :
    parseBound len = (len + 1) * Halt.K (Halt.ccOf FrontParse.frontCert) (Halt.findPot FrontParse.frontCert FrontParse.armG) := rfl

end HaltFront
end KikiVerif
