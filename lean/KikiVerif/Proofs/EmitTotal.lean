/-
After validation nothing can fail: `Encode.encode` succeeds (every symbol has a declaration of the right kind —
the FIRST-map `unwrap`s and table-column `expect`s are safe) and the text emitter's `unwrap`s succeed
(`get_type`, method lookup, the unique-identifier search terminates).  Hypothesis: terminal names contain no `$`
(`DollarFree`), which holds for every AST that comes from `tokenize` + `parse` + `cst_to_ast`
(the Rust type `DollarlessTerminalName` can only be built by `remove_dollars`).
-/
import KikiVerif.Proofs.Validate
import KikiVerif.Proofs.Truthful
import KikiVerif.Proofs.Encode
import KikiVerif.Model.Emit
import KikiVerif.Spec.Unparse
import KikiVerif.Proofs.TermClosure
import Std.Data.String.ToNat

set_option linter.unusedSimpArgs false
set_option linter.unusedVariables false

namespace KikiVerif
namespace EmitTotal
open Ast Text Spec Validate

/-! ### the shape of the validated file -/

def ntsOf (items : List Item) : List VFile.Nonterminal :=
  items.filterMap fun
    | .struct s => some (.struct s)
    | .enum e => some (.enum e)
    | _ => none

theorem validateNonterminals_shape (d : Defined) : ∀ (items : List Item) (nts : List VFile.Nonterminal),
    validateNonterminals d items = .ok nts → nts = ntsOf items := by
  intro items
  induction items with
  | nil => intro nts h; simp [validateNonterminals] at h; subst h; rfl
  | cons it items ih =>
    intro nts h
    cases it with
    | start i => simp only [validateNonterminals] at h; rw [ih nts h]; rfl
    | terminal t => simp only [validateNonterminals] at h; rw [ih nts h]; rfl
    | struct s =>
      simp only [validateNonterminals] at h
      obtain ⟨_, _, h2⟩ := bind_ok h
      obtain ⟨_, _, h4⟩ := bind_ok h2
      obtain ⟨r, h5, h6⟩ := bind_ok h4
      cases h6
      rw [ih r h5]; rfl
    | enum e =>
      simp only [validateNonterminals] at h
      obtain ⟨_, _, h2⟩ := bind_ok h
      obtain ⟨_, _, h4⟩ := bind_ok h2
      obtain ⟨_, _, h6⟩ := bind_ok h4
      obtain ⟨_, _, h8⟩ := bind_ok h6
      obtain ⟨r, h9, h10⟩ := bind_ok h8
      cases h10
      rw [ih r h9]; rfl

theorem terminalVariants_shape : ∀ (vs : List TermVariant) (r : List VFile.TermVariant),
    validateTerminalVariants vs = .ok r →
    r = vs.map fun v => ⟨Tokenize.removeDollars v.name.name, typeToString v.ty⟩ := by
  intro vs
  induction vs with
  | nil => intro r h; simp [validateTerminalVariants] at h; subst h; rfl
  | cons v vs ih =>
    intro r h
    simp only [validateTerminalVariants] at h
    obtain ⟨_, _, h2⟩ := bind_ok h
    obtain ⟨rest, h3, h4⟩ := bind_ok h2
    cases h4
    rw [ih rest h3]; rfl

/-- what `validate_ast` returns, in terms of the file -/
theorem validate_shape {f : File} {vf : VFile.File} (h : validateAst f = .ok vf) :
    ∃ t, terminals f = [t] ∧
      vf.tenum.variants = t.variants.map (fun v => ⟨Tokenize.removeDollars v.name.name, typeToString v.ty⟩) ∧
      vf.nonterminals = ntsOf f.items ∧
      (∃ i, starts f = [i] ∧ vf.start = i.name) := by
  unfold validateAst at h
  obtain ⟨te, h1, h2⟩ := bind_ok h
  obtain ⟨nts, h3, h4⟩ := bind_ok h2
  obtain ⟨start, h5, h6⟩ := bind_ok h4
  obtain ⟨_, _, h8⟩ := bind_ok h6
  cases h8
  unfold getTerminalEnum at h1
  obtain ⟨t, a1, a2⟩ := bind_ok h1
  obtain ⟨_, _, a4⟩ := bind_ok a2
  obtain ⟨vs, a5, a6⟩ := bind_ok a4
  cases a6
  unfold getNonterminals at h3
  obtain ⟨d, b1, b2⟩ := bind_ok h3
  obtain ⟨i, hi, _, hs⟩ := getStart_ok h5
  exact ⟨t, terminal_unique a1, terminalVariants_shape _ _ a5, validateNonterminals_shape d _ _ b2, i, hi, hs⟩

/-! ### names without `$` -/

/-- no terminal identifier of the file (declared or referenced) contains a `$` -/
def DollarFree (f : File) : Prop := ∀ n, Tk.termIdent n ∈ unFile f → Tokenize.removeDollars n = n

theorem mem_unFile_of_sym {f : File} {fs : Fieldset} {i : TermIdent} (hfs : fs ∈ fieldsets f) (hs : SymId.t i ∈ fs.syms) :
    Tk.termIdent i.name ∈ unFile f := by
  unfold fieldsets at hfs
  obtain ⟨it, hit, hfs'⟩ := List.mem_flatMap.mp hfs
  unfold unFile
  refine List.mem_flatMap.mpr ⟨it, hit, ?_⟩
  have key : ∀ fs : Fieldset, SymId.t i ∈ fs.syms → Tk.termIdent i.name ∈ unFieldset fs := by
    intro fs hs
    cases fs with
    | empty => simp [Fieldset.syms] at hs
    | named flds =>
      simp only [Fieldset.syms, List.mem_map] at hs
      obtain ⟨fld, hf, he⟩ := hs
      simp only [unFieldset, List.mem_append, List.mem_flatMap, List.mem_singleton]
      refine Or.inl (Or.inr ⟨fld, hf, ?_⟩)
      simp [unNamedField, he, unSym]
    | tuple flds =>
      simp only [Fieldset.syms, List.mem_map] at hs
      obtain ⟨fld, hf, he⟩ := hs
      simp only [unFieldset, List.mem_append, List.mem_flatMap, List.mem_singleton]
      refine Or.inl (Or.inr ⟨fld, hf, ?_⟩)
      cases fld with
      | used s => simp only [TupleField.sym] at he; subst he; simp [unTupleField, unSym]
      | skipped s => simp only [TupleField.sym] at he; subst he; simp [unTupleField, unSym]
  cases it with
  | start _ => simp at hfs'
  | terminal _ => simp at hfs'
  | struct s =>
    simp only [List.mem_singleton] at hfs'
    subst hfs'
    simp only [unItem, List.mem_append]
    exact Or.inr (key _ hs)
  | enum e =>
    simp only [List.mem_map] at hfs'
    obtain ⟨v, hv, rfl⟩ := hfs'
    simp only [unItem, List.mem_append, List.mem_flatMap]
    refine Or.inl (Or.inr ⟨v, hv, ?_⟩)
    simp only [unVariant, List.mem_append]
    exact Or.inr (key _ hs)

theorem mem_unFile_of_variant {f : File} {t : TermEnum} {v : TermVariant} (ht : Item.terminal t ∈ f.items)
    (hv : v ∈ t.variants) : Tk.termIdent v.name.name ∈ unFile f := by
  unfold unFile
  refine List.mem_flatMap.mpr ⟨_, ht, ?_⟩
  simp only [unItem, List.mem_append, List.mem_flatMap]
  refine Or.inl (Or.inr ⟨v, hv, ?_⟩)
  simp [unTermVariant]

/-! ### `Encode.encode` succeeds -/

theorem mapM_some_of_forall {α β : Type} (f : α → Option β) : ∀ (l : List α), (∀ x ∈ l, ∃ y, f x = some y) →
    ∃ r, l.mapM f = some r := by
  intro l
  induction l with
  | nil => intro _; exact ⟨[], rfl⟩
  | cons x xs ih =>
    intro h
    obtain ⟨y, hy⟩ := h x List.mem_cons_self
    obtain ⟨ys, hys⟩ := ih (fun z hz => h z (List.mem_cons_of_mem _ hz))
    exact ⟨y :: ys, by rw [List.mapM_cons, hy, hys]; rfl⟩

theorem idxOf_some {l : List Str} {a : Str} (h : a ∈ l) : ∃ i, (Encode.sortNames l).idxOf? a = some i := by
  have hm : a ∈ Encode.sortNames l := (Oset.mem_ofList l a).mpr h
  have := (List.isSome_idxOf? (l := Encode.sortNames l) (a := a)).mpr hm
  exact Option.isSome_iff_exists.mp this

theorem ntsOf_names (items : List Item) : (ntsOf items).map (·.name) = itemNtNames items := by
  induction items with
  | nil => rfl
  | cons it items ih =>
    cases it <;> simp [ntsOf, itemNtNames, List.filterMap_cons, VFile.Nonterminal.name] at ih ⊢ <;> exact ih

/-- every rule of the validated file comes from a declaration of the file -/
theorem rules_of {f : File} {r : VFile.Rule} (h : r ∈ (VFile.File.rules ⟨"".toList, ⟨[], [], []⟩, ntsOf f.items⟩)) :
    r.ctor.typeName ∈ nonterminalNames f ∧ r.fieldset ∈ fieldsets f := by
  unfold VFile.File.rules at h
  simp only [List.mem_flatMap] at h
  obtain ⟨n, hn, hr⟩ := h
  unfold ntsOf at hn
  rw [List.mem_filterMap] at hn
  obtain ⟨it, hit, he⟩ := hn
  cases it with
  | start _ => cases he
  | terminal _ => cases he
  | struct s =>
    simp only [Option.some.injEq] at he
    subst he
    simp only [List.mem_singleton] at hr
    subst hr
    exact ⟨List.mem_filterMap.mpr ⟨_, hit, rfl⟩, List.mem_flatMap.mpr ⟨_, hit, by simp⟩⟩
  | enum e =>
    simp only [Option.some.injEq] at he
    subst he
    simp only [List.mem_map] at hr
    obtain ⟨v, hv, rfl⟩ := hr
    exact ⟨List.mem_filterMap.mpr ⟨_, hit, rfl⟩, List.mem_flatMap.mpr ⟨_, hit, List.mem_map.mpr ⟨v, hv, rfl⟩⟩⟩

theorem rules_congr (a b : VFile.File) (h : a.nonterminals = b.nonterminals) : a.rules = b.rules := by
  unfold VFile.File.rules; rw [h]

/-- **`Encode.encode` is total on validated files** (no FIRST-map `unwrap`, no table-column `expect` can fail) -/
theorem encode_total {f : File} {vf : VFile.File} (hv : validateAst f = .ok vf) (hdf : DollarFree f) :
    ∃ enc, Encode.encode vf = some enc := by
  have wf := validate_ok_wellFormed hv
  obtain ⟨t, ht, hvars, hnts, i, hi, hstart⟩ := validate_shape hv
  have htm : termEnums f = [t] := ht
  have hterm : Item.terminal t ∈ f.items := Validate.mem_terminal htm
  -- names of the validated file
  have hnn : vf.nonterminals.map (·.name) = nonterminalNames f := by rw [hnts, ntsOf_names]; rfl
  have htn : vf.tenum.variants.map (·.name) = t.variants.map (·.name.name) := by
    rw [hvars, List.map_map]
    apply List.map_congr_left
    intro v hv'
    exact hdf _ (mem_unFile_of_variant hterm hv')
  have hrules : ∃ rules, vf.rules.mapM (Encode.codeRule (Encode.sortNames (vf.tenum.variants.map (·.name)))
      (Encode.sortNames (vf.nonterminals.map (·.name)))) = some rules := by
    apply mapM_some_of_forall
    intro r hr
    have hr' : r ∈ (VFile.File.rules ⟨"".toList, ⟨[], [], []⟩, ntsOf f.items⟩) := by
      rw [rules_congr _ vf (by rw [hnts])]; exact hr
    obtain ⟨hname, hfs⟩ := rules_of hr'
    obtain ⟨lhs, hl⟩ := idxOf_some (l := vf.nonterminals.map (·.name)) (a := r.ctor.typeName) (by rw [hnn]; exact hname)
    have hsyms : ∃ rhs, r.fieldset.syms.mapM (Encode.codeSym (Encode.sortNames (vf.tenum.variants.map (·.name)))
        (Encode.sortNames (vf.nonterminals.map (·.name)))) = some rhs := by
      apply mapM_some_of_forall
      intro sy hsy
      have := wf.refsDefined t htm r.fieldset hfs sy hsy
      cases sy with
      | n j =>
        simp only at this
        obtain ⟨k, hk⟩ := idxOf_some (l := vf.nonterminals.map (·.name)) (a := j.name) (by rw [hnn]; exact this)
        exact ⟨_, by simp only [Encode.codeSym, hk]; rfl⟩
      | t j =>
        simp only at this
        obtain ⟨k, hk⟩ := idxOf_some (l := vf.tenum.variants.map (·.name)) (a := j.name) (by rw [htn]; exact this)
        exact ⟨_, by simp only [Encode.codeSym, hk]; rfl⟩
    obtain ⟨rhs, hrhs⟩ := hsyms
    exact ⟨⟨lhs, rhs⟩, by simp only [Encode.codeRule, hl, hrhs]⟩
  obtain ⟨rules, hrules⟩ := hrules
  obtain ⟨st, hst⟩ := idxOf_some (l := vf.nonterminals.map (·.name)) (a := vf.start) (by
    rw [hnn, hstart]
    exact wf.startDefined i hi)
  obtain ⟨td, htd⟩ := mapM_some_of_forall (Encode.sortNames (vf.tenum.variants.map (·.name))).idxOf?
    (vf.tenum.variants.map (·.name)) (fun x hx => idxOf_some hx)
  obtain ⟨nd, hnd⟩ := mapM_some_of_forall (Encode.sortNames (vf.nonterminals.map (·.name))).idxOf?
    (vf.nonterminals.map (·.name)) (fun x hx => idxOf_some hx)
  cases he : Encode.encode vf with
  | some enc => exact ⟨enc, rfl⟩
  | none =>
    exfalso
    simp only [Encode.encode, hrules, hst, htd, hnd] at he
    cases he

/-! ### the unique-identifier search terminates -/

open Emit in
theorem natToStr_inj {a b : Nat} (h : natToStr a = natToStr b) : a = b := by
  unfold natToStr at h
  have h1 : toString a = toString b := String.toList_injective h
  exact Nat.repr_injective h1

open Emit in
theorem firstFree_none {pref : Str} {used : List Str} : ∀ (fuel i : Nat), firstFree pref used fuel i = none →
    ∀ k, k < fuel → pref ++ natToStr (i + k) ∈ used := by
  intro fuel
  induction fuel with
  | zero => intro i _ k hk; omega
  | succ n ih =>
    intro i h k hk
    simp only [firstFree] at h
    split at h
    · rename_i hc
      cases k with
      | zero => simpa using List.contains_iff_mem.mp hc
      | succ k =>
        have := ih (i + 1) h k (by omega)
        rw [show i + 1 + k = i + (k + 1) by omega] at this
        exact this
    · cases h

open Emit in
/-- `create_unique_identifier` always finds a name (pigeonhole: `used.len() + 1` distinct candidates cannot all be
in use) -/
theorem createUniqueIdentifier_some (pref : Str) (used : List Str) : ∃ r, createUniqueIdentifier pref used = some r := by
  unfold createUniqueIdentifier
  split
  · exact ⟨_, rfl⟩
  · cases hf : firstFree pref used (used.length + 1) 2 with
    | some n => exact ⟨_, rfl⟩
    | none =>
      exfalso
      have hall := firstFree_none (used.length + 1) 2 hf
      let cands := (List.range (used.length + 1)).map fun k => pref ++ natToStr (2 + k)
      have hnd : cands.Nodup := by
        have hr : (List.range (used.length + 1)).Pairwise (· ≠ ·) := List.nodup_range
        refine List.Pairwise.map _ ?_ hr
        intro a b hab e
        have := natToStr_inj (List.append_cancel_left e)
        omega
      have hsub : cands ⊆ used := by
        intro x hx
        obtain ⟨k, hk, rfl⟩ := List.mem_map.mp hx
        exact hall k (List.mem_range.mp hk)
      have := Machine.nodup_subset_length' cands used hnd hsub
      simp [cands] at this
      omega

open Emit in
theorem chooseNames_some (used0 : List Str) : ∃ n, chooseNames used0 = some n := by
  unfold chooseNames
  obtain ⟨⟨a1, u1⟩, h1⟩ := createUniqueIdentifier_some (L "Eof") used0
  obtain ⟨⟨a2, u2⟩, h2⟩ := createUniqueIdentifier_some (L "Quasiterminal") u1
  obtain ⟨⟨a3, u3⟩, h3⟩ := createUniqueIdentifier_some (L "QuasiterminalKind") u2
  obtain ⟨⟨a4, u4⟩, h4⟩ := createUniqueIdentifier_some (L "NonterminalKind") u3
  obtain ⟨⟨a5, u5⟩, h5⟩ := createUniqueIdentifier_some (L "State") u4
  obtain ⟨⟨a6, u6⟩, h6⟩ := createUniqueIdentifier_some (L "Node") u5
  obtain ⟨⟨a7, u7⟩, h7⟩ := createUniqueIdentifier_some (L "Action") u6
  obtain ⟨⟨a8, u8⟩, h8⟩ := createUniqueIdentifier_some (L "RuleKind") u7
  obtain ⟨⟨a9, u9⟩, h9⟩ := createUniqueIdentifier_some (L "reduce") u8
  obtain ⟨⟨a10, u10⟩, h10⟩ := createUniqueIdentifier_some (L "ACTION_TABLE") u9
  obtain ⟨⟨a11, u11⟩, h11⟩ := createUniqueIdentifier_some (L "GOTO_TABLE") u10
  obtain ⟨⟨a12, u12⟩, h12⟩ := createUniqueIdentifier_some (L "S") u11
  simp only [h1, h2, h3, h4, h5, h6, h7, h8, h9, h10, h11, h12, Option.bind_eq_bind, Option.bind_some, Option.pure_def]
  exact ⟨_, rfl⟩

/-! ### the emitter's lookups succeed -/

open Emit

/-- every terminal a fieldset mentions is a variant of the terminal enum -/
def TermsKnown (te : VFile.TermEnum) (fs : Fieldset) : Prop :=
  ∀ i, SymId.t i ∈ fs.syms → i.name ∈ te.variants.map (·.name)

theorem getType_some {te : VFile.TermEnum} {n : Str} (h : n ∈ te.variants.map (·.name)) : ∃ ty, te.getType n = some ty := by
  obtain ⟨v, hv, rfl⟩ := List.mem_map.mp h
  unfold VFile.TermEnum.getType
  cases hf : te.variants.find? (fun w => decide (w.name = v.name)) with
  | some w => exact ⟨_, rfl⟩
  | none =>
    have := List.find?_eq_none.mp hf v hv
    simp at this

theorem methodFor_some {te : VFile.TermEnum} {n : Str} (h : n ∈ te.variants.map (·.name)) :
    ∃ m, methodFor (methodNames te) n = some m := by
  obtain ⟨v, hv, rfl⟩ := List.mem_map.mp h
  unfold methodFor
  cases hf : (methodNames te).find? (fun w => decide (w.1 = v.name)) with
  | some w => exact ⟨_, rfl⟩
  | none =>
    exfalso
    obtain ⟨k, hk⟩ := List.getElem?_of_mem hv
    have hmem : (v.name, L "try_into_" ++ pascalToSnakeCase v.name ++ ['_'] ++ natToStr k, v.ty) ∈ methodNames te := by
      unfold methodNames
      refine List.mem_map.mpr ⟨(v, k), ?_, rfl⟩
      exact List.mk_mem_zipIdx_iff_getElem?.mpr hk
    have := List.find?_eq_none.mp hf _ hmem
    simp at this

theorem fieldType_some {te : VFile.TermEnum} {s : SymId}
    (h : ∀ i, s = .t i → i.name ∈ te.variants.map (·.name)) : ∃ ty, fieldType te s = some ty := by
  cases s with
  | n i => exact ⟨_, rfl⟩
  | t i => exact getType_some (h i rfl)

theorem namedFieldTypes_some (te : VFile.TermEnum) : ∀ (fs : List NamedField),
    (∀ f ∈ fs, ∀ i, f.sym = .t i → i.name ∈ te.variants.map (·.name)) → ∃ r, namedFieldTypes te fs = some r := by
  intro fs
  induction fs with
  | nil => intro _; exact ⟨[], rfl⟩
  | cons f fs ih =>
    intro h
    obtain ⟨rest, hrest⟩ := ih (fun g hg => h g (List.mem_cons_of_mem _ hg))
    simp only [namedFieldTypes]
    cases hn : f.name with
    | us p => exact ⟨rest, hrest⟩
    | id i =>
      obtain ⟨ty, hty⟩ := fieldType_some (h f List.mem_cons_self)
      simp only [hty, hrest, Option.bind_eq_bind, Option.bind_some, Option.pure_def]
      exact ⟨_, rfl⟩

theorem tupleFieldTypes_some (te : VFile.TermEnum) : ∀ (fs : List TupleField),
    (∀ f ∈ fs, ∀ i, f.sym = .t i → i.name ∈ te.variants.map (·.name)) → ∃ r, tupleFieldTypes te fs = some r := by
  intro fs
  induction fs with
  | nil => intro _; exact ⟨[], rfl⟩
  | cons f fs ih =>
    intro h
    obtain ⟨rest, hrest⟩ := ih (fun g hg => h g (List.mem_cons_of_mem _ hg))
    cases f with
    | skipped s => simp only [tupleFieldTypes]; exact ⟨rest, hrest⟩
    | used s =>
      obtain ⟨ty, hty⟩ := fieldType_some (s := s) (fun i e => h (.used s) List.mem_cons_self i e)
      simp only [tupleFieldTypes, hty, hrest, Option.bind_eq_bind, Option.bind_some, Option.pure_def]
      exact ⟨_, rfl⟩

theorem bodyOf_some {te : VFile.TermEnum} {fs : Fieldset} (h : TermsKnown te fs) : ∃ b, bodyOf te fs = some b := by
  cases fs with
  | empty => exact ⟨_, rfl⟩
  | named flds =>
    simp only [bodyOf]
    split
    · exact ⟨_, rfl⟩
    · obtain ⟨r, hr⟩ := namedFieldTypes_some te flds (by
        intro f hf i e
        exact h i (by simp only [Fieldset.syms, List.mem_map]; exact ⟨f, hf, e⟩))
      rw [hr]; exact ⟨_, rfl⟩
  | tuple flds =>
    simp only [bodyOf]
    split
    · exact ⟨_, rfl⟩
    · obtain ⟨r, hr⟩ := tupleFieldTypes_some te flds (by
        intro f hf i e
        exact h i (by simp only [Fieldset.syms, List.mem_map]; exact ⟨f, hf, e⟩))
      rw [hr]; exact ⟨_, rfl⟩

theorem typeDefOf_some {te : VFile.TermEnum} {n : VFile.Nonterminal}
    (h : match n with
      | .struct s => TermsKnown te s.fieldset
      | .enum e => ∀ v ∈ e.variants, TermsKnown te v.fieldset) : ∃ d, typeDefOf te n = some d := by
  cases n with
  | struct s =>
    obtain ⟨b, hb⟩ := bodyOf_some (te := te) (fs := s.fieldset) h
    simp only [typeDefOf, hb]; exact ⟨_, rfl⟩
  | enum e =>
    obtain ⟨vs, hvs⟩ := mapM_some_of_forall (fun v : Variant => (bodyOf te v.fieldset).map fun b => (v.name.name, b))
      e.variants (by
        intro v hv
        obtain ⟨b, hb⟩ := bodyOf_some (te := te) (fs := v.fieldset) (h v hv)
        exact ⟨_, by rw [hb]; rfl⟩)
    simp only [typeDefOf, hvs]; exact ⟨_, rfl⟩

theorem mapM_eq_none {α β : Type} (f : α → Option β) : ∀ (l : List α), l.mapM f = none → ∃ x ∈ l, f x = none := by
  intro l
  induction l with
  | nil => intro h; simp at h
  | cons x xs ih =>
    intro h
    cases hx : f x with
    | none => exact ⟨x, List.mem_cons_self, hx⟩
    | some y =>
      cases hxs : xs.mapM f with
      | none =>
        obtain ⟨z, hz, hf⟩ := ih hxs
        exact ⟨z, List.mem_cons_of_mem _ hz, hf⟩
      | some ys =>
        rw [List.mapM_cons, hx, hxs] at h
        cases h

theorem bind_none_some {α β : Type} {x : Option α} {g : α → β} (h : (x.bind fun a => some (g a)) = none) : x = none := by
  cases x with
  | none => rfl
  | some a => cases h

theorem reduceFnOf_some {te : VFile.TermEnum} {idx : Nat} {r : VFile.Rule} (h : TermsKnown te r.fieldset) :
    ∃ rf, reduceFnOf (methodNames te) idx r = some rf := by
  cases hres : reduceFnOf (methodNames te) idx r with
  | some rf => exact ⟨rf, rfl⟩
  | none =>
    exfalso
    unfold reduceFnOf at hres
    cases hfs : r.fieldset with
    | empty => rw [hfs] at hres; cases hres
    | named flds =>
      rw [hfs] at hres
      simp only [Option.bind_eq_bind, Option.pure_def] at hres
      have hnone := bind_none_some hres
      obtain ⟨x, hx, hxn⟩ := mapM_eq_none id _ hnone
      obtain ⟨⟨f, i⟩, hm, rfl⟩ := List.mem_map.mp hx
      have hf : f ∈ flds := List.fst_mem_of_mem_zipIdx hm
      simp only [id] at hxn
      cases hn : f.name with
      | us p => rw [hn] at hxn; cases hxn
      | id n =>
        rw [hn] at hxn
        cases hs : f.sym with
        | n ty => rw [hs] at hxn; cases hxn
        | t ty =>
          rw [hs] at hxn
          obtain ⟨m, hm'⟩ := methodFor_some (te := te) (n := ty.name) (h ty (by
            rw [hfs]; simp only [Fieldset.syms, List.mem_map]; exact ⟨f, hf, hs⟩))
          simp only [hm', Option.map_some] at hxn
          cases hxn
    | tuple flds =>
      rw [hfs] at hres
      simp only [Option.bind_eq_bind, Option.pure_def] at hres
      have hnone := bind_none_some hres
      obtain ⟨x, hx, hxn⟩ := mapM_eq_none id _ hnone
      obtain ⟨⟨f, i⟩, hm, rfl⟩ := List.mem_map.mp hx
      have hf : f ∈ flds := List.fst_mem_of_mem_zipIdx hm
      simp only [id] at hxn
      cases f with
      | skipped s => cases hxn
      | used s =>
        cases s with
        | n ty => cases hxn
        | t ty =>
          obtain ⟨m, hm'⟩ := methodFor_some (te := te) (n := ty.name) (h ty (by
            rw [hfs]; simp only [Fieldset.syms, List.mem_map]; exact ⟨_, hf, rfl⟩))
          simp only [hm', Option.map_some] at hxn
          cases hxn

/-- **the text emitter is total on validated files**: `get_type(..).unwrap()`, the method lookup and the
unique-identifier search all succeed -/
theorem moduleOf_total {f : File} {vf : VFile.File} (hv : validateAst f = .ok vf) (hdf : DollarFree f)
    (enc : Encode.Enc) (t : Table.Table) (sha : Str) : ∃ m, moduleOf vf enc t sha = some m := by
  have wf := validate_ok_wellFormed hv
  obtain ⟨tt, ht, hvars, hnts, i, hi, hstart⟩ := validate_shape hv
  have htm : termEnums f = [tt] := ht
  have hterm : Item.terminal tt ∈ f.items := Validate.mem_terminal htm
  have htn : vf.tenum.variants.map (·.name) = tt.variants.map (·.name.name) := by
    rw [hvars, List.map_map]
    apply List.map_congr_left
    intro v hv'
    exact hdf _ (mem_unFile_of_variant hterm hv')
  have known : ∀ fs ∈ fieldsets f, TermsKnown vf.tenum fs := by
    intro fs hfs j hj
    have := wf.refsDefined tt htm fs hfs _ hj
    simp only at this
    rw [htn]; exact this
  obtain ⟨names, hnames⟩ := chooseNames_some vf.definedIdentifiers
  obtain ⟨types, htypes⟩ := mapM_some_of_forall (typeDefOf vf.tenum) vf.nonterminals (by
    intro n hn
    apply typeDefOf_some
    rw [hnts] at hn
    unfold ntsOf at hn
    rw [List.mem_filterMap] at hn
    obtain ⟨it, hit, he⟩ := hn
    cases it with
    | start _ => cases he
    | terminal _ => cases he
    | struct s =>
      simp only [Option.some.injEq] at he; subst he
      exact known _ (List.mem_flatMap.mpr ⟨_, hit, by simp⟩)
    | enum e =>
      simp only [Option.some.injEq] at he; subst he
      intro v hv'
      exact known _ (List.mem_flatMap.mpr ⟨_, hit, List.mem_map.mpr ⟨v, hv', rfl⟩⟩))
  cases hm : moduleOf vf enc t sha with
  | some m => exact ⟨m, rfl⟩
  | none =>
    exfalso
    simp only [moduleOf, hnames, htypes, Option.bind_eq_bind, Option.bind_some, Option.pure_def] at hm
    have hnone := bind_none_some hm
    obtain ⟨x, hx, hxn⟩ := mapM_eq_none id _ hnone
    obtain ⟨⟨r, k⟩, hmem, rfl⟩ := List.mem_map.mp hx
    have hr : r ∈ vf.rules := List.fst_mem_of_mem_zipIdx hmem
    have hr' : r ∈ (VFile.File.rules ⟨"".toList, ⟨[], [], []⟩, ntsOf f.items⟩) := by
      rw [rules_congr _ vf (by rw [hnts])]; exact hr
    obtain ⟨rf, hrf⟩ := reduceFnOf_some (idx := k) (known _ (rules_of hr').2)
    simp only [id] at hxn
    rw [hrf] at hxn
    cases hxn

end EmitTotal
end KikiVerif
