/-
`unexpected_token_or_eof_to_kiki_err`: for a token of `tokenize src` it never panics (no `Token::start`
underflow, no bad slice) and the error carries the token's own text and span.
-/
import KikiVerif.Proofs.Positions
import KikiVerif.Model.FrontParse

set_option linter.unusedSimpArgs false
set_option linter.unusedVariables false

namespace KikiVerif
namespace FrontParse
open Text Spec

theorem tokenStart_eq {t : Token} (h : posOk t) : Token.start t = some (tokStart t) := by
  cases t <;> try rfl
  rename_i n dp
  simp only [Token.start, tokStart]
  have : 1 ≤ dp := h.1
  rw [if_neg (by omega)]

theorem contentLen_eq (t : Token) : Token.contentLen t = blen (tokText t) := by
  cases t <;> first | rfl | (simp only [Token.contentLen, tokText, blen_cons]; decide) | decide
  all_goals (simp only [Token.contentLen, tokText, blen_cons]; congr 1)

/-- **the parse error of an unexpected token is that token's text and span** -/
theorem unexpectedToErr_token (src : Str) (ts : List Token) (h : Tokenize.tokenize src = .ok ts) (t : Token)
    (ht : t ∈ ts) :
    unexpectedToErr src (some t) = .ok (.parse (tokStart t) (tokText t) (tokStart t + blen (tokText t))) := by
  obtain ⟨hslice, hpos⟩ := tokenize_positions src ts h t ht
  unfold unexpectedToErr
  simp only [tokenStart_eq hpos, contentLen_eq, hslice]

end FrontParse
end KikiVerif
