/-
Order-independence at the places where the Rust code iterates over a hash collection (C14).
-/
import KikiVerif.Model.Table
import KikiVerif.Model.Emit

set_option linter.unusedSimpArgs false
set_option linter.unusedVariables false

namespace KikiVerif
namespace Table
open LR (Action)

/-! ### `build_as_is`: cells are written by key -/

/-- a write fails or succeeds depending on the key only, and never changes the table's shape -/
theorem writeAction_shape {t t' : Table} {s c : Nat} {a : Action} (h : writeAction t s c a = some t') :
    t'.nT = t.nT ∧ t'.nN = t.nN ∧ t'.nStates = t.nStates ∧ t'.start = t.start ∧
    t'.actions.length = t.actions.length ∧ t'.gotos = t.gotos ∧
    t'.actions = t.actions.set (s * (t.nT + 1) + c) a := by
  unfold writeAction at h
  split at h
  · unfold setChecked at h
    split at h
    · simp at h; subst h; simp
    · simp at h
  · cases h

theorem writeAction_isSome (t : Table) (s c : Nat) (a : Action) :
    (writeAction t s c a).isSome = (decide (c ≤ t.nT ∧ s < t.nStates) && decide (s * (t.nT + 1) + c < t.actions.length)) := by
  unfold writeAction setChecked
  by_cases h1 : c ≤ t.nT ∧ s < t.nStates
  · by_cases h2 : s * (t.nT + 1) + c < t.actions.length
    · simp [h1, h2]
    · simp [h1, h2]
  · simp [h1]

theorem index_inj {w s1 c1 s2 c2 : Nat} (h1 : c1 < w) (h2 : c2 < w) (h : s1 * w + c1 = s2 * w + c2) :
    s1 = s2 ∧ c1 = c2 := by
  have e1 : (s1 * w + c1) / w = s1 := by
    rw [Nat.mul_comm, Nat.mul_add_div (by omega)]; simp [Nat.div_eq_of_lt h1]
  have e2 : (s2 * w + c2) / w = s2 := by
    rw [Nat.mul_comm, Nat.mul_add_div (by omega)]; simp [Nat.div_eq_of_lt h2]
  have hs : s1 = s2 := by rw [← e1, ← e2, h]
  subst hs
  exact ⟨rfl, by omega⟩

/-- two writes with different keys commute -/
theorem writeAction_comm (t : Table) (s1 c1 s2 c2 : Nat) (a1 a2 : Action) (hk : (s1, c1) ≠ (s2, c2)) :
    (writeAction t s1 c1 a1).bind (fun t' => writeAction t' s2 c2 a2) =
    (writeAction t s2 c2 a2).bind (fun t' => writeAction t' s1 c1 a1) := by
  cases h1 : writeAction t s1 c1 a1 with
  | none =>
    simp only [Option.bind_none]
    cases h2 : writeAction t s2 c2 a2 with
    | none => rfl
    | some t2 =>
      simp only [Option.bind_some]
      obtain ⟨e1, _, e3, _, e5, _, _⟩ := writeAction_shape h2
      have := writeAction_isSome t2 s1 c1 a1
      rw [e1, e3, e5, ← writeAction_isSome t s1 c1 a1, h1] at this
      cases h3 : writeAction t2 s1 c1 a1 with
      | none => rfl
      | some _ => rw [h3] at this; simp at this
  | some t1 =>
    simp only [Option.bind_some]
    obtain ⟨e1, e2, e3, e4, e5, e6, e7⟩ := writeAction_shape h1
    cases h2 : writeAction t s2 c2 a2 with
    | none =>
      simp only [Option.bind_none]
      have := writeAction_isSome t1 s2 c2 a2
      rw [e1, e3, e5, ← writeAction_isSome t s2 c2 a2, h2] at this
      cases h3 : writeAction t1 s2 c2 a2 with
      | none => rfl
      | some _ => rw [h3] at this; simp at this
    | some t2 =>
      simp only [Option.bind_some]
      obtain ⟨f1, f2, f3, f4, f5, f6, f7⟩ := writeAction_shape h2
      -- both second writes succeed
      have s12 : (writeAction t1 s2 c2 a2).isSome = true := by
        rw [writeAction_isSome, e1, e3, e5, ← writeAction_isSome t s2 c2 a2, h2]; rfl
      have s21 : (writeAction t2 s1 c1 a1).isSome = true := by
        rw [writeAction_isSome, f1, f3, f5, ← writeAction_isSome t s1 c1 a1, h1]; rfl
      cases h12 : writeAction t1 s2 c2 a2 with
      | none => rw [h12] at s12; simp at s12
      | some u1 =>
        cases h21 : writeAction t2 s1 c1 a1 with
        | none => rw [h21] at s21; simp at s21
        | some u2 =>
          obtain ⟨g1, g2, g3, g4, g5, g6, g7⟩ := writeAction_shape h12
          obtain ⟨k1, k2, k3, k4, k5, k6, k7⟩ := writeAction_shape h21
          -- the keys are in range, so the flat indices differ
          have r1 : c1 ≤ t.nT := by
            have := writeAction_isSome t s1 c1 a1; rw [h1] at this; simp at this; exact this.1.1
          have r2 : c2 ≤ t.nT := by
            have := writeAction_isSome t s2 c2 a2; rw [h2] at this; simp at this; exact this.1.1
          have hidx : s1 * (t.nT + 1) + c1 ≠ s2 * (t.nT + 1) + c2 := by
            intro e
            obtain ⟨a, b⟩ := index_inj (w := t.nT + 1) (by omega) (by omega) e
            exact hk (by rw [a, b])
          congr 1
          cases u1; cases u2
          simp only [Table.mk.injEq] at *
          refine ⟨by rw [g4, k4, e4, f4], by rw [g1, k1, e1, f1], by rw [g2, k2, e2, f2], by rw [g3, k3, e3, f3], ?_,
            by rw [g6, k6, e6, f6]⟩
          rw [g7, k7, e7, f7, e1, f1]
          exact List.set_comm _ _ hidx

theorem writeGoto_shape {t t' : Table} {s c g : Nat} (h : writeGoto t s c g = some t') :
    t'.nT = t.nT ∧ t'.nN = t.nN ∧ t'.nStates = t.nStates ∧ t'.start = t.start ∧
    t'.gotos.length = t.gotos.length ∧ t'.actions = t.actions ∧
    t'.gotos = t.gotos.set (s * t.nN + c) (some g) := by
  unfold writeGoto at h
  split at h
  · unfold setChecked at h
    split at h
    · simp at h; subst h; simp
    · simp at h
  · cases h

theorem writeGoto_isSome (t : Table) (s c g : Nat) :
    (writeGoto t s c g).isSome = (decide (c < t.nN ∧ s < t.nStates) && decide (s * t.nN + c < t.gotos.length)) := by
  unfold writeGoto setChecked
  by_cases h1 : c < t.nN ∧ s < t.nStates
  · by_cases h2 : s * t.nN + c < t.gotos.length
    · simp [h1, h2]
    · simp [h1, h2]
  · simp [h1]

theorem writeGoto_comm (t : Table) (s1 c1 s2 c2 g1 g2 : Nat) (hk : (s1, c1) ≠ (s2, c2)) :
    (writeGoto t s1 c1 g1).bind (fun t' => writeGoto t' s2 c2 g2) =
    (writeGoto t s2 c2 g2).bind (fun t' => writeGoto t' s1 c1 g1) := by
  cases h1 : writeGoto t s1 c1 g1 with
  | none =>
    simp only [Option.bind_none]
    cases h2 : writeGoto t s2 c2 g2 with
    | none => rfl
    | some t2 =>
      simp only [Option.bind_some]
      obtain ⟨_, e2, e3, _, e5, _, _⟩ := writeGoto_shape h2
      have := writeGoto_isSome t2 s1 c1 g1
      rw [e2, e3, e5, ← writeGoto_isSome t s1 c1 g1, h1] at this
      cases h3 : writeGoto t2 s1 c1 g1 with
      | none => rfl
      | some _ => rw [h3] at this; simp at this
  | some t1 =>
    simp only [Option.bind_some]
    obtain ⟨e1, e2, e3, e4, e5, e6, e7⟩ := writeGoto_shape h1
    cases h2 : writeGoto t s2 c2 g2 with
    | none =>
      simp only [Option.bind_none]
      have := writeGoto_isSome t1 s2 c2 g2
      rw [e2, e3, e5, ← writeGoto_isSome t s2 c2 g2, h2] at this
      cases h3 : writeGoto t1 s2 c2 g2 with
      | none => rfl
      | some _ => rw [h3] at this; simp at this
    | some t2 =>
      simp only [Option.bind_some]
      obtain ⟨f1, f2, f3, f4, f5, f6, f7⟩ := writeGoto_shape h2
      have s12 : (writeGoto t1 s2 c2 g2).isSome = true := by
        rw [writeGoto_isSome, e2, e3, e5, ← writeGoto_isSome t s2 c2 g2, h2]; rfl
      have s21 : (writeGoto t2 s1 c1 g1).isSome = true := by
        rw [writeGoto_isSome, f2, f3, f5, ← writeGoto_isSome t s1 c1 g1, h1]; rfl
      cases h12 : writeGoto t1 s2 c2 g2 with
      | none => rw [h12] at s12; simp at s12
      | some u1 =>
        cases h21 : writeGoto t2 s1 c1 g1 with
        | none => rw [h21] at s21; simp at s21
        | some u2 =>
          obtain ⟨a1, a2, a3, a4, a5, a6, a7⟩ := writeGoto_shape h12
          obtain ⟨k1, k2, k3, k4, k5, k6, k7⟩ := writeGoto_shape h21
          have r1 : c1 < t.nN := by
            have := writeGoto_isSome t s1 c1 g1; rw [h1] at this; simp at this; exact this.1.1
          have r2 : c2 < t.nN := by
            have := writeGoto_isSome t s2 c2 g2; rw [h2] at this; simp at this; exact this.1.1
          have hidx : s1 * t.nN + c1 ≠ s2 * t.nN + c2 := by
            intro e
            obtain ⟨a, b⟩ := index_inj (w := t.nN) r1 r2 e
            exact hk (by rw [a, b])
          congr 1
          cases u1; cases u2
          simp only [Table.mk.injEq] at *
          refine ⟨by rw [a4, k4, e4, f4], by rw [a1, k1, e1, f1], by rw [a2, k2, e2, f2], by rw [a3, k3, e3, f3],
            by rw [a6, k6, e6, f6], ?_⟩
          rw [a7, k7, e7, f7, e2, f2]
          exact List.set_comm _ _ hidx

/-- folding commuting partial updates over a list does not depend on the order of the list -/
theorem foldlM_perm {α σ κ : Type} (f : σ → α → Option σ) (key : α → κ)
    (hcomm : ∀ t a b, key a ≠ key b → (f t a).bind (fun t' => f t' b) = (f t b).bind (fun t' => f t' a)) :
    ∀ (l1 l2 : List α), l1.Perm l2 → (l1.map key).Nodup → ∀ t, l1.foldlM f t = l2.foldlM f t := by
  intro l1 l2 hp
  induction hp with
  | nil => intro _ t; rfl
  | @cons x la lb _ ih =>
    intro hnd t
    simp only [List.foldlM_cons]
    have hnd' : (List.map key la).Nodup := by
      rw [List.map_cons, List.nodup_cons] at hnd; exact hnd.2
    cases f t x with
    | none => rfl
    | some t' => exact ih hnd' t'
  | swap x y l =>
    intro hnd t
    simp only [List.foldlM_cons]
    have hxy : key y ≠ key x := by
      simp only [List.map_cons, List.nodup_cons, List.mem_cons, not_or] at hnd
      exact hnd.1.1
    have := hcomm t y x hxy
    calc (f t y >>= fun t' => f t' x >>= fun t'' => l.foldlM f t'')
        = ((f t y).bind (fun t' => f t' x)).bind (fun t'' => l.foldlM f t'') := by
          cases f t y <;> rfl
      _ = ((f t x).bind (fun t' => f t' y)).bind (fun t'' => l.foldlM f t'') := by rw [this]
      _ = (f t x >>= fun t' => f t' y >>= fun t'' => l.foldlM f t'') := by
          cases f t x <;> rfl
  | trans h1 h2 ih1 ih2 =>
    intro hnd t
    rw [ih1 hnd t]
    exact ih2 ((h1.map key).nodup_iff.mp hnd) t

/-- **C14, site 2**: `build_as_is` gives the same table for every iteration order of the two hash maps
(keys are distinct) -/
theorem buildAsIs_perm (t : Table) (acts acts' : List ((Nat × Nat) × (Machine.Item × Action)))
    (gts gts' : List ((Nat × Nat) × Nat)) (ha : acts.Perm acts') (hg : gts.Perm gts')
    (hka : (acts.map (·.1)).Nodup) (hkg : (gts.map (·.1)).Nodup) :
    buildAsIs t acts gts = buildAsIs t acts' gts' := by
  unfold buildAsIs
  have e1 := foldlM_perm (fun (t : Table) (e : (Nat × Nat) × (Machine.Item × Action)) => writeAction t e.1.1 e.1.2 e.2.2)
    (·.1) (by
      intro t a b hk
      exact writeAction_comm t a.1.1 a.1.2 b.1.1 b.1.2 a.2.2 b.2.2 (by
        intro e; apply hk; exact Prod.ext (by simpa using congrArg Prod.fst e) (by simpa using congrArg Prod.snd e)))
    acts acts' ha hka t
  rw [e1]
  cases List.foldlM (fun t e => writeAction t e.1.1 e.1.2 e.2.2) t acts' with
  | none => rfl
  | some t1 =>
    simp only [Option.bind_some]
    exact foldlM_perm (fun (t : Table) (e : (Nat × Nat) × Nat) => writeGoto t e.1.1 e.1.2 e.2) (·.1) (by
      intro t a b hk
      exact writeGoto_comm t a.1.1 a.1.2 b.1.1 b.1.2 a.2 b.2 (by
        intro e; apply hk; exact Prod.ext (by simpa using congrArg Prod.fst e) (by simpa using congrArg Prod.snd e)))
      gts gts' hg hkg t1

/-! ### the keys of the two builder maps are distinct -/

theorem lookup_none_not_mem {α β : Type} [BEq α] [LawfulBEq α] {l : List (α × β)} {k : α}
    (h : l.lookup k = none) : k ∉ l.map (·.1) := by
  intro hm
  rw [List.lookup_eq_none_iff] at h
  obtain ⟨p, hp, he⟩ := List.mem_map.mp hm
  have := h p hp
  simp [he] at this

theorem nodup_snoc' {κ : Type} {l : List κ} {x : κ} (h : l.Nodup) (hx : x ∉ l) : (l ++ [x]).Nodup := by
  rw [List.nodup_append]
  refine ⟨h, by simp, ?_⟩
  intro a ha b hb
  have : b = x := by simpa using hb
  subst this
  intro e; subst e; exact hx ha

theorem setAction_keys {tb tb' : TB} {s col : Nat} {it : Machine.Item} {a : Action}
    (h : setAction tb s col it a = .ok tb') (hnd : (tb.actions.map (·.1)).Nodup) :
    (tb'.actions.map (·.1)).Nodup ∧ tb'.gotos = tb.gotos := by
  unfold setAction at h
  cases hl : tb.actions.lookup (s, col) with
  | none =>
    rw [hl] at h; cases h
    refine ⟨?_, rfl⟩
    rw [List.map_append]
    exact nodup_snoc' hnd (lookup_none_not_mem hl)
  | some ea =>
    rw [hl] at h
    simp only at h
    split at h
    · cases h; exact ⟨hnd, rfl⟩
    · cases h

theorem addItemAction_keys {c : Machine.Ctx} {m : Machine.Machine} {tb tb' : TB} {s : Nat} {it : Machine.Item}
    (h : addItemAction c m tb s it = .ok tb') (hnd : (tb.actions.map (·.1)).Nodup) :
    (tb'.actions.map (·.1)).Nodup ∧ tb'.gotos = tb.gotos := by
  unfold addItemAction at h
  repeat' split at h
  all_goals first
    | (cases h; exact ⟨hnd, rfl⟩)
    | exact setAction_keys h hnd
    | cases h

theorem addStateActions_keys (c : Machine.Ctx) (m : Machine.Machine) (s : Nat) :
    ∀ (items : List Machine.Item) (tb tb' : TB), addStateActions c m s items tb = .ok tb' →
      (tb.actions.map (·.1)).Nodup → (tb'.actions.map (·.1)).Nodup ∧ tb'.gotos = tb.gotos := by
  intro items
  induction items with
  | nil => intro tb tb' h hnd; cases h; exact ⟨hnd, rfl⟩
  | cons it items ih =>
    intro tb tb' h hnd
    simp only [addStateActions] at h
    cases hres : addItemAction c m tb s it with
    | ok tb1 =>
      rw [hres] at h
      obtain ⟨n1, g1⟩ := addItemAction_keys hres hnd
      obtain ⟨n2, g2⟩ := ih tb1 tb' h n1
      exact ⟨n2, by rw [g2, g1]⟩
    | conflict _ _ _ => rw [hres] at h; cases h
    | panic _ => rw [hres] at h; cases h

theorem addActions_keys (c : Machine.Ctx) (m : Machine.Machine) :
    ∀ (sts : List Machine.State) (i : Nat) (tb tb' : TB), addActions c m sts i tb = .ok tb' →
      (tb.actions.map (·.1)).Nodup → (tb'.actions.map (·.1)).Nodup ∧ tb'.gotos = tb.gotos := by
  intro sts
  induction sts with
  | nil => intro i tb tb' h hnd; cases h; exact ⟨hnd, rfl⟩
  | cons st sts ih =>
    intro i tb tb' h hnd
    simp only [addActions] at h
    cases hres : addStateActions c m i st tb with
    | ok tb1 =>
      rw [hres] at h
      obtain ⟨n1, g1⟩ := addStateActions_keys c m i st tb tb1 hres hnd
      obtain ⟨n2, g2⟩ := ih (i + 1) tb1 tb' h n1
      exact ⟨n2, by rw [g2, g1]⟩
    | conflict _ _ _ => rw [hres] at h; cases h
    | panic _ => rw [hres] at h; cases h

theorem addGotos_keys : ∀ (trs : List Machine.Transition) (tb tb' : TB), addGotos trs tb = .ok tb' →
    (tb.gotos.map (·.1)).Nodup → (tb'.gotos.map (·.1)).Nodup ∧ tb'.actions = tb.actions := by
  intro trs
  induction trs with
  | nil => intro tb tb' h hnd; cases h; exact ⟨hnd, rfl⟩
  | cons tr trs ih =>
    intro tb tb' h hnd
    simp only [addGotos] at h
    split at h
    · exact ih tb tb' h hnd
    · rename_i b hb
      split at h
      · cases h
      · rename_i hl
        have := ih _ tb' h (by rw [List.map_append]; exact nodup_snoc' hnd (lookup_none_not_mem hl))
        exact ⟨this.1, by rw [this.2]⟩

/-- **C14, site 2, end to end**: whatever order the two `HashMap`s of `TableBuilder` are iterated in, the table
is the one `machine_to_table` returns -/
theorem machineToTable_order_independent (c : Machine.Ctx) (m : Machine.Machine) (tb tb' : TB)
    (h1 : addActions c m m.states 0 ⟨[], []⟩ = .ok tb) (h2 : addGotos m.transitions tb = .ok tb')
    (acts : List ((Nat × Nat) × (Machine.Item × Action))) (gts : List ((Nat × Nat) × Nat))
    (ha : tb'.actions.Perm acts) (hg : tb'.gotos.Perm gts) :
    buildAsIs (emptyTable c m) acts gts = buildAsIs (emptyTable c m) tb'.actions tb'.gotos := by
  obtain ⟨n1, g1⟩ := addActions_keys c m m.states 0 ⟨[], []⟩ tb h1 (by simp)
  obtain ⟨n2, a2⟩ := addGotos_keys m.transitions tb tb' h2 (by rw [g1]; simp)
  exact (buildAsIs_perm _ _ _ _ _ ha hg (by rw [a2]; exact n1) n2).symm

end Table
end KikiVerif
