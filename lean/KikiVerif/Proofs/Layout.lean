/-
C16, end to end: two source texts whose token sequences agree up to positions give the same result of
`generate` — same coded grammar, automaton, table, the same emitted module except for the digest in its
header, the same table conflict, or the same error with every position replaced by the position of the
same-index token of the other text.
-/
import KikiVerif.Proofs.Relabel
import KikiVerif.Proofs.Positions
import KikiVerif.Proofs.Pipeline
import KikiVerif.Model.Generate

set_option linter.unusedSimpArgs false
set_option linter.unusedVariables false

namespace KikiVerif
namespace Layout
open Relabel Spec FrontParse Generate

/-- the position a token stores -/
def storedPos : Token → Nat
  | .underscore p | .startKw p | .structKw p | .enumKw p | .terminalKw p | .colon p | .dcolon p
  | .comma p | .lparen p | .rparen p | .lcurly p | .rcurly p | .langle p | .rangle p => p
  | .ident _ p => p
  | .termIdent _ p => p
  | .attr _ p => p

/-- the stored position of the `k`-th token -/
def posOf (toks : List Token) (k : Nat) : Nat := ((toks[k]?).map storedPos).getD 0

/-- tokens with their own index as position -/
def reindexFrom (k : Nat) (toks : List Token) : List Token :=
  (toks.zipIdx k).map fun x => tokenMap (fun _ => x.2) x.1

def reindex (toks : List Token) : List Token := reindexFrom 0 toks

theorem tokenMap_const_erase {a b : Token} (k : Nat) (h : erase a = erase b) :
    tokenMap (fun _ => k) a = tokenMap (fun _ => k) b := by
  cases a <;> cases b <;> simp_all [erase, tokenMap]

theorem reindexFrom_congr : ∀ (t1 t2 : List Token) (k : Nat), t1.map erase = t2.map erase →
    reindexFrom k t1 = reindexFrom k t2 := by
  intro t1
  induction t1 with
  | nil => intro t2 k h; cases t2 with
    | nil => rfl
    | cons _ _ => simp at h
  | cons a as ih =>
    intro t2 k h
    cases t2 with
    | nil => simp at h
    | cons b bs =>
      simp only [List.map_cons, List.cons.injEq] at h
      simp only [reindexFrom, List.zipIdx_cons, List.map_cons]
      rw [tokenMap_const_erase k h.1]
      congr 1
      exact ih bs (k + 1) h.2

theorem tokenMap_comp (ρ σ : Nat → Nat) (t : Token) : tokenMap ρ (tokenMap σ t) = tokenMap (fun p => ρ (σ p)) t := by
  cases t <;> rfl

theorem tokenMap_stored (t : Token) : tokenMap (fun _ => storedPos t) t = t := by cases t <;> rfl

/-- relabelling the reindexed tokens with the stored positions gives the tokens back -/
theorem reindex_map (toks : List Token) : (reindex toks).map (tokenMap (posOf toks)) = toks := by
  unfold reindex reindexFrom
  rw [List.map_map]
  have : ∀ x ∈ toks.zipIdx 0, ((tokenMap (posOf toks)) ∘ fun x : Token × Nat => tokenMap (fun _ => x.2) x.1) x = x.1 := by
    intro ⟨t, k⟩ hm
    have hz := List.mem_zipIdx hm
    simp only [Nat.zero_le, Nat.zero_add, Nat.sub_zero, true_and] at hz
    simp only [Function.comp, tokenMap_comp]
    have hk : posOf toks k = storedPos t := by
      unfold posOf
      rw [List.getElem?_eq_getElem hz.1, ← hz.2]
      rfl
    rw [hk]
    exact tokenMap_stored t
  rw [List.map_congr_left this]
  exact List.zipIdx_map_fst 0 toks

theorem tokText_erase {a b : Token} (h : erase a = erase b) : tokText a = tokText b := by
  cases a <;> cases b <;> first | (cases h; rfl) | (cases h)

/-- the emitted module depends on the digest only through its `sha` field -/
theorem moduleOf_sha (f : VFile.File) (enc : Encode.Enc) (t : Table.Table) (sha : Str) :
    Emit.moduleOf f enc t sha = (Emit.moduleOf f enc t []).map fun m => { m with sha := sha } := by
  simp only [Emit.moduleOf, bind, Option.bind, pure]
  cases Emit.chooseNames f.definedIdentifiers with
  | none => rfl
  | some names =>
    simp only
    cases List.mapM (Emit.typeDefOf f.tenum) f.nonterminals with
    | none => rfl
    | some types =>
      simp only
      cases List.mapM id (List.map (fun x : VFile.Rule × Nat => Emit.reduceFnOf (Emit.methodNames f.tenum) x.snd x.fst)
          f.rules.zipIdx) with
      | none => rfl
      | some rfs => rfl

set_option maxRecDepth 100000 in
theorem body_sha (m : Emit.Module) (sha : Str) : Emit.body { m with sha := sha } = Emit.body m := by
  unfold Emit.body
  rfl

/-- the same error: every position is the stored position of the same-index token of either text -/
inductive SameErr (src1 src2 : Str) (t1 t2 : List Token) : KErr → KErr → Prop
  | static (e0 : KErr) : SameErr src1 src2 t1 t2 (errMap (posOf t1) e0) (errMap (posOf t2) e0)
  | parseAt (k : Nat) (a b : Token) : t1[k]? = some a → t2[k]? = some b → erase a = erase b →
      SameErr src1 src2 t1 t2 (.parse (tokStart a) (tokText a) (tokStart a + Text.blen (tokText a)))
        (.parse (tokStart b) (tokText b) (tokStart b + Text.blen (tokText b)))
  | parseEof : SameErr src1 src2 t1 t2 (.parse (Text.blen src1) [] (Text.blen src1))
      (.parse (Text.blen src2) [] (Text.blen src2))

inductive SameStop (src1 src2 : Str) (t1 t2 : List Token) : Stop → Stop → Prop
  | done : SameStop src1 src2 t1 t2 .done .done
  | err {e1 e2} : SameErr src1 src2 t1 t2 e1 e2 → SameStop src1 src2 t1 t2 (.err e1) (.err e2)
  | conflict (s a b) : SameStop src1 src2 t1 t2 (.conflict s a b) (.conflict s a b)
  | panic (site) : SameStop src1 src2 t1 t2 (.panic site) (.panic site)
  | timeout (site) : SameStop src1 src2 t1 t2 (.timeout site) (.timeout site)

/-- what two runs of `generate` have in common when the layout does not matter -/
structure SameResult (src1 src2 sha1 sha2 : Str) (t1 t2 : List Token) (s1 s2 : Stages) : Prop where
  enc : s1.enc = s2.enc
  machine : s1.machine = s2.machine
  table : s1.table = s2.table
  module : (s1.module.map fun m => { m with sha := [] }) = (s2.module.map fun m => { m with sha := [] })
  text : ∀ x1, s1.text = some x1 → ∃ b, x1 = Emit.header sha1 ++ b ∧ s2.text = some (Emit.header sha2 ++ b)
  stop : SameStop src1 src2 t1 t2 s1.stop s2.stop

theorem relayout (src1 src2 sha1 sha2 : Str) (fuel : Nat) (t1 t2 : List Token)
    (h1 : Tokenize.tokenize src1 = .ok t1) (h2 : Tokenize.tokenize src2 = .ok t2)
    (he : t1.map erase = t2.map erase) :
    SameResult src1 src2 sha1 sha2 t1 t2 (stages src1 sha1 fuel) (stages src2 sha2 fuel) := by
  have e0 : reindex t2 = reindex t1 := (reindexFrom_congr t1 t2 0 he).symm
  have p1 : parse t1 fuel = (parse (reindex t1) fuel).map (outMap (posOf t1)) := by
    have := parse_map (posOf t1) (reindex t1) fuel
    rw [reindex_map] at this
    exact this
  have p2 : parse t2 fuel = (parse (reindex t1) fuel).map (outMap (posOf t2)) := by
    have := parse_map (posOf t2) (reindex t2) fuel
    rw [reindex_map, e0] at this
    exact this
  unfold stages
  simp only [Id.run, bind, pure]
  rw [h1, h2]
  simp only
  rw [p1, p2]
  cases hp : parse (reindex t1) fuel with
  | none => exact ⟨rfl, rfl, rfl, rfl, (fun x h => by cases h), .timeout _⟩
  | some out0 =>
    cases out0 with
    | panic => exact ⟨rfl, rfl, rfl, rfl, (fun x h => by cases h), .panic _⟩
    | unexpected idx =>
      simp only [Option.map_some, outMap]
      have q1 : parse t1 fuel = some (.unexpected idx) := by rw [p1, hp]; rfl
      have q2 : parse t2 fuel = some (.unexpected idx) := by rw [p2, hp]; rfl
      obtain ⟨a1, a2, a3⟩ := C09.C09_error_span src1 t1 h1 fuel idx q1
      obtain ⟨b1, b2, b3⟩ := C09.C09_error_span src2 t2 h2 fuel idx q2
      cases idx with
      | none =>
        simp only [Option.bind_none, a3, b3]
        exact ⟨rfl, rfl, rfl, rfl, (fun x h => by cases h), .err .parseEof⟩
      | some k =>
        have hk1 := a1 k rfl
        have hk2 := b1 k rfl
        have g1 : t1[k]? = some t1[k] := List.getElem?_eq_getElem hk1
        have g2 : t2[k]? = some t2[k] := List.getElem?_eq_getElem hk2
        have hea : erase t1[k] = erase t2[k] := by
          have := congrArg (fun l => l[k]?) he
          simp only [List.getElem?_map, g1, g2, Option.map_some, Option.some.injEq] at this
          exact this
        simp only [Option.bind_some, g1, g2, a2 t1[k] (by simp [g1]), b2 t2[k] (by simp [g2])]
        exact ⟨rfl, rfl, rfl, rfl, (fun x h => by cases h), .err (.parseAt k _ _ g1 g2 hea)⟩
    | ok cst0 =>
      simp only [Option.map_some, outMap]
      obtain ⟨ast0, hast0, _⟩ := C09.C09_flatten (reindex t1) fuel cst0 hp
      rw [cstToAst_map (posOf t1) hast0, cstToAst_map (posOf t2) hast0]
      simp only
      rw [validateAst_map, validateAst_map]
      cases hv : Validate.validateAst ast0 with
      | err e => exact ⟨rfl, rfl, rfl, rfl, (fun x h => by cases h), .err (.static e)⟩
      | panic site => exact ⟨rfl, rfl, rfl, rfl, (fun x h => by cases h), .panic _⟩
      | ok vf0 =>
        simp only [rmap]
        rw [encode_map, encode_map]
        cases henc : Encode.encode vf0 with
        | none => exact ⟨rfl, rfl, rfl, rfl, (fun x h => by cases h), .panic _⟩
        | some enc =>
          simp only
          cases hm : Machine.machineOf enc.ctx fuel with
          | none => exact ⟨rfl, rfl, rfl, rfl, (fun x h => by cases h), .timeout _⟩
          | some r =>
            cases r with
            | none => exact ⟨rfl, rfl, rfl, rfl, (fun x h => by cases h), .panic _⟩
            | some m =>
              simp only
              cases ht : Table.machineToTable enc.ctx m with
              | conflict s a b => exact ⟨rfl, rfl, rfl, rfl, (fun x h => by cases h), .conflict _ _ _⟩
              | panic site => exact ⟨rfl, rfl, rfl, rfl, (fun x h => by cases h), .panic _⟩
              | ok t =>
                simp only
                rw [moduleOf_map, moduleOf_map, moduleOf_sha vf0 enc t sha1, moduleOf_sha vf0 enc t sha2]
                cases hmd : Emit.moduleOf vf0 enc t [] with
                | none => exact ⟨rfl, rfl, rfl, rfl, (fun x h => by cases h), .panic _⟩
                | some md =>
                  simp only [Option.map_some]
                  refine ⟨rfl, rfl, rfl, rfl, ?_, .done⟩
                  intro x hx
                  simp only [Option.some.injEq] at hx
                  subst hx
                  exact ⟨Emit.body md, by simp [Emit.render, body_sha], by simp [Emit.render, body_sha]⟩

end Layout
end KikiVerif
