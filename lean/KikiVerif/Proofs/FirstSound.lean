/-
Soundness of the FIRST map: every terminal in `FIRST(B)` really begins a sentential form derived from `B`,
and a nonterminal marked nullable really derives the empty string — for every grammar, every iteration of the
fixpoint loop.  (Completeness, w.r.t. derivation trees, is `Valid.first_complete_aux` from closedness.)
-/
import KikiVerif.Proofs.First
import KikiVerif.LR.Via

set_option linter.unusedSimpArgs false
set_option linter.unusedVariables false

namespace KikiVerif
namespace LR

/-! ### derivations of sentential forms -/

theorem Derives.trans' {g : Grammar Nat Nat} {α β γ : List (Sym Nat Nat)} (h1 : Derives g α β) (h2 : Derives g β γ) :
    Derives g α γ := by
  induction h2 with
  | refl => exact h1
  | step _ hr ih => exact .step ih hr

theorem Derives.context {g : Grammar Nat Nat} {α β : List (Sym Nat Nat)} (p q : List (Sym Nat Nat))
    (h : Derives g α β) : Derives g (p ++ α ++ q) (p ++ β ++ q) := by
  induction h with
  | refl => exact .refl _
  | @step pre post rule _ hr ih =>
    have e1 : p ++ (pre ++ Sym.n rule.lhs :: post) ++ q = (p ++ pre) ++ Sym.n rule.lhs :: (post ++ q) := by simp
    have e2 : p ++ (pre ++ rule.rhs ++ post) ++ q = (p ++ pre) ++ rule.rhs ++ (post ++ q) := by simp
    rw [e1] at ih
    rw [e2]
    exact .step ih hr

theorem Derives.rule {g : Grammar Nat Nat} {r : Rule Nat Nat} (hr : r ∈ g.rules) : Derives g [.n r.lhs] r.rhs := by
  have := Derives.step (g := g) (α := [.n r.lhs]) (pre := []) (post := []) (rule := r) (by simpa using Derives.refl _) hr
  simpa using this

end LR

namespace Machine
open LR (Sym Rule Grammar Derives)
open Valid (seqTerms seqNullable)

/-! ### the invariant -/

def FmSound (g : Grammar Nat Nat) (fm : List FirstSet) : Prop :=
  ∀ B f, fm[B]? = some f →
    (f.eps = true → Derives g [.n B] []) ∧ (∀ a ∈ f.terminals, ∃ γ, Derives g [.n B] (.t a :: γ))

theorem seqNullable_sound {g : Grammar Nat Nat} {fm : List FirstSet} (hs : FmSound g fm) :
    ∀ β : List (Sym Nat Nat), seqNullable (toTbl fm) β = true → Derives g β [] := by
  intro β
  induction β with
  | nil => intro _; exact .refl _
  | cons X rest ih =>
    intro h
    cases X with
    | t a => simp [seqNullable] at h
    | n B =>
      simp only [seqNullable, Bool.and_eq_true] at h
      cases hb : fm[B]? with
      | none =>
        have : (toTbl fm).getD B ([], false) = ([], false) := by
          unfold toTbl
          rw [List.getD_eq_getElem?_getD, List.getElem?_map, hb]; rfl
        rw [this] at h
        simp at h
      | some f =>
        rw [toTbl_getD fm B f hb] at h
        have h1 := (hs B f hb).1 h.1
        have h2 := ih h.2
        -- B rest ⇒* rest ⇒* ε
        have := Derives.context [] rest h1
        simp only [List.nil_append, List.singleton_append] at this
        exact this.trans' h2

theorem seqTerms_sound {g : Grammar Nat Nat} {fm : List FirstSet} (hs : FmSound g fm) :
    ∀ β : List (Sym Nat Nat), ∀ a ∈ seqTerms (toTbl fm) β, ∃ γ, Derives g β (.t a :: γ) := by
  intro β
  induction β with
  | nil => intro a ha; simp [seqTerms] at ha
  | cons X rest ih =>
    intro a ha
    cases X with
    | t b =>
      simp only [seqTerms, List.mem_singleton] at ha
      subst ha
      exact ⟨rest, .refl _⟩
    | n B =>
      simp only [seqTerms, List.mem_append] at ha
      cases hb : fm[B]? with
      | none =>
        have : (toTbl fm).getD B ([], false) = ([], false) := by
          unfold toTbl
          rw [List.getD_eq_getElem?_getD, List.getElem?_map, hb]; rfl
        rw [this] at ha
        simp at ha
      | some f =>
        rw [toTbl_getD fm B f hb] at ha
        rcases ha with ha | ha
        · obtain ⟨γ, hγ⟩ := (hs B f hb).2 a ha
          have := Derives.context [] rest hγ
          simp only [List.nil_append, List.singleton_append, List.cons_append] at this
          exact ⟨γ ++ rest, this⟩
        · split at ha
          · rename_i heps
            obtain ⟨γ, hγ⟩ := ih a ha
            have h1 := (hs B f hb).1 heps
            have := Derives.context [] rest h1
            simp only [List.nil_append, List.singleton_append] at this
            exact ⟨γ, this.trans' hγ⟩
          · cases ha

theorem expandRule_sound {g : Grammar Nat Nat} {fm fm' : List FirstSet} {r : Rule Nat Nat} {ch : Bool}
    (hs : FmSound g fm) (hr : r ∈ g.rules) (h : expandRule fm r = some (fm', ch)) : FmSound g fm' := by
  unfold expandRule at h
  split at h
  · rename_i cur old hcur hold
    simp only [addAll] at h
    cases h
    obtain ⟨hmem, heps⟩ := currentFirst_spec fm r.rhs _ cur hcur
    intro B f hB
    by_cases e : r.lhs = B
    · subst e
      have hlt := (List.getElem?_eq_some_iff.mp hold).1
      rw [List.getElem?_set_self hlt] at hB
      cases hB
      simp only
      obtain ⟨o1, o2⟩ := hs r.lhs old hold
      constructor
      · intro he
        simp only [Bool.or_eq_true] at he
        rcases he with he | he
        · exact o1 he
        · have : seqNullable (toTbl fm) r.rhs = true := by rw [heps] at he; simpa using he
          exact (Derives.rule hr).trans' (seqNullable_sound hs r.rhs this)
      · intro a ha
        rcases (Oset.mem_extend _ _ a).mp ha with h1 | h1
        · exact o2 a h1
        · rcases (hmem a).mp h1 with h2 | h2
          · cases h2
          · obtain ⟨γ, hγ⟩ := seqTerms_sound hs r.rhs a h2
            exact ⟨γ, (Derives.rule hr).trans' hγ⟩
    · rw [List.getElem?_set_ne e] at hB
      exact hs B f hB
  · cases h

theorem expand_sound {g : Grammar Nat Nat} : ∀ (rules : List (Rule Nat Nat)) (fm fm' : List FirstSet) (ch ch' : Bool),
    FmSound g fm → (∀ r ∈ rules, r ∈ g.rules) → expand rules fm ch = some (fm', ch') → FmSound g fm' := by
  intro rules
  induction rules with
  | nil => intro fm fm' ch ch' hs _ h; simp only [expand] at h; cases h; exact hs
  | cons r rs ih =>
    intro fm fm' ch ch' hs hsub h
    simp only [expand] at h
    split at h
    · cases h
    · rename_i fm1 ch1 h1
      exact ih fm1 fm' _ ch' (expandRule_sound hs (hsub r List.mem_cons_self) h1)
        (fun r' hr' => hsub r' (List.mem_cons_of_mem _ hr')) h

theorem firstLoop_sound {g : Grammar Nat Nat} : ∀ (fuel : Nat) (fm0 fm : List FirstSet), FmSound g fm0 →
    firstLoop g.rules fuel fm0 = some (some fm) → FmSound g fm := by
  intro fuel
  induction fuel with
  | zero => intro fm0 fm _ h; simp [firstLoop] at h
  | succ k ih =>
    intro fm0 fm hs h
    simp only [firstLoop] at h
    split at h
    · cases h
    · rename_i fm1 ch hexp
      have hs1 := expand_sound g.rules fm0 fm1 false ch hs (fun _ h => h) hexp
      split at h
      · exact ih fm1 fm hs1 h
      · cases h; exact hs1

/-- **FIRST sets are sound, every grammar**: a terminal in `FIRST(B)` begins a sentential form derived from `B`;
a nonterminal marked nullable derives the empty string -/
theorem firstSets_sound {c : Ctx} {fuel : Nat} {fm : List FirstSet} (h : firstSets c fuel = some (some fm)) :
    FmSound c.g fm := by
  unfold firstSets at h
  refine firstLoop_sound fuel _ fm ?_ h
  intro B f hB
  unfold emptyFirst at hB
  have := List.mem_of_getElem? hB
  have := List.eq_of_mem_replicate this
  subst this
  exact ⟨fun e => (by cases e), fun a ha => (by cases ha)⟩

end Machine
end KikiVerif
