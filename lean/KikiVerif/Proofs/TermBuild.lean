/-
Termination of the worklist of `UnnormalizedMachineBuilder::build`.

A potential bounds the work: there are at most `2 ^ C` states (no two share a core, a core set is a subset of
the `C` possible cores) and a state holds at most `U` items.  Appending a state or merging new items into one
lowers the potential by at least as much as the queue grows; popping a state shortens the queue.
-/
import KikiVerif.Proofs.TermClosure

set_option linter.unusedSimpArgs false
set_option linter.unusedVariables false

namespace KikiVerif
namespace Machine
open LR (Sym Rule Grammar)

/-! ### at most `2 ^ C` states -/

def coreUniv (c : Ctx) : List Core :=
  (List.range (c.numRules + 1)).flatMap fun r => (List.range (maxDot c + 1)).map fun d => (r, d)

theorem mem_coreUniv {c : Ctx} {y : Item} (h : WfItem c y) : coreOf y ∈ coreUniv c := by
  obtain ⟨h1, h2, _⟩ := h
  unfold coreUniv coreOf
  simp only [List.mem_flatMap, List.mem_map, List.mem_range]
  have := rhsOf_length_le c y.rule
  exact ⟨y.rule, by omega, y.dot, by omega, rfl⟩

/-- which of the possible cores a state has -/
def coreVec (c : Ctx) (S : State) : List Bool := (coreUniv c).map fun p => S.any fun x => coreOf x == p

def allVecs : Nat → List (List Bool)
  | 0 => [[]]
  | n + 1 => (allVecs n).flatMap fun v => [false :: v, true :: v]

theorem allVecs_length : ∀ n, (allVecs n).length = 2 ^ n := by
  intro n
  induction n with
  | zero => rfl
  | succ n ih =>
    simp only [allVecs, List.length_flatMap]
    have : ((allVecs n).map fun v => [false :: v, true :: v].length) = (allVecs n).map fun _ => 2 := by
      apply List.map_congr_left; intro v _; rfl
    rw [this, List.map_const', List.sum_replicate_nat, ih, Nat.pow_succ]

theorem mem_allVecs : ∀ (v : List Bool), v ∈ allVecs v.length := by
  intro v
  induction v with
  | nil => simp [allVecs]
  | cons b v ih =>
    simp only [List.length_cons, allVecs, List.mem_flatMap]
    refine ⟨v, ih, ?_⟩
    cases b <;> simp

theorem coreVec_inj {c : Ctx} {S1 S2 : State} (h1 : ∀ y ∈ S1, WfItem c y) (h2 : ∀ y ∈ S2, WfItem c y)
    (h : coreVec c S1 = coreVec c S2) : SameCores S1 S2 := by
  have key : ∀ p ∈ coreUniv c, (S1.any fun x => coreOf x == p) = (S2.any fun x => coreOf x == p) := by
    intro p hp
    unfold coreVec at h
    have := List.map_inj_left.mp h p hp
    exact this
  intro p
  constructor
  · rintro ⟨x, hx, rfl⟩
    have := key (coreOf x) (mem_coreUniv (h1 x hx))
    have ht : (S1.any fun y => coreOf y == coreOf x) = true := List.any_eq_true.mpr ⟨x, hx, by simp⟩
    rw [ht] at this
    obtain ⟨y, hy, e⟩ := List.any_eq_true.mp this.symm
    exact ⟨y, hy, by simpa using e⟩
  · rintro ⟨x, hx, rfl⟩
    have := key (coreOf x) (mem_coreUniv (h2 x hx))
    have ht : (S2.any fun y => coreOf y == coreOf x) = true := List.any_eq_true.mpr ⟨x, hx, by simp⟩
    rw [ht] at this
    obtain ⟨y, hy, e⟩ := List.any_eq_true.mp this
    exact ⟨y, hy, by simpa using e⟩

theorem states_count {c : Ctx} (states : List State) (hw : ∀ i, i < states.length → ∀ y ∈ states.getD i [], WfItem c y)
    (hd : ∀ i j, i < states.length → j < states.length → SameCores (states.getD i []) (states.getD j []) → i = j) :
    states.length ≤ 2 ^ (coreUniv c).length := by
  have hnd : (states.map (coreVec c)).Nodup := by
    rw [List.nodup_iff_pairwise_ne, List.pairwise_iff_getElem]
    intro i j hi hj hij e
    simp only [List.length_map] at hi hj
    simp only [List.getElem_map] at e
    have h1 := hw i hi
    have h2 := hw j hj
    rw [getD_of_lt hi] at h1
    rw [getD_of_lt hj] at h2
    have := coreVec_inj h1 h2 e
    have := hd i j hi hj (by rw [getD_of_lt hi, getD_of_lt hj]; exact this)
    omega
  have hsub : states.map (coreVec c) ⊆ allVecs (coreUniv c).length := by
    intro v hv
    obtain ⟨S, _, rfl⟩ := List.mem_map.mp hv
    have := mem_allVecs (coreVec c S)
    unfold coreVec at this ⊢
    simpa using this
  have := nodup_subset_length' _ _ hnd hsub
  rw [allVecs_length] at this
  simpa using this

/-! ### the potential -/

def room (c : Ctx) (states : List State) : Nat := (states.map fun S => (allItems c).length - S.length).sum

def potential (c : Ctx) (b : Builder) : Nat :=
  (2 ^ (coreUniv c).length - b.states.length) * ((allItems c).length + 1) + room c b.states

def weight (c : Ctx) (b : Builder) : Nat := b.queue.length + potential c b

theorem room_append (c : Ctx) (states : List State) (S : State) :
    room c (states ++ [S]) = room c states + ((allItems c).length - S.length) := by
  unfold room
  simp

theorem room_set {c : Ctx} {states : List State} {i : Nat} {old new : State} (h : states[i]? = some old) :
    room c (states.set i new) + ((allItems c).length - old.length) =
      room c states + ((allItems c).length - new.length) := by
  unfold room
  induction states generalizing i with
  | nil => simp at h
  | cons f fs ih =>
    cases i with
    | zero =>
      simp only [List.getElem?_cons_zero, Option.some.injEq] at h
      subst h
      simp only [List.set_cons_zero, List.map_cons, List.sum_cons]
      omega
    | succ j =>
      simp only [List.getElem?_cons_succ] at h
      have := ih h
      simp only [List.set_cons_succ, List.map_cons, List.sum_cons]
      omega

/-! ### `add_items_if_needed` only grows -/

theorem addItems_length : ∀ (l : List Item) (st : Oset Item) (added : Bool), Oset.Sorted st.raw →
    st.raw.length ≤ (addItemsIfNeeded st l added).1.raw.length ∧
    ((addItemsIfNeeded st l added).2 = true → added = true ∨ st.raw.length < (addItemsIfNeeded st l added).1.raw.length) := by
  intro l
  induction l with
  | nil => intro st added _; simp [addItemsIfNeeded]
  | cons it rest ih =>
    intro st added hs
    simp only [addItemsIfNeeded]
    split
    · exact ih st added hs
    · rename_i hc
      have hcf : st.contains it = false := by simpa using hc
      have hl := insert_length hs hcf
      obtain ⟨h1, _⟩ := ih (st.insert it) true (Oset.insert_sorted st it hs)
      exact ⟨by omega, fun _ => Or.inr (by omega)⟩

/-! ### one target -/

theorem enqueueState_weight {c : Ctx} {fm : List FirstSet} {E : Nat → Sym Nat Nat → Prop} {b : Builder} {tgt : State}
    (inv : BInv c fm E b) (hg : Good c fm tgt) (hk : ∃ y ∈ tgt, 1 ≤ y.dot) :
    weight c (enqueueStateIfNeeded b tgt).1 ≤ weight c b := by
  have sp := enqueueState_spec inv hg hk
  have hcount : (enqueueStateIfNeeded b tgt).1.states.length ≤ 2 ^ (coreUniv c).length :=
    states_count _ (fun i hi y hy => (sp.good i hi).wf y hy) sp.distinct
  cases hidx0 : indexOfMergable b.states tgt with
  | some i =>
    have hidx := hidx0
    simp only [enqueueStateIfNeeded, hidx0] at hcount ⊢
    unfold indexOfMergable at hidx
    obtain ⟨hi, _, _⟩ := List.findIdx?_eq_some_iff_getElem.mp hidx
    have hgi := inv.good i hi
    have hold : b.states[i]? = some (b.states.getD i []) := by
      rw [List.getD_eq_getElem?_getD, List.getElem?_eq_getElem hi]; rfl
    obtain ⟨l1, l2⟩ := addItems_length tgt ⟨b.states.getD i []⟩ false hgi.sorted
    obtain ⟨a1, a2, _⟩ := addItems_spec tgt ⟨b.states.getD i []⟩ false hgi.sorted
    generalize hres : addItemsIfNeeded ⟨b.states.getD i []⟩ tgt false = res at l1 l2 a1 a2 ⊢
    obtain ⟨new, added⟩ := res
    simp only at l1 l2 a1 a2 ⊢
    -- the merged state is still within the universe
    have hnewU : new.raw.length ≤ (allItems c).length := by
      apply wf_length_le a1
      intro y hy
      rcases (a2 y).mp hy with h | h
      · exact hgi.wf y h
      · exact hg.wf y h
    have hroom := room_set (c := c) (new := new.raw) hold
    have holdU : (b.states.getD i []).length ≤ (allItems c).length := wf_length_le hgi.sorted hgi.wf
    clear hcount
    have l1 : (b.states.getD i []).length ≤ new.raw.length := l1
    have l2 : added = true → false = true ∨ (b.states.getD i []).length < new.raw.length := l2
    have hsl : (b.states.set i new.raw).length = b.states.length := by simp
    cases added with
    | false =>
      show b.queue.length + ((2 ^ (coreUniv c).length - (b.states.set i new.raw).length) * ((allItems c).length + 1) +
        room c (b.states.set i new.raw)) ≤ weight c b
      unfold weight potential
      rw [hsl]
      omega
    | true =>
      show (b.queue ++ [i]).length + ((2 ^ (coreUniv c).length - (b.states.set i new.raw).length) * ((allItems c).length + 1) +
        room c (b.states.set i new.raw)) ≤ weight c b
      unfold weight potential
      rw [hsl, List.length_append, List.length_singleton]
      have := l2 rfl
      rcases this with h | h
      · cases h
      · omega
  | none =>
    -- a new state: there is room for it
    simp only [enqueueStateIfNeeded, hidx0] at hcount ⊢
    simp only [List.length_append, List.length_singleton] at hcount
    show (b.queue ++ [b.states.length]).length + ((2 ^ (coreUniv c).length - (b.states ++ [tgt]).length) *
      ((allItems c).length + 1) + room c (b.states ++ [tgt])) ≤ weight c b
    unfold weight potential
    rw [room_append]
    simp only [List.length_append, List.length_singleton]
    have e : 2 ^ (coreUniv c).length - b.states.length = (2 ^ (coreUniv c).length - (b.states.length + 1)) + 1 := by omega
    rw [e, Nat.add_mul]
    omega

theorem transitionItems_length (c : Ctx) (S : State) (X : Sym Nat Nat) : (transitionItems c S X).length ≤ S.length := by
  unfold transitionItems
  exact List.length_filterMap_le _ _

/-- with enough closure fuel, `enqueue_transition_target` returns, and does not raise the weight -/
theorem enqueueTarget_total {c : Ctx} {fm : List FirstSet} (ok : Assemble.CtxOK c) (hlen : fm.length = c.nN)
    (hfb : FmBound c.nT fm) {E : Nat → Sym Nat Nat → Prop} {b : Builder} {cf i : Nat} {X : Sym Nat Nat}
    (inv : BInv c fm E b) (hi : i < b.states.length) (hX : ∃ x ∈ b.states.getD i [], symRightOfDot c x = some X)
    (hcf : closureFuel c ≤ cf) :
    ∃ b', enqueueTransitionTarget c fm cf b i X = some (some b') ∧ weight c b' ≤ weight c b := by
  have hgi := inv.good i hi
  have hKw : ∀ y ∈ transitionItems c (b.states.getD i []) X, WfItem c y := by
    intro y hy
    obtain ⟨x, hx, hs, rfl⟩ := mem_transitionItems.mp hy
    obtain ⟨w1, w2, w3⟩ := hgi.wf x hx
    refine ⟨w1, ?_, w3⟩
    unfold symRightOfDot at hs
    have := (List.getElem?_eq_some_iff.mp hs).1
    simp only
    omega
  have hterm : closureLoop c fm cf (transitionItems c (b.states.getD i []) X) Oset.new ≠ none := by
    apply closureLoop_terminates ok hlen hfb cf _ _ List.Pairwise.nil (by intro y hy; cases hy) hKw
    unfold closureMeasure closureFuel at *
    have h1 := transitionItems_length c (b.states.getD i []) X
    have h2 := wf_length_le hgi.sorted hgi.wf
    simp only [Oset.new, List.length_nil, Nat.sub_zero]
    omega
  have hnp := NoPanic.closureLoop_no_panic ok hlen cf (transitionItems c (b.states.getD i []) X) Oset.new (fm := fm)
  cases hcl : closureLoop c fm cf (transitionItems c (b.states.getD i []) X) Oset.new with
  | none => exact absurd hcl hterm
  | some r =>
    cases r with
    | none => exact absurd hcl hnp
    | some tgt =>
      obtain ⟨hg, hk, _⟩ := good_of_closure ok.terms hfb hcl hX hgi.wf
      have hw := enqueueState_weight inv hg hk
      unfold enqueueTransitionTarget
      simp only [hcl]
      exact ⟨_, rfl, hw⟩

theorem enqueueTargets_total {c : Ctx} {fm : List FirstSet} (ok : Assemble.CtxOK c) (hlen : fm.length = c.nN)
    (hfb : FmBound c.nT fm) {E0 : Nat → Sym Nat Nat → Prop} {cf i : Nat} (hcf : closureFuel c ≤ cf) :
    ∀ (ks : List Nat) (b : Builder),
      BInv c fm (fun i' X' => E0 i' X' ∨ (i' = i ∧ ∃ k ∈ ks, X' = keySym c k)) b → i < b.states.length →
      (∀ k ∈ ks, ∃ x ∈ b.states.getD i [], symRightOfDot c x = some (keySym c k)) →
      ∃ b', enqueueTargets c fm cf i ks b = some (some b') ∧ weight c b' ≤ weight c b := by
  intro ks
  induction ks with
  | nil => intro b _ _ _; exact ⟨b, rfl, Nat.le_refl _⟩
  | cons k ks ih =>
    intro b inv hi hks
    obtain ⟨b1, hstep, hw1⟩ := enqueueTarget_total ok hlen hfb inv hi (hks k List.mem_cons_self) hcf
    obtain ⟨inv1, hlen1, hmono⟩ := enqueueTarget_spec ok.terms hfb
      (E' := fun i' X' => E0 i' X' ∨ (i' = i ∧ ∃ k ∈ ks, X' = keySym c k)) inv hi (hks k List.mem_cons_self) hstep (by
        intro i' X' hE
        rcases hE with h | ⟨rfl, k', hk', rfl⟩
        · exact Or.inl (Or.inl h)
        · rcases List.mem_cons.mp hk' with rfl | hk'
          · exact Or.inr ⟨rfl, rfl⟩
          · exact Or.inl (Or.inr ⟨rfl, k', hk', rfl⟩))
    obtain ⟨b', hrest, hw2⟩ := ih b1 inv1 (Nat.lt_of_lt_of_le hi hlen1) (by
      intro k' hk'
      obtain ⟨x, hx, hs⟩ := hks k' (List.mem_cons_of_mem _ hk')
      exact ⟨x, hmono i hi x hx, hs⟩)
    refine ⟨b', ?_, Nat.le_trans hw2 hw1⟩
    simp only [enqueueTargets, hstep]
    exact hrest

/-- **the worklist terminates** -/
theorem buildLoop_terminates {c : Ctx} {fm : List FirstSet} (ok : Assemble.CtxOK c) (hlen : fm.length = c.nN)
    (hfb : FmBound c.nT fm) {cf : Nat} (hcf : closureFuel c ≤ cf) :
    ∀ (k : Nat) (b : Builder), BInv c fm (fun _ _ => False) b → weight c b < k →
      ∃ b', buildLoop c fm cf k b = some (some b') := by
  intro k
  induction k with
  | zero => intro b _ h; omega
  | succ k ih =>
    intro b inv hk
    obtain ⟨states, trans, queue⟩ := b
    cases queue with
    | nil => exact ⟨_, rfl⟩
    | cons i q =>
      have hi : i < states.length := inv.queue i List.mem_cons_self
      have inv0 : BInv c fm (fun i' X' => False ∨ (i' = i ∧ ∃ k ∈ symbolsRightOfDot c (states.getD i []), X' = keySym c k))
          ⟨states, trans, q⟩ :=
        { nonempty := inv.nonempty
          good := inv.good
          queue := fun k hk => inv.queue k (List.mem_cons_of_mem _ hk)
          trans := inv.trans
          zero := inv.zero
          aug := inv.aug
          hasStart := inv.hasStart
          zcore := inv.zcore
          inhabited := inv.inhabited
          just := inv.just
          distinct := inv.distinct
          tcore := inv.tcore
          func := inv.func
          done := by
            intro i' hi' hq X' hX'
            by_cases e : i' = i
            · subst e
              obtain ⟨x, hx, hs⟩ := hX'
              exact Or.inl (Or.inr ⟨rfl, symKey c X', mem_symbolsRightOfDot.mpr ⟨x, hx, X', hs, rfl⟩,
                (keySym_symKey ok.terms hs).symm⟩)
            · have : i' ∉ i :: q := by
                intro hm
                rcases List.mem_cons.mp hm with h | h
                · exact e h
                · exact hq h
              rcases inv.done i' hi' this X' hX' with h | h
              · exact absurd h id
              · exact Or.inr h }
      have hks : ∀ k ∈ symbolsRightOfDot c (states.getD i []),
          ∃ x ∈ (⟨states, trans, q⟩ : Builder).states.getD i [], symRightOfDot c x = some (keySym c k) := by
        intro k hk
        obtain ⟨x, hx, X, hs, rfl⟩ := mem_symbolsRightOfDot.mp hk
        exact ⟨x, hx, by rw [keySym_symKey ok.terms hs]; exact hs⟩
      obtain ⟨b1, hstep, hw⟩ := enqueueTargets_total ok hlen hfb (E0 := fun _ _ => False) hcf _ _ inv0 hi hks
      have inv1 := enqueueTargets_spec ok.terms hfb (E0 := fun _ _ => False) _ _ _ inv0 hi hks hstep
      have hw0 : weight c ⟨states, trans, q⟩ + 1 = weight c ⟨states, trans, i :: q⟩ := by
        unfold weight potential
        simp only [List.length_cons]
        omega
      obtain ⟨b', hb'⟩ := ih b1 inv1 (by omega)
      refine ⟨b', ?_⟩
      simp only [buildLoop, hstep]
      exact hb'

/-- fuel that is always enough for `validated_ast_to_machine` -/
def genFuel (c : Ctx) : Nat :=
  c.nN * (c.nT + 1) + closureFuel c + 2 ^ (coreUniv c).length * ((allItems c).length + 1) + 2

/-- **`validated_ast_to_machine` terminates, every grammar**: with any fuel from `genFuel c` on, the model returns
a machine (never "out of fuel", never a panic) -/
theorem machineOf_terminates {c : Ctx} (ok : Assemble.CtxOK c) (fuel : Nat) (h : genFuel c ≤ fuel) :
    ∃ m, machineOf c fuel = some (some m) := by
  unfold genFuel at h
  have hf1 : firstSets c fuel ≠ none := firstSets_terminates ok fuel (by omega)
  have hf2 := NoPanic.firstSets_no_panic ok fuel
  cases hfm : firstSets c fuel with
  | none => exact absurd hfm hf1
  | some r =>
    cases r with
    | none => exact absurd hfm hf2
    | some fm =>
      have hlen : fm.length = c.nN := (firstSets_closed hfm).2.1
      have hfb := firstSets_bound ok.terms hfm
      have hcf : closureFuel c ≤ fuel := by omega
      -- the start state
      have hstartw : WfItem c (startItem c) := ⟨Nat.le_refl _, Nat.zero_le _, Nat.le_refl _⟩
      have hs1 : closureLoop c fm fuel [startItem c] Oset.new ≠ none := by
        apply closureLoop_terminates ok hlen hfb fuel _ _ List.Pairwise.nil (by intro y hy; cases hy)
          (by intro y hy; simp at hy; subst hy; exact hstartw)
        unfold closureMeasure closureFuel at *
        simp only [Oset.new, List.length_nil, Nat.sub_zero, List.length_singleton]
        have : 1 ≤ (allItems c).length := List.length_pos_of_mem (mem_allItems hstartw)
        omega
      have hs2 := NoPanic.closureLoop_no_panic ok hlen fuel [startItem c] Oset.new (fm := fm)
      cases hst : closureLoop c fm fuel [startItem c] Oset.new with
      | none => exact absurd hst hs1
      | some r =>
        cases r with
        | none => exact absurd hst hs2
        | some start =>
          obtain ⟨inv0, _⟩ := initial_inv ok.terms hfb hst
          have hw : weight c ⟨[start], [], [0]⟩ < fuel := by
            unfold weight potential room
            simp only [List.length_singleton, List.map_cons, List.map_nil, List.sum_cons, List.sum_nil]
            have h1 : (2 ^ (coreUniv c).length - 1) * ((allItems c).length + 1) ≤
                2 ^ (coreUniv c).length * ((allItems c).length + 1) := Nat.mul_le_mul_right _ (Nat.sub_le _ _)
            have h2 : (allItems c).length - start.length ≤ (allItems c).length := Nat.sub_le _ _
            have h3 : (allItems c).length ≤ closureFuel c := by unfold closureFuel; omega
            omega
          obtain ⟨b, hb⟩ := buildLoop_terminates ok hlen hfb hcf fuel _ inv0 hw
          obtain ⟨inv, _⟩ := buildLoop_spec ok.terms hfb _ _ _ inv0 hb
          obtain ⟨m, hm⟩ := NoPanic.normalize_some inv.nonempty
            (fun t ht => ⟨(inv.trans t ht).frm, (inv.trans t ht).to⟩)
          refine ⟨m, ?_⟩
          have hst' : closureLoop c fm fuel [⟨c.numRules, c.nT, 0⟩] Oset.new = some (some start) := hst
          unfold machineOf
          simp only [hfm, hst', hb, hm]

end Machine
end KikiVerif
