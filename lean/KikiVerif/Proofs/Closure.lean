/-
`get_closure` (`validated_ast_to_machine/mod.rs`): when the loop returns, its result
  * contains the kernel it was started with,
  * is closed under `get_closure_implied_items`,
  * contains nothing but what the kernel generates (`Reach`), and
  * is a strictly ascending vector (the `Oset` invariant).
-/
import KikiVerif.Model.Machine
import KikiVerif.Proofs.Oset

set_option linter.unusedSimpArgs false
set_option linter.unusedVariables false

namespace KikiVerif
namespace Machine
open LR (Sym Rule Grammar)
open Std

/-! ### the derived order on items is a lawful total order -/

theorem compare_item_def (a b : Item) :
    compare a b = (compare a.rule b.rule).then ((compare a.la b.la).then (compare a.dot b.dot)) := rfl

instance : TransOrd Item :=
  inferInstanceAs (TransCmp (compareLex (compareOn (fun x : Item => x.rule)) (compareLex (compareOn (fun x : Item => x.la)) (compareOn (fun x : Item => x.dot)))))

instance : LawfulEqOrd Item where
  compare_self {a} := by simp [compare_item_def]
  eq_of_compare {a b} h := by
    rw [compare_item_def] at h
    simp only [Ordering.then_eq_eq, compare_eq_iff_eq] at h
    obtain ⟨h1, h2, h3⟩ := h
    cases a; cases b; simp_all

/-! ### the loop -/

/-- items generated from a kernel by repeated implication -/
inductive Reach (c : Ctx) (fm : List FirstSet) (K : List Item) : Item → Prop
  | kernel {x} : x ∈ K → Reach c fm K x
  | step {x y imp} : Reach c fm K x → impliedItems c fm x = some imp → y ∈ imp → Reach c fm K y

/-- closed under `get_closure_implied_items` -/
def Closed (c : Ctx) (fm : List FirstSet) (S : List Item) : Prop :=
  ∀ x ∈ S, ∀ imp, impliedItems c fm x = some imp → ∀ y ∈ imp, y ∈ S

structure LoopInv (c : Ctx) (fm : List FirstSet) (K : List Item) (queue : List Item) (acc : Oset Item) : Prop where
  sorted : Oset.Sorted acc.raw
  kernel : ∀ x ∈ K, x ∈ acc.raw ∨ x ∈ queue
  closed : ∀ x ∈ acc.raw, ∀ imp, impliedItems c fm x = some imp → ∀ y ∈ imp, y ∈ acc.raw ∨ y ∈ queue
  reach : ∀ y, y ∈ acc.raw ∨ y ∈ queue → Reach c fm K y
  gen : ∀ y, y ∈ acc.raw ∨ y ∈ queue → y ∈ K ∨ ∃ x ∈ acc.raw, ∃ imp, impliedItems c fm x = some imp ∧ y ∈ imp
  total : ∀ x ∈ acc.raw, ∃ imp, impliedItems c fm x = some imp

theorem closureLoop_inv (c : Ctx) (fm : List FirstSet) (K : List Item) :
    ∀ (fuel : Nat) (queue : List Item) (acc : Oset Item) (S : State), LoopInv c fm K queue acc →
      closureLoop c fm fuel queue acc = some (some S) →
      Oset.Sorted S ∧ (∀ x ∈ K, x ∈ S) ∧ Closed c fm S ∧ (∀ y ∈ S, Reach c fm K y) ∧
        (∀ y ∈ S, y ∈ K ∨ ∃ x ∈ S, ∃ imp, impliedItems c fm x = some imp ∧ y ∈ imp) ∧
        ∀ x ∈ S, ∃ imp, impliedItems c fm x = some imp := by
  intro fuel
  induction fuel with
  | zero => intro queue acc S _ h; simp [closureLoop] at h
  | succ k ih =>
    intro queue acc S inv h
    cases queue with
    | nil =>
      simp only [closureLoop] at h
      cases h
      refine ⟨inv.sorted, ?_, ?_, ?_, ?_, inv.total⟩
      · intro x hx
        rcases inv.kernel x hx with h | h
        · exact h
        · cases h
      · intro x hx imp himp y hy
        rcases inv.closed x hx imp himp y hy with h | h
        · exact h
        · cases h
      · intro y hy; exact inv.reach y (Or.inl hy)
      · intro y hy; exact inv.gen y (Or.inl hy)
    | cons q qs =>
      simp only [closureLoop] at h
      split at h
      · -- already present
        rename_i hc
        have hq : q ∈ acc.raw := (Oset.contains_iff acc q inv.sorted).mp hc
        refine ih qs acc S ⟨inv.sorted, ?_, ?_, ?_, ?_, inv.total⟩ h
        · intro x hx
          rcases inv.kernel x hx with h | h
          · exact Or.inl h
          · rcases List.mem_cons.mp h with rfl | h
            · exact Or.inl hq
            · exact Or.inr h
        · intro x hx imp himp y hy
          rcases inv.closed x hx imp himp y hy with h | h
          · exact Or.inl h
          · rcases List.mem_cons.mp h with rfl | h
            · exact Or.inl hq
            · exact Or.inr h
        · intro y hy
          rcases hy with hy | hy
          · exact inv.reach y (Or.inl hy)
          · exact inv.reach y (Or.inr (List.mem_cons_of_mem _ hy))
        · intro y hy
          rcases hy with hy | hy
          · exact inv.gen y (Or.inl hy)
          · exact inv.gen y (Or.inr (List.mem_cons_of_mem _ hy))
      · rename_i hc
        split at h
        · cases h
        · rename_i imp himp
          have hmem : ∀ y, y ∈ (acc.insert q).raw ↔ y = q ∨ y ∈ acc.raw := fun y => Oset.mem_insert acc q y inv.sorted
          refine ih (qs ++ imp) (acc.insert q) S ⟨Oset.insert_sorted acc q inv.sorted, ?_, ?_, ?_, ?_, ?_⟩ h
          · intro x hx
            rcases inv.kernel x hx with h | h
            · exact Or.inl ((hmem x).mpr (Or.inr h))
            · rcases List.mem_cons.mp h with rfl | h
              · exact Or.inl ((hmem _).mpr (Or.inl rfl))
              · exact Or.inr (List.mem_append_left _ h)
          · intro x hx imp' himp' y hy
            rcases (hmem x).mp hx with rfl | hx
            · rw [himp] at himp'
              cases himp'
              exact Or.inr (List.mem_append_right _ hy)
            · rcases inv.closed x hx imp' himp' y hy with h | h
              · exact Or.inl ((hmem y).mpr (Or.inr h))
              · rcases List.mem_cons.mp h with rfl | h
                · exact Or.inl ((hmem _).mpr (Or.inl rfl))
                · exact Or.inr (List.mem_append_left _ h)
          · intro y hy
            rcases hy with hy | hy
            · rcases (hmem y).mp hy with rfl | hy
              · exact inv.reach _ (Or.inr List.mem_cons_self)
              · exact inv.reach y (Or.inl hy)
            · rcases List.mem_append.mp hy with hy | hy
              · exact inv.reach y (Or.inr (List.mem_cons_of_mem _ hy))
              · exact .step (inv.reach q (Or.inr List.mem_cons_self)) himp hy
          · have lift : ∀ y, (y ∈ K ∨ ∃ x ∈ acc.raw, ∃ imp, impliedItems c fm x = some imp ∧ y ∈ imp) →
                (y ∈ K ∨ ∃ x ∈ (acc.insert q).raw, ∃ imp, impliedItems c fm x = some imp ∧ y ∈ imp) := by
              intro y hy
              rcases hy with hy | ⟨x, hx, imp', hi, hy⟩
              · exact Or.inl hy
              · exact Or.inr ⟨x, (hmem x).mpr (Or.inr hx), imp', hi, hy⟩
            intro y hy
            rcases hy with hy | hy
            · rcases (hmem y).mp hy with rfl | hy
              · exact lift _ (inv.gen _ (Or.inr List.mem_cons_self))
              · exact lift _ (inv.gen y (Or.inl hy))
            · rcases List.mem_append.mp hy with hy | hy
              · exact lift _ (inv.gen y (Or.inr (List.mem_cons_of_mem _ hy)))
              · exact Or.inr ⟨q, (hmem q).mpr (Or.inl rfl), imp, himp, hy⟩
          · intro x hx
            rcases (hmem x).mp hx with rfl | hx
            · exact ⟨imp, himp⟩
            · exact inv.total x hx

/-- **`get_closure`, every grammar, every kernel**: the result is sorted, contains the kernel, is closed under
implication and contains only what the kernel generates -/
theorem closure_spec {c : Ctx} {fm : List FirstSet} {K : List Item} {fuel : Nat} {S : State}
    (h : closureLoop c fm fuel K Oset.new = some (some S)) :
    Oset.Sorted S ∧ (∀ x ∈ K, x ∈ S) ∧ Closed c fm S ∧ (∀ y ∈ S, Reach c fm K y) ∧
      (∀ y ∈ S, y ∈ K ∨ ∃ x ∈ S, ∃ imp, impliedItems c fm x = some imp ∧ y ∈ imp) ∧
      ∀ x ∈ S, ∃ imp, impliedItems c fm x = some imp := by
  refine closureLoop_inv c fm K fuel K Oset.new S ⟨List.Pairwise.nil, ?_, ?_, ?_, ?_, ?_⟩ h
  · intro x hx; exact Or.inr hx
  · intro x hx; cases hx
  · intro y hy
    rcases hy with hy | hy
    · cases hy
    · exact .kernel hy
  · intro y hy
    rcases hy with hy | hy
    · cases hy
    · exact Or.inl hy
  · intro x hx; cases hx

end Machine
end KikiVerif
