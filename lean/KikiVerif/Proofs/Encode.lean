/-
`Encode.encode`: the coded grammar it produces is well-formed (`CtxOK`): every terminal code is below `nT`,
every nonterminal code below `nN` — the premise of the generator theorem, for every validated file.
-/
import KikiVerif.Model.Encode
import KikiVerif.Proofs.Assemble
import KikiVerif.Proofs.Emit

set_option linter.unusedSimpArgs false
set_option linter.unusedVariables false

namespace KikiVerif
namespace Encode
open Machine LR

theorem mapM_mem {α β : Type} (f : α → Option β) : ∀ (l : List α) (r : List β), l.mapM f = some r →
    ∀ y ∈ r, ∃ x ∈ l, f x = some y := by
  intro l
  induction l with
  | nil => intro r h y hy; simp at h; subst h; cases hy
  | cons x xs ih =>
    intro r h y hy
    obtain ⟨y0, ys, h1, h2, rfl⟩ := mapM_option_cons f x xs r h
    rcases List.mem_cons.mp hy with rfl | hy
    · exact ⟨x, List.mem_cons_self, h1⟩
    · obtain ⟨x', hx', hf⟩ := ih ys h2 y hy
      exact ⟨x', List.mem_cons_of_mem _ hx', hf⟩

theorem idxOf_lt {l : List Str} {a : Str} {i : Nat} (h : l.idxOf? a = some i) : i < l.length := by
  obtain ⟨hlt, _⟩ := List.idxOf?_eq_some_iff.mp h
  exact hlt

def symLt (nT nN : Nat) : Sym Nat Nat → Prop
  | .t a => a < nT
  | .n b => b < nN

theorem codeSym_bound {ts ns : List Str} {s : Ast.SymId} {X : Sym Nat Nat} (h : codeSym ts ns s = some X) :
    symLt ts.length ns.length X := by
  cases s with
  | t i =>
    simp only [codeSym] at h
    cases hi : ts.idxOf? i.name with
    | none => rw [hi] at h; cases h
    | some k => rw [hi] at h; cases h; exact idxOf_lt hi
  | n i =>
    simp only [codeSym] at h
    cases hi : ns.idxOf? i.name with
    | none => rw [hi] at h; cases h
    | some k => rw [hi] at h; cases h; exact idxOf_lt hi

theorem codeRule_bound {ts ns : List Str} {vr : VFile.Rule} {r : Rule Nat Nat} (h : codeRule ts ns vr = some r) :
    r.lhs < ns.length ∧ ∀ X ∈ r.rhs, symLt ts.length ns.length X := by
  unfold codeRule at h
  split at h
  · rename_i lhs rhs hl hr
    cases h
    refine ⟨idxOf_lt hl, ?_⟩
    intro X hX
    obtain ⟨sy, _, hsy⟩ := mapM_mem _ _ _ hr X hX
    exact codeSym_bound hsy
  · cases h

/-- **every validated file that can be coded gives a well-formed coded grammar** -/
theorem encode_ok {f : VFile.File} {enc : Enc} (h : encode f = some enc) : Assemble.CtxOK enc.ctx := by
  unfold encode at h
  simp only at h
  split at h
  · rename_i rules start tdecl ndecl hrules hstart _ _
    cases h
    have hrule : ∀ r ∈ rules, r.lhs < (sortNames (f.nonterminals.map (·.name))).length ∧
        ∀ X ∈ r.rhs, symLt (sortNames (f.tenum.variants.map (·.name))).length
          (sortNames (f.nonterminals.map (·.name))).length X := by
      intro r hr
      obtain ⟨vr, _, hvr⟩ := mapM_mem _ _ _ hrules r hr
      exact codeRule_bound hvr
    exact
      { terms := fun r hr a ha => (hrule r hr).2 _ ha
        start := idxOf_lt hstart
        lhs := fun r hr => (hrule r hr).1
        nts := fun r hr b hb => (hrule r hr).2 _ hb }
  · cases h

end Encode
end KikiVerif

namespace KikiVerif
namespace Encode
open Machine LR

/-! ### the coded grammar is the declared grammar, names replaced by their ranks -/

theorem mapM_get {α β : Type} (f : α → Option β) : ∀ (l : List α) (r : List β), l.mapM f = some r →
    r.length = l.length ∧ ∀ (k : Nat) (x : α), l[k]? = some x → ∃ y, r[k]? = some y ∧ f x = some y := by
  intro l
  induction l with
  | nil => intro r h; simp at h; subst h; exact ⟨rfl, by intro k x hk; simp at hk⟩
  | cons x xs ih =>
    intro r h
    obtain ⟨y0, ys, h1, h2, rfl⟩ := mapM_option_cons f x xs r h
    obtain ⟨hl, hget⟩ := ih ys h2
    refine ⟨by simp [hl], ?_⟩
    intro k x' hk
    cases k with
    | zero => simp at hk; subst hk; exact ⟨y0, by simp, h1⟩
    | succ k => simp at hk; obtain ⟨y, hy, hf⟩ := hget k x' hk; exact ⟨y, by simpa using hy, hf⟩

theorem idxOf_get {l : List Str} {a : Str} {i : Nat} (h : l.idxOf? a = some i) : l[i]? = some a := by
  obtain ⟨hlt, hget, _⟩ := List.idxOf?_eq_some_iff.mp h
  rw [List.getElem?_eq_getElem hlt, hget]

/-- a coded symbol decodes to the symbol it came from -/
def decodesTo (ts ns : List Str) : Ast.SymId → Sym Nat Nat → Prop
  | .t i, .t a => ts[a]? = some i.name
  | .n i, .n b => ns[b]? = some i.name
  | _, _ => False

theorem codeSym_decodes {ts ns : List Str} {s : Ast.SymId} {X : Sym Nat Nat} (h : codeSym ts ns s = some X) :
    decodesTo ts ns s X := by
  cases s with
  | t i =>
    simp only [codeSym] at h
    cases hi : ts.idxOf? i.name with
    | none => rw [hi] at h; cases h
    | some k => rw [hi] at h; cases h; exact idxOf_get hi
  | n i =>
    simp only [codeSym] at h
    cases hi : ns.idxOf? i.name with
    | none => rw [hi] at h; cases h
    | some k => rw [hi] at h; cases h; exact idxOf_get hi

/-- **the name ↔ rank coding is faithful**: rule `j` of the coded grammar is rule `j` of the validated file with
every name replaced by its index in the (strictly ascending, hence duplicate-free) sorted name list — so
decoding the ranks gives back exactly the declared production; the coded start symbol decodes to the declared
start symbol; `nT`, `nN` are the numbers of distinct declared terminal and nonterminal names -/
theorem encode_faithful {f : VFile.File} {enc : Enc} (h : encode f = some enc) :
    Oset.Sorted enc.tsorted ∧ Oset.Sorted enc.nsorted ∧
    (∀ x, x ∈ enc.tsorted ↔ x ∈ f.tenum.variants.map (·.name)) ∧
    (∀ x, x ∈ enc.nsorted ↔ x ∈ f.nonterminals.map (·.name)) ∧
    enc.ctx.nT = enc.tsorted.length ∧ enc.ctx.nN = enc.nsorted.length ∧
    enc.nsorted[enc.ctx.g.start]? = some f.start ∧
    enc.ctx.g.rules.length = f.rules.length ∧
    ∀ (j : Nat) (r : VFile.Rule), f.rules[j]? = some r → ∃ cr : Rule Nat Nat, enc.ctx.g.rules[j]? = some cr ∧
      enc.nsorted[cr.lhs]? = some r.ctor.typeName ∧ cr.rhs.length = r.fieldset.syms.length ∧
      ∀ (k : Nat) (s : Ast.SymId), r.fieldset.syms[k]? = some s →
        ∃ X, cr.rhs[k]? = some X ∧ decodesTo enc.tsorted enc.nsorted s X := by
  unfold encode at h
  simp only at h
  split at h
  · rename_i rules start tdecl ndecl hrules hstart _ _
    cases h
    refine ⟨Oset.ofList_sorted _, Oset.ofList_sorted _, fun x => Oset.mem_ofList _ x, fun x => Oset.mem_ofList _ x,
      rfl, rfl, idxOf_get hstart, (mapM_get _ _ _ hrules).1, ?_⟩
    intro j r hj
    obtain ⟨cr, hcr, hcode⟩ := (mapM_get _ _ _ hrules).2 j r hj
    refine ⟨cr, hcr, ?_⟩
    unfold codeRule at hcode
    split at hcode
    · rename_i lhs rhs hl hr
      cases hcode
      refine ⟨idxOf_get hl, (mapM_get _ _ _ hr).1, ?_⟩
      intro k s hk
      obtain ⟨X, hX, hc⟩ := (mapM_get _ _ _ hr).2 k s hk
      exact ⟨X, hX, codeSym_decodes hc⟩
    · cases hcode
  · cases h

end Encode
end KikiVerif
