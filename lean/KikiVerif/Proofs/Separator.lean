/-
C16, scanner side, as one statement: layout — `White_Space` characters and complete `//` comments — inserted at
any point the scanner passes through (the start of a token, of a whitespace character or of a comment: a *scan
point*) changes nothing but positions: the tokens before the point are the same, with the same positions; what
follows is the same result (tokens or lexical error) with every position moved by the length of the insertion.
-/
import KikiVerif.Proofs.Shift
import KikiVerif.Proofs.Positions

set_option linter.unusedSimpArgs false
set_option linter.unusedVariables false

namespace KikiVerif
namespace Spec
open Text Tokenize

/-! ### character facts -/

theorem ws_not_identChar {c : Char} (h : isWhitespace c = true) : isIdentChar c = false := by
  cases hi : isIdentChar c with
  | false => rfl
  | true =>
    exfalso
    simp only [isIdentChar, isAsciiAlnum, isAsciiAlpha, isAsciiUpper, isAsciiLower, isAsciiDigit, Bool.or_eq_true,
      Bool.and_eq_true, decide_eq_true_eq] at hi
    simp only [isWhitespace, Bool.or_eq_true, Bool.and_eq_true, decide_eq_true_eq, beq_iff_eq] at h
    have e1 : 'A'.toNat = 65 := rfl
    have e2 : 'Z'.toNat = 90 := rfl
    have e3 : 'a'.toNat = 97 := rfl
    have e4 : 'z'.toNat = 122 := rfl
    have e5 : '0'.toNat = 48 := rfl
    have e6 : '9'.toNat = 57 := rfl
    rcases hi with ((⟨h1, h2⟩ | ⟨h1, h2⟩) | ⟨h1, h2⟩) | h3
    · omega
    · omega
    · omega
    · subst h3; revert h; decide

/-- a character that can start layout: whitespace, or the `/` of a comment -/
def isSep (c : Char) : Bool := isWhitespace c || c = '/'

theorem sep_not_identChar {c : Char} (h : isSep c = true) : isIdentChar c = false := by
  simp only [isSep, Bool.or_eq_true, decide_eq_true_eq] at h
  rcases h with h | rfl
  · exact ws_not_identChar h
  · decide

theorem sep_ne_colon {c : Char} (h : isSep c = true) : c ≠ ':' := by
  simp only [isSep, Bool.or_eq_true, decide_eq_true_eq] at h
  rcases h with h | rfl
  · exact (ws_not_special h).2.2.2.1
  · decide

/-! ### layout -/

/-- whitespace characters and complete comments -/
inductive Layout : Str → Prop
  | nil : Layout []
  | ws {c : Char} {L : Str} : isWhitespace c = true → Layout L → Layout (c :: L)
  | comment {body L : Str} : (∀ c ∈ body, c ≠ '\n') → Layout L → Layout ('/' :: '/' :: (body ++ '\n' :: L))

theorem commentLen_line' (body rest : Str) (h : ∀ c ∈ body, c ≠ '\n') :
    commentLen (body ++ '\n' :: rest) = body.length + 1 := by
  induction body with
  | nil => simp [commentLen]
  | cons c cs ih =>
    have hc : c ≠ '\n' := h c (List.mem_cons_self ..)
    simp only [List.cons_append, commentLen, hc, if_false, List.length_cons]
    rw [ih (fun d hd => h d (List.mem_cons_of_mem _ hd))]
    omega

theorem commentLen_open (body : Str) (h : ∀ c ∈ body, c ≠ '\n') : commentLen body = body.length := by
  induction body with
  | nil => rfl
  | cons c cs ih =>
    have hc : c ≠ '\n' := h c (List.mem_cons_self ..)
    simp only [commentLen, hc, if_false, List.length_cons]
    rw [ih (fun d hd => h d (List.mem_cons_of_mem _ hd))]
    omega

theorem next_comment' (r : Str) (i : Nat) : next ('/' :: '/' :: r) i = .skip (1 + commentLen r) := by
  simp [next, show isWhitespace '/' = false from by decide]

/-- a complete comment is skipped; scanning resumes right behind its line break -/
theorem scanFrom_comment (body rest : Str) (i : Nat) (h : ∀ c ∈ body, c ≠ '\n') :
    scanFrom ('/' :: '/' :: (body ++ '\n' :: rest)) i =
      scanFrom rest (i + blen ('/' :: '/' :: (body ++ ['\n']))) := by
  rw [scanFrom_skip (next_comment' _ i), commentLen_line' body rest h]
  have e1 : ('/' :: '/' :: (body ++ '\n' :: rest)).drop (1 + (body.length + 1) + 1) = rest := by
    have : 1 + (body.length + 1) + 1 = (body.length + 1) + 2 := by omega
    rw [this]
    simp only [List.drop_succ_cons]
    have : body ++ '\n' :: rest = (body ++ ['\n']) ++ rest := by simp
    rw [this]
    have : body.length + 1 = (body ++ ['\n']).length := by simp
    rw [this, List.drop_left]
  have e2 : ('/' :: '/' :: (body ++ '\n' :: rest)).take (1 + (body.length + 1) + 1) = '/' :: '/' :: (body ++ ['\n']) := by
    have : 1 + (body.length + 1) + 1 = (body.length + 1) + 2 := by omega
    rw [this]
    simp only [List.take_succ_cons]
    have : body ++ '\n' :: rest = (body ++ ['\n']) ++ rest := by simp
    rw [this]
    have : body.length + 1 = (body ++ ['\n']).length := by simp
    rw [this, List.take_left]
  rw [e1, e2]

/-- leading layout is skipped -/
theorem scanFrom_layout {L : Str} (hL : Layout L) : ∀ (cs : Str) (i : Nat),
    scanFrom (L ++ cs) i = scanFrom cs (i + blen L) := by
  induction hL with
  | nil => intro cs i; simp
  | @ws c L hc _ ih =>
    intro cs i
    have hn := next_whitespace c (L ++ cs) i hc
    rw [List.cons_append, scanFrom_skip hn]
    simp only [List.drop_succ_cons, List.drop_zero, List.take_succ_cons, List.take_zero, blen_cons, blen_nil, Nat.add_zero]
    rw [ih cs (i + clen c)]
    congr 1
    omega
  | @comment body L hb _ ih =>
    intro cs i
    have e : '/' :: '/' :: (body ++ '\n' :: L) ++ cs = '/' :: '/' :: (body ++ '\n' :: (L ++ cs)) := by simp
    rw [e, scanFrom_comment body (L ++ cs) i hb, ih]
    congr 1
    simp only [blen_cons, blen_append, blen_nil]
    omega

theorem layout_head {L : Str} (hL : Layout L) : L = [] ∨ ∃ w r, L = w :: r ∧ isSep w = true := by
  cases hL with
  | nil => exact Or.inl rfl
  | ws hc _ => exact Or.inr ⟨_, _, rfl, by simp [isSep, hc]⟩
  | comment _ _ => exact Or.inr ⟨_, _, rfl, by decide⟩

/-! ### locality of one scanner step -/

/-- the inside of an attribute is delimited by its own brackets: what follows does not matter -/
theorem attrBody_local : ∀ (r : Str) (j : Nat) (st : List Char) (body post : Str),
    attrBody r j st = .done body post →
    r = body ++ post ∧ ∀ post', attrBody (body ++ post') j st = .done body post' := by
  intro r
  induction r with
  | nil => intro j st body post h; simp [attrBody] at h
  | cons c cs ih =>
    intro j st body post h
    simp only [attrBody] at h
    by_cases ho : isOpen c = true
    · rw [if_pos ho] at h
      cases hr : attrBody cs (j + clen c) (c :: st) with
      | bad a b => rw [hr] at h; cases h
      | done b r' =>
        rw [hr] at h
        simp only [AttrRes.done.injEq] at h
        obtain ⟨rfl, rfl⟩ := h
        obtain ⟨e, hl⟩ := ih _ _ _ _ hr
        refine ⟨by rw [e]; rfl, fun post' => ?_⟩
        simp only [List.cons_append, attrBody, if_pos ho, hl post']
    · rw [if_neg ho] at h
      by_cases hc : isClose c = true
      · rw [if_pos hc] at h
        cases st with
        | nil => cases h
        | cons o st' =>
          simp only at h
          by_cases hcl : closes o c = true
          · rw [if_pos hcl] at h
            by_cases he : st'.isEmpty = true
            · rw [if_pos he] at h
              simp only [AttrRes.done.injEq] at h
              obtain ⟨rfl, rfl⟩ := h
              refine ⟨rfl, fun post' => ?_⟩
              simp only [List.cons_append, List.nil_append, attrBody, if_neg ho, if_pos hc, if_pos hcl, if_pos he]
            · rw [if_neg he] at h
              cases hr : attrBody cs (j + clen c) st' with
              | bad a b => rw [hr] at h; cases h
              | done b r' =>
                rw [hr] at h
                simp only [AttrRes.done.injEq] at h
                obtain ⟨rfl, rfl⟩ := h
                obtain ⟨e, hl⟩ := ih _ _ _ _ hr
                refine ⟨by rw [e]; rfl, fun post' => ?_⟩
                simp only [List.cons_append, attrBody, if_neg ho, if_pos hc, if_pos hcl, if_neg he, hl post']
          · rw [if_neg hcl] at h; cases h
      · rw [if_neg hc] at h
        by_cases hn : c = '\n'
        · rw [if_pos hn] at h; cases h
        · rw [if_neg hn] at h
          cases hr : attrBody cs (j + clen c) st with
          | bad a b => rw [hr] at h; cases h
          | done b r' =>
            rw [hr] at h
            simp only [AttrRes.done.injEq] at h
            obtain ⟨rfl, rfl⟩ := h
            obtain ⟨e, hl⟩ := ih _ _ _ _ hr
            refine ⟨by rw [e]; rfl, fun post' => ?_⟩
            simp only [List.cons_append, attrBody, if_neg ho, if_neg hc, if_neg hn, hl post']

/-- the longest prefix of identifier characters is determined by the prefix and the character behind it -/
theorem span_local (p : Char → Bool) : ∀ (a b b' : Str), (∀ c ∈ a, p c = true) →
    (∀ d r, b = d :: r → p d = false) → (∀ d r, b' = d :: r → p d = false) →
    (span p (a ++ b)).1 = a ∧ (span p (a ++ b')).1 = a := by
  intro a
  induction a with
  | nil =>
    intro b b' _ hb hb'
    constructor
    · cases b with
      | nil => rfl
      | cons d r => simp [span, hb d r rfl]
    · cases b' with
      | nil => rfl
      | cons d r => simp [span, hb' d r rfl]
  | cons c a ih =>
    intro b b' ha hb hb'
    have hc := ha c List.mem_cons_self
    obtain ⟨h1, h2⟩ := ih b b' (fun x hx => ha x (List.mem_cons_of_mem _ hx)) hb hb'
    simp [span, hc, h1, h2]

theorem commentLen_take : ∀ (r r' : Str), '\n' ∈ r → r'.take (commentLen r) = r.take (commentLen r) →
    commentLen r' = commentLen r := by
  intro r
  induction r with
  | nil => intro r' h; simp at h
  | cons x xs ih =>
    intro r' hmem ht
    by_cases hx : x = '\n'
    · subst hx
      simp only [commentLen, if_true] at ht ⊢
      cases r' with
      | nil => simp at ht
      | cons y ys =>
        simp only [List.take_succ_cons, List.take_zero, List.cons.injEq, and_true] at ht
        subst ht
        simp [commentLen]
    · have hmem' : '\n' ∈ xs := by
        rcases List.mem_cons.mp hmem with h | h
        · exact absurd h.symm hx
        · exact h
      simp only [commentLen, hx, if_false] at ht ⊢
      cases r' with
      | nil => simp [Nat.add_comm 1] at ht
      | cons y ys =>
        have e : 1 + commentLen xs = commentLen xs + 1 := Nat.add_comm _ _
        rw [e] at ht
        simp only [List.take_succ_cons, List.cons.injEq] at ht
        obtain ⟨rfl, ht⟩ := ht
        simp only [commentLen, hx, if_false]
        rw [ih ys hmem' ht]

/-- what may stand behind a finished step without changing it: the same next character (or the end of the
input in both), or a character that starts layout -/
def Follows (a b : Str) : Prop := a.head? = b.head? ∨ ∃ w r, b = w :: r ∧ isSep w = true

theorem follows_not_p {p : Char → Bool} {a b : Str} (hf : Follows a b) (hsep : ∀ w, isSep w = true → p w = false)
    (ha : ∀ d r, a = d :: r → p d = false) : ∀ d r, b = d :: r → p d = false := by
  intro d r hb
  rcases hf with h | ⟨w, r', hb', hw⟩
  · cases a with
    | nil => rw [hb] at h; simp at h
    | cons x xs =>
      rw [hb] at h
      simp only [List.head?_cons, Option.some.injEq] at h
      subst h
      exact ha x xs rfl
  · rw [hb] at hb'
    cases hb'
    exact hsep _ hw

theorem drop_span (p : Char → Bool) (l : Str) : l.drop (span p l).1.length = (span p l).2 := by
  have := congrArg (List.drop (span p l).1.length) (span_append p l)
  rw [List.drop_left] at this
  exact this.symm

theorem take_eq_append {α : Type} {l a : List α} {n : Nat} (h : l.take n = a) (hn : a.length = n) : l = a ++ l.drop n := by
  rw [← h, List.take_append_drop]

/-- **one scanner step is local**: it is determined by the characters it consumes and by whether the character
behind them continues it — the same next character, or one that starts layout, leaves the step as it is (except
a comment that runs to the end of the input, which swallows whatever is put behind it) -/
theorem next_local (c : Char) (rest rest' : Str) (i k : Nat)
    (hstep : next (c :: rest) i = .skip k ∨ ∃ t, next (c :: rest) i = .emit t k)
    (htake : rest'.take k = rest.take k)
    (hf : Follows (rest.drop k) (rest'.drop k))
    (hopen : ¬ ∃ body, c :: rest = '/' :: '/' :: body ∧ ∀ x ∈ body, x ≠ '\n') :
    next (c :: rest') i = next (c :: rest) i := by
  by_cases hw : isWhitespace c = true
  · rw [next_whitespace c rest i hw, next_whitespace c rest' i hw]
  have hw' : isWhitespace c = false := by simpa using hw
  by_cases hsl : c = '/'
  · -- a comment
    subst hsl
    cases rest with
    | nil => rcases hstep with h | ⟨t, h⟩ <;> simp [next, hw'] at h
    | cons d r =>
      by_cases hd : d = '/'
      · subst hd
        have hn := next_comment' r i
        have hk : k = 1 + commentLen r := by
          rcases hstep with h | ⟨t, h⟩
          · rw [hn] at h; cases h; rfl
          · rw [hn] at h; cases h
        subst hk
        have hmem : '\n' ∈ r := by
          apply Classical.byContradiction
          intro hnm
          exact hopen ⟨r, rfl, fun x hx e => hnm (e ▸ hx)⟩
        have e1 : 1 + commentLen r = commentLen r + 1 := Nat.add_comm _ _
        rw [e1] at htake
        cases rest' with
        | nil => simp at htake
        | cons d' r' =>
          simp only [List.take_succ_cons, List.cons.injEq] at htake
          obtain ⟨rfl, htake⟩ := htake
          rw [next_comment' r' i, hn, commentLen_take r r' hmem htake]
      · rcases hstep with h | ⟨t, h⟩ <;> simp [next, hw', hd] at h
  by_cases hid : isIdentStart c = true
  · -- identifier or reserved word
    have hk : k = (span isIdentChar rest).1.length := by
      rcases hstep with h | ⟨t, h⟩
      · simp [next, hw', hsl, hid] at h
      · simp only [next, hw', hsl, hid, if_true, if_false, Bool.false_eq_true, Step.emit.injEq] at h
        exact h.2.symm
    have ha : rest.take k = (span isIdentChar rest).1 := by rw [hk]; exact take_span isIdentChar rest
    have hr : rest = (span isIdentChar rest).1 ++ rest.drop k := take_eq_append ha (by rw [hk])
    have hr' : rest' = (span isIdentChar rest).1 ++ rest'.drop k := take_eq_append (htake.trans ha) (by rw [hk])
    have hb : ∀ d r, rest.drop k = d :: r → isIdentChar d = false := by
      intro d r hd
      have h2 : (span isIdentChar rest).2 = rest.drop k := by rw [hk]; exact (drop_span isIdentChar rest).symm
      exact span_snd_head isIdentChar rest d r (by rw [h2, hd])
    have hb' := follows_not_p hf (fun w hw => sep_not_identChar hw) hb
    obtain ⟨s1, s2⟩ := span_local isIdentChar (span isIdentChar rest).1 (rest.drop k) (rest'.drop k)
      (span_fst_all isIdentChar rest) hb hb'
    rw [← hr'] at s2
    simp only [next, hw', hsl, hid, if_true, if_false, Bool.false_eq_true, s2]
  by_cases hdol : c = '$'
  · subst hdol
    cases rest with
    | nil => rcases hstep with h | ⟨t, h⟩ <;> simp [next, hw', hid] at h
    | cons d r =>
      by_cases hd : isIdentStart d = true
      · have hres : (reserved (span isIdentChar (d :: r)).1 0).isSome = false := by
          cases hrs : (reserved (span isIdentChar (d :: r)).1 0).isSome with
          | false => rfl
          | true => rcases hstep with h | ⟨t, h⟩ <;> simp [next, hw', hsl, hid, hd, hrs] at h
        have hk : k = (span isIdentChar (d :: r)).1.length := by
          rcases hstep with h | ⟨t, h⟩
          · simp [next, hw', hsl, hid, hd, hres] at h
          · simp only [next, hw', hsl, hid, hd, hres, if_true, if_false, Bool.false_eq_true, Step.emit.injEq] at h
            exact h.2.symm
        have ha : (d :: r).take k = (span isIdentChar (d :: r)).1 := by rw [hk]; exact take_span isIdentChar _
        have hr : d :: r = (span isIdentChar (d :: r)).1 ++ (d :: r).drop k := take_eq_append ha (by rw [hk])
        have hr' : rest' = (span isIdentChar (d :: r)).1 ++ rest'.drop k := take_eq_append (htake.trans ha) (by rw [hk])
        have hb : ∀ x y, (d :: r).drop k = x :: y → isIdentChar x = false := by
          intro x y hd'
          have h2 : (span isIdentChar (d :: r)).2 = (d :: r).drop k := by rw [hk]; exact (drop_span isIdentChar (d :: r)).symm
          exact span_snd_head isIdentChar (d :: r) x y (by rw [h2, hd'])
        have hb' := follows_not_p hf (fun w hw => sep_not_identChar hw) hb
        obtain ⟨s1, s2⟩ := span_local isIdentChar (span isIdentChar (d :: r)).1 ((d :: r).drop k) (rest'.drop k)
          (span_fst_all isIdentChar _) hb hb'
        rw [← hr'] at s2
        -- the first character of `rest'` is `d`
        have hspan : (span isIdentChar (d :: r)).1 = d :: (span isIdentChar r).1 :=
          (span_cons_true isIdentChar d r (identStart_identChar hd)).1
        cases rest' with
        | nil => rw [hspan] at hr'; simp at hr'
        | cons d' r' =>
          have hdd : d' = d := by
            rw [hspan] at hr'
            simp only [List.cons_append, List.cons.injEq] at hr'
            exact hr'.1
          subst hdd
          simp only [next, hw', hsl, hid, hd, if_true, if_false, Bool.false_eq_true, s2, hres]
      · rcases hstep with h | ⟨t, h⟩ <;> simp [next, hw', hsl, hid, hd] at h
  by_cases hcol : c = ':'
  · subst hcol
    cases rest with
    | nil =>
      -- a colon at the end of the input: `k = 0`, and what follows in `rest'` is the end or layout
      have hk : k = 0 := by
        rcases hstep with h | ⟨t, h⟩
        · simp [next, hw', hsl, hid, hdol] at h
        · simp only [next, hw', hsl, hid, hdol, if_true, if_false, Bool.false_eq_true, Step.emit.injEq] at h
          exact h.2.symm
      subst hk
      simp only [List.drop_zero] at hf
      cases rest' with
      | nil => rfl
      | cons d' r' =>
        have hne : d' ≠ ':' := by
          rcases hf with h | ⟨w, r2, e, hs⟩
          · simp at h
          · cases e; exact sep_ne_colon hs
        simp [next, hw', hsl, hid, hdol, hne]
    | cons d r =>
      by_cases hd : d = ':'
      · subst hd
        have hk : k = 1 := by
          rcases hstep with h | ⟨t, h⟩
          · simp [next, hw', hsl, hid, hdol] at h
          · simp only [next, hw', hsl, hid, hdol, if_true, if_false, Bool.false_eq_true, Step.emit.injEq] at h
            exact h.2.symm
        subst hk
        cases rest' with
        | nil => simp at htake
        | cons d' r' =>
          simp only [List.take_succ_cons, List.take_zero, List.cons.injEq, and_true] at htake
          subst htake
          simp [next, hw', hsl, hid, hdol]
      · have hk : k = 0 := by
          rcases hstep with h | ⟨t, h⟩
          · simp [next, hw', hsl, hid, hdol, hd] at h
          · simp only [next, hw', hsl, hid, hdol, hd, if_true, if_false, Bool.false_eq_true, Step.emit.injEq] at h
            exact h.2.symm
        subst hk
        simp only [List.drop_zero] at hf
        cases rest' with
        | nil => simp [next, hw', hsl, hid, hdol, hd]
        | cons d' r' =>
          have hne : d' ≠ ':' := by
            rcases hf with h | ⟨w, r2, e, hs⟩
            · simp only [List.head?_cons, Option.some.injEq] at h; rw [← h]; exact hd
            · cases e; exact sep_ne_colon hs
          simp [next, hw', hsl, hid, hdol, hd, hne]
  by_cases hhash : c = '#'
  · subst hhash
    cases rest with
    | nil => rcases hstep with h | ⟨t, h⟩ <;> simp [next, hw', hsl, hid, hdol, hcol] at h
    | cons d r =>
      by_cases hd : d = '['
      · subst hd
        cases hbody : attrBody r (i + 2) ['['] with
        | bad j ch => rcases hstep with h | ⟨t, h⟩ <;> simp [next, hw', hsl, hid, hdol, hcol, hbody] at h
        | done body post =>
          have hk : k = 1 + body.length := by
            rcases hstep with h | ⟨t, h⟩
            · simp [next, hw', hsl, hid, hdol, hcol, hbody] at h
            · simp only [next, hw', hsl, hid, hdol, hcol, hbody, if_true, if_false, Bool.false_eq_true, Step.emit.injEq] at h
              exact h.2.symm
          subst hk
          obtain ⟨hrb, hloc⟩ := attrBody_local r (i + 2) ['['] body post hbody
          have e1 : 1 + body.length = body.length + 1 := Nat.add_comm _ _
          rw [e1] at htake
          cases rest' with
          | nil => simp at htake
          | cons d' r' =>
            simp only [List.take_succ_cons, List.cons.injEq] at htake
            obtain ⟨rfl, htake⟩ := htake
            have hr' : r' = body ++ r'.drop body.length := by
              apply take_eq_append _ rfl
              rw [htake, hrb, List.take_left]
            have hb' := hloc (r'.drop body.length)
            rw [← hr'] at hb'
            simp only [next, hw', hsl, hid, hdol, hcol, hbody, hb', if_true, if_false, Bool.false_eq_true]
      · rcases hstep with h | ⟨t, h⟩ <;> simp [next, hw', hsl, hid, hdol, hcol, hd] at h
  -- punctuation: one character
  simp only [next, hw', hsl, hid, hdol, hcol, hhash, if_true, if_false, Bool.false_eq_true]

/-! ### scan points -/

/-- scanning `cs` (which starts at offset `i`) emits `ts` and then stands at the suffix `cs'` (offset `i'`):
`cs'` starts at a *scan point* of `cs` — the start of a token, of a whitespace character or of a comment -/
inductive Reach : Str → Nat → List Token → Str → Nat → Prop
  | refl (cs : Str) (i : Nat) : Reach cs i [] cs i
  | skip {cs : Str} {i k : Nat} {ts : List Token} {cs' : Str} {i' : Nat} : next cs i = .skip k →
      Reach (cs.drop (k + 1)) (i + blen (cs.take (k + 1))) ts cs' i' → Reach cs i ts cs' i'
  | emit {cs : Str} {i k : Nat} {t : Token} {ts : List Token} {cs' : Str} {i' : Nat} : next cs i = .emit t k →
      Reach (cs.drop (k + 1)) (i + blen (cs.take (k + 1))) ts cs' i' → Reach cs i (t :: ts) cs' i'

/-- the tokens before the point, then whatever the rest gives -/
def combine (ts : List Token) : Res (List Token) → Res (List Token)
  | .ok ts' => .ok (ts ++ ts')
  | .err e => .err e
  | .panic s => .panic s

theorem reach_scan {cs : Str} {i : Nat} {ts : List Token} {cs' : Str} {i' : Nat} (h : Reach cs i ts cs' i') :
    scanFrom cs i = combine ts (scanFrom cs' i') := by
  induction h with
  | refl cs i => cases scanFrom cs i <;> rfl
  | skip hn _ ih => rw [scanFrom_skip hn, ih]
  | emit hn _ ih => rw [scanFrom_emit hn, ih]; cases scanFrom _ _ <;> rfl

theorem scan_nil (i : Nat) : scanFrom [] i = .ok [] := scanFrom_done rfl

/-- a comment that runs to the end of the input swallows layout put behind it: still no token -/
theorem open_comment_layout {L : Str} (hL : Layout L) : ∀ (body : Str) (i : Nat), (∀ c ∈ body, c ≠ '\n') →
    scanFrom ('/' :: '/' :: (body ++ L)) i = .ok [] := by
  induction hL with
  | nil =>
    intro body i hb
    rw [List.append_nil, scanFrom_skip (next_comment' body i), commentLen_open body hb]
    have e1 : ('/' :: '/' :: body).drop (1 + body.length + 1) = [] := by
      have : 1 + body.length + 1 = body.length + 2 := by omega
      rw [this]; simp
    rw [e1]
    exact scan_nil _
  | @ws c L hc hL' ih =>
    intro body i hb
    by_cases hn : c = '\n'
    · subst hn
      rw [scanFrom_comment body L i hb]
      have := scanFrom_layout hL' [] (i + blen ('/' :: '/' :: (body ++ ['\n'])))
      rw [List.append_nil] at this
      rw [this]
      exact scan_nil _
    · have e : body ++ c :: L = (body ++ [c]) ++ L := by simp
      rw [e]
      exact ih (body ++ [c]) i (fun x hx => by
        rcases List.mem_append.mp hx with h | h
        · exact hb x h
        · simp only [List.mem_singleton] at h; rw [h]; exact hn)
  | @comment b L hb' hL' _ =>
    intro body i hb
    have e : body ++ '/' :: '/' :: (b ++ '\n' :: L) = (body ++ '/' :: '/' :: b) ++ '\n' :: L := by simp
    rw [e, scanFrom_comment (body ++ '/' :: '/' :: b) L i (fun x hx => by
      rcases List.mem_append.mp hx with h | h
      · exact hb x h
      · rcases List.mem_cons.mp h with h | h
        · rw [h]; decide
        · rcases List.mem_cons.mp h with h | h
          · rw [h]; decide
          · exact hb' x h)]
    have := scanFrom_layout hL' [] (i + blen ('/' :: '/' :: ((body ++ '/' :: '/' :: b) ++ ['\n'])))
    rw [List.append_nil] at this
    rw [this]
    exact scan_nil _

theorem reach_nil {i : Nat} {ts : List Token} {cs' : Str} {i' : Nat} (h : Reach [] i ts cs' i') :
    ts = [] ∧ cs' = [] := by
  generalize hc : ([] : Str) = cs at h
  cases h with
  | refl => subst hc; exact ⟨rfl, rfl⟩
  | skip hn _ => subst hc; simp [next] at hn
  | emit hn _ => subst hc; simp [next] at hn

theorem shiftRes_ok_nil (d : Nat) : shiftRes d (.ok []) = .ok [] := rfl

/-- the step taken at the head of `cs` is also taken when layout is put in at a later scan point -/
theorem step_with_layout {cs : Str} {i k : Nat} {pre1 cs' L : Str}
    (hstep : next cs i = .skip k ∨ ∃ t, next cs i = .emit t k) (hlen : k + 1 ≤ cs.length)
    (hdrop : cs.drop (k + 1) = pre1 ++ cs') (hL : Layout L)
    (hopen : ¬ ∃ body, cs = '/' :: '/' :: body ∧ ∀ x ∈ body, x ≠ '\n') :
    next (cs.take (k + 1) ++ (pre1 ++ L ++ cs')) i = next cs i ∧
    (cs.take (k + 1) ++ (pre1 ++ L ++ cs')).drop (k + 1) = pre1 ++ L ++ cs' ∧
    (cs.take (k + 1) ++ (pre1 ++ L ++ cs')).take (k + 1) = cs.take (k + 1) := by
  have htl : (cs.take (k + 1)).length = k + 1 := by rw [List.length_take]; omega
  refine ⟨?_, ?_, ?_⟩
  · cases cs with
    | nil => simp at hlen
    | cons c rest =>
      simp only [List.take_succ_cons, List.cons_append, List.drop_succ_cons] at hdrop ⊢
      have hk : k ≤ rest.length := by simp at hlen; omega
      have htk : (rest.take k).length = k := by rw [List.length_take]; omega
      apply next_local c rest _ i k hstep
      · rw [List.take_append_of_le_length (by omega), List.take_take, Nat.min_self]
      · rw [hdrop]
        have hd' : (rest.take k ++ (pre1 ++ L ++ cs')).drop k = pre1 ++ L ++ cs' := by
          have := List.drop_left (l₁ := rest.take k) (l₂ := pre1 ++ L ++ cs')
          rw [htk] at this
          exact this
        rw [hd']
        cases pre1 with
        | nil =>
          rcases layout_head hL with rfl | ⟨w, r, rfl, hw⟩
          · exact Or.inl rfl
          · exact Or.inr ⟨w, r ++ cs', by simp, hw⟩
        | cons x xs => exact Or.inl (by simp)
      · exact hopen
  · have := List.drop_left (l₁ := cs.take (k + 1)) (l₂ := pre1 ++ L ++ cs')
    rw [htl] at this
    exact this
  · have := List.take_left (l₁ := cs.take (k + 1)) (l₂ := pre1 ++ L ++ cs')
    rw [htl] at this
    exact this

/-- **layout at a scan point changes nothing but positions**: if scanning `cs` emits `ts` and then stands at the
suffix `cs'`, then `cs = pre ++ cs'`, and with any layout `L` put in at that point the scanner emits the same `ts`
(same positions) and then gives what `cs'` gives, every position moved by the length of `L` — tokens, or the same
lexical error -/
theorem insert_layout {cs : Str} {i : Nat} {ts : List Token} {cs' : Str} {i' : Nat} (h : Reach cs i ts cs' i')
    {L : Str} (hL : Layout L) :
    ∃ pre, cs = pre ++ cs' ∧ scanFrom (pre ++ L ++ cs') i = combine ts (shiftRes (blen L) (scanFrom cs' i')) := by
  induction h with
  | refl cs i =>
    refine ⟨[], rfl, ?_⟩
    rw [List.nil_append, scanFrom_layout hL, scanFrom_shift cs.length cs i (blen L) (Nat.le_refl _)]
    cases shiftRes (blen L) (scanFrom cs i) <;> rfl
  | @skip cs i k ts cs' i' hn hreach ih =>
    obtain ⟨pre1, e1, h1⟩ := ih
    have hlen := next_skip_len hn
    have hcs : cs = cs.take (k + 1) ++ (pre1 ++ cs') := by rw [← e1, List.take_append_drop]
    by_cases hopen : ∃ body, cs = '/' :: '/' :: body ∧ ∀ x ∈ body, x ≠ '\n'
    · -- the comment runs to the end of the input
      obtain ⟨body, hb, hnl⟩ := hopen
      have hk : k = 1 + body.length := by
        rw [hb, next_comment' body i, commentLen_open body hnl] at hn
        cases hn; rfl
      have hd : cs.drop (k + 1) = [] := by
        rw [hb, hk]
        have : 1 + body.length + 1 = body.length + 2 := by omega
        rw [this]; simp
      rw [hd] at hreach e1
      obtain ⟨rfl, rfl⟩ := reach_nil hreach
      have hp : pre1 = [] := by
        cases pre1 with
        | nil => rfl
        | cons x xs => simp at e1
      subst hp
      refine ⟨cs, by simp, ?_⟩
      rw [List.append_nil, hb]
      have := open_comment_layout hL body i hnl
      simp only [List.cons_append] at this ⊢
      rw [this, scan_nil]
      rfl
    · obtain ⟨s1, s2, s3⟩ := step_with_layout (L := L) (Or.inl hn) hlen e1 hL hopen
      refine ⟨cs.take (k + 1) ++ pre1, by rw [List.append_assoc]; exact hcs, ?_⟩
      have eN : cs.take (k + 1) ++ pre1 ++ L ++ cs' = cs.take (k + 1) ++ (pre1 ++ L ++ cs') := by simp
      rw [eN, scanFrom_skip (s1.trans hn), s2, s3, h1]
  | @emit cs i k t ts cs' i' hn hreach ih =>
    obtain ⟨pre1, e1, h1⟩ := ih
    have hlen := (next_emit_text hn).2.2.1
    have hcs : cs = cs.take (k + 1) ++ (pre1 ++ cs') := by rw [← e1, List.take_append_drop]
    have hopen : ¬ ∃ body, cs = '/' :: '/' :: body ∧ ∀ x ∈ body, x ≠ '\n' := by
      rintro ⟨body, hb, _⟩
      rw [hb, next_comment' body i] at hn
      cases hn
    obtain ⟨s1, s2, s3⟩ := step_with_layout (L := L) (Or.inr ⟨t, hn⟩) hlen e1 hL hopen
    refine ⟨cs.take (k + 1) ++ pre1, by rw [List.append_assoc]; exact hcs, ?_⟩
    have eN : cs.take (k + 1) ++ pre1 ++ L ++ cs' = cs.take (k + 1) ++ (pre1 ++ L ++ cs') := by simp
    rw [eN, scanFrom_emit (s1.trans hn), s2, s3, h1]
    cases shiftRes (blen L) (scanFrom cs' i') <;> rfl

/-- in terms of the results: with layout put in at a scan point, a successful scan stays successful with the same
tokens up to positions (those before the point keep theirs), and a lexical error stays the same error, moved by
the length of the layout -/
theorem insert_layout_result {cs : Str} {i : Nat} {ts : List Token} {cs' : Str} {i' : Nat}
    (h : Reach cs i ts cs' i') {L : Str} (hL : Layout L) :
    ∃ pre, cs = pre ++ cs' ∧
      (∀ t1, scanFrom cs i = .ok t1 → ∃ tp, t1 = ts ++ tp ∧
        scanFrom (pre ++ L ++ cs') i = .ok (ts ++ tp.map (shiftTok (blen L)))) ∧
      (∀ j c, scanFrom cs i = .err (.lex j c) → scanFrom (pre ++ L ++ cs') i = .err (.lex (j + blen L) c)) := by
  obtain ⟨pre, e, hs⟩ := insert_layout h hL
  have h0 := reach_scan h
  refine ⟨pre, e, ?_, ?_⟩
  · intro t1 ht
    rw [h0] at ht
    cases hp : scanFrom cs' i' with
    | ok tp =>
      rw [hp] at ht hs
      simp only [combine, Res.ok.injEq] at ht
      exact ⟨tp, ht.symm, hs⟩
    | err e' => rw [hp] at ht; cases ht
    | panic s' => rw [hp] at ht; cases ht
  · intro j c ht
    rw [h0] at ht
    cases hp : scanFrom cs' i' with
    | ok tp => rw [hp] at ht; cases ht
    | err e' =>
      rw [hp] at ht hs
      simp only [combine, Res.err.injEq] at ht
      subst ht
      exact hs
    | panic s' => rw [hp] at ht; cases ht

end Spec
end KikiVerif
