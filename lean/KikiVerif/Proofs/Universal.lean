/-
The generator theorem: for every coded grammar, whenever `validated_ast_to_machine` and `machine_to_table`
succeed, the emitted driver over the emitted tables (`Driver.autoOfTable`) is `Sound` and `Complete`:
it never panics, and accepts exactly the sentences of the grammar, returning their derivation trees.
-/
import KikiVerif.Proofs.Assemble
import KikiVerif.Proofs.Run
import KikiVerif.Proofs.Tight
import KikiVerif.Model.Driver
import KikiVerif.LR.Halt

set_option linter.unusedSimpArgs false
set_option linter.unusedVariables false

namespace KikiVerif
namespace Universal
open Machine Table Assemble
open LR

variable {c : Ctx} {fm : List FirstSet} {m : Machine} {t : Table.Table}

theorem getD_beyond {α : Type} {l : List α} {k : Nat} {d : α} (h : l.length ≤ k) : l.getD k d = d := by
  rw [List.getD_eq_getElem?_getD, List.getElem?_eq_none h]; rfl

/-- the validator's view of the automaton and the emitted driver's view coincide -/
theorem auto_eq (cells : Cells c m t) :
    (Valid.mkAuto (certOf c fm m t)).action = (Driver.autoOfTable t).action ∧
    (Valid.mkAuto (certOf c fm m t)).goto = (Driver.autoOfTable t).goto ∧
    (Valid.mkAuto (certOf c fm m t)).start = (Driver.autoOfTable t).start := by
  refine ⟨?_, ?_, ?_⟩
  · funext s la
    show (certOf c fm m t).act s la = _
    cases la with
    | none =>
      rw [act_none_certOf]
      simp only [Driver.autoOfTable, cells.nT]
      split
      · rfl
      · rename_i hs
        unfold Table.action
        rw [getD_beyond]
        rw [cells.alen, cells.nT]
        have : m.states.length * (c.nT + 1) ≤ s * (c.nT + 1) := Nat.mul_le_mul_right _ (by omega)
        omega
    | some a =>
      rw [act_some_certOf]
      simp only [Driver.autoOfTable, cells.nT]
      by_cases ha : a < c.nT
      · rw [if_pos ha]
        by_cases hs : s < m.states.length
        · rw [if_pos ⟨ha, hs⟩]
        · rw [if_neg (fun h => hs h.2)]
          unfold Table.action
          rw [getD_beyond]
          rw [cells.alen, cells.nT]
          have : m.states.length * (c.nT + 1) ≤ s * (c.nT + 1) := Nat.mul_le_mul_right _ (by omega)
          omega
      · rw [if_neg ha, if_neg (fun h => ha h.1)]
  · funext s b
    show (certOf c fm m t).goto s b = _
    rw [goto_certOf]
    simp only [Driver.autoOfTable, cells.nN]
    by_cases hb : b < c.nN
    · rw [if_pos hb]
      by_cases hs : s < m.states.length
      · rw [if_pos ⟨hb, hs⟩]
      · rw [if_neg (fun h => hs h.2)]
        unfold Table.goto
        rw [getD_beyond]
        rw [cells.glen, cells.nN]
        have : m.states.length * c.nN ≤ s * c.nN := Nat.mul_le_mul_right _ (by omega)
        omega
    · rw [if_neg hb, if_neg (fun h => hb h.1)]
  · show m.start = t.start
    exact cells.start.symm

/-- **the generator is correct, every grammar**: machine and table pass the validator -/
theorem generator_checked (ok : CtxOK c) {fuel : Nat} (hm : machineOf c fuel = some (some m))
    (ht : machineToTable c m = .ok t) : ∃ fm, Valid.Checked c.g c.nN (certOf c fm m t) ∧ Cells c m t := by
  obtain ⟨fm, hfm, mok⟩ := machineOf_ok ok.terms hm
  have cells := machineToTable_cells ht
  exact ⟨fm, checked_of_generator ok (firstSets_bound ok.terms hfm) (firstSets_closed hfm).1 mok cells, cells⟩

/-- the emitted driver takes the same steps as the validated automaton -/
theorem step_eq {P : Type} (cells : Cells c m t) (cfg : Cfg Nat P) :
    step c.g (Driver.autoOfTable t) cfg = step c.g (Valid.mkAuto (certOf c fm m t)) cfg := by
  obtain ⟨h1, h2, _⟩ := auto_eq (fm := fm) cells
  exact (step_congr_auto h1 h2 cfg).symm

/-- **C01 for every grammar**: whenever the generator produces a table, the emitted parse loop over it never
panics, and whenever it ends it returns `Ok` iff the token sequence is derivable from the start symbol -/
theorem emitted_parser_correct {P : Type} (ok : CtxOK c) {fuel : Nat} (hm : machineOf c fuel = some (some m))
    (ht : machineToTable c m = .ok t) (w : List (Tok Nat P)) (fuel' : Nat) (r : StepRes Nat P) (cf : Cfg Nat P)
    (hrun : runCfg c.g (Driver.autoOfTable t) fuel' ⟨[(Driver.autoOfTable t).start], [], w⟩ = some (r, cf)) :
    r ≠ .panic ∧ ((∃ tr, r = .ok tr) ↔ ∃ tr : Tree Nat P, WF c.g tr (.n c.g.start) ∧ tr.yield = w) := by
  obtain ⟨fm, hk, cells⟩ := generator_checked ok hm ht
  have hs := Valid.sound_of_checked hk
  have hc := Valid.complete_of_checked (P := P) hk
  have hrun' : runCfg c.g (Valid.mkAuto (certOf c fm m t)) fuel'
      ⟨[(Valid.mkAuto (certOf c fm m t)).start], [], w⟩ = some (r, cf) := by
    rw [← runCfg_congr (fun cfg => step_eq (fm := fm) cells cfg), (auto_eq (fm := fm) cells).2.2]
    exact hrun
  exact ⟨(run_sound hs fuel' _ [] .base _ _ hrun').1, run_ok_iff hs hc w fuel' r cf hrun'⟩

/-- the derivation tree itself is what is returned -/
theorem emitted_parser_tree {P : Type} (ok : CtxOK c) {fuel : Nat} (hm : machineOf c fuel = some (some m))
    (ht : machineToTable c m = .ok t) (w : List (Tok Nat P)) (fuel' : Nat) (tr : Tree Nat P) (cf : Cfg Nat P)
    (hrun : runCfg c.g (Driver.autoOfTable t) fuel' ⟨[(Driver.autoOfTable t).start], [], w⟩ = some (.ok tr, cf)) :
    WF c.g tr (.n c.g.start) ∧ tr.yield = w := by
  obtain ⟨fm, hk, cells⟩ := generator_checked ok hm ht
  have hs := Valid.sound_of_checked hk
  have hrun' : runCfg c.g (Valid.mkAuto (certOf c fm m t)) fuel'
      ⟨[(Valid.mkAuto (certOf c fm m t)).start], [], w⟩ = some (.ok tr, cf) := by
    rw [← runCfg_congr (fun cfg => step_eq (fm := fm) cells cfg), (auto_eq (fm := fm) cells).2.2]
    exact hrun
  have := (run_sound hs fuel' _ [] .base _ _ hrun').2.2 tr rfl
  simpa using this

/-! ### viable prefixes: the automaton is tight -/

def decRule (c : Ctx) (r : Nat) : Option Nat := if r = c.numRules then none else some r

theorem decode_rule (x : Item) : (decodeItem c x).rule = decRule c x.rule := rfl

theorem rhsOf_dec {r d : Nat} {X : Sym Nat Nat} (h : (rhsOf c r)[d]? = some X) :
    c.g.rhsOf (decRule c r) = some (rhsOf c r) := by
  unfold decRule
  by_cases e : r = c.numRules
  · rw [if_pos e]; unfold rhsOf; rw [if_pos e]; rfl
  · rw [if_neg e]
    unfold rhsOf at h ⊢
    rw [if_neg e] at h ⊢
    cases hr : c.g.rules[r]? with
    | none => rw [hr] at h; simp at h
    | some rule => simp [Grammar.rhsOf, hr]

/-- generation at the level of coded cores is generation in the sense of `LR/Via.lean` -/
theorem coreReach_of_creach {K : Option Nat → Nat → Prop} {KC : Core → Prop}
    (hK : ∀ p, KC p → K (decRule c p.1) p.2) {q : Core} (h : CReach c fm KC q) :
    CoreReach c.g K (decRule c q.1) q.2 := by
  induction h with
  | kernel hk => exact .kernel (hK _ hk)
  | @step p q _ hi ih =>
    unfold impliedCores at hi
    split at hi
    · rename_i b hb
      split at hi
      · obtain ⟨j, hj, rfl⟩ := List.mem_map.mp hi
        unfold ruleIndicesFor at hj
        simp only [List.mem_map, List.mem_filter, beq_iff_eq] at hj
        obtain ⟨⟨rule, j'⟩, ⟨hm, hl⟩, rfl⟩ := hj
        have hz := List.mem_zipIdx hm
        simp at hz
        simp only at hl ⊢
        have hjr : c.g.rules[j']? = some rule := by rw [List.getElem?_eq_getElem hz.1]; exact congrArg some hz.2.symm
        have hne : j' ≠ c.numRules := by unfold Ctx.numRules; omega
        have hdec : decRule c j' = some j' := by unfold decRule; rw [if_neg hne]
        rw [hdec]
        exact .step ih (rhsOf_dec hb) (by rw [hb, hl]) hjr
      · cases hi
    · cases hi

theorem coreSound_of_generator (ok : CtxOK c) (mok : MachineOK c fm m) (cells : Cells c m t) :
    CoreSound c.g (Valid.mkAuto (certOf c fm m t)) ∧ NonEmpty (Valid.mkAuto (certOf c fm m t)) := by
  constructor
  · constructor
    · intro r d a hit
      obtain ⟨x, hx, e⟩ := (items_certOf (c := c) (fm := fm) (t := t) m.start ⟨r, d, a⟩).mp hit
      have := coreReach_of_creach (K := fun r d => r = none ∧ d = 0) (by
        rintro p rfl
        exact ⟨by unfold decRule; simp, rfl⟩) (mok.zcore x hx)
      have e1 : r = decRule c x.rule := by rw [← decode_rule, e]
      have e2 : d = x.dot := by have := congrArg LR.Item.dot e; exact this.symm
      rw [e1, e2]
      exact this
    · intro s X t' hd r d a hit
      obtain ⟨hs, htr⟩ := delta_transition ok cells hd
      obtain ⟨y, hy, e⟩ := (items_certOf (c := c) (fm := fm) (t := t) t' ⟨r, d, a⟩).mp hit
      have hcr := mok.tcore _ htr y hy
      simp only at hcr
      have e1 : r = decRule c y.rule := by rw [← decode_rule, e]
      have e2 : d = y.dot := by have := congrArg LR.Item.dot e; exact this.symm
      rw [e1, e2]
      refine coreReach_of_creach ?_ hcr
      rintro p ⟨x', hx', rfl⟩
      obtain ⟨x, hx, hsym, rfl⟩ := mem_transitionItems.mp hx'
      refine ⟨x.dot, decodeLa c x.la, rhsOf c x.rule, rfl, ?_, rhsOf_dec hsym, hsym⟩
      exact (items_certOf s _).mpr ⟨x, hx, rfl⟩
  · intro s X t' hd
    obtain ⟨_, htr⟩ := delta_transition (fm := fm) ok cells hd
    obtain ⟨y, hy, _⟩ := mok.hasKernel _ htr
    exact ⟨decodeItem c y, (items_certOf t' _).mpr ⟨y, hy, rfl⟩⟩

/-- **C03 for every grammar in which every nonterminal is productive**: an error stop of the emitted parse
loop has consumed a prefix of some sentence, its lookahead is the first offending token, and `Err(None)`
happens only on a proper prefix of a sentence -/
theorem emitted_parser_first_offending {P : Type} [Inhabited P] (ok : CtxOK c) {fuel : Nat}
    (hm : machineOf c fuel = some (some m)) (ht : machineToTable c m = .ok t)
    (hp : Valid.productiveB c.g = true) (w : List (Tok Nat P)) (fuel' : Nat) (cf : Cfg Nat P)
    (hrun : runCfg c.g (Driver.autoOfTable t) fuel' ⟨[(Driver.autoOfTable t).start], [], w⟩ = some (.err, cf)) :
    ∃ pre, w = pre ++ cf.rest ∧
      (∃ suf tr, WF c.g tr (.n c.g.start) ∧ tr.yield = pre ++ suf) ∧
      (∀ a r, cf.rest = a :: r → ∀ r' tr, WF c.g tr (.n c.g.start) → tr.yield ≠ pre ++ a :: r') ∧
      (cf.rest = [] → ∀ tr, WF c.g tr (.n c.g.start) → tr.yield ≠ w) := by
  obtain ⟨fm, hfm, mok⟩ := machineOf_ok ok.terms hm
  have cells := machineToTable_cells ht
  have hk := checked_of_generator ok (firstSets_bound ok.terms hfm) (firstSets_closed hfm).1 mok cells
  have hs := Valid.sound_of_checked hk
  have hc := Valid.complete_of_checked (P := P) hk
  obtain ⟨hcs, hne⟩ := coreSound_of_generator ok mok cells
  have hrun' : runCfg c.g (Valid.mkAuto (certOf c fm m t)) fuel'
      ⟨[(Valid.mkAuto (certOf c fm m t)).start], [], w⟩ = some (.err, cf) := by
    rw [← runCfg_congr (fun cfg => step_eq (fm := fm) cells cfg), (auto_eq (fm := fm) cells).2.2]
    exact hrun
  obtain ⟨hsteps, herr⟩ := steps_of_runCfg fuel' _ _ _ hrun'
  exact first_offending hs hc hcs hne (Valid.productiveB_sound hp) hsteps herr

/-- **termination of the emitted parser, per certified table**: if the termination certificate of `LR/Halt`
checks for the emitted table (a potential under which every reduction lowers `cc·height + φ`), the emitted parse
loop stops on *every* token sequence within `stepBound` (linear in its length) steps, without panicking, and
returns `Ok` iff the sequence is a sentence.  (`fm` only fills the FIRST field of the certificate, which the
check does not read.) -/
theorem emitted_parser_decides {P : Type} (ok : CtxOK c) {fuel : Nat} (hm : machineOf c fuel = some (some m))
    (ht : machineToTable c m = .ok t) (fm : List FirstSet)
    (hcert : Halt.certified (certOf c fm m t) c.g = true) (w : List (Tok Nat P)) :
    ∃ r cf, runCfg c.g (Driver.autoOfTable t) (Halt.stepBound (certOf c fm m t) c.g w.length)
        ⟨[(Driver.autoOfTable t).start], [], w⟩ = some (r, cf) ∧
      r ≠ .panic ∧ ((∃ tr, r = .ok tr) ↔ ∃ tr : Tree Nat P, WF c.g tr (.n c.g.start) ∧ tr.yield = w) := by
  have cells := machineToTable_cells ht
  obtain ⟨⟨r, cf⟩, hr⟩ := Halt.certified_halts hcert w
  have hrun : runCfg c.g (Driver.autoOfTable t) (Halt.stepBound (certOf c fm m t) c.g w.length)
      ⟨[(Driver.autoOfTable t).start], [], w⟩ = some (r, cf) := by
    rw [runCfg_congr (fun cfg => step_eq (fm := fm) cells cfg), ← (auto_eq (fm := fm) cells).2.2]
    exact hr
  exact ⟨r, cf, hrun, emitted_parser_correct ok hm ht w _ r cf hrun⟩

/-- the same with the sharper certificate (`Halt.certifiedF`: framed simulation of every reduce run): the emitted
parse loop stops on every token sequence, never panics, and answers `Ok` iff the sequence is a sentence -/
theorem emitted_parser_decidesF {P : Type} (ok : CtxOK c) {fuel : Nat} (hm : machineOf c fuel = some (some m))
    (ht : machineToTable c m = .ok t) (fm : List FirstSet)
    (hcert : Halt.certifiedF (certOf c fm m t) c.g = true) (w : List (Tok Nat P)) :
    ∃ fuel' r cf, runCfg c.g (Driver.autoOfTable t) fuel' ⟨[(Driver.autoOfTable t).start], [], w⟩ = some (r, cf) ∧
      r ≠ .panic ∧ ((∃ tr, r = .ok tr) ↔ ∃ tr : Tree Nat P, WF c.g tr (.n c.g.start) ∧ tr.yield = w) := by
  have cells := machineToTable_cells ht
  obtain ⟨fuel', ⟨r, cf⟩, hr⟩ := Halt.certifiedF_halts hcert w
  have hrun : runCfg c.g (Driver.autoOfTable t) fuel' ⟨[(Driver.autoOfTable t).start], [], w⟩ = some (r, cf) := by
    rw [runCfg_congr (fun cfg => step_eq (fm := fm) cells cfg), ← (auto_eq (fm := fm) cells).2.2]
    exact hr
  exact ⟨fuel', r, cf, hrun, emitted_parser_correct ok hm ht w _ r cf hrun⟩

end Universal
end KikiVerif
