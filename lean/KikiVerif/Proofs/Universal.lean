/-
The generator theorem: for every coded grammar, whenever `validated_ast_to_machine` and `machine_to_table`
succeed, the emitted driver over the emitted tables (`Driver.autoOfTable`) is `Sound` and `Complete`:
it never panics, and accepts exactly the sentences of the grammar, returning their derivation trees.
-/
import KikiVerif.Proofs.Assemble
import KikiVerif.Proofs.Run
import KikiVerif.Model.Driver

set_option linter.unusedSimpArgs false
set_option linter.unusedVariables false

namespace KikiVerif
namespace Universal
open Machine Table Assemble
open LR

variable {c : Ctx} {fm : List FirstSet} {m : Machine} {t : Table.Table}

theorem getD_beyond {α : Type} {l : List α} {k : Nat} {d : α} (h : l.length ≤ k) : l.getD k d = d := by
  rw [List.getD_eq_getElem?_getD, List.getElem?_eq_none h]; rfl

/-- the validator's view of the automaton and the emitted driver's view coincide -/
theorem auto_eq (cells : Cells c m t) :
    (Valid.mkAuto (certOf c fm m t)).action = (Driver.autoOfTable t).action ∧
    (Valid.mkAuto (certOf c fm m t)).goto = (Driver.autoOfTable t).goto ∧
    (Valid.mkAuto (certOf c fm m t)).start = (Driver.autoOfTable t).start := by
  refine ⟨?_, ?_, ?_⟩
  · funext s la
    show (certOf c fm m t).act s la = _
    cases la with
    | none =>
      rw [act_none_certOf]
      simp only [Driver.autoOfTable, cells.nT]
      split
      · rfl
      · rename_i hs
        unfold Table.action
        rw [getD_beyond]
        rw [cells.alen, cells.nT]
        have : m.states.length * (c.nT + 1) ≤ s * (c.nT + 1) := Nat.mul_le_mul_right _ (by omega)
        omega
    | some a =>
      rw [act_some_certOf]
      simp only [Driver.autoOfTable, cells.nT]
      by_cases ha : a < c.nT
      · rw [if_pos ha]
        by_cases hs : s < m.states.length
        · rw [if_pos ⟨ha, hs⟩]
        · rw [if_neg (fun h => hs h.2)]
          unfold Table.action
          rw [getD_beyond]
          rw [cells.alen, cells.nT]
          have : m.states.length * (c.nT + 1) ≤ s * (c.nT + 1) := Nat.mul_le_mul_right _ (by omega)
          omega
      · rw [if_neg ha, if_neg (fun h => ha h.1)]
  · funext s b
    show (certOf c fm m t).goto s b = _
    rw [goto_certOf]
    simp only [Driver.autoOfTable, cells.nN]
    by_cases hb : b < c.nN
    · rw [if_pos hb]
      by_cases hs : s < m.states.length
      · rw [if_pos ⟨hb, hs⟩]
      · rw [if_neg (fun h => hs h.2)]
        unfold Table.goto
        rw [getD_beyond]
        rw [cells.glen, cells.nN]
        have : m.states.length * c.nN ≤ s * c.nN := Nat.mul_le_mul_right _ (by omega)
        omega
    · rw [if_neg hb, if_neg (fun h => hb h.1)]
  · show m.start = t.start
    exact cells.start.symm

/-- **the generator is correct, every grammar**: machine and table pass the validator -/
theorem generator_checked (ok : CtxOK c) {fuel : Nat} (hm : machineOf c fuel = some (some m))
    (ht : machineToTable c m = .ok t) : ∃ fm, Valid.Checked c.g c.nN (certOf c fm m t) ∧ Cells c m t := by
  obtain ⟨fm, hfm, mok⟩ := machineOf_ok ok.terms hm
  have cells := machineToTable_cells ht
  exact ⟨fm, checked_of_generator ok (firstSets_bound ok.terms hfm) (firstSets_closed hfm).1 mok cells, cells⟩

/-- the emitted driver takes the same steps as the validated automaton -/
theorem step_eq {P : Type} (cells : Cells c m t) (cfg : Cfg Nat P) :
    step c.g (Driver.autoOfTable t) cfg = step c.g (Valid.mkAuto (certOf c fm m t)) cfg := by
  obtain ⟨h1, h2, _⟩ := auto_eq (fm := fm) cells
  exact (step_congr_auto h1 h2 cfg).symm

/-- **C01 for every grammar**: whenever the generator produces a table, the emitted parse loop over it never
panics, and whenever it ends it returns `Ok` iff the token sequence is derivable from the start symbol -/
theorem emitted_parser_correct {P : Type} (ok : CtxOK c) {fuel : Nat} (hm : machineOf c fuel = some (some m))
    (ht : machineToTable c m = .ok t) (w : List (Tok Nat P)) (fuel' : Nat) (r : StepRes Nat P) (cf : Cfg Nat P)
    (hrun : runCfg c.g (Driver.autoOfTable t) fuel' ⟨[(Driver.autoOfTable t).start], [], w⟩ = some (r, cf)) :
    r ≠ .panic ∧ ((∃ tr, r = .ok tr) ↔ ∃ tr : Tree Nat P, WF c.g tr (.n c.g.start) ∧ tr.yield = w) := by
  obtain ⟨fm, hk, cells⟩ := generator_checked ok hm ht
  have hs := Valid.sound_of_checked hk
  have hc := Valid.complete_of_checked (P := P) hk
  have hrun' : runCfg c.g (Valid.mkAuto (certOf c fm m t)) fuel'
      ⟨[(Valid.mkAuto (certOf c fm m t)).start], [], w⟩ = some (r, cf) := by
    rw [← runCfg_congr (fun cfg => step_eq (fm := fm) cells cfg), (auto_eq (fm := fm) cells).2.2]
    exact hrun
  exact ⟨(run_sound hs fuel' _ [] .base _ _ hrun').1, run_ok_iff hs hc w fuel' r cf hrun'⟩

end Universal
end KikiVerif
