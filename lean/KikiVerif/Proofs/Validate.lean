/-
`validate_ast` enforces the static well-formedness rules: `validateAst f = .ok v → WellFormed f`.
-/
import KikiVerif.Model.Validate
import KikiVerif.Spec.WellFormed

set_option linter.unusedSimpArgs false
set_option linter.unusedVariables false

namespace KikiVerif
namespace Validate
open Ast Text Spec

theorem bind_ok {α β : Type} {x : Res α} {g : α → Res β} {b : β} (h : (x >>= g) = .ok b) :
    ∃ a, x = .ok a ∧ g a = .ok b := by
  cases x with
  | ok a => exact ⟨a, rfl, h⟩
  | err e => cases h
  | panic s => cases h

theorem termEnums_eq (f : File) : termEnums f = terminals f := rfl
theorem startDecls_eq (f : File) : startDecls f = starts f := rfl

/-! ### capitalisation -/

theorem upper_ok {name : Str} {pos : Nat} (h : validateUppercaseStart name pos = .ok ()) : UpperOk name := by
  unfold validateUppercaseStart at h
  intro c hc
  rw [hc] at h
  simp only at h
  split at h
  · assumption
  · cases h

theorem lower_ok {name : Str} {pos : Nat} (h : assertLowercaseStart name pos = .ok ()) : LowerOk name := by
  unfold assertLowercaseStart at h
  intro c hc
  rw [hc] at h
  simp only at h
  split at h
  · assumption
  · cases h

/-! ### the terminal enum -/

theorem terminal_unique {f : File} {t : TermEnum} (h : getUnvalidatedTerminalEnum f = .ok t) :
    terminals f = [t] := by
  unfold getUnvalidatedTerminalEnum at h
  split at h
  · cases h
  · rename_i t' heq; cases h; exact heq
  · cases h

theorem terminal_variants_upper : ∀ (vs : List TermVariant) (r : List VFile.TermVariant),
    validateTerminalVariants vs = .ok r → ∀ v ∈ vs, UpperOk v.name.name := by
  intro vs
  induction vs with
  | nil => intro r _ v hv; cases hv
  | cons v vs ih =>
    intro r h w hw
    simp only [validateTerminalVariants] at h
    obtain ⟨_, h1, h2⟩ := bind_ok h
    obtain ⟨rest, h3, _⟩ := bind_ok h2
    rcases List.mem_cons.mp hw with rfl | hw
    · exact upper_ok h1
    · exact ih rest h3 w hw

theorem getTerminalEnum_ok {f : File} {te : VFile.TermEnum} (h : getTerminalEnum f = .ok te) :
    ∃ t, terminals f = [t] ∧ UpperOk t.name.name ∧ (∀ v ∈ t.variants, UpperOk v.name.name) ∧
      te.name = t.name.name := by
  unfold getTerminalEnum at h
  obtain ⟨t, h1, h2⟩ := bind_ok h
  obtain ⟨_, h3, h4⟩ := bind_ok h2
  obtain ⟨vs, h5, h6⟩ := bind_ok h4
  cases h6
  exact ⟨t, terminal_unique h1, upper_ok h3, terminal_variants_upper _ _ h5, rfl⟩

/-! ### top-level names -/

theorem define_ok {seen seen' : Seen} {name : Str} {pos : Nat} (h : define seen name pos = .ok seen') :
    name ∉ seen.map (·.1) ∧ seen' = seen ++ [(name, pos)] := by
  unfold define at h
  split at h
  · cases h
  · rename_i hl
    cases h
    refine ⟨?_, rfl⟩
    intro hm
    rw [List.lookup_eq_none_iff] at hl
    obtain ⟨p, hp, he⟩ := List.mem_map.mp hm
    have := hl p hp
    simp [he] at this

def itemNtNames (items : List Item) : List Str :=
  items.filterMap fun
    | .struct s => some s.name.name
    | .enum e => some e.name.name
    | _ => none

theorem nodup_snoc {l : List Str} {x : Str} (h : l.Nodup) (hx : x ∉ l) : (l ++ [x]).Nodup := by
  rw [List.nodup_append]
  refine ⟨h, by simp, ?_⟩
  intro a ha b hb
  have : b = x := by simpa using hb
  subst this
  intro e; subst e; exact hx ha

theorem defineNonterminals_ok : ∀ (items : List Item) (seen seen' : Seen),
    defineNonterminals seen items = .ok seen' →
    seen'.map (·.1) = seen.map (·.1) ++ itemNtNames items ∧
    ((seen.map (·.1)).Nodup → (seen'.map (·.1)).Nodup) := by
  intro items
  induction items with
  | nil => intro seen seen' h; simp [defineNonterminals] at h; subst h; simp [itemNtNames]
  | cons it items ih =>
    intro seen seen' h
    cases it with
    | start i =>
      simp only [defineNonterminals] at h
      have := ih seen seen' h
      simpa [itemNtNames] using this
    | terminal t =>
      simp only [defineNonterminals] at h
      have := ih seen seen' h
      simpa [itemNtNames] using this
    | struct s =>
      simp only [defineNonterminals] at h
      obtain ⟨s1, h1, h2⟩ := bind_ok h
      obtain ⟨hn, he⟩ := define_ok h1
      obtain ⟨e1, e2⟩ := ih s1 seen' h2
      subst he
      refine ⟨by rw [e1]; simp [itemNtNames], fun hnd => e2 ?_⟩
      rw [List.map_append]; exact nodup_snoc hnd hn
    | enum e =>
      simp only [defineNonterminals] at h
      obtain ⟨s1, h1, h2⟩ := bind_ok h
      obtain ⟨hn, he⟩ := define_ok h1
      obtain ⟨e1, e2⟩ := ih s1 seen' h2
      subst he
      refine ⟨by rw [e1]; simp [itemNtNames], fun hnd => e2 ?_⟩
      rw [List.map_append]; exact nodup_snoc hnd hn

theorem defineTerminalVariants_ok : ∀ (vs : List TermVariant) (seen seen' : Seen),
    defineTerminalVariants seen vs = .ok seen' →
    seen'.map (·.1) = seen.map (·.1) ++ vs.map (·.name.name) ∧
    ((seen.map (·.1)).Nodup → (seen'.map (·.1)).Nodup) := by
  intro vs
  induction vs with
  | nil => intro seen seen' h; simp [defineTerminalVariants] at h; subst h; simp
  | cons v vs ih =>
    intro seen seen' h
    simp only [defineTerminalVariants] at h
    obtain ⟨s1, h1, h2⟩ := bind_ok h
    obtain ⟨hn, he⟩ := define_ok h1
    obtain ⟨e1, e2⟩ := ih s1 seen' h2
    subst he
    refine ⟨by rw [e1]; simp, fun hnd => e2 ?_⟩
    rw [List.map_append]; exact nodup_snoc hnd hn

theorem itemNtNames_eq (f : File) : itemNtNames f.items = nonterminalNames f := rfl

theorem positions_ok {f : File} {seen : Seen} (h : getDefinedSymbolPositions f = .ok seen) :
    ∃ t, terminals f = [t] ∧ seen.map (·.1) = nonterminalNames f ++ t.variants.map (·.name.name) ∧
      (seen.map (·.1)).Nodup := by
  unfold getDefinedSymbolPositions at h
  obtain ⟨s1, h1, h2⟩ := bind_ok h
  obtain ⟨t, h3, h4⟩ := bind_ok h2
  obtain ⟨e1, n1⟩ := defineNonterminals_ok _ _ _ h1
  obtain ⟨e2, n2⟩ := defineTerminalVariants_ok _ _ _ h4
  refine ⟨t, terminal_unique h3, ?_, n2 (n1 (by simp))⟩
  rw [e2, e1]; simp [itemNtNames_eq]

theorem noClashes_ok {f : File} (h : assertNoTopLevelNameClashes f = .ok ()) :
    ∃ t, terminals f = [t] ∧
      (nonterminalNames f ++ t.variants.map (·.name.name) ++ [t.name.name]).Nodup := by
  unfold assertNoTopLevelNameClashes at h
  obtain ⟨seen, h1, h2⟩ := bind_ok h
  obtain ⟨t, h3, h4⟩ := bind_ok h2
  obtain ⟨s2, h5, _⟩ := bind_ok h4
  obtain ⟨t', ht', e, nd⟩ := positions_ok h1
  have : t' = t := by
    have := terminal_unique h3
    rw [ht'] at this; injection this with a _
  subst this
  obtain ⟨hn, _⟩ := define_ok h5
  refine ⟨t', ht', ?_⟩
  rw [← e]
  exact nodup_snoc nd hn

/-! ### fieldsets -/

def SymOk (d : Defined) : SymId → Prop
  | .n i => i.name ∈ d.nonterminals
  | .t i => i.name ∈ d.terminals

theorem symbol_defined {d : Defined} {s : SymId} (h : assertSymbolIsDefined d s = .ok ()) : SymOk d s := by
  cases s with
  | n i =>
    simp only [assertSymbolIsDefined] at h
    split at h
    · rename_i hc; exact List.contains_iff_mem.mp hc
    · cases h
  | t i =>
    simp only [assertSymbolIsDefined] at h
    split at h
    · rename_i hc; exact List.contains_iff_mem.mp hc
    · cases h

theorem namedFields_ok (d : Defined) : ∀ (fs : List NamedField), assertNamedFields d fs = .ok () →
    (∀ fld ∈ fs, SymOk d fld.sym) ∧ (∀ n ∈ namedFieldNames (.named fs), LowerOk n) := by
  intro fs
  induction fs with
  | nil => intro _; exact ⟨by simp, by simp [namedFieldNames]⟩
  | cons fld fs ih =>
    intro h
    simp only [assertNamedFields] at h
    cases hname : fld.name with
    | us p =>
      rw [hname] at h
      obtain ⟨_, h3, h4⟩ := bind_ok h
      obtain ⟨i1, i2⟩ := ih h4
      constructor
      · intro g hg
        rcases List.mem_cons.mp hg with rfl | hg
        · exact symbol_defined h3
        · exact i1 g hg
      · intro n hn
        simp only [namedFieldNames, List.filterMap_cons, hname] at hn
        exact i2 n (by simpa [namedFieldNames] using hn)
    | id i =>
      rw [hname] at h
      obtain ⟨_, h1, h2⟩ := bind_ok h
      obtain ⟨_, h3, h4⟩ := bind_ok h2
      obtain ⟨i1, i2⟩ := ih h4
      constructor
      · intro g hg
        rcases List.mem_cons.mp hg with rfl | hg
        · exact symbol_defined h3
        · exact i1 g hg
      · intro n hn
        simp only [namedFieldNames, List.filterMap_cons, hname, List.mem_cons] at hn
        rcases hn with rfl | hn
        · exact lower_ok h1
        · exact i2 n (by simpa [namedFieldNames] using hn)

theorem tupleFields_ok (d : Defined) : ∀ (fs : List TupleField), assertTupleFields d fs = .ok () →
    ∀ fld ∈ fs, SymOk d fld.sym := by
  intro fs
  induction fs with
  | nil => intro _ g hg; cases hg
  | cons fld fs ih =>
    intro h g hg
    simp only [assertTupleFields] at h
    obtain ⟨_, h1, h2⟩ := bind_ok h
    rcases List.mem_cons.mp hg with rfl | hg
    · exact symbol_defined h1
    · exact ih h2 g hg

theorem fieldset_ok {d : Defined} {fs : Fieldset} (h : assertFieldsetIsValid d fs = .ok ()) :
    (∀ s ∈ fs.syms, SymOk d s) ∧ (∀ n ∈ namedFieldNames fs, LowerOk n) := by
  cases fs with
  | empty => constructor <;> simp [Fieldset.syms, namedFieldNames]
  | named flds =>
    obtain ⟨h1, h2⟩ := namedFields_ok d flds h
    refine ⟨?_, h2⟩
    intro s hs
    simp only [Fieldset.syms, List.mem_map] at hs
    obtain ⟨fld, hf, rfl⟩ := hs
    exact h1 fld hf
  | tuple flds =>
    refine ⟨?_, by simp [namedFieldNames]⟩
    intro s hs
    simp only [Fieldset.syms, List.mem_map] at hs
    obtain ⟨fld, hf, rfl⟩ := hs
    exact tupleFields_ok d flds h fld hf

/-! ### enum variants -/

theorem uniqueNames_ok : ∀ (vs : List Variant) (seen : Seen), assertUniqueNames seen vs = .ok () →
    (seen.map (·.1)).Nodup → (seen.map (·.1) ++ vs.map (·.name.name)).Nodup := by
  intro vs
  induction vs with
  | nil => intro seen _ h; simpa using h
  | cons v vs ih =>
    intro seen h hnd
    simp only [assertUniqueNames] at h
    split at h
    · cases h
    · rename_i hl
      have hn : v.name.name ∉ seen.map (·.1) := by
        intro hm
        rw [List.lookup_eq_none_iff] at hl
        obtain ⟨p, hp, he⟩ := List.mem_map.mp hm
        have := hl p hp
        simp [he] at this
      have := ih (seen ++ [(v.name.name, v.name.pos)]) h (by rw [List.map_append]; exact nodup_snoc hnd hn)
      simpa using this

theorem uniqueSeqs_ok : ∀ (vs : List Variant) (seen : List (List Sym' × Nat)), assertUniqueSeqs seen vs = .ok () →
    (seen.map (·.1)).Nodup → (seen.map (·.1) ++ vs.map fieldSymbolSequence).Nodup := by
  intro vs
  induction vs with
  | nil => intro seen _ h; simpa using h
  | cons v vs ih =>
    intro seen h hnd
    simp only [assertUniqueSeqs] at h
    split at h
    · cases h
    · rename_i hl
      have hn : fieldSymbolSequence v ∉ seen.map (·.1) := by
        intro hm
        rw [List.lookup_eq_none_iff] at hl
        obtain ⟨p, hp, he⟩ := List.mem_map.mp hm
        have := hl p hp
        simp [he] at this
      have hnd' : ((seen ++ [(fieldSymbolSequence v, v.name.pos)]).map (·.1)).Nodup := by
        rw [List.map_append, List.nodup_append]
        refine ⟨hnd, by simp, ?_⟩
        intro a ha b hb
        have : b = fieldSymbolSequence v := by simpa using hb
        subst this
        intro e; subst e; exact hn ha
      have := ih (seen ++ [(fieldSymbolSequence v, v.name.pos)]) h hnd'
      simpa using this

theorem eachVariant_ok (d : Defined) : ∀ (vs : List Variant), assertEachVariant d vs = .ok () →
    ∀ v ∈ vs, UpperOk v.name.name ∧ (∀ s ∈ v.fieldset.syms, SymOk d s) ∧
      (∀ n ∈ namedFieldNames v.fieldset, LowerOk n) := by
  intro vs
  induction vs with
  | nil => intro _ v hv; cases hv
  | cons v vs ih =>
    intro h w hw
    simp only [assertEachVariant] at h
    obtain ⟨_, h1, h2⟩ := bind_ok h
    obtain ⟨_, h3, h4⟩ := bind_ok h2
    rcases List.mem_cons.mp hw with rfl | hw
    · exact ⟨upper_ok h1, (fieldset_ok h3).1, (fieldset_ok h3).2⟩
    · exact ih h4 w hw

/-! ### all nonterminals -/

structure ItemsOk (d : Defined) (items : List Item) : Prop where
  structs : ∀ s, Item.struct s ∈ items → UpperOk s.name.name ∧ (∀ x ∈ s.fieldset.syms, SymOk d x) ∧
    (∀ n ∈ namedFieldNames s.fieldset, LowerOk n)
  enums : ∀ e, Item.enum e ∈ items → UpperOk e.name.name ∧ (e.variants.map (·.name.name)).Nodup ∧
    (e.variants.map fieldSymbolSequence).Nodup ∧
    ∀ v ∈ e.variants, UpperOk v.name.name ∧ (∀ x ∈ v.fieldset.syms, SymOk d x) ∧
      (∀ n ∈ namedFieldNames v.fieldset, LowerOk n)

theorem validateNonterminals_ok (d : Defined) : ∀ (items : List Item) (nts : List VFile.Nonterminal),
    validateNonterminals d items = .ok nts → ItemsOk d items ∧ nts.map (·.name) = itemNtNames items := by
  intro items
  induction items with
  | nil =>
    intro nts h
    simp [validateNonterminals] at h; subst h
    exact ⟨⟨by simp, by simp⟩, rfl⟩
  | cons it items ih =>
    intro nts h
    cases it with
    | start i =>
      simp only [validateNonterminals] at h
      obtain ⟨i1, i2⟩ := ih nts h
      refine ⟨⟨fun s hs => i1.structs s ?_, fun e he => i1.enums e ?_⟩, by simpa [itemNtNames] using i2⟩
      · simpa using hs
      · simpa using he
    | terminal t =>
      simp only [validateNonterminals] at h
      obtain ⟨i1, i2⟩ := ih nts h
      refine ⟨⟨fun s hs => i1.structs s ?_, fun e he => i1.enums e ?_⟩, by simpa [itemNtNames] using i2⟩
      · simpa using hs
      · simpa using he
    | struct s =>
      simp only [validateNonterminals] at h
      obtain ⟨_, h1, h2⟩ := bind_ok h
      obtain ⟨_, h3, h4⟩ := bind_ok h2
      obtain ⟨r, h5, h6⟩ := bind_ok h4
      cases h6
      obtain ⟨i1, i2⟩ := ih r h5
      refine ⟨⟨?_, ?_⟩, by
        have i2' := i2
        unfold itemNtNames at i2' ⊢
        simp only [List.filterMap_cons, List.map_cons]
        rw [i2']; rfl⟩
      · intro s' hs'
        simp only [List.mem_cons, Item.struct.injEq] at hs'
        rcases hs' with rfl | hs'
        · exact ⟨upper_ok h1, (fieldset_ok h3).1, (fieldset_ok h3).2⟩
        · exact i1.structs s' hs'
      · intro e he
        simp only [List.mem_cons] at he
        rcases he with he | he
        · cases he
        · exact i1.enums e he
    | enum e =>
      simp only [validateNonterminals] at h
      obtain ⟨_, h1, h2⟩ := bind_ok h
      obtain ⟨_, h3, h4⟩ := bind_ok h2
      obtain ⟨_, h5, h6⟩ := bind_ok h4
      obtain ⟨_, h7, h8⟩ := bind_ok h6
      obtain ⟨r, h9, h10⟩ := bind_ok h8
      cases h10
      obtain ⟨i1, i2⟩ := ih r h9
      refine ⟨⟨?_, ?_⟩, by
        have i2' := i2
        unfold itemNtNames at i2' ⊢
        simp only [List.filterMap_cons, List.map_cons]
        rw [i2']; rfl⟩
      · intro s hs
        simp only [List.mem_cons] at hs
        rcases hs with hs | hs
        · cases hs
        · exact i1.structs s hs
      · intro e' he'
        simp only [List.mem_cons, Item.enum.injEq] at he'
        rcases he' with rfl | he'
        · refine ⟨upper_ok h1, ?_, ?_, eachVariant_ok d _ h7⟩
          · have := uniqueNames_ok _ [] h3 (by simp); simpa using this
          · have := uniqueSeqs_ok _ [] h5 (by simp); simpa using this
        · exact i1.enums e' he'

theorem getDefinedSymbols_ok {f : File} {d : Defined} (h : getDefinedSymbols f = .ok d) :
    ∃ t, terminals f = [t] ∧ d.nonterminals = nonterminalNames f ∧ d.terminals = t.variants.map (·.name.name) := by
  unfold getDefinedSymbols at h
  obtain ⟨_, h1, h2⟩ := bind_ok h
  obtain ⟨t, h3, h4⟩ := bind_ok h2
  cases h4
  exact ⟨t, terminal_unique h3, rfl, rfl⟩

theorem getStart_ok {f : File} {nts : List VFile.Nonterminal} {s : Str} (h : getStartSymbolName f nts = .ok s) :
    ∃ i, starts f = [i] ∧ i.name ∈ nts.map (·.name) ∧ s = i.name := by
  unfold getStartSymbolName at h
  split at h
  · cases h
  · rename_i i hs
    split at h
    · rename_i hany
      cases h
      refine ⟨i, hs, ?_, rfl⟩
      rw [List.any_eq_true] at hany
      obtain ⟨n, hn, he⟩ := hany
      exact List.mem_map.mpr ⟨n, hn, by simpa using he⟩
    · cases h
  · cases h

/-! ### the theorem -/

theorem mem_fieldsets {f : File} {fs : Fieldset} (h : fs ∈ fieldsets f) :
    (∃ s, Item.struct s ∈ f.items ∧ fs = s.fieldset) ∨
    (∃ e v, Item.enum e ∈ f.items ∧ v ∈ e.variants ∧ fs = v.fieldset) := by
  unfold fieldsets at h
  rw [List.mem_flatMap] at h
  obtain ⟨it, hit, hfs⟩ := h
  cases it with
  | start i => simp at hfs
  | terminal t => simp at hfs
  | struct s =>
    simp only [List.mem_singleton] at hfs
    exact Or.inl ⟨s, hit, hfs⟩
  | enum e =>
    simp only [List.mem_map] at hfs
    obtain ⟨v, hv, rfl⟩ := hfs
    exact Or.inr ⟨e, v, hit, hv, rfl⟩

theorem mem_enums {f : File} {e : Enum} (h : e ∈ enums f) : Item.enum e ∈ f.items := by
  unfold enums at h
  rw [List.mem_filterMap] at h
  obtain ⟨it, hit, he⟩ := h
  cases it <;> simp at he
  subst he; exact hit

theorem mem_ntNames {f : File} {n : Str} (h : n ∈ nonterminalNames f) :
    (∃ s, Item.struct s ∈ f.items ∧ n = s.name.name) ∨ (∃ e, Item.enum e ∈ f.items ∧ n = e.name.name) := by
  unfold nonterminalNames at h
  rw [List.mem_filterMap] at h
  obtain ⟨it, hit, he⟩ := h
  cases it with
  | start i => simp at he
  | terminal t => simp at he
  | struct s => simp at he; exact Or.inl ⟨s, hit, he.symm⟩
  | enum e => simp at he; exact Or.inr ⟨e, hit, he.symm⟩

/-- **C10, soundness of acceptance**: `validate_ast` returns `Ok` only for files that satisfy every static
well-formedness rule -/
theorem validate_ok_wellFormed {f : File} {v : VFile.File} (h : validateAst f = .ok v) : WellFormed f := by
  unfold validateAst at h
  obtain ⟨te, h1, h2⟩ := bind_ok h
  obtain ⟨nts, h3, h4⟩ := bind_ok h2
  obtain ⟨start, h5, h6⟩ := bind_ok h4
  obtain ⟨_, h7, _⟩ := bind_ok h6
  obtain ⟨t, ht, hup, hvup, _⟩ := getTerminalEnum_ok h1
  unfold getNonterminals at h3
  obtain ⟨d, h8, h9⟩ := bind_ok h3
  obtain ⟨t2, ht2, hdn, hdt⟩ := getDefinedSymbols_ok h8
  have et2 : t2 = t := by rw [ht] at ht2; injection ht2 with a _; exact a.symm
  subst et2
  obtain ⟨hitems, hnames⟩ := validateNonterminals_ok d _ _ h9
  obtain ⟨i, hi, himem, _⟩ := getStart_ok h5
  obtain ⟨t3, ht3, hnd⟩ := noClashes_ok h7
  have et3 : t3 = t2 := by rw [ht] at ht3; injection ht3 with a _; exact a.symm
  subst et3
  have only_t : ∀ t', termEnums f = [t'] → t' = t3 := by
    intro t' h'; rw [termEnums_eq, ht] at h'; injection h' with a _; exact a.symm
  have symok : ∀ {s : SymId}, SymOk d s →
      match s with
      | .n i => i.name ∈ nonterminalNames f
      | .t i => i.name ∈ t3.variants.map (·.name.name) := by
    intro s hs
    cases s with
    | n i => simp only [SymOk] at hs; rw [hdn] at hs; exact hs
    | t i => simp only [SymOk] at hs; rw [hdt] at hs; exact hs
  refine
    { oneStart := ⟨i, hi⟩
      oneTerminal := ⟨t3, ht⟩
      startDefined := ?_
      refsDefined := ?_
      topLevelDistinct := ?_
      variantNames := ?_
      variantSeqs := ?_
      upperTypes := ?_
      upperVariants := ?_
      upperTerminals := ?_
      lowerFields := ?_ }
  · intro s hs
    rw [startDecls_eq, hi] at hs
    injection hs with a _; subst a
    rw [hnames] at himem
    exact himem
  · intro t' ht' fs hfs sym hsym
    have := only_t t' ht'; subst this
    rcases mem_fieldsets hfs with ⟨s, hs, rfl⟩ | ⟨e, v, he, hv, rfl⟩
    · exact symok ((hitems.structs s hs).2.1 sym hsym)
    · exact symok (((hitems.enums e he).2.2.2 v hv).2.1 sym hsym)
  · intro t' ht'
    have := only_t t' ht'; subst this
    exact hnd
  · intro e he
    exact (hitems.enums e (mem_enums he)).2.1
  · intro e he
    exact (hitems.enums e (mem_enums he)).2.2.1
  · intro n hn
    rcases mem_ntNames hn with ⟨s, hs, rfl⟩ | ⟨e, he, rfl⟩
    · exact (hitems.structs s hs).1
    · exact (hitems.enums e he).1
  · intro e he v hv
    exact ((hitems.enums e (mem_enums he)).2.2.2 v hv).1
  · intro t' ht'
    have := only_t t' ht'; subst this
    exact ⟨hup, hvup⟩
  · intro fs hfs n hn
    rcases mem_fieldsets hfs with ⟨s, hs, rfl⟩ | ⟨e, v, he, hv, rfl⟩
    · exact (hitems.structs s hs).2.2 n hn
    · exact ((hitems.enums e he).2.2.2 v hv).2.2 n hn

end Validate
end KikiVerif
