/-
Conflicts of the generated automaton = conflicts of the LALR(1) automaton in the textbook sense.

`Want` is the *kind* of parser action an LR(1) item asks for on a lookahead column, stated without any reference
to a machine (no state numbers): shift on the terminal right of the dot, reduce by the item's rule on the item's
lookahead, accept on end of input.  `LalrConflict c fm`: two canonical LR(1) states with the same cores (they
are merged into one LALR(1) state) hold two items that want different things on one column.

`genuine_iff_lalrConflict`: for every grammar, the automaton built by `validated_ast_to_machine` has a pair of
items of one state demanding different actions on a column (`Table.Genuine`, what `machine_to_table` reports)
iff the grammar has an LALR(1) conflict in this sense.  Uses `lalr_exact`'s two halves and `MachineOK.done`
(every symbol right of a dot has its transition, so the shift an item wants has a destination).
-/
import KikiVerif.Proofs.Canonical
import KikiVerif.Proofs.Table

set_option linter.unusedSimpArgs false
set_option linter.unusedVariables false

namespace KikiVerif
namespace Machine
open KikiVerif.Table KikiVerif.LR

inductive Want where
  | shift | reduce (r : Nat) | accept | err
  deriving DecidableEq, Repr

def kindOf : Action → Want
  | .shift _ => .shift
  | .reduce r => .reduce r
  | .accept => .accept
  | .err => .err

/-- what an LR(1) item wants, and on which lookahead column (machine-independent counterpart of `Table.demand`) -/
def want (c : Ctx) (it : Item) : Option (Nat × Want) :=
  if it.rule = c.numRules then
    if it.dot = 0 then none else some (c.nT, .accept)
  else
    match c.g.rules[it.rule]? with
    | none => none
    | some r =>
      if it.dot = r.rhs.length then some (it.la, .reduce it.rule)
      else match r.rhs[it.dot]? with
        | some (.t t) => some (t, .shift)
        | _ => none

/-- an LALR(1) conflict of the grammar: two canonical LR(1) states that are merged (same cores) hold items that
want different actions on the same lookahead column -/
def LalrConflict (c : Ctx) (fm : List FirstSet) : Prop :=
  ∃ (I1 I2 : Item → Prop) (y1 y2 : Item) (col : Nat) (w1 w2 : Want),
    CanonState c fm I1 ∧ CanonState c fm I2 ∧ (∀ p, coresP I1 p ↔ coresP I2 p) ∧ I1 y1 ∧ I2 y2 ∧
    want c y1 = some (col, w1) ∧ want c y2 = some (col, w2) ∧ w1 ≠ w2

variable {c : Ctx} {fm : List FirstSet} {m : Machine}

theorem demand_want {s : Nat} {it : Item} {col : Nat} {a : Action} (h : demand c m s it = some (col, a)) :
    want c it = some (col, kindOf a) ∧ (∀ d, a = .shift d → getShiftDest m s col = some d) := by
  unfold demand at h
  unfold want
  by_cases h1 : it.rule = c.numRules
  · rw [if_pos h1] at h ⊢
    by_cases h2 : it.dot = 0
    · rw [if_pos h2] at h; cases h
    · rw [if_neg h2] at h ⊢
      cases h
      exact ⟨rfl, fun d e => by cases e⟩
  · rw [if_neg h1] at h ⊢
    cases hr : c.g.rules[it.rule]? with
    | none => rw [hr] at h; cases h
    | some r =>
      rw [hr] at h
      simp only at h ⊢
      by_cases h3 : it.dot = r.rhs.length
      · rw [if_pos h3] at h ⊢
        cases h
        exact ⟨rfl, fun d e => by cases e⟩
      · rw [if_neg h3] at h ⊢
        cases hs : r.rhs[it.dot]? with
        | none => rw [hs] at h; cases h
        | some X =>
          rw [hs] at h
          cases X with
          | n b => cases h
          | t t0 =>
            simp only at h ⊢
            cases hg : getShiftDest m s t0 with
            | none => rw [hg] at h; cases h
            | some dest =>
              rw [hg] at h
              simp only [Option.map_some, Option.some.injEq, Prod.mk.injEq] at h
              obtain ⟨e1, e2⟩ := h
              subst e1; subst e2
              refine ⟨rfl, fun d e => ?_⟩
              cases e; exact hg

theorem getShiftDest_of_transition {s t' a : Nat} (h : (⟨s, t', .t a⟩ : Transition) ∈ m.transitions) :
    ∃ d, getShiftDest m s a = some d := by
  unfold getShiftDest
  cases hf : m.transitions.find? (fun tr => tr.frm == s && tr.sym == Sym.t a) with
  | some tr => exact ⟨tr.to, rfl⟩
  | none =>
    have := List.find?_eq_none.mp hf _ h
    simp at this

theorem want_demand (mok : MachineOK c fm m) {s : Nat} (hs : s < m.states.length) {it : Item}
    (hit : it ∈ m.states.getD s []) {col : Nat} {w : Want} (h : want c it = some (col, w)) :
    ∃ a, demand c m s it = some (col, a) ∧ kindOf a = w := by
  unfold want at h
  unfold demand
  by_cases h1 : it.rule = c.numRules
  · rw [if_pos h1] at h ⊢
    by_cases h2 : it.dot = 0
    · rw [if_pos h2] at h; cases h
    · rw [if_neg h2] at h ⊢
      cases h
      exact ⟨_, rfl, rfl⟩
  · rw [if_neg h1] at h ⊢
    cases hr : c.g.rules[it.rule]? with
    | none => rw [hr] at h; cases h
    | some r =>
      rw [hr] at h
      simp only at h ⊢
      by_cases h3 : it.dot = r.rhs.length
      · rw [if_pos h3] at h ⊢
        cases h
        exact ⟨_, rfl, rfl⟩
      · rw [if_neg h3] at h ⊢
        cases hsym : r.rhs[it.dot]? with
        | none => rw [hsym] at h; cases h
        | some X =>
          rw [hsym] at h
          cases X with
          | n b => cases h
          | t t0 =>
            simp only at h ⊢
            cases h
            have hright : symRightOfDot c it = some (.t col) := by
              unfold symRightOfDot rhsOf
              rw [if_neg h1, hr]; exact hsym
            obtain ⟨t', htr, _⟩ := mok.done s hs it hit _ hright
            obtain ⟨d, hd⟩ := getShiftDest_of_transition htr
            rw [hd]
            exact ⟨_, rfl, rfl⟩

/-- the two reported items themselves are an LALR(1) conflict of the grammar: each lies in a canonical LR(1) state
with the cores of the reported state, and they want different actions on one column -/
theorem genuine_lalr (ok : Assemble.CtxOK c) (hlen : fm.length = c.nN) (mok : MachineOK c fm m) {s : Nat} {e n : Item}
    (h : Genuine c m s e n) :
    ∃ (I1 I2 : Item → Prop) (col : Nat) (w1 w2 : Want),
      CanonState c fm I1 ∧ CanonState c fm I2 ∧ SameCoresPS I1 (m.states.getD s []) ∧
      SameCoresPS I2 (m.states.getD s []) ∧ I1 e ∧ I2 n ∧
      want c e = some (col, w1) ∧ want c n = some (col, w2) ∧ w1 ≠ w2 := by
  obtain ⟨⟨st, hst, he, hn⟩, col, ae, an, hde, hdn, hne⟩ := h
  have hs : s < m.states.length := by
    rcases Nat.lt_or_ge s m.states.length with h | h
    · exact h
    · rw [List.getElem?_eq_none h] at hst; cases hst
  have hget : m.states.getD s [] = st := by
    rw [List.getD_eq_getElem?_getD, hst]; rfl
  rw [← hget] at he hn
  obtain ⟨I1, hI1, hsc1, hy1⟩ := machine_in_canon ok hlen mok (mok.just s hs e he)
  obtain ⟨I2, hI2, hsc2, hy2⟩ := machine_in_canon ok hlen mok (mok.just s hs n hn)
  obtain ⟨hw1, hsh1⟩ := demand_want hde
  obtain ⟨hw2, hsh2⟩ := demand_want hdn
  refine ⟨I1, I2, col, kindOf ae, kindOf an, hI1, hI2, hsc1, hsc2, hy1, hy2, hw1, hw2, ?_⟩
  intro hk
  apply hne
  cases ae <;> cases an <;> simp only [kindOf] at hk <;> try cases hk
  · rename_i d1 d2
    have := (hsh1 d1 rfl).symm.trans (hsh2 d2 rfl)
    cases this; rfl
  · rfl
  · rfl
  · rfl

theorem genuine_iff_lalrConflict (ok : Assemble.CtxOK c) (hlen : fm.length = c.nN) (mok : MachineOK c fm m) :
    (∃ s e n, Genuine c m s e n) ↔ LalrConflict c fm := by
  constructor
  · rintro ⟨s, e, n, h⟩
    obtain ⟨I1, I2, col, w1, w2, hI1, hI2, hsc1, hsc2, hy1, hy2, hw1, hw2, hne⟩ := genuine_lalr ok hlen mok h
    exact ⟨I1, I2, e, n, col, w1, w2, hI1, hI2, fun p => (hsc1 p).trans (hsc2 p).symm, hy1, hy2, hw1, hw2, hne⟩
  · rintro ⟨I1, I2, y1, y2, col, w1, w2, hI1, hI2, hcores, hy1, hy2, hw1, hw2, hne⟩
    obtain ⟨s1, hs1, hsc1, hin1⟩ := canon_in_machine ok hlen mok hI1
    obtain ⟨s2, hs2, hsc2, hin2⟩ := canon_in_machine ok hlen mok hI2
    have hsame : SameCores (m.states.getD s1 []) (m.states.getD s2 []) := fun p =>
      (hsc1 p).symm.trans ((hcores p).trans (hsc2 p))
    have e12 := mok.distinct s1 s2 hs1 hs2 hsame
    subst e12
    obtain ⟨a1, hd1, hk1⟩ := want_demand mok hs1 (hin1 y1 hy1) hw1
    obtain ⟨a2, hd2, hk2⟩ := want_demand mok hs1 (hin2 y2 hy2) hw2
    refine ⟨s1, y1, y2, ⟨m.states.getD s1 [], ?_, hin1 y1 hy1, hin2 y2 hy2⟩, col, a1, a2, hd1, hd2, ?_⟩
    · rw [List.getD_eq_getElem?_getD, List.getElem?_eq_getElem hs1]; rfl
    · intro e; apply hne; rw [← hk1, ← hk2, e]

/-! ### transitions = the canonical goto function, up to the state correspondence -/

/-- along a transition of the machine, the canonical goto of any item set with the source state's cores has the
target state's cores -/
theorem transition_canon (ok : Assemble.CtxOK c) (hlen : fm.length = c.nN) (mok : MachineOK c fm m)
    {tr : Transition} (htr : tr ∈ m.transitions) {I : Item → Prop}
    (hsc : SameCoresPS I (m.states.getD tr.frm [])) :
    SameCoresPS (PClos c fm (Moved c I tr.sym)) (m.states.getD tr.to []) := by
  have htot : ∀ x, ∃ imp, impliedItems c fm x = some imp := NoPanic.impliedItems_some ok hlen
  intro p
  rw [pclos_cores htot p, target_cores mok htr p]
  exact creach_iff (moved_cores tr.sym hsc) p

/-- wherever a canonical state merged into `s` has a symbol right of a dot, the machine has the transition -/
theorem canon_transition (mok : MachineOK c fm m) {s : Nat} (hs : s < m.states.length) {I : Item → Prop}
    (hsc : SameCoresPS I (m.states.getD s [])) {x : Item} (hx : I x) {X : Sym Nat Nat}
    (hsym : symRightOfDot c x = some X) : ∃ t', (⟨s, t', X⟩ : Transition) ∈ m.transitions := by
  obtain ⟨y, hy, hcore⟩ := (hsc (coreOf x)).mp ⟨x, hx, rfl⟩
  have hsym' : symRightOfDot c y = some X := by
    unfold symRightOfDot at hsym ⊢
    unfold coreOf at hcore
    simp only [Prod.mk.injEq] at hcore
    rw [hcore.1, hcore.2]; exact hsym
  obtain ⟨t', htr, _⟩ := mok.done s hs y hy X hsym'
  exact ⟨t', htr⟩

end Machine
end KikiVerif
