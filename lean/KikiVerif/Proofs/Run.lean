/-
End-to-end statements about the driver loop `runCfg` (the `loop { … }` of the emitted `parse`),
lifted from the one-step theorems of `LR/Snd.lean` and `LR/Gen.lean`.
-/
import KikiVerif.LR.Snd

namespace KikiVerif
namespace LR
variable {T N P : Type}

/-- `step` reads the automaton only through ACTION and GOTO -/
theorem step_congr_auto {g : Grammar T N} {A A' : Auto T N} (ha : A.action = A'.action) (hg : A.goto = A'.goto)
    (c : Cfg T P) : step g A c = step g A' c := by
  unfold step
  rw [ha, hg]

/-- `step` reads a rule only through its left-hand side and the length of its right-hand side -/
theorem step_congr_grammar {g g' : Grammar T N} {A : Auto T N}
    (h : ∀ r : Nat, (g.rules[r]?).map (fun (x : Rule T N) => (x.lhs, x.rhs.length)) =
      (g'.rules[r]?).map (fun (x : Rule T N) => (x.lhs, x.rhs.length)))
    (c : Cfg T P) : step g A c = step g' A c := by
  unfold step
  cases c.states with
  | nil => rfl
  | cons top tl =>
    simp only
    cases A.action top (la c.rest) with
    | shift s => rfl
    | accept => rfl
    | err => rfl
    | reduce r =>
      simp only
      have := h r
      cases h1 : g.rules[r]? with
      | none =>
        cases h2 : g'.rules[r]? with
        | none => rfl
        | some rule' => rw [h1, h2] at this; cases this
      | some rule =>
        cases h2 : g'.rules[r]? with
        | none => rw [h1, h2] at this; cases this
        | some rule' =>
          rw [h1, h2] at this
          simp only [Option.map_some, Option.some.injEq, Prod.mk.injEq] at this
          obtain ⟨e1, e2⟩ := this
          simp only [e1, e2]

theorem runCfg_congr {g g' : Grammar T N} {A A' : Auto T N} (h : ∀ c : Cfg T P, step g A c = step g' A' c) :
    ∀ fuel (c : Cfg T P), runCfg g A fuel c = runCfg g' A' fuel c := by
  intro fuel
  induction fuel with
  | zero => intro c; rfl
  | succ k ih =>
    intro c
    simp only [runCfg, h c]
    split
    · exact ih _
    · rfl

/-- **safety and soundness of whole runs**: from a consistent configuration the loop never panics, and an
accepted run returns a derivation tree of the whole input (consumed part `u` followed by the rest) -/
theorem run_sound {g : Grammar T N} {A : Auto T N} (hs : Sound g A) :
    ∀ fuel (c : Cfg T P) (u : List (Tok T P)), Stk g A c.states c.nodes u →
      ∀ r cf, runCfg g A fuel c = some (r, cf) →
        r ≠ .panic ∧ (∀ c', r ≠ .cont c') ∧ (∀ t, r = .ok t → WF g t (.n g.start) ∧ t.yield = u ++ c.rest) := by
  intro fuel
  induction fuel with
  | zero => intro c u _ r cf h; simp [runCfg] at h
  | succ k ih =>
    intro c u hstk r cf h
    have hinv := step_inv hs c u hstk
    simp only [runCfg] at h
    cases hstep : step g A c with
    | cont c' =>
      rw [hstep] at h hinv
      simp only at h hinv
      obtain ⟨u', hstk', hu'⟩ := hinv
      have := ih c' u' hstk' r cf h
      refine ⟨this.1, this.2.1, fun t ht => ?_⟩
      obtain ⟨hw, hy⟩ := this.2.2 t ht
      exact ⟨hw, by rw [hy, hu']⟩
    | ok t =>
      rw [hstep] at h hinv
      simp only at h hinv
      cases h
      refine ⟨by simp, by simp, fun t' ht' => ?_⟩
      cases ht'
      obtain ⟨hw, hu, hrest⟩ := hinv
      exact ⟨hw, by rw [hrest, ← hu]; simp⟩
    | panic => rw [hstep] at hinv; exact absurd hinv (by simp)
    | err =>
      rw [hstep] at h
      simp only at h
      cases h
      exact ⟨by simp, by simp, fun t ht => by cases ht⟩

/-- `Steps` followed by an accepting step is a finite run of the loop -/
theorem runCfg_of_steps {g : Grammar T N} {A : Auto T N} {c c' : Cfg T P} {t : Tree T P}
    (hsteps : Steps g A c c') (hok : step g A c' = .ok t) : ∃ fuel, runCfg g A fuel c = some (.ok t, c') := by
  induction hsteps with
  | refl c => exact ⟨1, by simp [runCfg, hok]⟩
  | head hs _ ih =>
    obtain ⟨fuel, hf⟩ := ih hok
    exact ⟨fuel + 1, by simp [runCfg, hs, hf]⟩

/-- **completeness of whole runs**: the loop accepts every sentence, returning that very derivation tree -/
theorem run_accepts {g : Grammar T N} {A : Auto T N} (hc : Complete (P := P) g A)
    (t : Tree T P) (hwf : WF g t (.n g.start)) :
    ∃ fuel cf, runCfg g A fuel ⟨[A.start], [], t.yield⟩ = some (.ok t, cf) := by
  obtain ⟨c, hs, ho⟩ := run_complete hc t hwf
  obtain ⟨fuel, hf⟩ := runCfg_of_steps hs ho
  exact ⟨fuel, c, hf⟩

/-- more fuel does not change a finished run -/
theorem runCfg_mono {g : Grammar T N} {A : Auto T N} :
    ∀ fuel (c : Cfg T P) r, runCfg g A fuel c = some r → ∀ k, runCfg g A (fuel + k) c = some r := by
  intro fuel
  induction fuel with
  | zero => intro c r h; simp [runCfg] at h
  | succ n ih =>
    intro c r h k
    have e : n + 1 + k = (n + k) + 1 := by omega
    rw [e]
    simp only [runCfg] at h ⊢
    split
    · rename_i c' hc; rw [hc] at h; exact ih c' r h k
    · rename_i hne
      split at h
      · rename_i c' hc; exact absurd hc (hne c')
      · exact h

/-- **the loop decides membership**: with `Sound` and `Complete`, whenever the run on `w` ends it ends with
`Ok` exactly if `w` is the yield of a derivation tree from the start symbol -/
theorem run_ok_iff {g : Grammar T N} {A : Auto T N} (hs : Sound g A) (hc : Complete (P := P) g A)
    (w : List (Tok T P)) (fuel : Nat) (r : StepRes T P) (cf : Cfg T P)
    (h : runCfg g A fuel ⟨[A.start], [], w⟩ = some (r, cf)) :
    (∃ t, r = .ok t) ↔ ∃ t, WF g t (.n g.start) ∧ t.yield = w := by
  constructor
  · rintro ⟨t, rfl⟩
    obtain ⟨_, _, h3⟩ := run_sound hs fuel ⟨[A.start], [], w⟩ [] .base _ _ h
    obtain ⟨hw, hy⟩ := h3 t rfl
    exact ⟨t, hw, by simpa using hy⟩
  · rintro ⟨t, hw, hy⟩
    obtain ⟨fuel', cf', h'⟩ := run_accepts hc t hw
    rw [hy] at h'
    have h1 := runCfg_mono fuel _ _ h fuel'
    have h2 := runCfg_mono fuel' _ _ h' fuel
    rw [Nat.add_comm] at h2
    rw [h1] at h2
    cases h2
    exact ⟨t, rfl⟩

end LR
end KikiVerif

namespace KikiVerif
namespace LR
variable {T N P : Type}

/-- a finished run of the loop is a sequence of continuing steps followed by the final step -/
theorem steps_of_runCfg {g : Grammar T N} {A : Auto T N} :
    ∀ fuel (c : Cfg T P) r cf, runCfg g A fuel c = some (r, cf) → Steps g A c cf ∧ step g A cf = r := by
  intro fuel
  induction fuel with
  | zero => intro c r cf h; simp [runCfg] at h
  | succ k ih =>
    intro c r cf h
    simp only [runCfg] at h
    cases hstep : step g A c with
    | cont c' =>
      rw [hstep] at h
      obtain ⟨h1, h2⟩ := ih c' r cf h
      exact ⟨.head hstep h1, h2⟩
    | ok t => rw [hstep] at h; cases h; exact ⟨.refl _, hstep⟩
    | err => rw [hstep] at h; cases h; exact ⟨.refl _, hstep⟩
    | panic => rw [hstep] at h; cases h; exact ⟨.refl _, hstep⟩

/-- the loop never returns a continuing step -/
theorem runCfg_ne_cont {g : Grammar T N} {A : Auto T N} :
    ∀ fuel (c : Cfg T P) r cf, runCfg g A fuel c = some (r, cf) → ∀ c', r ≠ .cont c' := by
  intro fuel c r cf h c' e
  subst e
  induction fuel generalizing c with
  | zero => simp [runCfg] at h
  | succ k ih =>
    simp only [runCfg] at h
    cases hstep : step g A c with
    | cont c1 => rw [hstep] at h; exact ih c1 h
    | ok t => rw [hstep] at h; cases h
    | err => rw [hstep] at h; cases h
    | panic => rw [hstep] at h; cases h

end LR
end KikiVerif
