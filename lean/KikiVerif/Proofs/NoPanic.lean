/-
No stage of the generator can panic on a well-formed coded grammar (`CtxOK`):
`validated_ast_to_machine` never hits a FIRST-map `unwrap` or an `index_map[i]` that fails
(`machineOf c fuel ≠ some none`), and `machine_to_table` never hits `rules[i]`, `get_shift_dest(..).unwrap()`,
the "Impossible: goto conflict" or an out-of-range table index (`machineToTable c m ≠ .panic _`).
-/
import KikiVerif.Proofs.Assemble
import KikiVerif.Proofs.Emit
import KikiVerif.Proofs.Perm
import KikiVerif.Proofs.TableCells

set_option linter.unusedSimpArgs false
set_option linter.unusedVariables false

namespace KikiVerif
namespace NoPanic
open Machine Table Assemble
open LR (Sym Rule Grammar Action)

/-! ### FIRST sets -/

/-- symbols of a sequence are in range -/
def SeqOK (c : Ctx) (β : List (Sym Nat Nat)) : Prop := ∀ b, Sym.n b ∈ β → b < c.nN

theorem currentFirst_some {c : Ctx} {fm : List FirstSet} (hlen : fm.length = c.nN) :
    ∀ (β : List (Sym Nat Nat)) (out : FirstSet), SeqOK c β → ∃ cur, currentFirst fm β out = some cur := by
  intro β
  induction β with
  | nil => intro out _; exact ⟨out, rfl⟩
  | cons X rest ih =>
    intro out hβ
    cases X with
    | t a => exact ⟨_, rfl⟩
    | n b =>
      have hb : b < fm.length := by rw [hlen]; exact hβ b List.mem_cons_self
      simp only [currentFirst, List.getElem?_eq_getElem hb]
      split
      · exact ih _ (fun b' hb' => hβ b' (List.mem_cons_of_mem _ hb'))
      · exact ⟨_, rfl⟩

theorem expand_some {c : Ctx} : ∀ (rules : List (Rule Nat Nat)) (fm : List FirstSet) (ch : Bool),
    fm.length = c.nN → (∀ r ∈ rules, r.lhs < c.nN ∧ SeqOK c r.rhs) → ∃ r, expand rules fm ch = some r ∧ r.1.length = c.nN := by
  intro rules
  induction rules with
  | nil => intro fm ch hlen _; exact ⟨(fm, ch), rfl, hlen⟩
  | cons r rs ih =>
    intro fm ch hlen hr
    obtain ⟨hl, hs⟩ := hr r List.mem_cons_self
    obtain ⟨cur, hcur⟩ := currentFirst_some hlen r.rhs ⟨[], true⟩ hs
    have hlt : r.lhs < fm.length := by rw [hlen]; exact hl
    have hexp : ∃ fm' ch', expandRule fm r = some (fm', ch') ∧ fm'.length = c.nN := by
      unfold expandRule
      rw [hcur, List.getElem?_eq_getElem hlt]
      simp only
      exact ⟨_, _, rfl, by simp [hlen]⟩
    obtain ⟨fm', ch', he, hl'⟩ := hexp
    simp only [expand, he]
    exact ih fm' (ch || ch') hl' (fun r' hr' => hr r' (List.mem_cons_of_mem _ hr'))

theorem firstLoop_no_panic {c : Ctx} (rules : List (Rule Nat Nat)) (hr : ∀ r ∈ rules, r.lhs < c.nN ∧ SeqOK c r.rhs) :
    ∀ (fuel : Nat) (fm : List FirstSet), fm.length = c.nN → firstLoop rules fuel fm ≠ some none := by
  intro fuel
  induction fuel with
  | zero => intro fm _ h; simp [firstLoop] at h
  | succ k ih =>
    intro fm hlen h
    obtain ⟨⟨fm', ch⟩, he, hl'⟩ := expand_some rules fm false hlen hr
    simp only [firstLoop, he] at h
    split at h
    · exact ih fm' hl' h
    · cases h

theorem rules_ok {c : Ctx} (ok : CtxOK c) : ∀ r ∈ c.g.rules, r.lhs < c.nN ∧ SeqOK c r.rhs :=
  fun r hr => ⟨ok.lhs r hr, ok.nts r hr⟩

theorem firstSets_no_panic {c : Ctx} (ok : CtxOK c) (fuel : Nat) : firstSets c fuel ≠ some none := by
  unfold firstSets
  exact firstLoop_no_panic _ (rules_ok ok) fuel _ (by simp [emptyFirst])

/-! ### closures -/

theorem rhsOf_seqOK {c : Ctx} (ok : CtxOK c) (rule : Nat) : SeqOK c (rhsOf c rule) := by
  intro b hb
  unfold rhsOf at hb
  split at hb
  · simp at hb; subst hb; exact ok.start
  · split at hb
    · rename_i r hr
      exact ok.nts r (List.mem_of_getElem? hr) b hb
    · cases hb

theorem firstOfSeq_some {c : Ctx} {fm : List FirstSet} (hlen : fm.length = c.nN) :
    ∀ (β : List (Sym Nat Nat)) (ts : List Nat), SeqOK c β → ∃ f, firstOfSeq fm β ts = some f := by
  intro β
  induction β with
  | nil => intro ts _; exact ⟨_, rfl⟩
  | cons X rest ih =>
    intro ts hβ
    cases X with
    | t a => exact ⟨_, rfl⟩
    | n b =>
      have hb : b < fm.length := by rw [hlen]; exact hβ b List.mem_cons_self
      simp only [firstOfSeq, List.getElem?_eq_getElem hb]
      split
      · exact ih _ (fun b' hb' => hβ b' (List.mem_cons_of_mem _ hb'))
      · exact ⟨_, rfl⟩

theorem impliedItems_some {c : Ctx} {fm : List FirstSet} (ok : CtxOK c) (hlen : fm.length = c.nN) (x : Item) :
    ∃ imp, impliedItems c fm x = some imp := by
  unfold impliedItems
  split
  · obtain ⟨f, hf⟩ := firstOfSeq_some hlen ((rhsOf c x.rule).drop (x.dot + 1)) []
      (fun b hb => rhsOf_seqOK ok x.rule b (List.mem_of_mem_drop hb))
    have : ∃ las, augmentedFirst fm ((rhsOf c x.rule).drop (x.dot + 1)) x.la = some las := by
      unfold augmentedFirst
      rw [hf]
      simp only
      split <;> exact ⟨_, rfl⟩
    obtain ⟨las, hlas⟩ := this
    rw [hlas]
    exact ⟨_, rfl⟩
  · exact ⟨_, rfl⟩

theorem closureLoop_no_panic {c : Ctx} {fm : List FirstSet} (ok : CtxOK c) (hlen : fm.length = c.nN) :
    ∀ (fuel : Nat) (q : List Item) (acc : Oset Item), closureLoop c fm fuel q acc ≠ some none := by
  intro fuel
  induction fuel with
  | zero => intro q acc h; simp [closureLoop] at h
  | succ k ih =>
    intro q acc h
    cases q with
    | nil => simp [closureLoop] at h
    | cons x xs =>
      simp only [closureLoop] at h
      split at h
      · exact ih _ _ h
      · obtain ⟨imp, himp⟩ := impliedItems_some ok hlen x
        rw [himp] at h
        exact ih _ _ h

/-! ### the worklist and the renumbering -/

theorem enqueueTargets_no_panic {c : Ctx} {fm : List FirstSet} (ok : CtxOK c) (hlen : fm.length = c.nN) (cf i : Nat) :
    ∀ (ks : List Nat) (b : Builder), enqueueTargets c fm cf i ks b ≠ some none := by
  intro ks
  induction ks with
  | nil => intro b h; simp [enqueueTargets] at h
  | cons k ks ih =>
    intro b h
    simp only [enqueueTargets] at h
    split at h
    · cases h
    · rename_i hstep
      unfold enqueueTransitionTarget at hstep
      simp only at hstep
      split at hstep
      · cases hstep
      · rename_i hcl
        exact closureLoop_no_panic ok hlen _ _ _ hcl
      · cases hstep
    · exact ih _ h

theorem buildLoop_no_panic {c : Ctx} {fm : List FirstSet} (ok : CtxOK c) (hlen : fm.length = c.nN) (cf : Nat) :
    ∀ (fuel : Nat) (b : Builder), buildLoop c fm cf fuel b ≠ some none := by
  intro fuel
  induction fuel with
  | zero => intro b h; simp [buildLoop] at h
  | succ k ih =>
    intro b h
    obtain ⟨states, trans, queue⟩ := b
    cases queue with
    | nil => simp [buildLoop] at h
    | cons i q =>
      simp only [buildLoop] at h
      split at h
      · cases h
      · rename_i hstep
        exact enqueueTargets_no_panic ok hlen _ _ _ _ hstep
      · exact ih _ h

theorem updateIndex_some (states : List State) (i : Nat) (hi : i < states.length) :
    ∃ p, updateIndex (sortedIndexed states) i = some p := by
  have hperm : (sortedIndexed states).Perm states.zipIdx := List.mergeSort_perm _ _
  have hmem : (states[i], i) ∈ sortedIndexed states := by
    rw [hperm.mem_iff]
    exact List.mk_mem_zipIdx_iff_getElem?.mpr (List.getElem?_eq_getElem hi)
  unfold updateIndex
  cases hf : (sortedIndexed states).findIdx? (fun p => p.2 == i) with
  | some p => exact ⟨p, rfl⟩
  | none =>
    have := List.findIdx?_eq_none_iff.mp hf _ hmem
    simp at this

theorem mapM_some_of_forall {α β : Type} (f : α → Option β) : ∀ (l : List α), (∀ x ∈ l, ∃ y, f x = some y) →
    ∃ r, l.mapM f = some r := by
  intro l
  induction l with
  | nil => intro _; exact ⟨[], rfl⟩
  | cons x xs ih =>
    intro h
    obtain ⟨y, hy⟩ := h x List.mem_cons_self
    obtain ⟨ys, hys⟩ := ih (fun z hz => h z (List.mem_cons_of_mem _ hz))
    exact ⟨y :: ys, by rw [List.mapM_cons, hy, hys]; rfl⟩

theorem normalize_some {b : Builder} (hne : 0 < b.states.length)
    (ht : ∀ t ∈ b.transitions, t.frm < b.states.length ∧ t.to < b.states.length) : ∃ m, normalize b = some m := by
  obtain ⟨p0, e0⟩ := updateIndex_some b.states 0 hne
  unfold normalize
  simp only
  split
  · exact ⟨_, rfl⟩
  · rename_i hnot
    exfalso
    refine hnot _ _ (Classical.choose_spec (mapM_some_of_forall _ b.transitions ?_)) e0
    intro t htm
    obtain ⟨h1, h2⟩ := ht t htm
    obtain ⟨p1, e1⟩ := updateIndex_some b.states t.frm h1
    obtain ⟨p2, e2⟩ := updateIndex_some b.states t.to h2
    exact ⟨_, by rw [e1, e2]⟩

/-- **`validated_ast_to_machine` never panics** (it returns a machine, or runs out of the model's fuel) -/
theorem machineOf_no_panic {c : Ctx} (ok : CtxOK c) (fuel : Nat) : machineOf c fuel ≠ some none := by
  intro h
  unfold machineOf at h
  split at h
  · cases h
  · rename_i hfm
    exact firstSets_no_panic ok fuel hfm
  · rename_i fm hfm
    have hlen : fm.length = c.nN := (firstSets_closed hfm).2.1
    have hfb := firstSets_bound ok.terms hfm
    split at h
    · cases h
    · rename_i hcl
      exact closureLoop_no_panic ok hlen _ _ _ hcl
    · rename_i start hstart
      obtain ⟨inv0, _⟩ := initial_inv ok.terms hfb hstart
      split at h
      · cases h
      · rename_i hb
        exact buildLoop_no_panic ok hlen _ _ _ hb
      · rename_i b hb
        obtain ⟨inv, _⟩ := buildLoop_spec ok.terms hfb _ _ _ inv0 hb
        obtain ⟨m, hm⟩ := normalize_some inv.nonempty (fun t ht => ⟨(inv.trans t ht).frm, (inv.trans t ht).to⟩)
        rw [hm] at h
        cases h

/-! ### `machine_to_table` -/

variable {c : Ctx} {fm : List FirstSet} {m : Machine}

theorem setAction_no_panic (tb : TB) (s col : Nat) (it : Item) (a : Action) (site : String) :
    setAction tb s col it a ≠ .panic site := by
  unfold setAction
  split
  · split <;> (intro h; cases h)
  · intro h; cases h

theorem addItemAction_no_panic (ok : CtxOK c) (mok : MachineOK c fm m) {s : Nat} (hs : s < m.states.length)
    {x : Item} (hx : x ∈ m.states.getD s []) (tb : TB) (site : String) :
    addItemAction c m tb s x ≠ .panic site := by
  have hwf := (mok.good s hs).wf x hx
  unfold addItemAction
  split
  · split
    · intro h; cases h
    · exact setAction_no_panic _ _ _ _ _ _
  · rename_i hne
    have hlt : x.rule < c.g.rules.length := by have := hwf.1; unfold Ctx.numRules at this hne; omega
    rw [List.getElem?_eq_getElem hlt]
    simp only
    have hrhs : rhsOf c x.rule = c.g.rules[x.rule].rhs := by
      unfold rhsOf; rw [if_neg hne, List.getElem?_eq_getElem hlt]
    split
    · exact setAction_no_panic _ _ _ _ _ _
    · rename_i hdne
      have hdlt : x.dot < c.g.rules[x.rule].rhs.length := by
        have := hwf.2.1; rw [hrhs] at this; omega
      rw [List.getElem?_eq_getElem hdlt]
      cases hX : c.g.rules[x.rule].rhs[x.dot] with
      | n b => intro h; cases h
      | t a =>
        simp only
        have hsym : symRightOfDot c x = some (.t a) := by
          unfold symRightOfDot; rw [hrhs, List.getElem?_eq_getElem hdlt, hX]
        obtain ⟨t', htr, _⟩ := mok.done s hs x hx _ hsym
        have hd := demand_shift mok hs hx hsym htr
        -- the demand is defined, so the shift destination exists
        cases hg : getShiftDest m s a with
        | some dest => exact setAction_no_panic _ _ _ _ _ _
        | none =>
          exfalso
          unfold Table.demand at hd
          rw [if_neg hne, List.getElem?_eq_getElem hlt] at hd
          simp only at hd
          rw [if_neg hdne, List.getElem?_eq_getElem hdlt, hX] at hd
          simp only [hg, Option.map_none] at hd
          cases hd

theorem addStateActions_no_panic (ok : CtxOK c) (mok : MachineOK c fm m) {s : Nat} (hs : s < m.states.length) :
    ∀ (items : List Item) (tb : TB) (site : String), (∀ x ∈ items, x ∈ m.states.getD s []) →
      addStateActions c m s items tb ≠ .panic site := by
  intro items
  induction items with
  | nil => intro tb site _ h; cases h
  | cons x rest ih =>
    intro tb site hsub h
    simp only [addStateActions] at h
    split at h
    · exact ih _ site (fun y hy => hsub y (List.mem_cons_of_mem _ hy)) h
    · cases h
    · rename_i site' hp
      exact addItemAction_no_panic ok mok hs (hsub x List.mem_cons_self) tb site' hp

theorem addActions_no_panic (ok : CtxOK c) (mok : MachineOK c fm m) :
    ∀ (sts : List State) (i : Nat) (tb : TB) (site : String),
      (∀ k st, sts[k]? = some st → m.states[i + k]? = some st) → addActions c m sts i tb ≠ .panic site := by
  intro sts
  induction sts with
  | nil => intro i tb site _ h; cases h
  | cons st sts ih =>
    intro i tb site hidx h
    have hst : m.states[i]? = some st := by simpa using hidx 0 st rfl
    have hi : i < m.states.length := (List.getElem?_eq_some_iff.mp hst).1
    have hget : m.states.getD i [] = st := by rw [List.getD_eq_getElem?_getD, hst]; rfl
    simp only [addActions] at h
    split at h
    · refine ih (i + 1) _ site ?_ h
      intro k st' hk
      have := hidx (k + 1) st' (by simpa using hk)
      rw [show i + (k + 1) = i + 1 + k by omega] at this
      exact this
    · cases h
    · rename_i site' hp
      exact addStateActions_no_panic ok mok hi st tb site' (by intro x hx; rw [hget]; exact hx) hp

theorem lookup_append_ne {α β : Type} [BEq α] [LawfulBEq α] {l : List (α × β)} {k k' : α} (v : β)
    (h : l.lookup k = none) (hne : k' ≠ k) : (l ++ [(k', v)]).lookup k = none := by
  induction l with
  | nil =>
    simp only [List.nil_append, List.lookup]
    split
    · rename_i heq; exact absurd (by simpa using heq) hne.symm
    · rfl
  | cons p l ih =>
    obtain ⟨k2, v2⟩ := p
    simp only [List.cons_append, List.lookup] at h ⊢
    split
    · rename_i heq; simp only [heq] at h; cases h
    · rename_i heq; simp only [heq] at h; exact ih h

theorem addGotos_no_panic (mok : MachineOK c fm m) : ∀ (trs : List Transition) (tb : TB) (site : String),
    trs.Nodup → (∀ tr ∈ trs, tr ∈ m.transitions) →
    (∀ tr ∈ trs, ∀ b, tr.sym = .n b → tb.gotos.lookup (tr.frm, b) = none) → addGotos trs tb ≠ .panic site := by
  intro trs
  induction trs with
  | nil => intro tb site _ _ _ h; cases h
  | cons tr rest ih =>
    intro tb site hnd hsub hfree h
    rw [List.nodup_cons] at hnd
    simp only [addGotos] at h
    split at h
    · exact ih tb site hnd.2 (fun t ht => hsub t (List.mem_cons_of_mem _ ht))
        (fun t ht => hfree t (List.mem_cons_of_mem _ ht)) h
    · rename_i b hb
      rw [hfree tr List.mem_cons_self b hb] at h
      simp only at h
      refine ih _ site hnd.2 (fun t ht => hsub t (List.mem_cons_of_mem _ ht)) ?_ h
      intro t2 ht2 b2 hb2
      simp only
      apply lookup_append_ne _ (hfree t2 (List.mem_cons_of_mem _ ht2) b2 hb2)
      intro e
      simp only [Prod.mk.injEq] at e
      have hto := mok.func tr (hsub tr List.mem_cons_self) t2 (hsub t2 (List.mem_cons_of_mem _ ht2)) e.1
        (by rw [hb, hb2, e.2])
      have : tr = t2 := by
        cases tr; cases t2
        simp only at e hto hb hb2
        rw [e.1, hto, hb, hb2, e.2]
      exact hnd.1 (this ▸ ht2)

theorem idx_lt {s n w col : Nat} (hs : s < n) (hc : col < w) : s * w + col < n * w := by
  have h1 : (s + 1) * w ≤ n * w := Nat.mul_le_mul_right _ hs
  rw [Nat.succ_mul] at h1
  omega

theorem actFold_some : ∀ (acts : List ((Nat × Nat) × (Item × Action))) (t : Table.Table),
    (∀ e ∈ acts, e.1.2 ≤ t.nT ∧ e.1.1 < t.nStates) → t.actions.length = t.nStates * (t.nT + 1) →
    ∃ t', acts.foldlM (fun t e => writeAction t e.1.1 e.1.2 e.2.2) t = some t' ∧
      t'.nN = t.nN ∧ t'.nStates = t.nStates ∧ t'.gotos = t.gotos := by
  intro acts
  induction acts with
  | nil => intro t _ _; exact ⟨t, rfl, rfl, rfl, rfl⟩
  | cons e rest ih =>
    intro t hall hlen
    obtain ⟨h1, h2⟩ := hall e List.mem_cons_self
    have hsome : (writeAction t e.1.1 e.1.2 e.2.2).isSome = true := by
      rw [writeAction_isSome]
      have : e.1.1 * (t.nT + 1) + e.1.2 < t.actions.length := by rw [hlen]; exact idx_lt h2 (by omega)
      simp [h1, h2, this]
    obtain ⟨t1, ht1⟩ := Option.isSome_iff_exists.mp hsome
    obtain ⟨s1, s2, s3, _, s5, s6, _⟩ := writeAction_shape ht1
    obtain ⟨t', hf, r1, r2, r3⟩ := ih t1 (by
      intro e' he'
      have := hall e' (List.mem_cons_of_mem _ he')
      rw [s1, s3]; exact this) (by rw [s5, hlen, s3, s1])
    refine ⟨t', ?_, by rw [r1, s2], by rw [r2, s3], by rw [r3, s6]⟩
    rw [List.foldlM_cons, ht1]
    exact hf

theorem gotoFold_some : ∀ (gts : List ((Nat × Nat) × Nat)) (t : Table.Table),
    (∀ e ∈ gts, e.1.2 < t.nN ∧ e.1.1 < t.nStates) → t.gotos.length = t.nStates * t.nN →
    ∃ t', gts.foldlM (fun t e => writeGoto t e.1.1 e.1.2 e.2) t = some t' := by
  intro gts
  induction gts with
  | nil => intro t _ _; exact ⟨t, rfl⟩
  | cons e rest ih =>
    intro t hall hlen
    obtain ⟨h1, h2⟩ := hall e List.mem_cons_self
    have hsome : (writeGoto t e.1.1 e.1.2 e.2).isSome = true := by
      rw [writeGoto_isSome]
      have : e.1.1 * t.nN + e.1.2 < t.gotos.length := by rw [hlen]; exact idx_lt h2 h1
      simp [h1, h2, this]
    obtain ⟨t1, ht1⟩ := Option.isSome_iff_exists.mp hsome
    obtain ⟨_, _, _, _, s1, s2, s3, _, _, s6⟩ := writeGoto_cell ht1
    obtain ⟨t', hf⟩ := ih t1 (by
      intro e' he'
      have := hall e' (List.mem_cons_of_mem _ he')
      rw [s2, s3]; exact this) (by rw [s6, hlen, s3, s2])
    refine ⟨t', ?_⟩
    rw [List.foldlM_cons, ht1]
    exact hf

/-- **`machine_to_table` never panics** on the automaton of a well-formed grammar: it returns a table or reports
a conflict (which is genuine, `Proofs/Table.conflict_genuine`) -/
theorem machineToTable_no_panic (ok : CtxOK c) (mok : MachineOK c fm m) (site : String) :
    machineToTable c m ≠ .panic site := by
  intro h
  unfold machineToTable at h
  cases hres : addActions c m m.states 0 ⟨[], []⟩ with
  | conflict s' e' n' => rw [hres] at h; cases h
  | panic site' => exact addActions_no_panic ok mok m.states 0 _ site' (by intro k st hk; simpa using hk) hres
  | ok tb =>
    rw [hres] at h
    simp only at h
    obtain ⟨n1, g1⟩ := addActions_keys c m m.states 0 ⟨[], []⟩ tb hres (by simp)
    have hfilled : Filled c m tb :=
      (addActions_inv c m m.states 0 ⟨[], []⟩ (by intro k st hk; simpa using hk)
        (by intro s col it a hm; cases hm)).1 tb hres
    cases hres2 : addGotos m.transitions tb with
    | conflict s' e' n' => exact addGotos_no_conflict _ _ _ _ _ hres2
    | panic site' =>
      exact addGotos_no_panic mok m.transitions tb site' mok.tnodup (fun _ h => h)
        (by intro tr _ b _; rw [g1]; rfl) hres2
    | ok tb' =>
      rw [hres2] at h
      simp only at h
      obtain ⟨n2, a2⟩ := addGotos_keys m.transitions tb tb' hres2 (by rw [g1]; simp)
      have hg := addGotos_spec m.transitions tb tb' hres2
      -- every write is in range
      have hacts : ∀ e ∈ tb'.actions, e.1.2 ≤ (emptyTable c m).nT ∧ e.1.1 < (emptyTable c m).nStates := by
        intro e he
        rw [a2] at he
        obtain ⟨⟨s, col⟩, ⟨it, a⟩⟩ := e
        obtain ⟨⟨st, hst, hit⟩, hd⟩ := hfilled s col it a he
        have hs : s < m.states.length := (List.getElem?_eq_some_iff.mp hst).1
        have hit' : it ∈ m.states.getD s [] := by rw [List.getD_eq_getElem?_getD, hst]; exact hit
        have hwf := (mok.good s hs).wf it hit'
        refine ⟨?_, hs⟩
        show col ≤ c.nT
        rcases demand_cases hd with ⟨_, _, e1, _⟩ | ⟨_, _, _, _, e1, _⟩ | ⟨r, t0, _, _, hr, hsym, _, e1, _⟩
        · omega
        · rw [e1]; exact hwf.2.2
        · rw [e1]
          exact Nat.le_of_lt (ok.terms r (List.mem_of_getElem? hr) t0 (List.mem_of_getElem? hsym))
      have hgts : ∀ e ∈ tb'.gotos, e.1.2 < (emptyTable c m).nN ∧ e.1.1 < (emptyTable c m).nStates := by
        intro e he
        rcases (hg e).mp he with h0 | ⟨tr, htr, b, hb, rfl⟩
        · rw [g1] at h0; cases h0
        · obtain ⟨hfrm, hto, _, hk⟩ := mok.trans tr htr
          obtain ⟨y, hy, hyd⟩ := mok.hasKernel tr htr
          obtain ⟨x, hx, _, _, hsym⟩ := hk y hy hyd
          rw [hb] at hsym
          have := sym_bound ok hsym
          exact ⟨this, hfrm⟩
      obtain ⟨t1, hf1, r1, r2, r3⟩ := actFold_some tb'.actions (emptyTable c m) hacts (by simp [emptyTable])
      obtain ⟨t2, hf2⟩ := gotoFold_some tb'.gotos t1 (by rw [r1, r2]; exact hgts)
        (by rw [r3, r2, r1]; simp [emptyTable])
      have : buildAsIs (emptyTable c m) tb'.actions tb'.gotos = some t2 := by
        unfold buildAsIs
        simp only
        rw [hf1]
        exact hf2
      rw [this] at h
      cases h

end NoPanic
end KikiVerif
