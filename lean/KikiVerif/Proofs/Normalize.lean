/-
`normalize_machine`: sorting the states and renumbering is an isomorphism — there is a bijection `π` from old
to new state indices under which states, transitions and the start state correspond exactly
(provided no two states are equal, which the builder guarantees: no two have the same core).
-/
import KikiVerif.Proofs.Build

set_option linter.unusedSimpArgs false
set_option linter.unusedVariables false

namespace KikiVerif
namespace Machine
open LR (Sym Rule Grammar)
open Std

/-! ### the derived order on transitions is lawful -/

theorem compare_transition_def (a b : Transition) :
    compare a b = (compare a.frm b.frm).then ((compare a.to b.to).then
      ((compare (symTag a.sym) (symTag b.sym)).then (compare (symVal a.sym) (symVal b.sym)))) := rfl

instance : TransOrd Transition :=
  inferInstanceAs (TransCmp (compareLex (compareOn (fun x : Transition => x.frm))
    (compareLex (compareOn (fun x : Transition => x.to))
      (compareLex (compareOn (fun x : Transition => symTag x.sym)) (compareOn (fun x : Transition => symVal x.sym))))))

theorem sym_ext {a b : Sym Nat Nat} (h1 : symTag a = symTag b) (h2 : symVal a = symVal b) : a = b := by
  cases a <;> cases b <;> simp_all [symTag, symVal]

instance : LawfulEqOrd Transition where
  compare_self {a} := by simp [compare_transition_def]
  eq_of_compare {a b} h := by
    rw [compare_transition_def] at h
    simp only [Ordering.then_eq_eq, compare_eq_iff_eq] at h
    obtain ⟨h1, h2, h3, h4⟩ := h
    cases a; cases b
    simp only at h1 h2 h3 h4
    subst h1; subst h2
    rw [sym_ext h3 h4]

/-! ### positions in a list of indexed values -/

theorem findIdx_of_get {α : Type} : ∀ (l : List (α × Nat)) (p : Nat) (x : α × Nat), (l.map (·.2)).Nodup →
    l[p]? = some x → l.findIdx? (fun q => q.2 == x.2) = some p := by
  intro l
  induction l with
  | nil => intro p x _ h; simp at h
  | cons y ys ih =>
    intro p x hnd h
    rw [List.map_cons, List.nodup_cons] at hnd
    cases p with
    | zero =>
      simp only [List.getElem?_cons_zero, Option.some.injEq] at h
      subst h
      simp [List.findIdx?_cons]
    | succ p' =>
      simp only [List.getElem?_cons_succ] at h
      have hx : x ∈ ys := List.mem_of_getElem? h
      have hne : (y.2 == x.2) = false := by
        rw [beq_eq_false_iff_ne]
        intro e
        exact hnd.1 (e ▸ List.mem_map.mpr ⟨x, hx, rfl⟩)
      rw [List.findIdx?_cons, hne]
      simp only [Bool.false_eq_true, if_false]
      rw [ih p' x hnd.2 h]
      rfl

theorem mapM_option_map {α β : Type} (f : α → Option β) (g : α → β) : ∀ (l : List α) (r : List β),
    l.mapM f = some r → (∀ x ∈ l, ∀ y, f x = some y → y = g x) → r = l.map g := by
  intro l
  induction l with
  | nil => intro r h _; simp at h; subst h; rfl
  | cons x xs ih =>
    intro r h hg
    rw [List.mapM_cons] at h
    cases hx : f x with
    | none => rw [hx] at h; cases h
    | some y =>
      rw [hx] at h
      cases hxs : xs.mapM f with
      | none => rw [hxs] at h; cases h
      | some ys =>
        rw [hxs] at h
        cases h
        rw [ih ys hxs (fun z hz => hg z (List.mem_cons_of_mem _ hz)), hg x List.mem_cons_self y hx]
        rfl

/-! ### the renumbering -/

/-- old index ↦ new index -/
def renum (b : Builder) (i : Nat) : Nat := (updateIndex (sortedIndexed b.states) i).getD 0

structure Iso (b : Builder) (m : Machine) : Prop where
  len : m.states.length = b.states.length
  lt : ∀ i, i < b.states.length → renum b i < m.states.length
  state : ∀ i, i < b.states.length → m.states.getD (renum b i) [] = b.states.getD i []
  surj : ∀ p, p < m.states.length → ∃ i, i < b.states.length ∧ renum b i = p
  inj : ∀ i j, i < b.states.length → j < b.states.length → renum b i = renum b j → i = j
  start : m.start = renum b 0
  trans : ∀ t', t' ∈ m.transitions ↔ ∃ t ∈ b.transitions, t' = ⟨renum b t.frm, renum b t.to, t.sym⟩
  tsorted : Oset.Sorted m.transitions

theorem leState_eq (a b : State) : leState a b = Oset.leB a b := rfl

theorem normalize_iso {b : Builder} {m : Machine} (h : normalize b = some m) (hne : 0 < b.states.length)
    (hd : ∀ i j, i < b.states.length → j < b.states.length → b.states.getD i [] = b.states.getD j [] → i = j) :
    Iso b m := by
  unfold normalize at h
  simp only at h
  -- facts about the sorted list
  have hperm : (sortedIndexed b.states).Perm b.states.zipIdx := List.mergeSort_perm _ _
  have hlen : (sortedIndexed b.states).length = b.states.length := by rw [hperm.length_eq]; simp
  have hmem : ∀ x, x ∈ sortedIndexed b.states ↔ b.states[x.2]? = some x.1 := by
    intro x; rw [hperm.mem_iff]; exact List.mem_zipIdx_iff_getElem?
  have hnd : ((sortedIndexed b.states).map (·.2)).Nodup := by
    have : ((sortedIndexed b.states).map (·.2)).Perm (b.states.zipIdx.map (·.2)) := hperm.map _
    rw [this.nodup_iff, List.zipIdx_map_snd]
    exact List.nodup_range'
  have hpw : (sortedIndexed b.states).Pairwise (fun a c => leState a.1 c.1 = true) := by
    unfold sortedIndexed
    apply List.pairwise_mergeSort
    · intro a c d h1 h2; rw [leState_eq] at *; exact Oset.leB_trans _ _ _ h1 h2
    · intro a c; rw [leState_eq, leState_eq]; exact Oset.leB_total _ _
  -- the state at each position
  have hpos : ∀ p x, (sortedIndexed b.states)[p]? = some x →
      x.2 < b.states.length ∧ b.states.getD x.2 [] = x.1 ∧ updateIndex (sortedIndexed b.states) x.2 = some p := by
    intro p x hp
    have hx := (hmem x).mp (List.mem_of_getElem? hp)
    obtain ⟨hlt, hget⟩ := List.getElem?_eq_some_iff.mp hx
    refine ⟨hlt, by rw [getD_of_lt hlt, hget], ?_⟩
    unfold updateIndex
    exact findIdx_of_get _ p x hnd hp
  have hidx : ∀ i, i < b.states.length → ∃ p, p < b.states.length ∧
      (sortedIndexed b.states)[p]? = some (b.states.getD i [], i) ∧ updateIndex (sortedIndexed b.states) i = some p := by
    intro i hi
    have : (b.states.getD i [], i) ∈ sortedIndexed b.states := by
      rw [hmem]; simp only; rw [getD_of_lt hi]; exact List.getElem?_eq_getElem hi
    obtain ⟨p, hp⟩ := List.getElem?_of_mem this
    have hplt : p < b.states.length := by rw [← hlen]; exact (List.getElem?_eq_some_iff.mp hp).1
    exact ⟨p, hplt, hp, (hpos p _ hp).2.2⟩
  -- strictly ascending
  have hstrict : Oset.Sorted ((sortedIndexed b.states).map (·.1)) := by
    unfold Oset.Sorted
    rw [List.pairwise_map]
    have hnd' : (sortedIndexed b.states).Pairwise (fun a c => a.2 ≠ c.2) := by
      have := hnd; unfold List.Nodup at this; rw [List.pairwise_map] at this; exact this
    have hboth := hpw.and hnd'
    refine hboth.imp_of_mem ?_
    intro a c ha hc ⟨hle, hne2⟩
    have ha' := (hmem a).mp ha
    have hc' := (hmem c).mp hc
    obtain ⟨hal, hag⟩ := List.getElem?_eq_some_iff.mp ha'
    obtain ⟨hcl, hcg⟩ := List.getElem?_eq_some_iff.mp hc'
    have hneq : a.1 ≠ c.1 := by
      intro e
      apply hne2
      apply hd a.2 c.2 hal hcl
      rw [getD_of_lt hal, getD_of_lt hcl, hag, hcg, e]
    unfold leState at hle
    cases hcmp : compare a.1 c.1 with
    | lt => rfl
    | eq => exact absurd (LawfulEqOrd.eq_of_compare hcmp) hneq
    | gt => rw [hcmp] at hle; simp at hle
  have hof : (Oset.ofList ((sortedIndexed b.states).map (·.1))).raw = (sortedIndexed b.states).map (·.1) :=
    Oset.sorted_ext _ _ (Oset.ofList_sorted _) hstrict (fun x => Oset.mem_ofList _ x)
  -- unfold the result
  split at h
  · rename_i ts s hts hs
    cases h
    have hstates : (Oset.ofList (List.map (fun x => x.fst) (sortedIndexed b.states))).raw =
        (sortedIndexed b.states).map (·.1) := hof
    have hts' : ts = b.transitions.map fun t => (⟨renum b t.frm, renum b t.to, t.sym⟩ : Transition) := by
      apply mapM_option_map _ _ _ _ hts
      intro t _ y hy
      unfold renum
      split at hy
      · rename_i f t' hf ht'
        cases hy
        rw [hf, ht']; rfl
      · cases hy
    have get_new : ∀ p x, (sortedIndexed b.states)[p]? = some x →
        ((sortedIndexed b.states).map (·.1)).getD p [] = x.1 := by
      intro p x hp
      rw [List.getD_eq_getElem?_getD, List.getElem?_map, hp]; rfl
    refine
      { len := by simp only [hstates, List.length_map, hlen]
        lt := ?_
        state := ?_
        surj := ?_
        inj := ?_
        start := ?_
        trans := ?_
        tsorted := Oset.ofList_sorted _ }
    · intro i hi
      obtain ⟨p, hplt, _, hu⟩ := hidx i hi
      simp only [hstates, List.length_map, hlen]
      unfold renum; rw [hu]; exact hplt
    · intro i hi
      obtain ⟨p, hplt, hp, hu⟩ := hidx i hi
      simp only [hstates]
      unfold renum; rw [hu]
      exact get_new p _ hp
    · intro p hp
      simp only [hstates, List.length_map] at hp
      have : p < (sortedIndexed b.states).length := hp
      have hget := List.getElem?_eq_getElem this
      obtain ⟨h1, _, h3⟩ := hpos p _ hget
      exact ⟨_, h1, by unfold renum; rw [h3]; rfl⟩
    · intro i j hi hj e
      obtain ⟨p, _, hp, hu⟩ := hidx i hi
      obtain ⟨p2, _, hp2, hu2⟩ := hidx j hj
      unfold renum at e
      rw [hu, hu2] at e
      simp only [Option.getD_some] at e
      subst e
      rw [hp] at hp2
      exact congrArg Prod.snd (Option.some.inj hp2)
    · unfold renum; rw [hs]; rfl
    · intro t'
      simp only
      rw [Oset.mem_ofList, hts', List.mem_map]
      constructor
      · rintro ⟨t, ht, rfl⟩; exact ⟨t, ht, rfl⟩
      · rintro ⟨t, ht, rfl⟩; exact ⟨t, ht, rfl⟩
  · cases h

end Machine
end KikiVerif
