/-
The worklist of `UnnormalizedMachineBuilder` (`validated_ast_to_machine/mod.rs`): invariants of the state
table under `enqueue_state_if_needed` (new state or LALR merge into the state with the same core),
`enqueue_transition_target(s)` and the main loop.  When the loop ends every state is closed, every
transition is backed by the items of its two ends, and every symbol right of a dot has its transition.
-/
import KikiVerif.Proofs.Cores
import KikiVerif.Proofs.First

set_option linter.unusedSimpArgs false
set_option linter.unusedVariables false

namespace KikiVerif
namespace Machine
open LR (Sym Rule Grammar)

/-! ### list helpers -/

theorem getD_set_self {α : Type} {l : List α} {i : Nat} {a d : α} (h : i < l.length) : (l.set i a).getD i d = a := by
  rw [List.getD_eq_getElem?_getD, List.getElem?_set_self h]; rfl

theorem getD_set_ne {α : Type} {l : List α} {i k : Nat} {a d : α} (h : i ≠ k) : (l.set i a).getD k d = l.getD k d := by
  rw [List.getD_eq_getElem?_getD, List.getElem?_set_ne h, ← List.getD_eq_getElem?_getD]

theorem getD_append_lt {α : Type} {l m : List α} {k : Nat} {d : α} (h : k < l.length) : (l ++ m).getD k d = l.getD k d := by
  rw [List.getD_eq_getElem?_getD, List.getElem?_append_left h, ← List.getD_eq_getElem?_getD]

theorem getD_append_len {α : Type} {l : List α} {a d : α} : (l ++ [a]).getD l.length d = a := by
  rw [List.getD_eq_getElem?_getD]
  simp

theorem getD_of_lt {α : Type} {l : List α} {k : Nat} {d : α} (h : k < l.length) : l.getD k d = l[k] := by
  rw [List.getD_eq_getElem?_getD, List.getElem?_eq_getElem h]; rfl

/-! ### cores -/

theorem isCoreSubset_iff {a b : State} :
    isCoreSubset a b = true ↔ ∀ x ∈ a, ∃ y ∈ b, x.rule = y.rule ∧ x.dot = y.dot := by
  unfold isCoreSubset
  simp only [List.all_eq_true, List.any_eq_true, Bool.and_eq_true, beq_iff_eq]

theorem areCoresEqual_iff {a b : State} :
    areCoresEqual a b = true ↔
      (∀ x ∈ a, ∃ y ∈ b, x.rule = y.rule ∧ x.dot = y.dot) ∧ (∀ x ∈ b, ∃ y ∈ a, x.rule = y.rule ∧ x.dot = y.dot) := by
  unfold areCoresEqual
  rw [Bool.and_eq_true, isCoreSubset_iff, isCoreSubset_iff]

/-! ### `add_items_if_needed` -/

theorem addItems_spec : ∀ (l : List Item) (st : Oset Item) (added : Bool), Oset.Sorted st.raw →
    Oset.Sorted (addItemsIfNeeded st l added).1.raw ∧
    (∀ y, y ∈ (addItemsIfNeeded st l added).1.raw ↔ y ∈ st.raw ∨ y ∈ l) ∧
    ((addItemsIfNeeded st l added).2 = false → added = false ∧ (addItemsIfNeeded st l added).1 = st) := by
  intro l
  induction l with
  | nil => intro st added hs; simp [addItemsIfNeeded, hs]
  | cons it rest ih =>
    intro st added hs
    simp only [addItemsIfNeeded]
    split
    · rename_i hc
      have hit : it ∈ st.raw := (Oset.contains_iff st it hs).mp hc
      obtain ⟨h1, h2, h3⟩ := ih st added hs
      refine ⟨h1, fun y => ?_, h3⟩
      rw [h2 y]
      constructor
      · rintro (h | h)
        · exact Or.inl h
        · exact Or.inr (List.mem_cons_of_mem _ h)
      · rintro (h | h)
        · exact Or.inl h
        · rcases List.mem_cons.mp h with rfl | h
          · exact Or.inl hit
          · exact Or.inr h
    · obtain ⟨h1, h2, h3⟩ := ih (st.insert it) true (Oset.insert_sorted st it hs)
      refine ⟨h1, fun y => ?_, fun hf => ?_⟩
      · rw [h2 y, Oset.mem_insert st it y hs]
        constructor
        · rintro ((rfl | h) | h)
          · exact Or.inr List.mem_cons_self
          · exact Or.inl h
          · exact Or.inr (List.mem_cons_of_mem _ h)
        · rintro (h | h)
          · exact Or.inl (Or.inr h)
          · rcases List.mem_cons.mp h with rfl | h
            · exact Or.inl (Or.inl rfl)
            · exact Or.inr h
      · have := (h3 hf).1
        cases this

theorem mem_transitionItems {c : Ctx} {S : State} {X : Sym Nat Nat} {y : Item} :
    y ∈ transitionItems c S X ↔ ∃ x ∈ S, symRightOfDot c x = some X ∧ y = { x with dot := x.dot + 1 } := by
  unfold transitionItems
  rw [List.mem_filterMap]
  constructor
  · rintro ⟨x, hx, h⟩
    split at h
    · rename_i hs; cases h; exact ⟨x, hx, hs, rfl⟩
    · cases h
  · rintro ⟨x, hx, hs, rfl⟩
    exact ⟨x, hx, by rw [if_pos hs]⟩

theorem implied_dot {c : Ctx} {fm : List FirstSet} {x y : Item} {imp : List Item}
    (h : impliedItems c fm x = some imp) (hy : y ∈ imp) : y.dot = 0 ∧ y.rule < c.numRules := by
  unfold impliedItems at h
  split at h
  · split at h
    · cases h
    · cases h
      simp only [List.mem_flatMap, List.mem_map] at hy
      obtain ⟨la, _, r, hr, rfl⟩ := hy
      refine ⟨rfl, ?_⟩
      unfold ruleIndicesFor at hr
      simp only [List.mem_map, List.mem_filter] at hr
      obtain ⟨⟨rule, j⟩, ⟨hm, _⟩, rfl⟩ := hr
      have := List.mem_zipIdx hm
      simp at this
      exact this.1
  · cases h; cases hy

/-! ### well-formed items -/

def WfItem (c : Ctx) (y : Item) : Prop :=
  y.rule ≤ c.numRules ∧ y.dot ≤ (rhsOf c y.rule).length ∧ y.la ≤ c.nT

theorem mem_insert_sub {s : Oset Nat} {x y : Nat} (h : y ∈ (s.insert x).raw) : y = x ∨ y ∈ s.raw := by
  unfold Oset.insert at h
  split at h
  · exact Or.inr h
  · simp only [Oset.insertAt, List.mem_append, List.mem_cons] at h
    rcases h with h | rfl | h
    · exact Or.inr (List.mem_of_mem_take h)
    · exact Or.inl rfl
    · exact Or.inr (List.mem_of_mem_drop h)

theorem firstOfSeq_bound {nT : Nat} {fm : List FirstSet} (hb : FmBound nT fm) :
    ∀ (β : List (Sym Nat Nat)) (ts : List Nat) (f : FirstSet), (∀ a, Sym.t a ∈ β → a < nT) → (∀ a ∈ ts, a < nT) →
      firstOfSeq fm β ts = some f → ∀ a ∈ f.terminals, a < nT := by
  intro β
  induction β with
  | nil => intro ts f _ hts h; simp only [firstOfSeq] at h; cases h; exact hts
  | cons X rest ih =>
    intro ts f hβ hts h
    cases X with
    | t a =>
      simp only [firstOfSeq] at h
      cases h
      intro x hx
      rcases mem_insert_sub hx with rfl | hx
      · exact hβ _ List.mem_cons_self
      · exact hts x hx
    | n b =>
      simp only [firstOfSeq] at h
      split at h
      · cases h
      · rename_i f0 hf0
        have hts' : ∀ a ∈ (Oset.extend ⟨ts⟩ f0.terminals).raw, a < nT := by
          intro a ha
          rcases (Oset.mem_extend _ _ a).mp ha with h1 | h1
          · exact hts a h1
          · exact hb f0 (List.mem_of_getElem? hf0) a h1
        split at h
        · exact ih _ f (fun a ha => hβ a (List.mem_cons_of_mem _ ha)) hts' h
        · cases h; exact hts'

theorem rhsOf_terminals {c : Ctx} (hwf : CtxWF c) (rule : Nat) : ∀ a, Sym.t a ∈ rhsOf c rule → a < c.nT := by
  intro a ha
  unfold rhsOf at ha
  split at ha
  · simp at ha
  · split at ha
    · rename_i r hr
      exact hwf r (List.mem_of_getElem? hr) a ha
    · cases ha

theorem implied_wf {c : Ctx} {fm : List FirstSet} (hwf : CtxWF c) (hfb : FmBound c.nT fm) {x y : Item} {imp : List Item}
    (hx : WfItem c x) (h : impliedItems c fm x = some imp) (hy : y ∈ imp) : WfItem c y := by
  have hd := implied_dot h hy
  refine ⟨Nat.le_of_lt hd.2, by rw [hd.1]; exact Nat.zero_le _, ?_⟩
  unfold impliedItems at h
  split at h
  · split at h
    · cases h
    · rename_i las hlas
      cases h
      simp only [List.mem_flatMap, List.mem_map] at hy
      obtain ⟨la, hla, r, _, rfl⟩ := hy
      simp only
      unfold augmentedFirst at hlas
      split at hlas
      · cases hlas
      · rename_i f hf
        have hft := firstOfSeq_bound hfb _ [] f
          (fun a ha => rhsOf_terminals hwf x.rule a (List.mem_of_mem_drop ha)) (by intro a ha; cases ha) hf
        split at hlas
        · cases hlas
          rcases List.mem_append.mp ((Oset.mem_ofList _ la).mp hla) with h1 | h1
          · exact Nat.le_of_lt (hft la h1)
          · simp at h1; subst h1; exact hx.2.2
        · cases hlas
          exact Nat.le_of_lt (hft la ((Oset.mem_ofList _ la).mp hla))
  · cases h; cases hy

theorem reach_wf {c : Ctx} {fm : List FirstSet} (hwf : CtxWF c) (hfb : FmBound c.nT fm) {K : List Item}
    (hK : ∀ x ∈ K, WfItem c x) {y : Item} (h : Reach c fm K y) : WfItem c y := by
  induction h with
  | kernel hk => exact hK _ hk
  | step _ himp hyi ih => exact implied_wf hwf hfb ih himp hyi

/-! ### justified items: the LALR(1) propagation rules -/

/-- the items (with their lookaheads) that the LALR(1) propagation rules generate over a given transition
graph: the augmented initial item in the start state, everything an item implies in its own state, and every
item moved along a transition -/
inductive Deriv (c : Ctx) (fm : List FirstSet) (start : Nat) (trans : List Transition) : Nat → Item → Prop
  | start : Deriv c fm start trans start ⟨c.numRules, c.nT, 0⟩
  | closure {s x y imp} : Deriv c fm start trans s x → impliedItems c fm x = some imp → y ∈ imp →
      Deriv c fm start trans s y
  | goto {s t x X} : Deriv c fm start trans s x → symRightOfDot c x = some X → (⟨s, t, X⟩ : Transition) ∈ trans →
      Deriv c fm start trans t { x with dot := x.dot + 1 }

theorem Deriv.mono {c : Ctx} {fm : List FirstSet} {start : Nat} {tr tr' : List Transition} (h : ∀ t ∈ tr, t ∈ tr')
    {s : Nat} {y : Item} (hd : Deriv c fm start tr s y) : Deriv c fm start tr' s y := by
  induction hd with
  | start => exact .start
  | closure _ hi hy ih => exact .closure ih hi hy
  | goto _ hs ht ih => exact .goto ih hs (h _ ht)

/-! ### per-state and per-transition invariants -/

def startItem (c : Ctx) : Item := ⟨c.numRules, c.nT, 0⟩

structure Good (c : Ctx) (fm : List FirstSet) (S : State) : Prop where
  sorted : Oset.Sorted S
  closed : Closed c fm S
  gen : ∀ y ∈ S, y.dot = 0 → y = startItem c ∨ ∃ x ∈ S, ∃ imp, impliedItems c fm x = some imp ∧ y ∈ imp
  wf : ∀ y ∈ S, WfItem c y
  total : ∀ x ∈ S, ∃ imp, impliedItems c fm x = some imp

/-- every kernel item of the target is an item of the source moved over `X` -/
def KernelOK (c : Ctx) (src tgt : State) (X : Sym Nat Nat) : Prop :=
  ∀ y ∈ tgt, 1 ≤ y.dot → ∃ x ∈ src, x.rule = y.rule ∧ x.dot + 1 = y.dot ∧ symRightOfDot c x = some X

structure TransOK (c : Ctx) (states : List State) (t : Transition) : Prop where
  frm : t.frm < states.length
  to : t.to < states.length
  ne0 : t.to ≠ 0
  kernel : KernelOK c (states.getD t.frm []) (states.getD t.to []) t.sym
  hasKernel : ∃ y ∈ states.getD t.to [], 1 ≤ y.dot

/-- the transition of state `i` on `X` exists and its target holds the moved items (same lookaheads) -/
def Done (c : Ctx) (states : List State) (trans : List Transition) (i : Nat) (X : Sym Nat Nat) : Prop :=
  ∃ j, (⟨i, j, X⟩ : Transition) ∈ trans ∧ ∀ y ∈ transitionItems c (states.getD i []) X, y ∈ states.getD j []

structure BInv (c : Ctx) (fm : List FirstSet) (E : Nat → Sym Nat Nat → Prop) (b : Builder) : Prop where
  nonempty : 0 < b.states.length
  good : ∀ i, i < b.states.length → Good c fm (b.states.getD i [])
  queue : ∀ i ∈ b.queue, i < b.states.length
  trans : ∀ t ∈ b.transitions, TransOK c b.states t
  zero : ∀ y ∈ b.states.getD 0 [], y.dot = 0
  done : ∀ i, i < b.states.length → i ∉ b.queue → ∀ X, (∃ x ∈ b.states.getD i [], symRightOfDot c x = some X) →
    E i X ∨ Done c b.states b.transitions i X
  /-- no two states have the same core -/
  distinct : ∀ i j, i < b.states.length → j < b.states.length →
    SameCores (b.states.getD i []) (b.states.getD j []) → i = j
  /-- the cores of a transition's target are those generated from the moved cores of its source -/
  tcore : ∀ t ∈ b.transitions, ∀ q, (∃ y ∈ b.states.getD t.to [], coreOf y = q) ↔
    CReach c fm (fun p => ∃ x ∈ transitionItems c (b.states.getD t.frm []) t.sym, coreOf x = p) q
  /-- at most one transition per state and symbol -/
  func : ∀ t1 ∈ b.transitions, ∀ t2 ∈ b.transitions, t1.frm = t2.frm → t1.sym = t2.sym → t1.to = t2.to
  /-- the augmented initial item lives in state 0 only -/
  aug : ∀ i, i < b.states.length → i ≠ 0 → ∀ y ∈ b.states.getD i [], y.dot = 0 → y.rule < c.numRules
  hasStart : startItem c ∈ b.states.getD 0 []
  /-- the cores of state 0 are generated from the core of the augmented initial item -/
  zcore : ∀ y ∈ b.states.getD 0 [], CReach c fm (fun p => p = (c.numRules, 0)) (coreOf y)
  /-- no state is empty -/
  inhabited : ∀ i, i < b.states.length → ∃ y, y ∈ b.states.getD i []
  /-- every item of every state is generated by the LALR(1) propagation rules -/
  just : ∀ i, i < b.states.length → ∀ y ∈ b.states.getD i [], Deriv c fm 0 b.transitions i y

/-! ### `enqueue_state_if_needed` -/

structure StepSpec (c : Ctx) (fm : List FirstSet) (b : Builder) (tgt : State) (b' : Builder) (j : Nat) : Prop where
  len : b.states.length ≤ b'.states.length
  jlt : j < b'.states.length
  jne : j ≠ 0
  sub : ∀ y ∈ tgt, y ∈ b'.states.getD j []
  coreJ : ∀ y ∈ b'.states.getD j [], ∃ y0 ∈ tgt, y.rule = y0.rule ∧ y.dot = y0.dot
  mono : ∀ i, i < b.states.length → ∀ y ∈ b.states.getD i [], y ∈ b'.states.getD i []
  cores : ∀ i, i < b.states.length → ∀ y ∈ b'.states.getD i [], ∃ y0 ∈ b.states.getD i [], y.rule = y0.rule ∧ y.dot = y0.dot
  same : ∀ i, i < b.states.length → b'.states.getD i [] = b.states.getD i [] ∨ (i = j ∧ j ∈ b'.queue)
  fresh : ∀ i, b.states.length ≤ i → i < b'.states.length → i ∈ b'.queue
  good : ∀ i, i < b'.states.length → Good c fm (b'.states.getD i [])
  queueSub : ∀ i ∈ b.queue, i ∈ b'.queue
  queueLt : ∀ i ∈ b'.queue, i < b'.states.length
  transEq : b'.transitions = b.transitions
  pick : ∀ k, k < b.states.length → SameCores tgt (b.states.getD k []) → k = j
  distinct : ∀ i k, i < b'.states.length → k < b'.states.length →
    SameCores (b'.states.getD i []) (b'.states.getD k []) → i = k
  lenCases : b'.states.length = b.states.length ∨ (b'.states.length = b.states.length + 1 ∧ j = b.states.length)
  memJ : ∀ k, k < b'.states.length → ∀ y ∈ b'.states.getD k [],
    (k < b.states.length ∧ y ∈ b.states.getD k []) ∨ (k = j ∧ y ∈ tgt)

theorem StepSpec.sameCores {c : Ctx} {fm : List FirstSet} {b b' : Builder} {tgt : State} {j : Nat}
    (sp : StepSpec c fm b tgt b' j) {i : Nat} (hi : i < b.states.length) :
    SameCores (b'.states.getD i []) (b.states.getD i []) := by
  intro p
  constructor
  · rintro ⟨y, hy, rfl⟩
    obtain ⟨y0, hy0, e1, e2⟩ := sp.cores i hi y hy
    exact ⟨y0, hy0, by simp [coreOf, e1, e2]⟩
  · rintro ⟨y, hy, rfl⟩
    exact ⟨y, sp.mono i hi y hy, rfl⟩

theorem StepSpec.sameJ {c : Ctx} {fm : List FirstSet} {b b' : Builder} {tgt : State} {j : Nat}
    (sp : StepSpec c fm b tgt b' j) : SameCores (b'.states.getD j []) tgt := by
  intro p
  constructor
  · rintro ⟨y, hy, rfl⟩
    obtain ⟨y0, hy0, e1, e2⟩ := sp.coreJ y hy
    exact ⟨y0, hy0, by simp [coreOf, e1, e2]⟩
  · rintro ⟨y, hy, rfl⟩
    exact ⟨y, sp.sub y hy, rfl⟩

theorem good_union {c : Ctx} {fm : List FirstSet} {A B U : State} (hA : Good c fm A) (hB : Good c fm B)
    (hs : Oset.Sorted U) (hm : ∀ y, y ∈ U ↔ y ∈ A ∨ y ∈ B) : Good c fm U := by
  refine ⟨hs, ?_, ?_, fun y hy => ((hm y).mp hy).elim (hA.wf y) (hB.wf y),
    fun y hy => ((hm y).mp hy).elim (hA.total y) (hB.total y)⟩
  · intro x hx imp himp y hy
    rcases (hm x).mp hx with h | h
    · exact (hm y).mpr (Or.inl (hA.closed x h imp himp y hy))
    · exact (hm y).mpr (Or.inr (hB.closed x h imp himp y hy))
  · intro y hy hd
    rcases (hm y).mp hy with h | h
    · rcases hA.gen y h hd with e | ⟨x, hx, imp, hi, hyi⟩
      · exact Or.inl e
      · exact Or.inr ⟨x, (hm x).mpr (Or.inl hx), imp, hi, hyi⟩
    · rcases hB.gen y h hd with e | ⟨x, hx, imp, hi, hyi⟩
      · exact Or.inl e
      · exact Or.inr ⟨x, (hm x).mpr (Or.inr hx), imp, hi, hyi⟩

theorem enqueueState_spec {c : Ctx} {fm : List FirstSet} {E : Nat → Sym Nat Nat → Prop} {b : Builder} {tgt : State}
    (inv : BInv c fm E b) (hg : Good c fm tgt) (hk : ∃ y ∈ tgt, 1 ≤ y.dot) :
    StepSpec c fm b tgt (enqueueStateIfNeeded b tgt).1 (enqueueStateIfNeeded b tgt).2 := by
  unfold enqueueStateIfNeeded
  split
  · -- merge into state `i`
    rename_i i hidx
    unfold indexOfMergable at hidx
    obtain ⟨hi, hp, _⟩ := List.findIdx?_eq_some_iff_getElem.mp hidx
    have hget : b.states.getD i [] = b.states[i] := getD_of_lt hi
    rw [← hget] at hp
    obtain ⟨hc1, hc2⟩ := areCoresEqual_iff.mp hp
    have hgi := inv.good i hi
    obtain ⟨a1, a2, a3⟩ := addItems_spec tgt ⟨b.states.getD i []⟩ false hgi.sorted
    simp only at a1 a2 a3 ⊢
    generalize hres : addItemsIfNeeded ⟨b.states.getD i []⟩ tgt false = res at a1 a2 a3
    obtain ⟨new, added⟩ := res
    simp only at a1 a2 a3 ⊢
    have hne : i ≠ 0 := by
      intro e
      subst e
      obtain ⟨y, hy, hd⟩ := hk
      obtain ⟨y', hy', _, hdd⟩ := hc1 y hy
      have := inv.zero y' hy'
      omega
    have hlen : (b.states.set i new.raw).length = b.states.length := by simp
    refine
      { len := by rw [hlen]; exact Nat.le_refl _
        jlt := by rw [hlen]; exact hi
        jne := hne
        sub := ?_
        coreJ := ?_
        mono := ?_
        cores := ?_
        same := ?_
        fresh := ?_
        good := ?_
        queueSub := ?_
        queueLt := ?_
        transEq := rfl
        lenCases := Or.inl hlen
        memJ := by
          intro k hk' y hy
          rw [hlen] at hk'
          by_cases e : i = k
          · subst e
            rw [getD_set_self hi] at hy
            rcases (a2 y).mp hy with h | h
            · exact Or.inl ⟨hk', h⟩
            · exact Or.inr ⟨rfl, h⟩
          · rw [getD_set_ne e] at hy; exact Or.inl ⟨hk', hy⟩
        pick := ?_
        distinct := ?_ }
    · intro y hy
      rw [getD_set_self hi]
      exact (a2 y).mpr (Or.inr hy)
    · intro y hy
      rw [getD_set_self hi] at hy
      rcases (a2 y).mp hy with h | h
      · exact hc2 y h
      · exact ⟨y, h, rfl, rfl⟩
    · intro k hk' y hy
      by_cases e : i = k
      · subst e
        rw [getD_set_self hi]
        exact (a2 y).mpr (Or.inl hy)
      · rw [getD_set_ne e]; exact hy
    · intro k hk' y hy
      by_cases e : i = k
      · subst e
        rw [getD_set_self hi] at hy
        rcases (a2 y).mp hy with h | h
        · exact ⟨y, h, rfl, rfl⟩
        · exact hc1 y h
      · rw [getD_set_ne e] at hy; exact ⟨y, hy, rfl, rfl⟩
    · intro k hk'
      by_cases e : i = k
      · subst e
        cases added with
        | false =>
          left
          rw [getD_set_self hi]
          have := (a3 rfl).2
          rw [this]
        | true =>
          right
          exact ⟨rfl, by simp⟩
      · left; rw [getD_set_ne e]
    · intro k h1 h2
      rw [hlen] at h2; omega
    · intro k hk'
      rw [hlen] at hk'
      by_cases e : i = k
      · subst e
        rw [getD_set_self hi]
        exact good_union hgi hg a1 a2
      · rw [getD_set_ne e]; exact inv.good k hk'
    · intro k hk'
      split
      · exact List.mem_append_left _ hk'
      · exact hk'
    · intro k hk'
      rw [hlen]
      split at hk'
      · rcases List.mem_append.mp hk' with h | h
        · exact inv.queue k h
        · simp at h; subst h; exact hi
      · exact inv.queue k hk'
    · intro k hk' hs
      have h1 : SameCores tgt (b.states.getD i []) := areCoresEqual_iff_same.mp hp
      exact inv.distinct k i hk' hi (hs.symm.trans h1)
    · have sc : ∀ k, k < b.states.length → SameCores ((b.states.set i new.raw).getD k []) (b.states.getD k []) := by
        intro k hk'
        by_cases e : i = k
        · subst e
          rw [getD_set_self hi]
          intro p
          constructor
          · rintro ⟨y, hy, rfl⟩
            rcases (a2 y).mp hy with h | h
            · exact ⟨y, h, rfl⟩
            · obtain ⟨y', hy', e1, e2⟩ := hc1 y h
              exact ⟨y', hy', by simp [coreOf, e1, e2]⟩
          · rintro ⟨y, hy, rfl⟩
            exact ⟨y, (a2 y).mpr (Or.inl hy), rfl⟩
        · rw [getD_set_ne e]; exact SameCores.refl _
      intro k1 k2 h1 h2 hs
      rw [hlen] at h1 h2
      exact inv.distinct k1 k2 h1 h2 ((sc k1 h1).symm.trans (hs.trans (sc k2 h2)))
  · -- a new state
    rename_i hidx
    simp only
    have hlen : (b.states ++ [tgt]).length = b.states.length + 1 := by simp
    refine
      { len := by rw [hlen]; omega
        jlt := by rw [hlen]; omega
        jne := by have := inv.nonempty; omega
        sub := ?_
        coreJ := ?_
        mono := ?_
        cores := ?_
        same := ?_
        fresh := ?_
        good := ?_
        queueSub := ?_
        queueLt := ?_
        transEq := rfl
        lenCases := Or.inr ⟨hlen, rfl⟩
        memJ := by
          intro k hk' y hy
          rw [hlen] at hk'
          by_cases e : k < b.states.length
          · rw [getD_append_lt e] at hy; exact Or.inl ⟨e, hy⟩
          · have : k = b.states.length := by omega
            subst this
            rw [getD_append_len] at hy
            exact Or.inr ⟨rfl, hy⟩
        pick := ?_
        distinct := ?_ }
    · intro y hy; rw [getD_append_len]; exact hy
    · intro y hy; rw [getD_append_len] at hy; exact ⟨y, hy, rfl, rfl⟩
    · intro k hk' y hy; rw [getD_append_lt hk']; exact hy
    · intro k hk' y hy; rw [getD_append_lt hk'] at hy; exact ⟨y, hy, rfl, rfl⟩
    · intro k hk'; left; rw [getD_append_lt hk']
    · intro k h1 h2
      rw [hlen] at h2
      have : k = b.states.length := by omega
      subst this
      exact List.mem_append_right _ (List.mem_singleton.mpr rfl)
    · intro k hk'
      rw [hlen] at hk'
      by_cases e : k < b.states.length
      · rw [getD_append_lt e]; exact inv.good k e
      · have : k = b.states.length := by omega
        subst this
        rw [getD_append_len]; exact hg
    · intro k hk'; exact List.mem_append_left _ hk'
    · intro k hk'
      rw [hlen]
      rcases List.mem_append.mp hk' with h | h
      · have := inv.queue k h; omega
      · simp at h; omega

    · intro k hk' hs
      unfold indexOfMergable at hidx
      have := List.findIdx?_eq_none_iff.mp hidx (b.states.getD k []) (by rw [getD_of_lt hk']; exact List.getElem_mem hk')
      rw [areCoresEqual_iff_same.mpr hs] at this
      cases this
    · have noeq : ∀ k, k < b.states.length → ¬ SameCores tgt (b.states.getD k []) := by
        intro k hk' hs
        unfold indexOfMergable at hidx
        have := List.findIdx?_eq_none_iff.mp hidx (b.states.getD k []) (by rw [getD_of_lt hk']; exact List.getElem_mem hk')
        rw [areCoresEqual_iff_same.mpr hs] at this
        cases this
      intro k1 k2 h1 h2 hs
      rw [hlen] at h1 h2
      by_cases e1 : k1 < b.states.length
      · by_cases e2 : k2 < b.states.length
        · rw [getD_append_lt e1, getD_append_lt e2] at hs
          exact inv.distinct k1 k2 e1 e2 hs
        · have : k2 = b.states.length := by omega
          subst this
          rw [getD_append_lt e1, getD_append_len] at hs
          exact absurd hs.symm (noeq k1 e1)
      · have : k1 = b.states.length := by omega
        subst this
        by_cases e2 : k2 < b.states.length
        · rw [getD_append_lt e2, getD_append_len] at hs
          exact absurd hs (noeq k2 e2)
        · omega

/-! ### `enqueue_transition_target` -/

theorem insertTransition_mem {ts : List Transition} {t u : Transition} :
    u ∈ insertTransition ts t ↔ u ∈ ts ∨ u = t := by
  unfold insertTransition
  split
  · rename_i hc
    have : t ∈ ts := List.contains_iff_mem.mp hc
    constructor
    · exact Or.inl
    · rintro (h | rfl)
      · exact h
      · exact this
  · simp

theorem transitionItems_cores {c : Ctx} {A B : State} (X : Sym Nat Nat) (h : SameCores A B) (p : Core) :
    (∃ x ∈ transitionItems c A X, coreOf x = p) ↔ (∃ x ∈ transitionItems c B X, coreOf x = p) := by
  have one : ∀ {A B : State}, SameCores A B → (∃ x ∈ transitionItems c A X, coreOf x = p) →
      (∃ x ∈ transitionItems c B X, coreOf x = p) := by
    intro A B h
    rintro ⟨y, hy, rfl⟩
    obtain ⟨x, hx, hs, rfl⟩ := mem_transitionItems.mp hy
    obtain ⟨x2, hx2, e⟩ := (h (coreOf x)).mp ⟨x, hx, rfl⟩
    refine ⟨{ x2 with dot := x2.dot + 1 }, mem_transitionItems.mpr ⟨x2, hx2, ?_, rfl⟩, ?_⟩
    · rw [symRightOfDot_core e]; exact hs
    · simp only [coreOf, Prod.mk.injEq] at e ⊢
      exact ⟨e.1, by rw [e.2]⟩
  exact ⟨one h, one h.symm⟩

theorem creach_congr {c : Ctx} {fm : List FirstSet} {A B : State} (X : Sym Nat Nat) (h : SameCores A B) (q : Core) :
    CReach c fm (fun p => ∃ x ∈ transitionItems c A X, coreOf x = p) q ↔
    CReach c fm (fun p => ∃ x ∈ transitionItems c B X, coreOf x = p) q :=
  ⟨CReach.mono fun p => (transitionItems_cores X h p).mp, CReach.mono fun p => (transitionItems_cores X h p).mpr⟩

/-- the closure of a non-empty set of moved items is a good state with a kernel item -/
theorem good_of_closure {c : Ctx} {fm : List FirstSet} (hwf : CtxWF c) (hfb : FmBound c.nT fm)
    {src : State} {X : Sym Nat Nat} {fuel : Nat} {tgt : State}
    (h : closureLoop c fm fuel (transitionItems c src X) Oset.new = some (some tgt))
    (hX : ∃ x ∈ src, symRightOfDot c x = some X) (hsrc : ∀ x ∈ src, WfItem c x) :
    Good c fm tgt ∧ (∃ y ∈ tgt, 1 ≤ y.dot) ∧ (∀ y ∈ transitionItems c src X, y ∈ tgt) ∧
      (∀ y ∈ tgt, 1 ≤ y.dot → y ∈ transitionItems c src X) ∧
      (∀ q, (∃ y ∈ tgt, coreOf y = q) ↔ CReach c fm (fun p => ∃ x ∈ transitionItems c src X, coreOf x = p) q) ∧
      (∀ y ∈ tgt, y.dot = 0 → y.rule < c.numRules) ∧
      (∀ y ∈ tgt, Reach c fm (transitionItems c src X) y) := by
  obtain ⟨h1, h2, h3, h4, h5, h6⟩ := closure_spec h
  have hKwf : ∀ y ∈ transitionItems c src X, WfItem c y := by
    intro y hy
    obtain ⟨x, hx, hs, rfl⟩ := mem_transitionItems.mp hy
    obtain ⟨w1, w2, w3⟩ := hsrc x hx
    refine ⟨w1, ?_, w3⟩
    unfold symRightOfDot at hs
    have := (List.getElem?_eq_some_iff.mp hs).1
    simp only
    omega
  have kernel_dot : ∀ y ∈ transitionItems c src X, 1 ≤ y.dot := by
    intro y hy
    obtain ⟨x, _, _, rfl⟩ := mem_transitionItems.mp hy
    simp
  refine ⟨⟨h1, h3, ?_, fun y hy => reach_wf hwf hfb hKwf (h4 y hy), h6⟩, ?_, h2, ?_, closure_cores h2 h3 h4 h6, ?_, h4⟩
  · intro y hy hd
    rcases h5 y hy with hk | hg
    · have := kernel_dot y hk; omega
    · exact Or.inr hg
  · obtain ⟨x, hx, hs⟩ := hX
    have : ({ x with dot := x.dot + 1 } : Item) ∈ transitionItems c src X := mem_transitionItems.mpr ⟨x, hx, hs, rfl⟩
    exact ⟨_, h2 _ this, by simp⟩
  · intro y hy hd
    rcases h5 y hy with hk | ⟨x, _, imp, hi, hyi⟩
    · exact hk
    · have := (implied_dot hi hyi).1; omega
  · intro y hy hd
    rcases h5 y hy with hk | ⟨x, _, imp, hi, hyi⟩
    · have := kernel_dot y hk; omega
    · exact (implied_dot hi hyi).2

theorem enqueueTarget_spec {c : Ctx} {fm : List FirstSet} (hwf : CtxWF c) (hfb : FmBound c.nT fm)
    {E E' : Nat → Sym Nat Nat → Prop} {b b' : Builder}
    {fuel i : Nat} {X : Sym Nat Nat} (inv : BInv c fm E b) (hi : i < b.states.length)
    (hX : ∃ x ∈ b.states.getD i [], symRightOfDot c x = some X)
    (h : enqueueTransitionTarget c fm fuel b i X = some (some b'))
    (hE : ∀ i' X', E i' X' → E' i' X' ∨ (i' = i ∧ X' = X)) :
    BInv c fm E' b' ∧ b.states.length ≤ b'.states.length ∧
      (∀ k, k < b.states.length → ∀ y ∈ b.states.getD k [], y ∈ b'.states.getD k []) := by
  unfold enqueueTransitionTarget at h
  simp only at h
  split at h
  · cases h
  · cases h
  · rename_i tgt hcl
    obtain ⟨hg, hk, hsubK, hkern, hcores, haug, hreach⟩ := good_of_closure hwf hfb hcl hX (inv.good i hi).wf
    have sp := enqueueState_spec inv hg hk
    generalize hres : enqueueStateIfNeeded b tgt = res at h sp
    obtain ⟨b1, j⟩ := res
    simp only at h sp
    cases h
    refine ⟨?_, sp.len, sp.mono⟩
    have hlen : i < b1.states.length := Nat.lt_of_lt_of_le hi sp.len
    refine
      { nonempty := Nat.lt_of_lt_of_le inv.nonempty sp.len
        good := sp.good
        queue := sp.queueLt
        trans := ?_
        zero := ?_
        done := ?_
        distinct := sp.distinct
        tcore := ?_
        func := ?_
        aug := ?_
        hasStart := sp.mono 0 inv.nonempty _ inv.hasStart
        zcore := by
          intro y hy
          rcases sp.same 0 inv.nonempty with e | ⟨e, _⟩
          · rw [e] at hy; exact inv.zcore y hy
          · exact absurd e.symm sp.jne
        inhabited := by
          intro k hk'
          have hk' : k < b1.states.length := hk'
          by_cases hlt : k < b.states.length
          · obtain ⟨y, hy⟩ := inv.inhabited k hlt
            exact ⟨y, sp.mono k hlt y hy⟩
          · rcases sp.lenCases with e | ⟨e, ej⟩
            · omega
            · have hkj : k = j := by omega
              subst hkj
              obtain ⟨y, hy, _⟩ := hk
              exact ⟨y, sp.sub y hy⟩
        just := by
          intro k hk' y hy
          have hsubT : ∀ t ∈ b.transitions, t ∈ insertTransition b1.transitions ⟨i, j, X⟩ := by
            intro t ht; exact insertTransition_mem.mpr (Or.inl (by rw [sp.transEq]; exact ht))
          rcases sp.memJ k hk' y hy with ⟨hlt, hold⟩ | ⟨rfl, htgt⟩
          · exact (inv.just k hlt y hold).mono hsubT
          · have := hreach y htgt
            clear hy htgt
            induction this with
            | kernel hK =>
              obtain ⟨x, hx, hs, rfl⟩ := mem_transitionItems.mp hK
              exact .goto ((inv.just i hi x hx).mono hsubT) hs (insertTransition_mem.mpr (Or.inr rfl))
            | step _ himp hyi ih => exact .closure ih himp hyi }
    · intro t ht
      rcases insertTransition_mem.mp ht with ht | rfl
      · rw [sp.transEq] at ht
        have old := inv.trans t ht
        refine ⟨Nat.lt_of_lt_of_le old.frm sp.len, Nat.lt_of_lt_of_le old.to sp.len, old.ne0, ?_,
          (let ⟨y, hy, hd⟩ := old.hasKernel; ⟨y, sp.mono t.to old.to y hy, hd⟩)⟩
        intro y hy hd
        obtain ⟨y0, hy0, e1, e2⟩ := sp.cores t.to old.to y hy
        obtain ⟨x, hx, r1, r2, r3⟩ := old.kernel y0 hy0 (by omega)
        exact ⟨x, sp.mono t.frm old.frm x hx, by rw [r1, e1], by rw [r2, e2], r3⟩
      · refine ⟨hlen, sp.jlt, sp.jne, ?_, (let ⟨y, hy, hd⟩ := hk; ⟨y, sp.sub y hy, hd⟩)⟩
        intro y hy hd
        simp only at hy ⊢
        obtain ⟨y0, hy0, e1, e2⟩ := sp.coreJ y hy
        have hy0K := hkern y0 hy0 (by omega)
        obtain ⟨x, hx, hs, rfl⟩ := mem_transitionItems.mp hy0K
        exact ⟨x, sp.mono i hi x hx, by rw [e1], by rw [e2], hs⟩
    · intro y hy
      rcases sp.same 0 inv.nonempty with e | ⟨e, _⟩
      · rw [e] at hy; exact inv.zero y hy
      · exact absurd e.symm sp.jne
    · intro i' hi' hq X' hX'
      by_cases hlt : i' < b.states.length
      · rcases sp.same i' hlt with e | ⟨_, hjq⟩
        · rw [e] at hX'
          have hq0 : i' ∉ b.queue := fun hm => hq (sp.queueSub i' hm)
          rcases inv.done i' hlt hq0 X' hX' with hE0 | ⟨j', hj', hsub⟩
          · rcases hE i' X' hE0 with h1 | ⟨rfl, rfl⟩
            · exact Or.inl h1
            · right
              refine ⟨j, insertTransition_mem.mpr (Or.inr rfl), ?_⟩
              intro y hy
              rw [e] at hy
              exact sp.sub y (hsubK y hy)
          · right
            refine ⟨j', insertTransition_mem.mpr (Or.inl (by rw [sp.transEq]; exact hj')), ?_⟩
            intro y hy
            rw [e] at hy
            have hj'lt := (inv.trans _ hj').to
            exact sp.mono j' hj'lt y (hsub y hy)
        · rename_i hij
          exact absurd (hij ▸ hjq) hq
      · exact absurd (sp.fresh i' (by omega) hi') hq

    · -- cores of the targets
      intro t ht q
      rcases insertTransition_mem.mp ht with ht | rfl
      · rw [sp.transEq] at ht
        have old := inv.trans t ht
        rw [sp.sameCores old.to q, inv.tcore t ht q]
        exact (creach_congr t.sym (sp.sameCores old.frm) q).symm
      · simp only
        rw [sp.sameJ q, hcores q]
        exact (creach_congr X (sp.sameCores hi) q).symm
    · -- at most one transition per state and symbol
      have key : ∀ t1 ∈ b.transitions, t1.frm = i → t1.sym = X → t1.to = j := by
        intro t1 ht1 e1 e2
        have old := inv.trans t1 ht1
        apply sp.pick t1.to old.to
        intro q
        rw [hcores q, inv.tcore t1 ht1 q, e1, e2]
      intro t1 ht1 t2 ht2 e1 e2
      rcases insertTransition_mem.mp ht1 with ht1 | rfl
      · rcases insertTransition_mem.mp ht2 with ht2 | rfl
        · rw [sp.transEq] at ht1 ht2
          exact inv.func t1 ht1 t2 ht2 e1 e2
        · rw [sp.transEq] at ht1
          exact key t1 ht1 e1 e2
      · rcases insertTransition_mem.mp ht2 with ht2 | rfl
        · rw [sp.transEq] at ht2
          exact (key t2 ht2 e1.symm e2.symm).symm
        · rfl

    · -- dot-0 items outside state 0 are original items
      intro k hk' hk0 y hy hd
      have hk' : k < b1.states.length := hk'
      by_cases hlt : k < b.states.length
      · obtain ⟨y0, hy0, e1, e2⟩ := sp.cores k hlt y hy
        rw [e1]
        exact inv.aug k hlt hk0 y0 hy0 (by omega)
      · rcases sp.lenCases with e | ⟨e, ej⟩
        · omega
        · have hkj : k = j := by omega
          subst hkj
          obtain ⟨y0, hy0, e1, e2⟩ := sp.coreJ y hy
          rw [e1]
          exact haug y0 hy0 (by omega)

/-! ### `enqueue_transition_targets` -/

theorem enqueueTargets_spec {c : Ctx} {fm : List FirstSet} (hwf : CtxWF c) (hfb : FmBound c.nT fm)
    {E0 : Nat → Sym Nat Nat → Prop} {fuel i : Nat} :
    ∀ (ks : List Nat) (b b' : Builder),
      BInv c fm (fun i' X' => E0 i' X' ∨ (i' = i ∧ ∃ k ∈ ks, X' = keySym c k)) b → i < b.states.length →
      (∀ k ∈ ks, ∃ x ∈ b.states.getD i [], symRightOfDot c x = some (keySym c k)) →
      enqueueTargets c fm fuel i ks b = some (some b') → BInv c fm E0 b' := by
  intro ks
  induction ks with
  | nil =>
    intro b b' inv hi _ h
    simp only [enqueueTargets] at h
    cases h
    refine ⟨inv.nonempty, inv.good, inv.queue, inv.trans, inv.zero, ?_, inv.distinct, inv.tcore, inv.func, inv.aug, inv.hasStart, inv.zcore, inv.inhabited, inv.just⟩
    intro i' hi' hq X' hX'
    rcases inv.done i' hi' hq X' hX' with (h | ⟨_, k, hk, _⟩) | h
    · exact Or.inl h
    · cases hk
    · exact Or.inr h
  | cons k ks ih =>
    intro b b' inv hi hks h
    simp only [enqueueTargets] at h
    split at h
    · cases h
    · cases h
    · rename_i b1 hstep
      obtain ⟨inv1, hlen, hmono⟩ := enqueueTarget_spec hwf hfb (E' := fun i' X' => E0 i' X' ∨ (i' = i ∧ ∃ k ∈ ks, X' = keySym c k))
        inv hi (hks k List.mem_cons_self) hstep (by
          intro i' X' hE
          rcases hE with h | ⟨rfl, k', hk', rfl⟩
          · exact Or.inl (Or.inl h)
          · rcases List.mem_cons.mp hk' with rfl | hk'
            · exact Or.inr ⟨rfl, rfl⟩
            · exact Or.inl (Or.inr ⟨rfl, k', hk', rfl⟩))
      refine ih b1 b' inv1 (Nat.lt_of_lt_of_le hi hlen) ?_ h
      intro k' hk'
      obtain ⟨x, hx, hs⟩ := hks k' (List.mem_cons_of_mem _ hk')
      exact ⟨x, hmono i hi x hx, hs⟩

/-! ### the main loop -/

theorem keySym_symKey {c : Ctx} (hwf : CtxWF c) {x : Item} {X : Sym Nat Nat} (h : symRightOfDot c x = some X) :
    keySym c (symKey c X) = X := by
  cases X with
  | n b => simp [symKey, keySym]
  | t a =>
    have ha : a < c.nT := by
      unfold symRightOfDot rhsOf at h
      split at h
      · have := List.mem_of_getElem? h
        simp at this
      · split at h
        · rename_i r hr
          exact hwf r (List.mem_of_getElem? hr) a (List.mem_of_getElem? h)
        · simp at h
    simp [symKey, keySym, ha]

theorem mem_symbolsRightOfDot {c : Ctx} {S : State} {k : Nat} :
    k ∈ symbolsRightOfDot c S ↔ ∃ x ∈ S, ∃ X, symRightOfDot c x = some X ∧ k = symKey c X := by
  unfold symbolsRightOfDot
  rw [Oset.mem_ofList, List.mem_filterMap]
  constructor
  · rintro ⟨x, hx, h⟩
    cases hs : symRightOfDot c x with
    | none => rw [hs] at h; cases h
    | some X => rw [hs] at h; cases h; exact ⟨x, hx, X, hs, rfl⟩
  · rintro ⟨x, hx, X, hs, rfl⟩
    exact ⟨x, hx, by rw [hs]; rfl⟩

theorem buildLoop_spec {c : Ctx} {fm : List FirstSet} (hwf : CtxWF c) (hfb : FmBound c.nT fm) {cf : Nat} :
    ∀ (fuel : Nat) (b b' : Builder), BInv c fm (fun _ _ => False) b →
      buildLoop c fm cf fuel b = some (some b') → BInv c fm (fun _ _ => False) b' ∧ b'.queue = [] := by
  intro fuel
  induction fuel with
  | zero => intro b b' _ h; simp [buildLoop] at h
  | succ n ih =>
    intro b b' inv h
    obtain ⟨states, trans, queue⟩ := b
    cases queue with
    | nil =>
      simp only [buildLoop] at h
      cases h
      exact ⟨inv, rfl⟩
    | cons i q =>
      simp only [buildLoop] at h
      split at h
      · cases h
      · cases h
      · rename_i b1 hstep
        have hi : i < states.length := inv.queue i List.mem_cons_self
        have inv0 : BInv c fm (fun i' X' => False ∨ (i' = i ∧ ∃ k ∈ symbolsRightOfDot c (states.getD i []), X' = keySym c k))
            ⟨states, trans, q⟩ :=
          { nonempty := inv.nonempty
            good := inv.good
            queue := fun k hk => inv.queue k (List.mem_cons_of_mem _ hk)
            trans := inv.trans
            zero := inv.zero
            aug := inv.aug
            hasStart := inv.hasStart
            zcore := inv.zcore
            inhabited := inv.inhabited
            just := inv.just
            distinct := inv.distinct
            tcore := inv.tcore
            func := inv.func
            done := by
              intro i' hi' hq X' hX'
              by_cases e : i' = i
              · subst e
                obtain ⟨x, hx, hs⟩ := hX'
                exact Or.inl (Or.inr ⟨rfl, symKey c X', mem_symbolsRightOfDot.mpr ⟨x, hx, X', hs, rfl⟩,
                  (keySym_symKey hwf hs).symm⟩)
              · have : i' ∉ i :: q := by
                  intro hm
                  rcases List.mem_cons.mp hm with h | h
                  · exact e h
                  · exact hq h
                rcases inv.done i' hi' this X' hX' with h | h
                · exact absurd h id
                · exact Or.inr h }
        have inv1 := enqueueTargets_spec hwf hfb (E0 := fun _ _ => False) _ _ _ inv0 hi (by
          intro k hk
          obtain ⟨x, hx, X, hs, rfl⟩ := mem_symbolsRightOfDot.mp hk
          exact ⟨x, hx, by rw [keySym_symKey hwf hs]; exact hs⟩) hstep
        exact ih b1 b' inv1 h

/-- the builder `validated_ast_to_machine` starts from -/
theorem initial_inv {c : Ctx} {fm : List FirstSet} (hwf : CtxWF c) (hfb : FmBound c.nT fm) {fuel : Nat} {start : State}
    (h : closureLoop c fm fuel [startItem c] Oset.new = some (some start)) :
    BInv c fm (fun _ _ => False) ⟨[start], [], [0]⟩ ∧ startItem c ∈ start := by
  obtain ⟨h1, h2, h3, h4, h5, h6⟩ := closure_spec h
  have hz : ∀ y ∈ start, y.dot = 0 := by
    intro y hy
    rcases h5 y hy with hk | ⟨x, _, imp, hi, hyi⟩
    · simp at hk; subst hk; rfl
    · exact (implied_dot hi hyi).1
  refine ⟨?_, h2 _ (List.mem_singleton.mpr rfl)⟩
  refine
    { nonempty := by simp
      good := ?_
      queue := by intro i hi; simp at hi; subst hi; simp
      trans := by intro t ht; cases ht
      zero := by intro y hy; simp at hy; exact hz y hy
      done := by intro i hi hq; simp at hi; subst hi; simp at hq
      distinct := by intro i j hi hj _; simp at hi hj; omega
      tcore := by intro t ht; cases ht
      func := by intro t ht; cases ht
      aug := by intro i hi h0; simp at hi; omega
      hasStart := by simp only [List.getD_cons_zero]; exact h2 _ (List.mem_singleton.mpr rfl)
      zcore := by
        intro y hy
        simp only [List.getD_cons_zero] at hy
        have := (closure_cores h2 h3 h4 h6 (coreOf y)).mp ⟨y, hy, rfl⟩
        refine CReach.mono ?_ this
        rintro p ⟨x, hx, rfl⟩
        simp at hx; subst hx; rfl
      inhabited := by
        intro i hi
        simp at hi; subst hi
        exact ⟨startItem c, by simp only [List.getD_cons_zero]; exact h2 _ (List.mem_singleton.mpr rfl)⟩
      just := by
        intro i hi y hy
        simp at hi; subst hi
        simp only [List.getD_cons_zero] at hy
        have := h4 y hy
        clear hy
        induction this with
        | kernel hK => simp at hK; subst hK; exact .start
        | step _ himp hyi ih => exact .closure ih himp hyi }
  intro i hi
  simp at hi; subst hi
  simp only [List.getD_cons_zero]
  refine ⟨h1, h3, ?_, ?_, h6⟩
  · intro y hy _
    rcases h5 y hy with hk | hg
    · left; simpa using hk
    · exact Or.inr hg
  · intro y hy
    refine reach_wf hwf hfb ?_ (h4 y hy)
    intro x hx
    simp at hx; subst hx
    refine ⟨Nat.le_refl _, Nat.zero_le _, Nat.le_refl _⟩

end Machine
end KikiVerif
