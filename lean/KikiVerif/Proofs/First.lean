/-
`get_first_sets` (`first_set_map.rs`): when the fixpoint loop returns, the map it returns is closed under the
FIRST / nullable equations of every rule — the condition `firstClosedB` of the validator, now for every grammar.
-/
import KikiVerif.Model.Machine
import KikiVerif.Proofs.Oset
import KikiVerif.Proofs.Valid

set_option linter.unusedSimpArgs false
set_option linter.unusedVariables false

namespace KikiVerif
namespace Machine
open LR (Sym Rule Grammar)
open Valid (FirstTbl seqTerms seqNullable firstClosedB)

/-- the map as the validator's FIRST table -/
def toTbl (fm : List FirstSet) : FirstTbl := fm.map fun f => (f.terminals, f.eps)

theorem toTbl_getD (fm : List FirstSet) (b : Nat) (f : FirstSet) (h : fm[b]? = some f) :
    (toTbl fm).getD b ([], false) = (f.terminals, f.eps) := by
  unfold toTbl
  rw [List.getD_eq_getElem?_getD, List.getElem?_map, h]
  rfl

/-- `get_current_first_set_for_*`: FIRST of the right-hand side w.r.t. the current map -/
theorem currentFirst_spec (fm : List FirstSet) : ∀ (rhs : List (Sym Nat Nat)) (out cur : FirstSet),
    currentFirst fm rhs out = some cur →
      (∀ x, x ∈ cur.terminals ↔ x ∈ out.terminals ∨ x ∈ seqTerms (toTbl fm) rhs) ∧
      cur.eps = (out.eps && seqNullable (toTbl fm) rhs) := by
  intro rhs
  induction rhs with
  | nil =>
    intro out cur h
    simp only [currentFirst] at h
    cases h
    simp [seqTerms, seqNullable]
  | cons X rest ih =>
    intro out cur h
    cases X with
    | t a =>
      simp only [currentFirst] at h
      cases h
      refine ⟨fun x => ?_, by simp [seqNullable]⟩
      simp only [seqTerms]
      exact Oset.mem_extend ⟨out.terminals⟩ [a] x
    | n b =>
      simp only [currentFirst] at h
      cases hb : fm[b]? with
      | none => rw [hb] at h; cases h
      | some f =>
        rw [hb] at h
        simp only at h
        have hget := toTbl_getD fm b f hb
        simp only [seqTerms, seqNullable, hget]
        split at h
        · rename_i heps
          obtain ⟨h1, h2⟩ := ih _ cur h
          simp only at h1 h2
          refine ⟨fun x => ?_, by rw [h2, heps]; simp⟩
          rw [h1 x, Oset.mem_extend, heps]
          simp only [List.mem_append, if_true]
          constructor
          · rintro ((a | a) | a)
            · exact Or.inl a
            · exact Or.inr (Or.inl a)
            · exact Or.inr (Or.inr a)
          · rintro (a | a | a)
            · exact Or.inl (Or.inl a)
            · exact Or.inl (Or.inr a)
            · exact Or.inr a
        · rename_i heps
          cases h
          have : f.eps = false := by simpa using heps
          refine ⟨fun x => ?_, by rw [this]; simp⟩
          rw [Oset.mem_extend, this]
          simp

/-- every FIRST set of the map is strictly ascending -/
def FmSorted (fm : List FirstSet) : Prop := ∀ f ∈ fm, Oset.Sorted f.terminals

/-- a duplicate-free list that is included in a list that is not longer contains it -/
theorem subset_of_nodup_length_le : ∀ (a b : List Nat), a.Nodup → a ⊆ b → b.length ≤ a.length → b ⊆ a := by
  intro a
  induction a with
  | nil =>
    intro b _ _ hl
    have : b = [] := List.eq_nil_of_length_eq_zero (by simpa using hl)
    subst this; exact List.Subset.refl _
  | cons x a ih =>
    intro b hnd hsub hl
    have hx : x ∈ b := hsub List.mem_cons_self
    rw [List.nodup_cons] at hnd
    have hsub' : a ⊆ b.erase x := by
      intro y hy
      have hne : y ≠ x := fun e => hnd.1 (e ▸ hy)
      exact (List.mem_erase_of_ne hne).mpr (hsub (List.mem_cons_of_mem _ hy))
    have hlen : (b.erase x).length ≤ a.length := by
      rw [List.length_erase_of_mem hx]
      simp at hl; omega
    have := ih (b.erase x) hnd.2 hsub' hlen
    intro z hz
    by_cases hzx : z = x
    · subst hzx; exact List.mem_cons_self
    · exact List.mem_cons_of_mem _ (this ((List.mem_erase_of_ne hzx).mpr hz))

/-- what it means for one rule to be satisfied by the map -/
def RuleClosed (fm : List FirstSet) (r : Rule Nat Nat) : Prop :=
  ∃ old, fm[r.lhs]? = some old ∧ (∀ x ∈ seqTerms (toTbl fm) r.rhs, x ∈ old.terminals) ∧
    (seqNullable (toTbl fm) r.rhs = true → old.eps = true)

theorem set_mem {α : Type} {l : List α} {i : Nat} {a x : α} (h : x ∈ l.set i a) : x = a ∨ x ∈ l := by
  rcases List.mem_or_eq_of_mem_set h with h | h
  · exact Or.inr h
  · exact Or.inl h

/-- `expand_rule`: keeps the sets sorted; if it reports no change, the map is unchanged and satisfies the rule -/
theorem expandRule_spec {fm fm' : List FirstSet} {r : Rule Nat Nat} {ch : Bool} (hs : FmSorted fm)
    (h : expandRule fm r = some (fm', ch)) :
    FmSorted fm' ∧ fm'.length = fm.length ∧ (ch = false → fm' = fm ∧ RuleClosed fm r) := by
  unfold expandRule at h
  split at h
  · rename_i cur old hcur hold
    simp only [addAll] at h
    cases h
    obtain ⟨hmem, heps⟩ := currentFirst_spec fm r.rhs _ cur hcur
    have hold_sorted : Oset.Sorted old.terminals := hs old (List.mem_of_getElem? hold)
    have hext_sorted := Oset.extend_sorted (⟨old.terminals⟩ : Oset Nat) cur.terminals
    refine ⟨?_, by simp, ?_⟩
    · intro f hf
      rcases set_mem hf with rfl | hf
      · exact hext_sorted
      · exact hs f hf
    · intro hch
      simp only [Bool.or_eq_false_iff, bne_eq_false_iff_eq] at hch
      obtain ⟨hlen, hepseq⟩ := hch
      -- the extended list has the same length as the old one, hence the same elements
      have hsub : old.terminals ⊆ (Oset.extend ⟨old.terminals⟩ cur.terminals).raw := by
        intro x hx; exact (Oset.mem_extend _ _ x).mpr (Or.inl hx)
      have hback := subset_of_nodup_length_le _ _ (Oset.Sorted.nodup hold_sorted) hsub (by omega)
      have heq : (Oset.extend ⟨old.terminals⟩ cur.terminals).raw = old.terminals :=
        Oset.sorted_ext _ _ hext_sorted hold_sorted (fun x => ⟨fun hx => hback hx, fun hx => hsub hx⟩)
      constructor
      · rw [heq, hepseq]
        have : (⟨old.terminals, old.eps⟩ : FirstSet) = old := rfl
        rw [this]
        obtain ⟨hlt, hget⟩ := List.getElem?_eq_some_iff.mp hold
        rw [← hget]
        exact List.set_getElem_self hlt
      · refine ⟨old, hold, ?_, ?_⟩
        · intro x hx
          have : x ∈ cur.terminals := (hmem x).mpr (Or.inr hx)
          exact hback ((Oset.mem_extend _ _ x).mpr (Or.inr this))
        · intro hn
          have : cur.eps = true := by rw [heps, hn]; rfl
          rw [this] at hepseq
          simpa using hepseq
  · cases h

theorem expand_spec : ∀ (rules : List (Rule Nat Nat)) (fm fm' : List FirstSet) (ch ch' : Bool), FmSorted fm →
    expand rules fm ch = some (fm', ch') →
    FmSorted fm' ∧ fm'.length = fm.length ∧
      (ch' = false → ch = false ∧ fm' = fm ∧ ∀ r ∈ rules, RuleClosed fm r) := by
  intro rules
  induction rules with
  | nil =>
    intro fm fm' ch ch' hs h
    simp only [expand] at h
    cases h
    exact ⟨hs, rfl, fun h => ⟨h, rfl, by simp⟩⟩
  | cons r rs ih =>
    intro fm fm' ch ch' hs h
    simp only [expand] at h
    split at h
    · cases h
    · rename_i fm1 ch1 h1
      obtain ⟨hs1, hl1, hc1⟩ := expandRule_spec hs h1
      obtain ⟨hs2, hl2, hc2⟩ := ih fm1 fm' (ch || ch1) ch' hs1 h
      refine ⟨hs2, by rw [hl2, hl1], fun hch => ?_⟩
      obtain ⟨hor, heq, hall⟩ := hc2 hch
      simp only [Bool.or_eq_false_iff] at hor
      obtain ⟨e1, hr⟩ := hc1 hor.2
      subst e1
      refine ⟨hor.1, heq, ?_⟩
      intro r' hr'
      rcases List.mem_cons.mp hr' with rfl | hr'
      · exact hr
      · exact hall r' hr'

theorem firstLoop_spec (rules : List (Rule Nat Nat)) : ∀ (fuel : Nat) (fm0 fm : List FirstSet), FmSorted fm0 →
    firstLoop rules fuel fm0 = some (some fm) →
    FmSorted fm ∧ fm.length = fm0.length ∧ ∀ r ∈ rules, RuleClosed fm r := by
  intro fuel
  induction fuel with
  | zero => intro fm0 fm _ h; simp [firstLoop] at h
  | succ k ih =>
    intro fm0 fm hs h
    simp only [firstLoop] at h
    split at h
    · cases h
    · rename_i fm1 ch hexp
      obtain ⟨hs1, hl1, hc1⟩ := expand_spec rules fm0 fm1 false ch hs hexp
      split at h
      · obtain ⟨a, b, c⟩ := ih fm1 fm hs1 h
        exact ⟨a, by rw [b, hl1], c⟩
      · rename_i hch
        cases h
        have : ch = false := by simpa using hch
        obtain ⟨_, e, hall⟩ := hc1 this
        subst e
        exact ⟨hs, rfl, hall⟩

theorem emptyFirst_sorted (n : Nat) : FmSorted (emptyFirst n) := by
  intro f hf
  unfold emptyFirst at hf
  have := List.eq_of_mem_replicate hf
  subst this
  exact List.Pairwise.nil

/-- **FIRST sets, every grammar**: whenever `get_first_sets` returns, its result is closed under the FIRST and
nullable equations of every rule (the validator's `firstClosedB`), has one sorted entry per nonterminal -/
theorem firstSets_closed {c : Ctx} {fuel : Nat} {fm : List FirstSet} (h : firstSets c fuel = some (some fm)) :
    firstClosedB c.g (toTbl fm) = true ∧ fm.length = c.nN ∧ FmSorted fm := by
  unfold firstSets at h
  obtain ⟨hs, hl, hall⟩ := firstLoop_spec _ _ _ _ (emptyFirst_sorted _) h
  refine ⟨?_, by rw [hl]; simp [emptyFirst], hs⟩
  unfold firstClosedB
  rw [List.all_eq_true]
  intro r hr
  obtain ⟨old, hold, h1, h2⟩ := hall r hr
  have hget := toTbl_getD fm r.lhs old hold
  simp only [Bool.and_eq_true, List.all_eq_true, Bool.or_eq_true, Bool.not_eq_true', hget]
  refine ⟨fun x hx => List.contains_iff_mem.mpr (h1 x hx), ?_⟩
  cases hn : seqNullable (toTbl fm) r.rhs with
  | false => exact Or.inl rfl
  | true => exact Or.inr (h2 hn)

/-! ### every terminal in a FIRST set is a terminal of the grammar -/

/-- terminals of the coded grammar are below `nT` (established by `Encode`) -/
def CtxWF (c : Ctx) : Prop := ∀ r ∈ c.g.rules, ∀ a, Sym.t a ∈ r.rhs → a < c.nT

def FmBound (nT : Nat) (fm : List FirstSet) : Prop := ∀ f ∈ fm, ∀ a ∈ f.terminals, a < nT

theorem seqTerms_bound {nT : Nat} {fm : List FirstSet} (hb : FmBound nT fm) :
    ∀ (β : List (Sym Nat Nat)), (∀ a, Sym.t a ∈ β → a < nT) → ∀ x ∈ seqTerms (toTbl fm) β, x < nT := by
  intro β
  induction β with
  | nil => intro _ x hx; simp [seqTerms] at hx
  | cons X rest ih =>
    intro hβ x hx
    cases X with
    | t a =>
      simp only [seqTerms, List.mem_singleton] at hx
      subst hx
      exact hβ x List.mem_cons_self
    | n b =>
      simp only [seqTerms, List.mem_append] at hx
      have hrest : ∀ a, Sym.t a ∈ rest → a < nT := fun a ha => hβ a (List.mem_cons_of_mem _ ha)
      cases hb' : fm[b]? with
      | none =>
        have : (toTbl fm).getD b ([], false) = ([], false) := by
          unfold toTbl
          rw [List.getD_eq_getElem?_getD, List.getElem?_map, hb']; rfl
        rw [this] at hx
        simp at hx
      | some f =>
        rw [toTbl_getD fm b f hb'] at hx
        rcases hx with hx | hx
        · exact hb f (List.mem_of_getElem? hb') x hx
        · split at hx
          · exact ih hrest x hx
          · cases hx

theorem expandRule_bound {nT : Nat} {fm fm' : List FirstSet} {r : Rule Nat Nat} {ch : Bool} (hb : FmBound nT fm)
    (hr : ∀ a, Sym.t a ∈ r.rhs → a < nT) (h : expandRule fm r = some (fm', ch)) : FmBound nT fm' := by
  unfold expandRule at h
  split at h
  · rename_i cur old hcur hold
    simp only [addAll] at h
    cases h
    obtain ⟨hmem, _⟩ := currentFirst_spec fm r.rhs _ cur hcur
    intro f hf a ha
    rcases set_mem hf with rfl | hf
    · simp only at ha
      rcases (Oset.mem_extend _ _ a).mp ha with h1 | h1
      · exact hb old (List.mem_of_getElem? hold) a h1
      · rcases (hmem a).mp h1 with h2 | h2
        · cases h2
        · exact seqTerms_bound hb r.rhs hr a h2
    · exact hb f hf a ha
  · cases h

theorem expand_bound {nT : Nat} : ∀ (rules : List (Rule Nat Nat)) (fm fm' : List FirstSet) (ch ch' : Bool),
    FmBound nT fm → (∀ r ∈ rules, ∀ a, Sym.t a ∈ r.rhs → a < nT) → expand rules fm ch = some (fm', ch') → FmBound nT fm' := by
  intro rules
  induction rules with
  | nil => intro fm fm' ch ch' hb _ h; simp only [expand] at h; cases h; exact hb
  | cons r rs ih =>
    intro fm fm' ch ch' hb hr h
    simp only [expand] at h
    split at h
    · cases h
    · rename_i fm1 ch1 h1
      exact ih fm1 fm' _ ch' (expandRule_bound hb (hr r List.mem_cons_self) h1)
        (fun r' hr' => hr r' (List.mem_cons_of_mem _ hr')) h

theorem firstLoop_bound {nT : Nat} (rules : List (Rule Nat Nat)) (hr : ∀ r ∈ rules, ∀ a, Sym.t a ∈ r.rhs → a < nT) :
    ∀ (fuel : Nat) (fm0 fm : List FirstSet), FmBound nT fm0 → firstLoop rules fuel fm0 = some (some fm) → FmBound nT fm := by
  intro fuel
  induction fuel with
  | zero => intro fm0 fm _ h; simp [firstLoop] at h
  | succ k ih =>
    intro fm0 fm hb h
    simp only [firstLoop] at h
    split at h
    · cases h
    · rename_i fm1 ch hexp
      have hb1 := expand_bound rules fm0 fm1 false ch hb hr hexp
      split at h
      · exact ih fm1 fm hb1 h
      · cases h; exact hb1

theorem firstSets_bound {c : Ctx} (hwf : CtxWF c) {fuel : Nat} {fm : List FirstSet}
    (h : firstSets c fuel = some (some fm)) : FmBound c.nT fm := by
  unfold firstSets at h
  refine firstLoop_bound _ hwf _ _ _ ?_ h
  intro f hf a ha
  unfold emptyFirst at hf
  have := List.eq_of_mem_replicate hf
  subst this
  cases ha

end Machine
end KikiVerif
