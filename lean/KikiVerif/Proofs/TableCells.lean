/-
What is in the cells of the table `machine_to_table` returns: exactly the demands of the items (ACTION) and
the nonterminal transitions (GOTO), and the error action / `None` everywhere else.
-/
import KikiVerif.Proofs.Table
import KikiVerif.Proofs.Perm

set_option linter.unusedSimpArgs false
set_option linter.unusedVariables false

namespace KikiVerif
namespace Table
open Machine
open LR (Sym Action)

theorem getD_set_ne' {α : Type} {l : List α} {i k : Nat} {a d : α} (h : i ≠ k) : (l.set i a).getD k d = l.getD k d := by
  rw [List.getD_eq_getElem?_getD, List.getElem?_set_ne h, ← List.getD_eq_getElem?_getD]

theorem getD_set_self' {α : Type} {l : List α} {i : Nat} {a d : α} (h : i < l.length) : (l.set i a).getD i d = a := by
  rw [List.getD_eq_getElem?_getD, List.getElem?_set_self h]; rfl

/-! ### ACTION cells -/

theorem writeAction_cell {t t' : Table} {s col : Nat} {a : Action} (h : writeAction t s col a = some t') :
    col ≤ t.nT ∧ s < t.nStates ∧ t'.action s col = a ∧
    (∀ s2 c2, c2 ≤ t.nT → (s2, c2) ≠ (s, col) → t'.action s2 c2 = t.action s2 c2) := by
  obtain ⟨e1, e2, e3, e4, e5, e6, e7⟩ := writeAction_shape h
  unfold writeAction at h
  split at h
  · rename_i hb
    unfold setChecked at h
    split at h
    · rename_i hlt
      refine ⟨hb.1, hb.2, ?_, ?_⟩
      · unfold Table.action
        rw [e7, e1, getD_set_self' hlt]
      · intro s2 c2 hc2 hne
        unfold Table.action
        rw [e7, e1]
        apply getD_set_ne'
        intro e
        have := index_inj (w := t.nT + 1) (by omega) (by omega) e
        exact hne (by rw [this.1, this.2])
    · simp at h
  · cases h

theorem actFold_spec : ∀ (acts : List ((Nat × Nat) × (Item × Action))) (t t' : Table),
    acts.foldlM (fun t e => writeAction t e.1.1 e.1.2 e.2.2) t = some t' → (acts.map (·.1)).Nodup →
    t'.nT = t.nT ∧ t'.nN = t.nN ∧ t'.nStates = t.nStates ∧ t'.start = t.start ∧ t'.gotos = t.gotos ∧
    (∀ e ∈ acts, e.1.2 ≤ t.nT ∧ e.1.1 < t.nStates ∧ t'.action e.1.1 e.1.2 = e.2.2) ∧
    (∀ s col, col ≤ t.nT → (s, col) ∉ acts.map (·.1) → t'.action s col = t.action s col) ∧
    t'.actions.length = t.actions.length := by
  intro acts
  induction acts with
  | nil =>
    intro t t' h _
    have h : some t = some t' := h
    cases h
    exact ⟨rfl, rfl, rfl, rfl, rfl, by simp, by simp, rfl⟩
  | cons e rest ih =>
    intro t t' h hnd
    rw [List.foldlM_cons] at h
    cases h1 : writeAction t e.1.1 e.1.2 e.2.2 with
    | none => rw [h1] at h; cases h
    | some t1 =>
      rw [h1] at h
      have h : rest.foldlM (fun t e => writeAction t e.1.1 e.1.2 e.2.2) t1 = some t' := h
      rw [List.map_cons, List.nodup_cons] at hnd
      obtain ⟨s1, s2, s3, s4, s5, s6, _⟩ := writeAction_shape h1
      obtain ⟨c1, c2, c3, c4⟩ := writeAction_cell h1
      obtain ⟨i1, i2, i3, i4, i5, i6, i7, i8⟩ := ih t1 t' h hnd.2
      refine ⟨by rw [i1, s1], by rw [i2, s2], by rw [i3, s3], by rw [i4, s4], by rw [i5, s6], ?_, ?_, by rw [i8, s5]⟩
      · intro e' he'
        rcases List.mem_cons.mp he' with rfl | he'
        · refine ⟨c1, c2, ?_⟩
          rw [i7 _ _ (by rw [s1]; exact c1) hnd.1]
          exact c3
        · have := i6 e' he'
          rw [s1, s3] at this
          exact this
      · intro s col hcol hnot
        rw [List.map_cons, List.mem_cons, not_or] at hnot
        rw [i7 s col (by rw [s1]; exact hcol) hnot.2]
        exact c4 s col hcol hnot.1

/-! ### GOTO cells -/

theorem writeGoto_cell {t t' : Table} {s col g : Nat} (h : writeGoto t s col g = some t') :
    col < t.nN ∧ s < t.nStates ∧ t'.goto s col = some g ∧
    (∀ s2 c2, c2 < t.nN → (s2, c2) ≠ (s, col) → t'.goto s2 c2 = t.goto s2 c2) ∧
    t'.nT = t.nT ∧ t'.nN = t.nN ∧ t'.nStates = t.nStates ∧ t'.start = t.start ∧ t'.actions = t.actions ∧
    t'.gotos.length = t.gotos.length := by
  unfold writeGoto at h
  split at h
  · rename_i hb
    unfold setChecked at h
    split at h
    · rename_i hlt
      simp only [Option.map_some, Option.some.injEq] at h
      subst h
      refine ⟨hb.1, hb.2, ?_, ?_, rfl, rfl, rfl, rfl, rfl, by simp⟩
      · unfold Table.goto
        simp only
        rw [getD_set_self' hlt]
      · intro s2 c2 hc2 hne
        unfold Table.goto
        simp only
        apply getD_set_ne'
        intro e
        have := index_inj (w := t.nN) hb.1 hc2 e
        exact hne (by rw [this.1, this.2])
    · simp at h
  · cases h

theorem gotoFold_spec : ∀ (gts : List ((Nat × Nat) × Nat)) (t t' : Table),
    gts.foldlM (fun t e => writeGoto t e.1.1 e.1.2 e.2) t = some t' → (gts.map (·.1)).Nodup →
    t'.nT = t.nT ∧ t'.nN = t.nN ∧ t'.nStates = t.nStates ∧ t'.start = t.start ∧ t'.actions = t.actions ∧
    (∀ e ∈ gts, e.1.2 < t.nN ∧ e.1.1 < t.nStates ∧ t'.goto e.1.1 e.1.2 = some e.2) ∧
    (∀ s col, col < t.nN → (s, col) ∉ gts.map (·.1) → t'.goto s col = t.goto s col) ∧
    t'.gotos.length = t.gotos.length := by
  intro gts
  induction gts with
  | nil =>
    intro t t' h _
    have h : some t = some t' := h
    cases h
    exact ⟨rfl, rfl, rfl, rfl, rfl, by simp, by simp, rfl⟩
  | cons e rest ih =>
    intro t t' h hnd
    rw [List.foldlM_cons] at h
    cases h1 : writeGoto t e.1.1 e.1.2 e.2 with
    | none => rw [h1] at h; cases h
    | some t1 =>
      rw [h1] at h
      have h : rest.foldlM (fun t e => writeGoto t e.1.1 e.1.2 e.2) t1 = some t' := h
      rw [List.map_cons, List.nodup_cons] at hnd
      obtain ⟨c1, c2, c3, c4, s1, s2, s3, s4, s5, s6⟩ := writeGoto_cell h1
      obtain ⟨i1, i2, i3, i4, i5, i6, i7, i8⟩ := ih t1 t' h hnd.2
      refine ⟨by rw [i1, s1], by rw [i2, s2], by rw [i3, s3], by rw [i4, s4], by rw [i5, s5], ?_, ?_, by rw [i8, s6]⟩
      · intro e' he'
        rcases List.mem_cons.mp he' with rfl | he'
        · refine ⟨c1, c2, ?_⟩
          rw [i7 _ _ (by rw [s2]; exact c1) hnd.1]
          exact c3
        · have := i6 e' he'
          rw [s2, s3] at this
          exact this
      · intro s col hcol hnot
        rw [List.map_cons, List.mem_cons, not_or] at hnot
        rw [i7 s col (by rw [s2]; exact hcol) hnot.2]
        exact c4 s col hcol hnot.1

/-! ### the goto map -/

theorem addGotos_spec : ∀ (trs : List Transition) (tb tb' : TB), addGotos trs tb = .ok tb' →
    (∀ e, e ∈ tb'.gotos ↔ e ∈ tb.gotos ∨ ∃ tr ∈ trs, ∃ b, tr.sym = .n b ∧ e = ((tr.frm, b), tr.to)) := by
  intro trs
  induction trs with
  | nil => intro tb tb' h; cases h; simp
  | cons tr trs ih =>
    intro tb tb' h e
    simp only [addGotos] at h
    split at h
    · rename_i a ha
      rw [ih tb tb' h e]
      constructor
      · rintro (h1 | ⟨tr', h1, b, h2, h3⟩)
        · exact Or.inl h1
        · exact Or.inr ⟨tr', List.mem_cons_of_mem _ h1, b, h2, h3⟩
      · rintro (h1 | ⟨tr', h1, b, h2, h3⟩)
        · exact Or.inl h1
        · rcases List.mem_cons.mp h1 with rfl | h1
          · rw [ha] at h2; cases h2
          · exact Or.inr ⟨tr', h1, b, h2, h3⟩
    · rename_i b hb
      split at h
      · cases h
      · rw [ih _ tb' h e]
        simp only [List.mem_append, List.mem_singleton]
        constructor
        · rintro ((h1 | rfl) | ⟨tr', h1, b', h2, h3⟩)
          · exact Or.inl h1
          · exact Or.inr ⟨tr, List.mem_cons_self, b, hb, rfl⟩
          · exact Or.inr ⟨tr', List.mem_cons_of_mem _ h1, b', h2, h3⟩
        · rintro (h1 | ⟨tr', h1, b', h2, h3⟩)
          · exact Or.inl (Or.inl h1)
          · rcases List.mem_cons.mp h1 with rfl | h1
            · rw [hb] at h2; cases h2; exact Or.inl (Or.inr h3)
            · exact Or.inr ⟨tr', h1, b', h2, h3⟩

/-! ### the table `machine_to_table` returns -/

structure Cells (c : Ctx) (m : Machine) (t : Table) : Prop where
  nT : t.nT = c.nT
  nN : t.nN = c.nN
  nStates : t.nStates = m.states.length
  start : t.start = m.start
  /-- every item's demand is in its cell -/
  demand : ∀ s st, m.states[s]? = some st → ∀ it ∈ st, ∀ col a, Table.demand c m s it = some (col, a) →
    t.action s col = a
  /-- every non-error cell is the demand of an item of its state -/
  justified : ∀ s col, col ≤ c.nT → t.action s col ≠ .err →
    ∃ st it, m.states[s]? = some st ∧ it ∈ st ∧ Table.demand c m s it = some (col, t.action s col)
  /-- GOTO cells are the nonterminal transitions -/
  gotoOf : ∀ tr ∈ m.transitions, ∀ b, tr.sym = .n b → t.goto tr.frm b = some tr.to
  gotoJust : ∀ s b to, b < c.nN → t.goto s b = some to → (⟨s, to, .n b⟩ : Transition) ∈ m.transitions
  alen : t.actions.length = m.states.length * (c.nT + 1)
  glen : t.gotos.length = m.states.length * c.nN

theorem emptyTable_action (c : Ctx) (m : Machine) (s col : Nat) : (emptyTable c m).action s col = .err := by
  unfold Table.action emptyTable
  simp only
  rw [List.getD_eq_getElem?_getD]
  cases h : (List.replicate (m.states.length * (c.nT + 1)) Action.err)[s * (c.nT + 1) + col]? with
  | none => rfl
  | some a =>
    have := List.mem_of_getElem? h
    rw [List.eq_of_mem_replicate this]; rfl

theorem emptyTable_goto (c : Ctx) (m : Machine) (s col : Nat) : (emptyTable c m).goto s col = none := by
  unfold Table.goto emptyTable
  simp only
  rw [List.getD_eq_getElem?_getD]
  cases h : (List.replicate (m.states.length * c.nN) (none : Option Nat))[s * c.nN + col]? with
  | none => rfl
  | some a =>
    have := List.mem_of_getElem? h
    rw [List.eq_of_mem_replicate this]; rfl

theorem lookup_mem' {α β : Type} [BEq α] [LawfulBEq α] {l : List (α × β)} {k : α} {v : β}
    (h : l.lookup k = some v) : (k, v) ∈ l := lookup_mem h

theorem machineToTable_cells {c : Ctx} {m : Machine} {t : Table} (h : machineToTable c m = .ok t) :
    Cells c m t := by
  unfold machineToTable at h
  cases hres : addActions c m m.states 0 ⟨[], []⟩ with
  | conflict s' e' n' => rw [hres] at h; cases h
  | panic site => rw [hres] at h; cases h
  | ok tb =>
    rw [hres] at h
    simp only at h
    cases hres2 : addGotos m.transitions tb with
    | conflict s' e' n' => rw [hres2] at h; cases h
    | panic site => rw [hres2] at h; cases h
    | ok tb' =>
      rw [hres2] at h
      simp only at h
      cases hres3 : buildAsIs (emptyTable c m) tb'.actions tb'.gotos with
      | none => rw [hres3] at h; cases h
      | some t0 =>
        rw [hres3] at h
        cases h
        obtain ⟨hrec, _⟩ := addActions_ok_records c m m.states 0 ⟨[], []⟩ tb hres
        have hfilled : Filled c m tb :=
          (addActions_inv c m m.states 0 ⟨[], []⟩ (by intro k st hk; simpa using hk)
            (by intro s col it a hm; cases hm)).1 tb hres
        obtain ⟨n1, g1⟩ := addActions_keys c m m.states 0 ⟨[], []⟩ tb hres (by simp)
        obtain ⟨n2, a2⟩ := addGotos_keys m.transitions tb tb' hres2 (by rw [g1]; simp)
        have hg := addGotos_spec m.transitions tb tb' hres2
        unfold buildAsIs at hres3
        simp only at hres3
        cases hf1 : tb'.actions.foldlM (fun t e => writeAction t e.1.1 e.1.2 e.2.2) (emptyTable c m) with
        | none => rw [hf1] at hres3; cases hres3
        | some t1 =>
          rw [hf1] at hres3
          simp only [Option.bind_some] at hres3
          obtain ⟨p1, p2, p3, p4, p5, p6, p7, p8⟩ := actFold_spec _ _ _ hf1 (by rw [a2]; exact n1)
          obtain ⟨q1, q2, q3, q4, q5, q6, q7, q8⟩ := gotoFold_spec _ _ _ hres3 n2
          have hact : ∀ s col, t.action s col = t1.action s col := by
            intro s col; unfold Table.action; rw [q5, q1]
          have hgoto1 : ∀ s col, t1.goto s col = none := by
            intro s col; unfold Table.goto; rw [p5, p2]; exact emptyTable_goto c m s col
          refine
            { nT := by rw [q1, p1]; rfl
              nN := by rw [q2, p2]; rfl
              nStates := by rw [q3, p3]; rfl
              start := by rw [q4, p4]; rfl
              demand := ?_
              justified := ?_
              gotoOf := ?_
              gotoJust := ?_
              alen := by rw [q5, p8]; simp [emptyTable]
              glen := by rw [q8, p5]; simp [emptyTable] }
          · intro s st hst it hit col a hd
            obtain ⟨e, he⟩ := hrec s st hst it hit col a (by rw [Nat.zero_add]; exact hd)
            simp only [Nat.zero_add] at he
            have hm : ((s, col), (e, a)) ∈ tb'.actions := by rw [a2]; exact lookup_mem' he
            rw [hact]
            exact (p6 _ hm).2.2
          · intro s col hcol hne
            rw [hact] at hne ⊢
            by_cases hk : (s, col) ∈ tb'.actions.map (·.1)
            · obtain ⟨e, he, hek⟩ := List.mem_map.mp hk
              obtain ⟨⟨s', col'⟩, ⟨it, a⟩⟩ := e
              simp only at hek
              cases hek
              have hcell := (p6 _ he).2.2
              simp only at hcell
              rw [a2] at he
              obtain ⟨⟨st, hst, hit⟩, hd⟩ := hfilled s col it a he
              exact ⟨st, it, hst, hit, by rw [hcell]; exact hd⟩
            · exfalso
              apply hne
              rw [p7 s col (by show col ≤ c.nT; exact hcol) hk]
              exact emptyTable_action c m s col
          · intro tr htr b hb
            have hm : ((tr.frm, b), tr.to) ∈ tb'.gotos := (hg _).mpr (Or.inr ⟨tr, htr, b, hb, rfl⟩)
            exact (q6 _ hm).2.2
          · intro s b to hb hgo
            by_cases hk : (s, b) ∈ tb'.gotos.map (·.1)
            · obtain ⟨e, he, hek⟩ := List.mem_map.mp hk
              obtain ⟨⟨s', b'⟩, to'⟩ := e
              simp only at hek
              cases hek
              have hcell := (q6 _ he).2.2
              simp only at hcell
              rw [hgo] at hcell
              cases hcell
              rcases (hg _).mp he with h0 | ⟨tr, htr, b2, hb2, heq⟩
              · rw [g1] at h0; cases h0
              · simp only [Prod.mk.injEq] at heq
                obtain ⟨⟨r1, r2⟩, r3⟩ := heq
                subst r1; subst r2; subst r3
                have : tr = ⟨tr.frm, tr.to, .n b⟩ := by
                  cases tr; simp only at hb2; subst hb2; rfl
                rw [← this]; exact htr
            · exfalso
              rw [q7 s b (by rw [p2]; exact hb) hk, hgoto1] at hgo
              cases hgo

end Table
end KikiVerif
