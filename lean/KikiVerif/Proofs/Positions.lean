/-
Every token the scanner returns sits in the source exactly where it says: the source is
`pre ++ text(token) ++ post` with `pre` having as many bytes as the token's start position.
Hence (via `tokenize = scan`) every `&src[start..end]` the later stages compute from a token is a valid slice
and is the token's text.
-/
import KikiVerif.Proofs.Tokenize

set_option linter.unusedSimpArgs false
set_option linter.unusedVariables false

namespace KikiVerif
namespace Spec
open Text Tokenize

/-- the characters a token was made from -/
def tokText : Token → Str
  | .underscore _ => "_".toList
  | .ident n _ => n
  | .termIdent n _ => '$' :: n
  | .attr s _ => s
  | .startKw _ => "start".toList
  | .structKw _ => "struct".toList
  | .enumKw _ => "enum".toList
  | .terminalKw _ => "terminal".toList
  | .colon _ => ":".toList
  | .dcolon _ => "::".toList
  | .comma _ => ",".toList
  | .lparen _ => "(".toList
  | .rparen _ => ")".toList
  | .lcurly _ => "{".toList
  | .rcurly _ => "}".toList
  | .langle _ => "<".toList
  | .rangle _ => ">".toList

/-- byte offset of the first character of the token (`Token::start`) -/
def tokStart : Token → Nat
  | .underscore p => p
  | .ident _ p => p
  | .termIdent _ p => p - 1
  | .attr _ p => p
  | .startKw p => p
  | .structKw p => p
  | .enumKw p => p
  | .terminalKw p => p
  | .colon p => p
  | .dcolon p => p
  | .comma p => p
  | .lparen p => p
  | .rparen p => p
  | .lcurly p => p
  | .rcurly p => p
  | .langle p => p
  | .rangle p => p

/-- a terminal identifier's `dollarless_position` is at least 1 (there is a `$` before it) -/
def posOk : Token → Prop
  | .termIdent n dp => 1 ≤ dp ∧ ∀ c ∈ n, isIdentChar c = true
  | _ => True

theorem reserved_posOk {w : Str} {p : Nat} {t : Token} (h : reserved w p = some t) : posOk t := by
  unfold reserved at h
  repeat' split at h
  all_goals first | (cases h; exact True.intro) | cases h

theorem punct_posOk {c : Char} {p : Nat} {t : Token} (h : punct c p = some t) : posOk t := by
  unfold punct at h
  split at h <;> first | (cases h; exact True.intro) | cases h

theorem reserved_text {w : Str} {p : Nat} {t : Token} (h : reserved w p = some t) : tokText t = w ∧ tokStart t = p := by
  unfold reserved at h
  split at h
  · rename_i e; cases h; exact ⟨e.symm, rfl⟩
  · split at h
    · rename_i e; cases h; exact ⟨e.symm, rfl⟩
    · split at h
      · rename_i e; cases h; exact ⟨e.symm, rfl⟩
      · split at h
        · rename_i e; cases h; exact ⟨e.symm, rfl⟩
        · split at h
          · rename_i e; cases h; exact ⟨e.symm, rfl⟩
          · cases h

theorem punct_text {c : Char} {p : Nat} {t : Token} (h : punct c p = some t) : tokText t = [c] ∧ tokStart t = p := by
  unfold punct at h
  split at h <;> first | (cases h; exact ⟨rfl, rfl⟩) | cases h

theorem take_span (p : Char → Bool) (rest : Str) : rest.take (span p rest).1.length = (span p rest).1 := by
  have := take_len_append (span p rest).1 (span p rest).2
  rw [span_append] at this
  exact this

/-- a token emitted at the head of `cs` (which starts at offset `i`) is made of the next `k + 1` characters and
starts at `i` -/
theorem next_emit_text {cs : Str} {i k : Nat} {t : Token} (h : next cs i = .emit t k) :
    tokText t = cs.take (k + 1) ∧ tokStart t = i ∧ k + 1 ≤ cs.length ∧ posOk t := by
  cases cs with
  | nil => cases h
  | cons c rest =>
    unfold next at h
    simp only at h
    by_cases hw : isWhitespace c = true
    · rw [if_pos hw] at h; cases h
    rw [if_neg hw] at h
    by_cases hsl : c = '/'
    · rw [if_pos hsl] at h
      cases rest with
      | nil => cases h
      | cons d r => simp only at h; split at h <;> cases h
    rw [if_neg hsl] at h
    by_cases hid : isIdentStart c = true
    · -- identifier or reserved word
      rw [if_pos hid] at h
      simp only [Step.emit.injEq] at h
      obtain ⟨ht, hk⟩ := h
      subst hk
      have htake : (c :: rest).take ((span isIdentChar rest).1.length + 1) = c :: (span isIdentChar rest).1 := by
        rw [List.take_succ_cons, take_span]
      have hlen : (span isIdentChar rest).1.length + 1 ≤ (c :: rest).length := by
        have := congrArg List.length (span_append isIdentChar rest)
        simp at this ⊢; omega
      rcases Option.eq_none_or_eq_some (reserved (c :: (span isIdentChar rest).1) i) with hr | ⟨tok, hr⟩
      · rw [hr] at ht
        simp only [Option.getD_none] at ht
        subst ht
        refine ⟨?_, ?_, hlen, True.intro⟩
        · show c :: (span isIdentChar rest).1 = _
          rw [htake]
        · show i = i
          rfl
      · rw [hr] at ht
        simp only [Option.getD_some] at ht
        subst ht
        obtain ⟨e1, e2⟩ := reserved_text hr
        exact ⟨by rw [e1, htake], e2, hlen, reserved_posOk hr⟩
    rw [if_neg hid] at h
    by_cases hdol : c = '$'
    · -- `$` terminal identifier
      rw [if_pos hdol] at h
      cases rest with
      | nil => cases h
      | cons d r' =>
        simp only at h
        by_cases hd : isIdentStart d = true
        · rw [if_pos hd] at h
          split at h
          · cases h
          · simp only [Step.emit.injEq] at h
            obtain ⟨ht, hk⟩ := h
            subst hk; subst ht
            refine ⟨?_, (by show i + 1 - 1 = i; omega), ?_,
              (by show 1 ≤ i + 1 ∧ _; exact ⟨by omega, span_fst_all isIdentChar (d :: r')⟩)⟩
            · show '$' :: (span isIdentChar (d :: r')).1 = _
              rw [List.take_succ_cons, take_span, hdol]
            · have := congrArg List.length (span_append isIdentChar (d :: r'))
              simp at this ⊢; omega
        · rw [if_neg hd] at h; cases h
    rw [if_neg hdol] at h
    by_cases hcol : c = ':'
    · rw [if_pos hcol] at h
      cases rest with
      | nil =>
        simp only [Step.emit.injEq] at h
        obtain ⟨ht, hk⟩ := h
        subst hk; subst ht
        exact ⟨by rw [hcol]; rfl, rfl, by simp, True.intro⟩
      | cons d r' =>
        simp only at h
        by_cases hd : d = ':'
        · rw [if_pos hd] at h
          simp only [Step.emit.injEq] at h
          obtain ⟨ht, hk⟩ := h
          subst hk; subst ht
          exact ⟨by rw [hcol, hd]; rfl, rfl, by simp, True.intro⟩
        · rw [if_neg hd] at h
          simp only [Step.emit.injEq] at h
          obtain ⟨ht, hk⟩ := h
          subst hk; subst ht
          exact ⟨by rw [hcol]; rfl, rfl, by simp, True.intro⟩
    rw [if_neg hcol] at h
    by_cases hhash : c = '#'
    · rw [if_pos hhash] at h
      cases rest with
      | nil => cases h
      | cons d r' =>
        simp only at h
        by_cases hd : d = '['
        · rw [if_pos hd] at h
          cases hbody : attrBody r' (i + 2) ['['] with
          | bad j ch => rw [hbody] at h; cases h
          | done body rest' =>
            rw [hbody] at h
            simp only [Step.emit.injEq] at h
            obtain ⟨ht, hk⟩ := h
            subst hk; subst ht
            have happ := attrBody_done_append _ _ _ _ _ hbody
            refine ⟨?_, rfl, ?_, True.intro⟩
            · show '#' :: '[' :: body = _
              rw [hhash, hd, happ]
              have : 1 + body.length + 1 = body.length + 1 + 1 := by omega
              rw [this, List.take_succ_cons, List.take_succ_cons, take_len_append]
            · rw [happ]; simp; omega
        · rw [if_neg hd] at h; cases h
    rw [if_neg hhash] at h
    -- punctuation
    rcases Option.eq_none_or_eq_some (punct c i) with hp | ⟨tok, hp⟩
    · rw [hp] at h; cases h
    · rw [hp] at h
      simp only [Step.emit.injEq] at h
      obtain ⟨ht, hk⟩ := h
      subst hk; subst ht
      obtain ⟨e1, e2⟩ := punct_text hp
      exact ⟨by rw [e1]; rfl, e2, by simp, punct_posOk hp⟩

theorem commentLen_le (r : Str) : commentLen r ≤ r.length := by
  induction r with
  | nil => simp [commentLen]
  | cons x xs ih => simp only [commentLen]; split <;> simp <;> omega

theorem next_skip_len {cs : Str} {i k : Nat} (h : next cs i = .skip k) : k + 1 ≤ cs.length := by
  cases cs with
  | nil => cases h
  | cons c rest =>
    unfold next at h
    simp only at h
    by_cases hw : isWhitespace c = true
    · rw [if_pos hw] at h; cases h; simp
    rw [if_neg hw] at h
    by_cases hsl : c = '/'
    · rw [if_pos hsl] at h
      cases rest with
      | nil => cases h
      | cons d r =>
        simp only at h
        split at h
        · cases h
          have := commentLen_le r
          simp; omega
        · cases h
    rw [if_neg hsl] at h
    by_cases hid : isIdentStart c = true
    · rw [if_pos hid] at h; cases h
    rw [if_neg hid] at h
    by_cases hdol : c = '$'
    · rw [if_pos hdol] at h
      cases rest with
      | nil => cases h
      | cons d r' =>
        simp only at h
        split at h
        · split at h <;> cases h
        · cases h
    rw [if_neg hdol] at h
    by_cases hcol : c = ':'
    · rw [if_pos hcol] at h
      cases rest with
      | nil => cases h
      | cons d r' => simp only at h; split at h <;> cases h
    rw [if_neg hcol] at h
    by_cases hhash : c = '#'
    · rw [if_pos hhash] at h
      cases rest with
      | nil => cases h
      | cons d r' =>
        simp only at h
        split at h
        · split at h <;> cases h
        · cases h
    rw [if_neg hhash] at h
    split at h <;> cases h

/-- **positions**: in the result of the scanner every token's text occurs in the source at the token's start
offset -/
theorem scanFrom_positions (src : Str) : ∀ (n : Nat) (cs pre : Str) (ts : List Token), cs.length ≤ n →
    src = pre ++ cs → scanFrom cs (blen pre) = .ok ts →
    ∀ t ∈ ts, (∃ p q, src = p ++ tokText t ++ q ∧ blen p = tokStart t) ∧ posOk t := by
  intro n
  induction n with
  | zero =>
    intro cs pre ts hlen _ h t ht
    have : cs = [] := List.eq_nil_of_length_eq_zero (by omega)
    subst this
    rw [scanFrom_done rfl] at h
    cases h; cases ht
  | succ n ih =>
    intro cs pre ts hlen hsrc h t ht
    cases hn : next cs (blen pre) with
    | done => rw [scanFrom_done hn] at h; cases h; cases ht
    | bad j c => rw [scanFrom_bad hn] at h; cases h
    | skip k =>
      rw [scanFrom_skip hn] at h
      have hk := next_skip_len hn
      have hsplit : cs = cs.take (k + 1) ++ cs.drop (k + 1) := (List.take_append_drop _ _).symm
      refine ih (cs.drop (k + 1)) (pre ++ cs.take (k + 1)) ts ?_ ?_ (by rw [blen_append]; exact h) t ht
      · simp; omega
      · rw [List.append_assoc, ← hsplit]; exact hsrc
    | emit tok k =>
      rw [scanFrom_emit hn] at h
      obtain ⟨e1, e2, hk, hpos⟩ := next_emit_text hn
      have hsplit : cs = cs.take (k + 1) ++ cs.drop (k + 1) := (List.take_append_drop _ _).symm
      cases hrest : scanFrom (cs.drop (k + 1)) (blen pre + blen (cs.take (k + 1))) with
      | ok ts' =>
        rw [hrest] at h
        cases h
        rcases List.mem_cons.mp ht with rfl | ht'
        · refine ⟨⟨pre, cs.drop (k + 1), ?_, e2.symm⟩, hpos⟩
          rw [e1, List.append_assoc, ← hsplit]; exact hsrc
        · refine ih (cs.drop (k + 1)) (pre ++ cs.take (k + 1)) ts' ?_ ?_ (by rw [blen_append]; exact hrest) t ht'
          · simp; omega
          · rw [List.append_assoc, ← hsplit]; exact hsrc
      | err e => rw [hrest] at h; cases h
      | panic s => rw [hrest] at h; cases h

/-- **every token of `tokenize src` is where it says, and slicing the source by its span gives its text** -/
theorem tokenize_positions (src : Str) (ts : List Token) (h : Tokenize.tokenize src = .ok ts) :
    ∀ t ∈ ts, sliceBytes src (tokStart t) (tokStart t + blen (tokText t)) = some (tokText t) ∧ posOk t := by
  rw [Tokenize.tokenize_eq_scan] at h
  intro t ht
  obtain ⟨⟨p, q, hsrc, hp⟩, hpos⟩ := scanFrom_positions src src.length src [] ts (Nat.le_refl _) rfl h t ht
  refine ⟨?_, hpos⟩
  rw [hsrc, ← hp]
  exact slice_mid p (tokText t) q

end Spec
end KikiVerif
