/-
`cst_to_ast` is total on the derivation trees the front-end parser returns and preserves order:
unparsing the AST gives back the (position-free) tokens of the input, in order.
-/
import KikiVerif.Model.FrontParse
import KikiVerif.Spec.Unparse

set_option linter.unusedSimpArgs false
set_option linter.unusedVariables false
set_option maxRecDepth 100000

namespace KikiVerif
namespace FrontParse
open LR Spec

/-- the grammar of `parser.kiki` in coded form (regenerated from the source on every run; if `parser.kiki`
changes, this lemma — and with it the proofs below — no longer checks) -/
theorem rules_eq : kikiG.rules =
    [⟨0, [.n 1]⟩, ⟨1, []⟩, ⟨1, [.n 1, .n 2]⟩, ⟨2, [.t 4, .t 1]⟩, ⟨2, [.n 3]⟩, ⟨2, [.n 4]⟩, ⟨2, [.n 5]⟩,
     ⟨3, [.n 6, .t 5, .t 1, .n 7]⟩, ⟨4, [.n 6, .t 6, .t 1, .t 13, .n 14, .t 14]⟩,
     ⟨5, [.n 6, .t 7, .t 1, .t 13, .n 16, .t 14]⟩, ⟨6, []⟩, ⟨6, [.n 6, .t 3]⟩, ⟨7, []⟩, ⟨7, [.n 8]⟩, ⟨7, [.n 11]⟩,
     ⟨8, [.t 13, .n 9, .t 14]⟩, ⟨9, [.n 10]⟩, ⟨9, [.n 9, .n 10]⟩, ⟨10, [.n 22, .t 8, .n 23]⟩,
     ⟨11, [.t 11, .n 12, .t 12]⟩, ⟨12, [.n 13]⟩, ⟨12, [.n 12, .n 13]⟩, ⟨13, [.n 23]⟩, ⟨13, [.t 0, .t 8, .n 23]⟩,
     ⟨14, []⟩, ⟨14, [.n 14, .n 15]⟩, ⟨15, [.t 1, .n 7]⟩, ⟨16, []⟩, ⟨16, [.n 16, .n 17]⟩, ⟨17, [.t 2, .t 8, .n 18]⟩,
     ⟨18, [.t 11, .t 12]⟩, ⟨18, [.n 19]⟩, ⟨18, [.n 20]⟩, ⟨19, [.t 1]⟩, ⟨19, [.n 19, .t 9, .t 1]⟩,
     ⟨20, [.n 19, .t 15, .n 21, .t 16]⟩, ⟨21, [.n 18]⟩, ⟨21, [.n 21, .t 10, .n 18]⟩, ⟨22, [.t 1]⟩, ⟨22, [.t 0]⟩,
     ⟨23, [.t 1]⟩, ⟨23, [.t 2]⟩] := by
  decide +kernel

theorem start_eq : kikiG.start = 0 := by decide +kernel

/-! ### generic inversions -/

/-- position-free tokens at the leaves -/
def EY (t : CTree) : List Tk := t.yield.map fun l => erase l.payload
def EYL (cs : List CTree) : List Tk := (yieldList cs).map fun l => erase l.payload

/-- every leaf carries the kind of its own token (true of everything `parse` builds: `mkTok`) -/
def Good (t : CTree) : Prop := ∀ l ∈ t.yield, l.kind = Token.kind l.payload
def GoodL (cs : List CTree) : Prop := ∀ l ∈ yieldList cs, l.kind = Token.kind l.payload

@[simp] theorem EY_node (r : Nat) (cs : List CTree) : EY (.node r cs) = EYL cs := by simp [EY, EYL, Tree.yield]
@[simp] theorem EYL_nil : EYL [] = [] := by simp [EYL, yieldList]
@[simp] theorem EYL_cons (c : CTree) (cs : List CTree) : EYL (c :: cs) = EY c ++ EYL cs := by
  simp [EYL, EY, yieldList]

theorem good_node {r : Nat} {cs : List CTree} (h : Good (.node r cs)) : GoodL cs := by
  simpa [Good, GoodL, Tree.yield] using h

theorem goodL_cons {c : CTree} {cs : List CTree} (h : GoodL (c :: cs)) : Good c ∧ GoodL cs := by
  simp only [GoodL, yieldList, List.mem_append] at h
  exact ⟨fun l hl => h l (Or.inl hl), fun l hl => h l (Or.inr hl)⟩

theorem wf_n_inv {t : CTree} {X : Nat} (h : WF kikiG t (.n X)) :
    ∃ r cs rule, t = .node r cs ∧ kikiG.rules[r]? = some rule ∧ rule.lhs = X ∧ WFL kikiG cs rule.rhs := by
  generalize hs : Sym.n X = s at h
  cases h with
  | leaf tok => cases hs
  | node r rule cs hr hwl => injection hs with e; exact ⟨r, cs, rule, rfl, hr, e.symm, hwl⟩

theorem wf_t_inv {t : CTree} {k : Nat} (h : WF kikiG t (.t k)) : ∃ tok, t = .leaf tok ∧ tok.kind = k := by
  generalize hs : Sym.t (N := Nat) k = s at h
  cases h with
  | leaf tok => injection hs with e; exact ⟨tok, rfl, e.symm⟩
  | node r rule cs hr hwl => cases hs

theorem wfl_nil_inv {cs : List CTree} (h : WFL kikiG cs []) : cs = [] := by cases h; rfl

theorem wfl_cons_inv {cs : List CTree} {x : Sym Nat Nat} {xs : List (Sym Nat Nat)} (h : WFL kikiG cs (x :: xs)) :
    ∃ c cs', cs = c :: cs' ∧ WF kikiG c x ∧ WFL kikiG cs' xs := by
  cases h with
  | cons h1 h2 => exact ⟨_, _, rfl, h1, h2⟩

/-- the rule numbers with a given left-hand side -/
def ruleIdxFor (X : Nat) : List Nat :=
  (List.range 42).filter fun r => (kikiG.rules[r]?.map (·.lhs)) == some X

theorem mem_ruleIdxFor {r X : Nat} {rule : Rule Nat Nat} (h : kikiG.rules[r]? = some rule) (hl : rule.lhs = X) :
    r ∈ ruleIdxFor X := by
  unfold ruleIdxFor
  rw [List.mem_filter, List.mem_range]
  refine ⟨?_, by simp [h, hl]⟩
  have := (List.getElem?_eq_some_iff.mp h).1
  rw [rules_eq] at this
  simpa using this

theorem rule_at (r : Nat) (rule : Rule Nat Nat) (h : kikiG.rules[r]? = some rule) :
    ([⟨0, [.n 1]⟩, ⟨1, []⟩, ⟨1, [.n 1, .n 2]⟩, ⟨2, [.t 4, .t 1]⟩, ⟨2, [.n 3]⟩, ⟨2, [.n 4]⟩, ⟨2, [.n 5]⟩,
     ⟨3, [.n 6, .t 5, .t 1, .n 7]⟩, ⟨4, [.n 6, .t 6, .t 1, .t 13, .n 14, .t 14]⟩,
     ⟨5, [.n 6, .t 7, .t 1, .t 13, .n 16, .t 14]⟩, ⟨6, []⟩, ⟨6, [.n 6, .t 3]⟩, ⟨7, []⟩, ⟨7, [.n 8]⟩, ⟨7, [.n 11]⟩,
     ⟨8, [.t 13, .n 9, .t 14]⟩, ⟨9, [.n 10]⟩, ⟨9, [.n 9, .n 10]⟩, ⟨10, [.n 22, .t 8, .n 23]⟩,
     ⟨11, [.t 11, .n 12, .t 12]⟩, ⟨12, [.n 13]⟩, ⟨12, [.n 12, .n 13]⟩, ⟨13, [.n 23]⟩, ⟨13, [.t 0, .t 8, .n 23]⟩,
     ⟨14, []⟩, ⟨14, [.n 14, .n 15]⟩, ⟨15, [.t 1, .n 7]⟩, ⟨16, []⟩, ⟨16, [.n 16, .n 17]⟩, ⟨17, [.t 2, .t 8, .n 18]⟩,
     ⟨18, [.t 11, .t 12]⟩, ⟨18, [.n 19]⟩, ⟨18, [.n 20]⟩, ⟨19, [.t 1]⟩, ⟨19, [.n 19, .t 9, .t 1]⟩,
     ⟨20, [.n 19, .t 15, .n 21, .t 16]⟩, ⟨21, [.n 18]⟩, ⟨21, [.n 21, .t 10, .n 18]⟩, ⟨22, [.t 1]⟩, ⟨22, [.t 0]⟩,
     ⟨23, [.t 1]⟩, ⟨23, [.t 2]⟩] : List (Rule Nat Nat))[r]? = some rule := by
  rw [← rules_eq]; exact h

/-! ### leaves -/

theorem leaf_ident {c : CTree} (hw : WF kikiG c (.t 1)) (hg : Good c) :
    ∃ k n p, c = .leaf ⟨k, .ident n p⟩ := by
  obtain ⟨tok, rfl, hk⟩ := wf_t_inv hw
  have := hg tok (by simp [Tree.yield])
  rw [hk] at this
  obtain ⟨k, p⟩ := tok
  cases p <;> simp [Token.kind] at this
  exact ⟨k, _, _, rfl⟩

theorem leaf_underscore {c : CTree} (hw : WF kikiG c (.t 0)) (hg : Good c) :
    ∃ k p, c = .leaf ⟨k, .underscore p⟩ := by
  obtain ⟨tok, rfl, hk⟩ := wf_t_inv hw
  have := hg tok (by simp [Tree.yield])
  rw [hk] at this
  obtain ⟨k, p⟩ := tok
  cases p <;> simp [Token.kind] at this
  exact ⟨k, _, rfl⟩

theorem leaf_termIdent {c : CTree} (hw : WF kikiG c (.t 2)) (hg : Good c) :
    ∃ k n p, c = .leaf ⟨k, .termIdent n p⟩ := by
  obtain ⟨tok, rfl, hk⟩ := wf_t_inv hw
  have := hg tok (by simp [Tree.yield])
  rw [hk] at this
  obtain ⟨k, p⟩ := tok
  cases p <;> simp [Token.kind] at this
  exact ⟨k, _, _, rfl⟩

theorem leaf_attr {c : CTree} (hw : WF kikiG c (.t 3)) (hg : Good c) :
    ∃ k s p, c = .leaf ⟨k, .attr s p⟩ := by
  obtain ⟨tok, rfl, hk⟩ := wf_t_inv hw
  have := hg tok (by simp [Tree.yield])
  rw [hk] at this
  obtain ⟨k, p⟩ := tok
  cases p <;> simp [Token.kind] at this
  exact ⟨k, _, _, rfl⟩

/-- keyword / punctuation kinds determine the token up to its position -/
def fixedTk : Nat → Option Tk
  | 4 => some .startKw | 5 => some .structKw | 6 => some .enumKw | 7 => some .terminalKw
  | 8 => some .colon | 9 => some .dcolon | 10 => some .comma | 11 => some .lparen | 12 => some .rparen
  | 13 => some .lcurly | 14 => some .rcurly | 15 => some .langle | 16 => some .rangle
  | _ => none

theorem leaf_fixed {c : CTree} {k : Nat} {x : Tk} (hw : WF kikiG c (.t k)) (hg : Good c) (hk : fixedTk k = some x) :
    EY c = [x] := by
  obtain ⟨tok, rfl, hk'⟩ := wf_t_inv hw
  have := hg tok (by simp [Tree.yield])
  rw [hk'] at this
  obtain ⟨k0, p⟩ := tok
  simp only [EY, Tree.yield, List.map_cons, List.map_nil]
  subst this
  cases p <;> simp [Token.kind, fixedTk] at hk <;> simp [erase, hk]

theorem EY_leaf (k : Nat) (p : Token) : EY (.leaf ⟨k, p⟩) = [erase p] := by simp [EY, Tree.yield]

/-! ### one lemma per nonterminal -/

/-- IdentOrTerminalIdent (23) -/
theorem symId_ok {t : CTree} (hw : WF kikiG t (.n 23)) (hg : Good t) :
    ∃ v, symIdOf t = some v ∧ unSym v = EY t := by
  obtain ⟨r, cs, rule, rfl, hr, hl, hwl⟩ := wf_n_inv hw
  have hm := mem_ruleIdxFor hr hl
  have : ruleIdxFor 23 = [40, 41] := by decide +kernel
  rw [this] at hm
  have hg' := good_node hg
  simp only [List.mem_cons, List.mem_singleton, List.not_mem_nil, or_false] at hm
  rcases hm with rfl | rfl
  · have := rule_at _ _ hr; simp at this; subst this
    obtain ⟨c, cs', rfl, h1, h2⟩ := wfl_cons_inv hwl
    have := wfl_nil_inv h2; subst this
    obtain ⟨k, n, p, rfl⟩ := leaf_ident h1 (goodL_cons hg').1
    exact ⟨.n ⟨n, p⟩, by simp [symIdOf, identOf], by simp [unSym, EY_leaf, erase]⟩
  · have := rule_at _ _ hr; simp at this; subst this
    obtain ⟨c, cs', rfl, h1, h2⟩ := wfl_cons_inv hwl
    have := wfl_nil_inv h2; subst this
    obtain ⟨k, n, p, rfl⟩ := leaf_termIdent h1 (goodL_cons hg').1
    exact ⟨.t ⟨n, p⟩, by simp [symIdOf, termIdentOf], by simp [unSym, EY_leaf, erase]⟩

/-- IdentOrUnderscore (22) -/
theorem fieldName_ok {t : CTree} (hw : WF kikiG t (.n 22)) (hg : Good t) :
    ∃ v, fieldNameOf t = some v ∧ unFieldName v = EY t := by
  obtain ⟨r, cs, rule, rfl, hr, hl, hwl⟩ := wf_n_inv hw
  have hm := mem_ruleIdxFor hr hl
  have : ruleIdxFor 22 = [38, 39] := by decide +kernel
  rw [this] at hm
  have hg' := good_node hg
  simp only [List.mem_cons, List.mem_singleton, List.not_mem_nil, or_false] at hm
  rcases hm with rfl | rfl
  · have := rule_at _ _ hr; simp at this; subst this
    obtain ⟨c, cs', rfl, h1, h2⟩ := wfl_cons_inv hwl
    have := wfl_nil_inv h2; subst this
    obtain ⟨k, n, p, rfl⟩ := leaf_ident h1 (goodL_cons hg').1
    exact ⟨.id ⟨n, p⟩, by simp [fieldNameOf, identOf], by simp [unFieldName, EY_leaf, erase]⟩
  · have := rule_at _ _ hr; simp at this; subst this
    obtain ⟨c, cs', rfl, h1, h2⟩ := wfl_cons_inv hwl
    have := wfl_nil_inv h2; subst this
    obtain ⟨k, p, rfl⟩ := leaf_underscore h1 (goodL_cons hg').1
    exact ⟨.us p, by simp [fieldNameOf], by simp [unFieldName, EY_leaf, erase]⟩

/-- NamedField (10) -/
theorem namedField_ok {t : CTree} (hw : WF kikiG t (.n 10)) (hg : Good t) :
    ∃ v, namedFieldOf t = some v ∧ unNamedField v = EY t := by
  obtain ⟨r, cs, rule, rfl, hr, hl, hwl⟩ := wf_n_inv hw
  have hm := mem_ruleIdxFor hr hl
  have : ruleIdxFor 10 = [18] := by decide +kernel
  rw [this] at hm
  have hg' := good_node hg
  simp only [List.mem_singleton] at hm
  subst hm
  have := rule_at _ _ hr; simp at this; subst this
  obtain ⟨c1, cs1, rfl, h1, hwl⟩ := wfl_cons_inv hwl
  obtain ⟨c2, cs2, rfl, h2, hwl⟩ := wfl_cons_inv hwl
  obtain ⟨c3, cs3, rfl, h3, hwl⟩ := wfl_cons_inv hwl
  have := wfl_nil_inv hwl; subst this
  obtain ⟨g1, hg'⟩ := goodL_cons hg'
  obtain ⟨g2, hg'⟩ := goodL_cons hg'
  obtain ⟨g3, _⟩ := goodL_cons hg'
  obtain ⟨n, hn, en⟩ := fieldName_ok h1 g1
  obtain ⟨s, hs, es⟩ := symId_ok h3 g3
  have e2 := leaf_fixed h2 g2 (x := .colon) rfl
  refine ⟨⟨n, s⟩, by simp [namedFieldOf, hn, hs], ?_⟩
  simp [unNamedField, en, es, e2]

/-- TupleField (13) -/
theorem tupleField_ok {t : CTree} (hw : WF kikiG t (.n 13)) (hg : Good t) :
    ∃ v, tupleFieldOf t = some v ∧ unTupleField v = EY t := by
  obtain ⟨r, cs, rule, rfl, hr, hl, hwl⟩ := wf_n_inv hw
  have hm := mem_ruleIdxFor hr hl
  have : ruleIdxFor 13 = [22, 23] := by decide +kernel
  rw [this] at hm
  have hg' := good_node hg
  simp only [List.mem_cons, List.mem_singleton, List.not_mem_nil, or_false] at hm
  rcases hm with rfl | rfl
  · have := rule_at _ _ hr; simp at this; subst this
    obtain ⟨c1, cs1, rfl, h1, hwl⟩ := wfl_cons_inv hwl
    have := wfl_nil_inv hwl; subst this
    obtain ⟨s, hs, es⟩ := symId_ok h1 (goodL_cons hg').1
    exact ⟨.used s, by simp [tupleFieldOf, hs], by simp [unTupleField, es]⟩
  · have := rule_at _ _ hr; simp at this; subst this
    obtain ⟨c1, cs1, rfl, h1, hwl⟩ := wfl_cons_inv hwl
    obtain ⟨c2, cs2, rfl, h2, hwl⟩ := wfl_cons_inv hwl
    obtain ⟨c3, cs3, rfl, h3, hwl⟩ := wfl_cons_inv hwl
    have := wfl_nil_inv hwl; subst this
    obtain ⟨g1, hg'⟩ := goodL_cons hg'
    obtain ⟨g2, hg'⟩ := goodL_cons hg'
    obtain ⟨g3, _⟩ := goodL_cons hg'
    obtain ⟨k, p, rfl⟩ := leaf_underscore h1 g1
    have e2 := leaf_fixed h2 g2 (x := .colon) rfl
    obtain ⟨s, hs, es⟩ := symId_ok h3 g3
    exact ⟨.skipped s, by simp [tupleFieldOf, hs], by simp [unTupleField, es, e2, EY_leaf, erase]⟩

/-- NamedFields (9), left-recursive list -/
theorem namedFields_ok : ∀ (n : Nat) (t : CTree), t.size ≤ n → WF kikiG t (.n 9) → Good t →
    ∃ v, namedFieldsOf t = some v ∧ v.flatMap unNamedField = EY t := by
  intro n
  induction n with
  | zero => intro t hs; have := tree_size_pos t; omega
  | succ n ih =>
    intro t hs hw hg
    obtain ⟨r, cs, rule, rfl, hr, hl, hwl⟩ := wf_n_inv hw
    have hm := mem_ruleIdxFor hr hl
    have : ruleIdxFor 9 = [16, 17] := by decide +kernel
    rw [this] at hm
    have hg' := good_node hg
    simp only [List.mem_cons, List.mem_singleton, List.not_mem_nil, or_false] at hm
    rcases hm with rfl | rfl
    · have := rule_at _ _ hr; simp at this; subst this
      obtain ⟨c1, cs1, rfl, h1, hwl⟩ := wfl_cons_inv hwl
      have := wfl_nil_inv hwl; subst this
      obtain ⟨f, hf, ef⟩ := namedField_ok h1 (goodL_cons hg').1
      exact ⟨[f], by simp [namedFieldsOf, hf], by simp [ef]⟩
    · have := rule_at _ _ hr; simp at this; subst this
      obtain ⟨c1, cs1, rfl, h1, hwl⟩ := wfl_cons_inv hwl
      obtain ⟨c2, cs2, rfl, h2, hwl⟩ := wfl_cons_inv hwl
      have := wfl_nil_inv hwl; subst this
      obtain ⟨g1, hg'⟩ := goodL_cons hg'
      obtain ⟨g2, _⟩ := goodL_cons hg'
      have hs1 : c1.size ≤ n := by simp [Tree.size, sizeList] at hs; omega
      obtain ⟨xs, hxs, exs⟩ := ih c1 hs1 h1 g1
      obtain ⟨f, hf, ef⟩ := namedField_ok h2 g2
      exact ⟨xs ++ [f], by simp [namedFieldsOf, hxs, hf], by simp [exs, ef]⟩

/-- TupleFields (12) -/
theorem tupleFields_ok : ∀ (n : Nat) (t : CTree), t.size ≤ n → WF kikiG t (.n 12) → Good t →
    ∃ v, tupleFieldsOf t = some v ∧ v.flatMap unTupleField = EY t := by
  intro n
  induction n with
  | zero => intro t hs; have := tree_size_pos t; omega
  | succ n ih =>
    intro t hs hw hg
    obtain ⟨r, cs, rule, rfl, hr, hl, hwl⟩ := wf_n_inv hw
    have hm := mem_ruleIdxFor hr hl
    have : ruleIdxFor 12 = [20, 21] := by decide +kernel
    rw [this] at hm
    have hg' := good_node hg
    simp only [List.mem_cons, List.mem_singleton, List.not_mem_nil, or_false] at hm
    rcases hm with rfl | rfl
    · have := rule_at _ _ hr; simp at this; subst this
      obtain ⟨c1, cs1, rfl, h1, hwl⟩ := wfl_cons_inv hwl
      have := wfl_nil_inv hwl; subst this
      obtain ⟨f, hf, ef⟩ := tupleField_ok h1 (goodL_cons hg').1
      exact ⟨[f], by simp [tupleFieldsOf, hf], by simp [ef]⟩
    · have := rule_at _ _ hr; simp at this; subst this
      obtain ⟨c1, cs1, rfl, h1, hwl⟩ := wfl_cons_inv hwl
      obtain ⟨c2, cs2, rfl, h2, hwl⟩ := wfl_cons_inv hwl
      have := wfl_nil_inv hwl; subst this
      obtain ⟨g1, hg'⟩ := goodL_cons hg'
      obtain ⟨g2, _⟩ := goodL_cons hg'
      have hs1 : c1.size ≤ n := by simp [Tree.size, sizeList] at hs; omega
      obtain ⟨xs, hxs, exs⟩ := ih c1 hs1 h1 g1
      obtain ⟨f, hf, ef⟩ := tupleField_ok h2 g2
      exact ⟨xs ++ [f], by simp [tupleFieldsOf, hxs, hf], by simp [exs, ef]⟩

/-- Fieldset (7) with NamedFieldset (8) and TupleFieldset (11) -/
theorem fieldset_ok {t : CTree} (hw : WF kikiG t (.n 7)) (hg : Good t) :
    ∃ v, fieldsetOf t = some v ∧ unFieldset v = EY t := by
  obtain ⟨r, cs, rule, rfl, hr, hl, hwl⟩ := wf_n_inv hw
  have hm := mem_ruleIdxFor hr hl
  have : ruleIdxFor 7 = [12, 13, 14] := by decide +kernel
  rw [this] at hm
  have hg' := good_node hg
  simp only [List.mem_cons, List.mem_singleton, List.not_mem_nil, or_false] at hm
  rcases hm with rfl | rfl | rfl
  · have := rule_at _ _ hr; simp at this; subst this
    have := wfl_nil_inv hwl; subst this
    exact ⟨.empty, by simp [fieldsetOf], by simp [unFieldset]⟩
  · have := rule_at _ _ hr; simp at this; subst this
    obtain ⟨c1, cs1, rfl, h1, hwl⟩ := wfl_cons_inv hwl
    have := wfl_nil_inv hwl; subst this
    obtain ⟨g1, _⟩ := goodL_cons hg'
    -- NamedFieldset
    obtain ⟨r2, cs2, rule2, rfl, hr2, hl2, hwl2⟩ := wf_n_inv h1
    have hm2 := mem_ruleIdxFor hr2 hl2
    have : ruleIdxFor 8 = [15] := by decide +kernel
    rw [this] at hm2
    simp only [List.mem_singleton] at hm2; subst hm2
    have := rule_at _ _ hr2; simp at this; subst this
    obtain ⟨d1, ds1, rfl, k1, hwl2⟩ := wfl_cons_inv hwl2
    obtain ⟨d2, ds2, rfl, k2, hwl2⟩ := wfl_cons_inv hwl2
    obtain ⟨d3, ds3, rfl, k3, hwl2⟩ := wfl_cons_inv hwl2
    have := wfl_nil_inv hwl2; subst this
    have gg := good_node g1
    obtain ⟨q1, gg⟩ := goodL_cons gg
    obtain ⟨q2, gg⟩ := goodL_cons gg
    obtain ⟨q3, _⟩ := goodL_cons gg
    obtain ⟨fs, hfs, efs⟩ := namedFields_ok d2.size d2 (Nat.le_refl _) k2 q2
    have e1 := leaf_fixed k1 q1 (x := .lcurly) rfl
    have e3 := leaf_fixed k3 q3 (x := .rcurly) rfl
    exact ⟨.named fs, by simp [fieldsetOf, hfs], by simp [unFieldset, efs, e1, e3]⟩
  · have := rule_at _ _ hr; simp at this; subst this
    obtain ⟨c1, cs1, rfl, h1, hwl⟩ := wfl_cons_inv hwl
    have := wfl_nil_inv hwl; subst this
    obtain ⟨g1, _⟩ := goodL_cons hg'
    obtain ⟨r2, cs2, rule2, rfl, hr2, hl2, hwl2⟩ := wf_n_inv h1
    have hm2 := mem_ruleIdxFor hr2 hl2
    have : ruleIdxFor 11 = [19] := by decide +kernel
    rw [this] at hm2
    simp only [List.mem_singleton] at hm2; subst hm2
    have := rule_at _ _ hr2; simp at this; subst this
    obtain ⟨d1, ds1, rfl, k1, hwl2⟩ := wfl_cons_inv hwl2
    obtain ⟨d2, ds2, rfl, k2, hwl2⟩ := wfl_cons_inv hwl2
    obtain ⟨d3, ds3, rfl, k3, hwl2⟩ := wfl_cons_inv hwl2
    have := wfl_nil_inv hwl2; subst this
    have gg := good_node g1
    obtain ⟨q1, gg⟩ := goodL_cons gg
    obtain ⟨q2, gg⟩ := goodL_cons gg
    obtain ⟨q3, _⟩ := goodL_cons gg
    obtain ⟨fs, hfs, efs⟩ := tupleFields_ok d2.size d2 (Nat.le_refl _) k2 q2
    have e1 := leaf_fixed k1 q1 (x := .lparen) rfl
    have e3 := leaf_fixed k3 q3 (x := .rparen) rfl
    exact ⟨.tuple fs, by simp [fieldsetOf, hfs], by simp [unFieldset, efs, e1, e3]⟩

/-- OptOuterAttributes (6) -/
theorem attrs_ok : ∀ (n : Nat) (t : CTree), t.size ≤ n → WF kikiG t (.n 6) → Good t →
    ∃ v, attrsOf t = some v ∧ unAttrs v = EY t := by
  intro n
  induction n with
  | zero => intro t hs; have := tree_size_pos t; omega
  | succ n ih =>
    intro t hs hw hg
    obtain ⟨r, cs, rule, rfl, hr, hl, hwl⟩ := wf_n_inv hw
    have hm := mem_ruleIdxFor hr hl
    have : ruleIdxFor 6 = [10, 11] := by decide +kernel
    rw [this] at hm
    have hg' := good_node hg
    simp only [List.mem_cons, List.mem_singleton, List.not_mem_nil, or_false] at hm
    rcases hm with rfl | rfl
    · have := rule_at _ _ hr; simp at this; subst this
      have := wfl_nil_inv hwl; subst this
      exact ⟨[], by simp [attrsOf], by simp [unAttrs]⟩
    · have := rule_at _ _ hr; simp at this; subst this
      obtain ⟨c1, cs1, rfl, h1, hwl⟩ := wfl_cons_inv hwl
      obtain ⟨c2, cs2, rfl, h2, hwl⟩ := wfl_cons_inv hwl
      have := wfl_nil_inv hwl; subst this
      obtain ⟨g1, hg'⟩ := goodL_cons hg'
      obtain ⟨g2, _⟩ := goodL_cons hg'
      have hs1 : c1.size ≤ n := by simp [Tree.size, sizeList] at hs; omega
      obtain ⟨xs, hxs, exs⟩ := ih c1 hs1 h1 g1
      obtain ⟨k, s, p, rfl⟩ := leaf_attr h2 g2
      exact ⟨xs ++ [⟨s, p⟩], by simp [attrsOf, hxs, attrOf], by simp [unAttrs] at exs ⊢; simp [exs, EY_leaf, erase]⟩

/-- Path (19) -/
theorem unPath_snoc : ∀ (xs : List Ast.Ident) (x : Ast.Ident), xs ≠ [] →
    unPath (xs ++ [x]) = unPath xs ++ [.dcolon, .ident x.name] := by
  intro xs
  induction xs with
  | nil => intro x h; exact absurd rfl h
  | cons y ys ih =>
    intro x _
    cases ys with
    | nil => simp [unPath]
    | cons z zs =>
      have := ih x (by simp)
      simp only [List.cons_append] at this ⊢
      simp only [unPath, this, List.cons_append]

theorem path_ok : ∀ (n : Nat) (t : CTree), t.size ≤ n → WF kikiG t (.n 19) → Good t →
    ∃ v, pathOf t = some v ∧ v ≠ [] ∧ unPath v = EY t := by
  intro n
  induction n with
  | zero => intro t hs; have := tree_size_pos t; omega
  | succ n ih =>
    intro t hs hw hg
    obtain ⟨r, cs, rule, rfl, hr, hl, hwl⟩ := wf_n_inv hw
    have hm := mem_ruleIdxFor hr hl
    have : ruleIdxFor 19 = [33, 34] := by decide +kernel
    rw [this] at hm
    have hg' := good_node hg
    simp only [List.mem_cons, List.mem_singleton, List.not_mem_nil, or_false] at hm
    rcases hm with rfl | rfl
    · have := rule_at _ _ hr; simp at this; subst this
      obtain ⟨c1, cs1, rfl, h1, hwl⟩ := wfl_cons_inv hwl
      have := wfl_nil_inv hwl; subst this
      obtain ⟨k, nm, p, rfl⟩ := leaf_ident h1 (goodL_cons hg').1
      exact ⟨[⟨nm, p⟩], by simp [pathOf, identOf], by simp, by simp [unPath, EY_leaf, erase]⟩
    · have := rule_at _ _ hr; simp at this; subst this
      obtain ⟨c1, cs1, rfl, h1, hwl⟩ := wfl_cons_inv hwl
      obtain ⟨c2, cs2, rfl, h2, hwl⟩ := wfl_cons_inv hwl
      obtain ⟨c3, cs3, rfl, h3, hwl⟩ := wfl_cons_inv hwl
      have := wfl_nil_inv hwl; subst this
      obtain ⟨g1, hg'⟩ := goodL_cons hg'
      obtain ⟨g2, hg'⟩ := goodL_cons hg'
      obtain ⟨g3, _⟩ := goodL_cons hg'
      have hs1 : c1.size ≤ n := by simp [Tree.size, sizeList] at hs; omega
      obtain ⟨xs, hxs, hne, exs⟩ := ih c1 hs1 h1 g1
      have e2 := leaf_fixed h2 g2 (x := .dcolon) rfl
      obtain ⟨k, nm, p, rfl⟩ := leaf_ident h3 g3
      refine ⟨xs ++ [⟨nm, p⟩], by simp [pathOf, hxs, identOf], by simp, ?_⟩
      rw [unPath_snoc xs _ hne, exs]
      simp [e2, EY_leaf, erase]

/-- Type (18), ComplexType (20), CommaSeparatedTypes (21), mutually recursive -/
theorem unTypes_snoc : ∀ (xs : List Ast.Ty) (x : Ast.Ty), xs ≠ [] →
    unTypes (xs ++ [x]) = unTypes xs ++ [.comma] ++ unType x := by
  intro xs
  induction xs with
  | nil => intro x h; exact absurd rfl h
  | cons y ys ih =>
    intro x _
    cases ys with
    | nil => simp [unTypes]
    | cons z zs =>
      have := ih x (by simp)
      simp only [List.cons_append] at this ⊢
      simp only [unTypes, this, List.append_assoc]

theorem types_ok : ∀ (n : Nat),
    (∀ (t : CTree), t.size ≤ n → WF kikiG t (.n 18) → Good t → ∃ v, typeOf t = some v ∧ unType v = EY t) ∧
    (∀ (t : CTree), t.size ≤ n → WF kikiG t (.n 21) → Good t →
      ∃ v, typesOf t = some v ∧ v ≠ [] ∧ unTypes v = EY t) := by
  intro n
  induction n with
  | zero =>
    exact ⟨fun t hs => by have := tree_size_pos t; omega, fun t hs => by have := tree_size_pos t; omega⟩
  | succ n ih =>
    constructor
    · intro t hs hw hg
      obtain ⟨r, cs, rule, rfl, hr, hl, hwl⟩ := wf_n_inv hw
      have hm := mem_ruleIdxFor hr hl
      have : ruleIdxFor 18 = [30, 31, 32] := by decide +kernel
      rw [this] at hm
      have hg' := good_node hg
      simp only [List.mem_cons, List.mem_singleton, List.not_mem_nil, or_false] at hm
      rcases hm with rfl | rfl | rfl
      · have := rule_at _ _ hr; simp at this; subst this
        obtain ⟨c1, cs1, rfl, h1, hwl⟩ := wfl_cons_inv hwl
        obtain ⟨c2, cs2, rfl, h2, hwl⟩ := wfl_cons_inv hwl
        have := wfl_nil_inv hwl; subst this
        obtain ⟨g1, hg'⟩ := goodL_cons hg'
        obtain ⟨g2, _⟩ := goodL_cons hg'
        have e1 := leaf_fixed h1 g1 (x := .lparen) rfl
        have e2 := leaf_fixed h2 g2 (x := .rparen) rfl
        exact ⟨.unit, by simp [typeOf], by simp [unType, e1, e2]⟩
      · have := rule_at _ _ hr; simp at this; subst this
        obtain ⟨c1, cs1, rfl, h1, hwl⟩ := wfl_cons_inv hwl
        have := wfl_nil_inv hwl; subst this
        obtain ⟨p, hp, _, ep⟩ := path_ok c1.size c1 (Nat.le_refl _) h1 (goodL_cons hg').1
        exact ⟨.path p, by simp [typeOf, hp], by simp [unType, ep]⟩
      · have := rule_at _ _ hr; simp at this; subst this
        obtain ⟨c1, cs1, rfl, h1, hwl⟩ := wfl_cons_inv hwl
        have := wfl_nil_inv hwl; subst this
        obtain ⟨g1, _⟩ := goodL_cons hg'
        -- ComplexType
        obtain ⟨r2, cs2, rule2, rfl, hr2, hl2, hwl2⟩ := wf_n_inv h1
        have hm2 := mem_ruleIdxFor hr2 hl2
        have : ruleIdxFor 20 = [35] := by decide +kernel
        rw [this] at hm2
        simp only [List.mem_singleton] at hm2; subst hm2
        have := rule_at _ _ hr2; simp at this; subst this
        obtain ⟨d1, ds1, rfl, k1, hwl2⟩ := wfl_cons_inv hwl2
        obtain ⟨d2, ds2, rfl, k2, hwl2⟩ := wfl_cons_inv hwl2
        obtain ⟨d3, ds3, rfl, k3, hwl2⟩ := wfl_cons_inv hwl2
        obtain ⟨d4, ds4, rfl, k4, hwl2⟩ := wfl_cons_inv hwl2
        have := wfl_nil_inv hwl2; subst this
        have gg := good_node g1
        obtain ⟨q1, gg⟩ := goodL_cons gg
        obtain ⟨q2, gg⟩ := goodL_cons gg
        obtain ⟨q3, gg⟩ := goodL_cons gg
        obtain ⟨q4, _⟩ := goodL_cons gg
        obtain ⟨p, hp, _, ep⟩ := path_ok d1.size d1 (Nat.le_refl _) k1 q1
        have hs3 : d3.size ≤ n := by simp [Tree.size, sizeList] at hs; omega
        obtain ⟨as, has, _, eas⟩ := ih.2 d3 hs3 k3 q3
        have e2 := leaf_fixed k2 q2 (x := .langle) rfl
        have e4 := leaf_fixed k4 q4 (x := .rangle) rfl
        exact ⟨.complex p as, by simp [typeOf, hp, has], by simp [unType, ep, eas, e2, e4]⟩
    · intro t hs hw hg
      obtain ⟨r, cs, rule, rfl, hr, hl, hwl⟩ := wf_n_inv hw
      have hm := mem_ruleIdxFor hr hl
      have : ruleIdxFor 21 = [36, 37] := by decide +kernel
      rw [this] at hm
      have hg' := good_node hg
      simp only [List.mem_cons, List.mem_singleton, List.not_mem_nil, or_false] at hm
      rcases hm with rfl | rfl
      · have := rule_at _ _ hr; simp at this; subst this
        obtain ⟨c1, cs1, rfl, h1, hwl⟩ := wfl_cons_inv hwl
        have := wfl_nil_inv hwl; subst this
        have hs1 : c1.size ≤ n := by simp [Tree.size, sizeList] at hs; omega
        obtain ⟨ty, hty, ety⟩ := ih.1 c1 hs1 h1 (goodL_cons hg').1
        exact ⟨[ty], by simp [typesOf, hty], by simp, by simp [unTypes, ety]⟩
      · have := rule_at _ _ hr; simp at this; subst this
        obtain ⟨c1, cs1, rfl, h1, hwl⟩ := wfl_cons_inv hwl
        obtain ⟨c2, cs2, rfl, h2, hwl⟩ := wfl_cons_inv hwl
        obtain ⟨c3, cs3, rfl, h3, hwl⟩ := wfl_cons_inv hwl
        have := wfl_nil_inv hwl; subst this
        obtain ⟨g1, hg'⟩ := goodL_cons hg'
        obtain ⟨g2, hg'⟩ := goodL_cons hg'
        obtain ⟨g3, _⟩ := goodL_cons hg'
        have hs1 : c1.size ≤ n := by simp [Tree.size, sizeList] at hs; omega
        have hs3 : c3.size ≤ n := by simp [Tree.size, sizeList] at hs; omega
        obtain ⟨xs, hxs, hne, exs⟩ := ih.2 c1 hs1 h1 g1
        have e2 := leaf_fixed h2 g2 (x := .comma) rfl
        obtain ⟨ty, hty, ety⟩ := ih.1 c3 hs3 h3 g3
        refine ⟨xs ++ [ty], by simp [typesOf, hxs, hty], by simp, ?_⟩
        rw [unTypes_snoc xs ty hne, exs, ety]
        simp [e2]

theorem type_ok {t : CTree} (hw : WF kikiG t (.n 18)) (hg : Good t) :
    ∃ v, typeOf t = some v ∧ unType v = EY t :=
  (types_ok t.size).1 t (Nat.le_refl _) hw hg

/-- OptEnumVariants (14) with EnumVariant (15) -/
theorem variants_ok : ∀ (n : Nat) (t : CTree), t.size ≤ n → WF kikiG t (.n 14) → Good t →
    ∃ v, variantsOf t = some v ∧ v.flatMap unVariant = EY t := by
  intro n
  induction n with
  | zero => intro t hs; have := tree_size_pos t; omega
  | succ n ih =>
    intro t hs hw hg
    obtain ⟨r, cs, rule, rfl, hr, hl, hwl⟩ := wf_n_inv hw
    have hm := mem_ruleIdxFor hr hl
    have : ruleIdxFor 14 = [24, 25] := by decide +kernel
    rw [this] at hm
    have hg' := good_node hg
    simp only [List.mem_cons, List.mem_singleton, List.not_mem_nil, or_false] at hm
    rcases hm with rfl | rfl
    · have := rule_at _ _ hr; simp at this; subst this
      have := wfl_nil_inv hwl; subst this
      exact ⟨[], by simp [variantsOf], by simp⟩
    · have := rule_at _ _ hr; simp at this; subst this
      obtain ⟨c1, cs1, rfl, h1, hwl⟩ := wfl_cons_inv hwl
      obtain ⟨c2, cs2, rfl, h2, hwl⟩ := wfl_cons_inv hwl
      have := wfl_nil_inv hwl; subst this
      obtain ⟨g1, hg'⟩ := goodL_cons hg'
      obtain ⟨g2, _⟩ := goodL_cons hg'
      have hs1 : c1.size ≤ n := by simp [Tree.size, sizeList] at hs; omega
      obtain ⟨xs, hxs, exs⟩ := ih c1 hs1 h1 g1
      -- EnumVariant
      obtain ⟨r2, cs2, rule2, rfl, hr2, hl2, hwl2⟩ := wf_n_inv h2
      have hm2 := mem_ruleIdxFor hr2 hl2
      have : ruleIdxFor 15 = [26] := by decide +kernel
      rw [this] at hm2
      simp only [List.mem_singleton] at hm2; subst hm2
      have := rule_at _ _ hr2; simp at this; subst this
      obtain ⟨d1, ds1, rfl, k1, hwl2⟩ := wfl_cons_inv hwl2
      obtain ⟨d2, ds2, rfl, k2, hwl2⟩ := wfl_cons_inv hwl2
      have := wfl_nil_inv hwl2; subst this
      have gg := good_node g2
      obtain ⟨q1, gg⟩ := goodL_cons gg
      obtain ⟨q2, _⟩ := goodL_cons gg
      obtain ⟨k, nm, p, rfl⟩ := leaf_ident k1 q1
      obtain ⟨fs, hfs, efs⟩ := fieldset_ok k2 q2
      exact ⟨xs ++ [⟨⟨nm, p⟩, fs⟩], by simp [variantsOf, hxs, identOf, hfs],
        by simp [exs, unVariant, efs, EY_leaf, erase]⟩

/-- OptTerminalEnumVariants (16) with TerminalEnumVariant (17) -/
theorem termVariants_ok : ∀ (n : Nat) (t : CTree), t.size ≤ n → WF kikiG t (.n 16) → Good t →
    ∃ v, termVariantsOf t = some v ∧ v.flatMap unTermVariant = EY t := by
  intro n
  induction n with
  | zero => intro t hs; have := tree_size_pos t; omega
  | succ n ih =>
    intro t hs hw hg
    obtain ⟨r, cs, rule, rfl, hr, hl, hwl⟩ := wf_n_inv hw
    have hm := mem_ruleIdxFor hr hl
    have : ruleIdxFor 16 = [27, 28] := by decide +kernel
    rw [this] at hm
    have hg' := good_node hg
    simp only [List.mem_cons, List.mem_singleton, List.not_mem_nil, or_false] at hm
    rcases hm with rfl | rfl
    · have := rule_at _ _ hr; simp at this; subst this
      have := wfl_nil_inv hwl; subst this
      exact ⟨[], by simp [termVariantsOf], by simp⟩
    · have := rule_at _ _ hr; simp at this; subst this
      obtain ⟨c1, cs1, rfl, h1, hwl⟩ := wfl_cons_inv hwl
      obtain ⟨c2, cs2, rfl, h2, hwl⟩ := wfl_cons_inv hwl
      have := wfl_nil_inv hwl; subst this
      obtain ⟨g1, hg'⟩ := goodL_cons hg'
      obtain ⟨g2, _⟩ := goodL_cons hg'
      have hs1 : c1.size ≤ n := by simp [Tree.size, sizeList] at hs; omega
      obtain ⟨xs, hxs, exs⟩ := ih c1 hs1 h1 g1
      obtain ⟨r2, cs2, rule2, rfl, hr2, hl2, hwl2⟩ := wf_n_inv h2
      have hm2 := mem_ruleIdxFor hr2 hl2
      have : ruleIdxFor 17 = [29] := by decide +kernel
      rw [this] at hm2
      simp only [List.mem_singleton] at hm2; subst hm2
      have := rule_at _ _ hr2; simp at this; subst this
      obtain ⟨d1, ds1, rfl, k1, hwl2⟩ := wfl_cons_inv hwl2
      obtain ⟨d2, ds2, rfl, k2, hwl2⟩ := wfl_cons_inv hwl2
      obtain ⟨d3, ds3, rfl, k3, hwl2⟩ := wfl_cons_inv hwl2
      have := wfl_nil_inv hwl2; subst this
      have gg := good_node g2
      obtain ⟨q1, gg⟩ := goodL_cons gg
      obtain ⟨q2, gg⟩ := goodL_cons gg
      obtain ⟨q3, _⟩ := goodL_cons gg
      obtain ⟨k, nm, p, rfl⟩ := leaf_termIdent k1 q1
      have e2 := leaf_fixed k2 q2 (x := .colon) rfl
      obtain ⟨ty, hty, ety⟩ := type_ok k3 q3
      exact ⟨xs ++ [⟨⟨nm, p⟩, ty⟩], by simp [termVariantsOf, hxs, termIdentOf, hty],
        by simp [exs, unTermVariant, ety, e2, EY_leaf, erase]⟩

/-- FileItem (2) with Struct (3), Enum (4), TerminalEnum (5) -/
theorem item_ok {t : CTree} (hw : WF kikiG t (.n 2)) (hg : Good t) :
    ∃ v, itemOf t = some v ∧ unItem v = EY t := by
  obtain ⟨r, cs, rule, rfl, hr, hl, hwl⟩ := wf_n_inv hw
  have hm := mem_ruleIdxFor hr hl
  have : ruleIdxFor 2 = [3, 4, 5, 6] := by decide +kernel
  rw [this] at hm
  have hg' := good_node hg
  simp only [List.mem_cons, List.mem_singleton, List.not_mem_nil, or_false] at hm
  rcases hm with rfl | rfl | rfl | rfl
  · have := rule_at _ _ hr; simp at this; subst this
    obtain ⟨c1, cs1, rfl, h1, hwl⟩ := wfl_cons_inv hwl
    obtain ⟨c2, cs2, rfl, h2, hwl⟩ := wfl_cons_inv hwl
    have := wfl_nil_inv hwl; subst this
    obtain ⟨g1, hg'⟩ := goodL_cons hg'
    obtain ⟨g2, _⟩ := goodL_cons hg'
    have e1 := leaf_fixed h1 g1 (x := .startKw) rfl
    obtain ⟨k, nm, p, rfl⟩ := leaf_ident h2 g2
    exact ⟨.start ⟨nm, p⟩, by simp [itemOf, identOf], by simp [unItem, e1, EY_leaf, erase]⟩
  · have := rule_at _ _ hr; simp at this; subst this
    obtain ⟨c1, cs1, rfl, h1, hwl⟩ := wfl_cons_inv hwl
    have := wfl_nil_inv hwl; subst this
    obtain ⟨g1, _⟩ := goodL_cons hg'
    obtain ⟨r2, cs2, rule2, rfl, hr2, hl2, hwl2⟩ := wf_n_inv h1
    have hm2 := mem_ruleIdxFor hr2 hl2
    have : ruleIdxFor 3 = [7] := by decide +kernel
    rw [this] at hm2
    simp only [List.mem_singleton] at hm2; subst hm2
    have := rule_at _ _ hr2; simp at this; subst this
    obtain ⟨d1, ds1, rfl, k1, hwl2⟩ := wfl_cons_inv hwl2
    obtain ⟨d2, ds2, rfl, k2, hwl2⟩ := wfl_cons_inv hwl2
    obtain ⟨d3, ds3, rfl, k3, hwl2⟩ := wfl_cons_inv hwl2
    obtain ⟨d4, ds4, rfl, k4, hwl2⟩ := wfl_cons_inv hwl2
    have := wfl_nil_inv hwl2; subst this
    have gg := good_node g1
    obtain ⟨q1, gg⟩ := goodL_cons gg
    obtain ⟨q2, gg⟩ := goodL_cons gg
    obtain ⟨q3, gg⟩ := goodL_cons gg
    obtain ⟨q4, _⟩ := goodL_cons gg
    obtain ⟨as, has, eas⟩ := attrs_ok d1.size d1 (Nat.le_refl _) k1 q1
    have e2 := leaf_fixed k2 q2 (x := .structKw) rfl
    obtain ⟨k, nm, p, rfl⟩ := leaf_ident k3 q3
    obtain ⟨fs, hfs, efs⟩ := fieldset_ok k4 q4
    exact ⟨.struct ⟨as, ⟨nm, p⟩, fs⟩, by simp [itemOf, has, identOf, hfs],
      by simp [unItem, eas, e2, efs, EY_leaf, erase]⟩
  · have := rule_at _ _ hr; simp at this; subst this
    obtain ⟨c1, cs1, rfl, h1, hwl⟩ := wfl_cons_inv hwl
    have := wfl_nil_inv hwl; subst this
    obtain ⟨g1, _⟩ := goodL_cons hg'
    obtain ⟨r2, cs2, rule2, rfl, hr2, hl2, hwl2⟩ := wf_n_inv h1
    have hm2 := mem_ruleIdxFor hr2 hl2
    have : ruleIdxFor 4 = [8] := by decide +kernel
    rw [this] at hm2
    simp only [List.mem_singleton] at hm2; subst hm2
    have := rule_at _ _ hr2; simp at this; subst this
    obtain ⟨d1, ds1, rfl, k1, hwl2⟩ := wfl_cons_inv hwl2
    obtain ⟨d2, ds2, rfl, k2, hwl2⟩ := wfl_cons_inv hwl2
    obtain ⟨d3, ds3, rfl, k3, hwl2⟩ := wfl_cons_inv hwl2
    obtain ⟨d4, ds4, rfl, k4, hwl2⟩ := wfl_cons_inv hwl2
    obtain ⟨d5, ds5, rfl, k5, hwl2⟩ := wfl_cons_inv hwl2
    obtain ⟨d6, ds6, rfl, k6, hwl2⟩ := wfl_cons_inv hwl2
    have := wfl_nil_inv hwl2; subst this
    have gg := good_node g1
    obtain ⟨q1, gg⟩ := goodL_cons gg
    obtain ⟨q2, gg⟩ := goodL_cons gg
    obtain ⟨q3, gg⟩ := goodL_cons gg
    obtain ⟨q4, gg⟩ := goodL_cons gg
    obtain ⟨q5, gg⟩ := goodL_cons gg
    obtain ⟨q6, _⟩ := goodL_cons gg
    obtain ⟨as, has, eas⟩ := attrs_ok d1.size d1 (Nat.le_refl _) k1 q1
    have e2 := leaf_fixed k2 q2 (x := .enumKw) rfl
    obtain ⟨k, nm, p, rfl⟩ := leaf_ident k3 q3
    have e4 := leaf_fixed k4 q4 (x := .lcurly) rfl
    obtain ⟨vs, hvs, evs⟩ := variants_ok d5.size d5 (Nat.le_refl _) k5 q5
    have e6 := leaf_fixed k6 q6 (x := .rcurly) rfl
    exact ⟨.enum ⟨as, ⟨nm, p⟩, vs⟩, by simp [itemOf, has, identOf, hvs],
      by simp [unItem, eas, e2, e4, evs, e6, EY_leaf, erase]⟩
  · have := rule_at _ _ hr; simp at this; subst this
    obtain ⟨c1, cs1, rfl, h1, hwl⟩ := wfl_cons_inv hwl
    have := wfl_nil_inv hwl; subst this
    obtain ⟨g1, _⟩ := goodL_cons hg'
    obtain ⟨r2, cs2, rule2, rfl, hr2, hl2, hwl2⟩ := wf_n_inv h1
    have hm2 := mem_ruleIdxFor hr2 hl2
    have : ruleIdxFor 5 = [9] := by decide +kernel
    rw [this] at hm2
    simp only [List.mem_singleton] at hm2; subst hm2
    have := rule_at _ _ hr2; simp at this; subst this
    obtain ⟨d1, ds1, rfl, k1, hwl2⟩ := wfl_cons_inv hwl2
    obtain ⟨d2, ds2, rfl, k2, hwl2⟩ := wfl_cons_inv hwl2
    obtain ⟨d3, ds3, rfl, k3, hwl2⟩ := wfl_cons_inv hwl2
    obtain ⟨d4, ds4, rfl, k4, hwl2⟩ := wfl_cons_inv hwl2
    obtain ⟨d5, ds5, rfl, k5, hwl2⟩ := wfl_cons_inv hwl2
    obtain ⟨d6, ds6, rfl, k6, hwl2⟩ := wfl_cons_inv hwl2
    have := wfl_nil_inv hwl2; subst this
    have gg := good_node g1
    obtain ⟨q1, gg⟩ := goodL_cons gg
    obtain ⟨q2, gg⟩ := goodL_cons gg
    obtain ⟨q3, gg⟩ := goodL_cons gg
    obtain ⟨q4, gg⟩ := goodL_cons gg
    obtain ⟨q5, gg⟩ := goodL_cons gg
    obtain ⟨q6, _⟩ := goodL_cons gg
    obtain ⟨as, has, eas⟩ := attrs_ok d1.size d1 (Nat.le_refl _) k1 q1
    have e2 := leaf_fixed k2 q2 (x := .terminalKw) rfl
    obtain ⟨k, nm, p, rfl⟩ := leaf_ident k3 q3
    have e4 := leaf_fixed k4 q4 (x := .lcurly) rfl
    obtain ⟨vs, hvs, evs⟩ := termVariants_ok d5.size d5 (Nat.le_refl _) k5 q5
    have e6 := leaf_fixed k6 q6 (x := .rcurly) rfl
    exact ⟨.terminal ⟨as, ⟨nm, p⟩, vs⟩, by simp [itemOf, has, identOf, hvs],
      by simp [unItem, eas, e2, e4, evs, e6, EY_leaf, erase]⟩

/-- OptItems (1) -/
theorem items_ok : ∀ (n : Nat) (t : CTree), t.size ≤ n → WF kikiG t (.n 1) → Good t →
    ∃ v, itemsOf t = some v ∧ v.flatMap unItem = EY t := by
  intro n
  induction n with
  | zero => intro t hs; have := tree_size_pos t; omega
  | succ n ih =>
    intro t hs hw hg
    obtain ⟨r, cs, rule, rfl, hr, hl, hwl⟩ := wf_n_inv hw
    have hm := mem_ruleIdxFor hr hl
    have : ruleIdxFor 1 = [1, 2] := by decide +kernel
    rw [this] at hm
    have hg' := good_node hg
    simp only [List.mem_cons, List.mem_singleton, List.not_mem_nil, or_false] at hm
    rcases hm with rfl | rfl
    · have := rule_at _ _ hr; simp at this; subst this
      have := wfl_nil_inv hwl; subst this
      exact ⟨[], by simp [itemsOf], by simp⟩
    · have := rule_at _ _ hr; simp at this; subst this
      obtain ⟨c1, cs1, rfl, h1, hwl⟩ := wfl_cons_inv hwl
      obtain ⟨c2, cs2, rfl, h2, hwl⟩ := wfl_cons_inv hwl
      have := wfl_nil_inv hwl; subst this
      obtain ⟨g1, hg'⟩ := goodL_cons hg'
      obtain ⟨g2, _⟩ := goodL_cons hg'
      have hs1 : c1.size ≤ n := by simp [Tree.size, sizeList] at hs; omega
      obtain ⟨xs, hxs, exs⟩ := ih c1 hs1 h1 g1
      obtain ⟨it, hit, eit⟩ := item_ok h2 g2
      exact ⟨xs ++ [it], by simp [itemsOf, hxs, hit], by simp [exs, eit]⟩

/-- **`cst_to_ast` is total and order-preserving**: for every derivation tree of the Kiki grammar whose
leaves carry their own token kinds, `cstToAst` succeeds and unparsing its result gives exactly the
(position-free) tokens at the leaves, in order -/
theorem cstToAst_ok {t : CTree} (hw : WF kikiG t (.n kikiG.start)) (hg : Good t) :
    ∃ ast, cstToAst t = some ast ∧ unFile ast = EY t := by
  rw [start_eq] at hw
  obtain ⟨r, cs, rule, rfl, hr, hl, hwl⟩ := wf_n_inv hw
  have hm := mem_ruleIdxFor hr hl
  have : ruleIdxFor 0 = [0] := by decide +kernel
  rw [this] at hm
  simp only [List.mem_singleton] at hm; subst hm
  have := rule_at _ _ hr; simp at this; subst this
  obtain ⟨c1, cs1, rfl, h1, hwl⟩ := wfl_cons_inv hwl
  have := wfl_nil_inv hwl; subst this
  obtain ⟨xs, hxs, exs⟩ := items_ok c1.size c1 (Nat.le_refl _) h1 (goodL_cons (good_node hg)).1
  exact ⟨⟨xs⟩, by simp [cstToAst, hxs], by simp [unFile, exs]⟩

end FrontParse
end KikiVerif
