/-
Lemmas about the emitted-module structure.
-/
import KikiVerif.Model.Emit

namespace KikiVerif

theorem mapM_option_cons {α β : Type} (f : α → Option β) (x : α) (xs : List α) (ys : List β)
    (h : (x :: xs).mapM f = some ys) : ∃ y ys', f x = some y ∧ xs.mapM f = some ys' ∧ ys = y :: ys' := by
  rw [List.mapM_cons] at h
  cases hx : f x with
  | none => simp [hx] at h
  | some y =>
    cases hxs : xs.mapM f with
    | none => simp [hx, hxs] at h
    | some ys' =>
      simp [hx, hxs] at h
      exact ⟨y, ys', rfl, rfl, h.symm⟩

namespace Emit

/-- what `moduleOf` copies from the validated file -/
theorem moduleOf_spec {f : VFile.File} {enc : Encode.Enc} {t : Table.Table} {sha : Str} {m : Module}
    (h : moduleOf f enc t sha = some m) :
    m.sha = sha ∧ m.tenumAttrs = attrSrcs f.tenum.attrs ∧ m.tenumName = f.tenum.name ∧
    m.tenumVariants = f.tenum.variants.map (fun v => (v.name, v.ty)) ∧
    m.startType = f.start ∧ m.nonterminals = f.nonterminals.map (·.name) ∧
    m.methods = methodNames f.tenum ∧
    f.nonterminals.mapM (typeDefOf f.tenum) = some m.types ∧
    chooseNames f.definedIdentifiers = some m.names := by
  unfold moduleOf at h
  cases hn : chooseNames f.definedIdentifiers with
  | none => simp [hn] at h
  | some names =>
    cases ht : f.nonterminals.mapM (typeDefOf f.tenum) with
    | none => simp [hn, ht] at h
    | some types =>
      cases hr : ((f.rules.zipIdx.map fun (r, i) => reduceFnOf (methodNames f.tenum) i r).mapM id) with
      | none => simp [hn, ht, hr] at h
      | some rfs =>
        simp [hn, ht, hr] at h
        subst h
        exact ⟨rfl, rfl, rfl, rfl, rfl, rfl, rfl, rfl, rfl⟩

end Emit
end KikiVerif
