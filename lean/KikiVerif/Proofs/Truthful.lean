/-
`validate_ast` reports errors truthfully: `validateAst f = .err e → Truthful f e`.
-/
import KikiVerif.Proofs.Validate

set_option linter.unusedSimpArgs false
set_option linter.unusedVariables false

namespace KikiVerif
namespace Validate
open Ast Text Spec

theorem bind_err {α β : Type} {x : Res α} {g : α → Res β} {e : KErr} (h : (x >>= g) = .err e) :
    x = .err e ∨ ∃ a, x = .ok a ∧ g a = .err e := by
  cases x with
  | ok a => exact Or.inr ⟨a, rfl, h⟩
  | err e' => cases h; exact Or.inl rfl
  | panic s => cases h

theorem upper_err {name : Str} {pos : Nat} {e : KErr} (h : validateUppercaseStart name pos = .err e) :
    e = .notUppercase pos ∧ ¬ UpperOk name := by
  unfold validateUppercaseStart at h
  split at h
  · cases h
  · rename_i c hc
    split at h
    · cases h
    · rename_i hu
      cases h
      refine ⟨rfl, fun hok => hu (hok c hc)⟩

theorem lower_err {name : Str} {pos : Nat} {e : KErr} (h : assertLowercaseStart name pos = .err e) :
    e = .notLowercase pos ∧ ¬ LowerOk name := by
  unfold assertLowercaseStart at h
  split at h
  · cases h
  · rename_i c hc
    split at h
    · cases h
    · rename_i hu
      cases h
      refine ⟨rfl, fun hok => hu (hok c hc)⟩

theorem lookup_split {κ : Type} [BEq κ] [LawfulBEq κ] {l : List (κ × Nat)} {k : κ} {old : Nat}
    (h : l.lookup k = some old) : ∃ pre mid, l = pre ++ (k, old) :: mid := by
  induction l with
  | nil => simp at h
  | cons p l ih =>
    obtain ⟨k', v'⟩ := p
    simp only [List.lookup] at h
    split at h
    · rename_i heq
      have : k = k' := by simpa using heq
      cases h; subst this
      exact ⟨[], l, rfl⟩
    · obtain ⟨pre, mid, e⟩ := ih h
      exact ⟨(k', v') :: pre, mid, by rw [e]; rfl⟩

theorem define_err {seen : Seen} {name : Str} {pos : Nat} {e : KErr} (h : define seen name pos = .err e) :
    ∃ old, e = .nameClash name old pos ∧ ∃ pre mid, seen = pre ++ (name, old) :: mid := by
  unfold define at h
  split at h
  · rename_i old hl
    cases h
    exact ⟨old, rfl, lookup_split hl⟩
  · cases h

theorem define_ok' {seen seen' : Seen} {name : Str} {pos : Nat} (h : define seen name pos = .ok seen') :
    seen' = seen ++ [(name, pos)] := (define_ok h).2

def itemDefs (items : List Item) : List (Str × Nat) :=
  items.filterMap fun
    | .struct s => some (s.name.name, s.name.pos)
    | .enum e => some (e.name.name, e.name.pos)
    | _ => none

theorem before_of_clash {seen : Seen} {name : Str} {old pos : Nat} {rest : List (Str × Nat)}
    (h : ∃ pre mid, seen = pre ++ (name, old) :: mid) : Before (seen ++ (name, pos) :: rest) (name, old) (name, pos) := by
  obtain ⟨pre, mid, rfl⟩ := h
  exact ⟨pre, mid, rest, by simp⟩

theorem defineNonterminals_res : ∀ (items : List Item) (seen : Seen),
    (∀ seen', defineNonterminals seen items = .ok seen' → seen' = seen ++ itemDefs items) ∧
    (∀ e, defineNonterminals seen items = .err e →
      ∃ name p q, e = .nameClash name p q ∧ Before (seen ++ itemDefs items) (name, p) (name, q)) := by
  intro items
  induction items with
  | nil => intro seen; simp [defineNonterminals, itemDefs]
  | cons it items ih =>
    intro seen
    cases it with
    | start i => simpa [defineNonterminals, itemDefs] using ih seen
    | terminal t => simpa [defineNonterminals, itemDefs] using ih seen
    | struct s =>
      simp only [defineNonterminals]
      constructor
      · intro seen' h
        obtain ⟨s1, h1, h2⟩ := bind_ok h
        rw [(ih s1).1 seen' h2, define_ok' h1]; simp [itemDefs]
      · intro e h
        rcases bind_err h with h1 | ⟨s1, h1, h2⟩
        · obtain ⟨old, rfl, hs⟩ := define_err h1
          exact ⟨_, _, _, rfl, by simpa [itemDefs] using before_of_clash (rest := itemDefs items) hs⟩
        · obtain ⟨name, p, q, rfl, hb⟩ := (ih s1).2 e h2
          rw [define_ok' h1] at hb
          exact ⟨name, p, q, rfl, by simpa [itemDefs] using hb⟩
    | enum en =>
      simp only [defineNonterminals]
      constructor
      · intro seen' h
        obtain ⟨s1, h1, h2⟩ := bind_ok h
        rw [(ih s1).1 seen' h2, define_ok' h1]; simp [itemDefs]
      · intro e h
        rcases bind_err h with h1 | ⟨s1, h1, h2⟩
        · obtain ⟨old, rfl, hs⟩ := define_err h1
          exact ⟨_, _, _, rfl, by simpa [itemDefs] using before_of_clash (rest := itemDefs items) hs⟩
        · obtain ⟨name, p, q, rfl, hb⟩ := (ih s1).2 e h2
          rw [define_ok' h1] at hb
          exact ⟨name, p, q, rfl, by simpa [itemDefs] using hb⟩

def tvDefs (vs : List TermVariant) : List (Str × Nat) := vs.map fun v => (v.name.name, v.name.dpos)

theorem defineTerminalVariants_res : ∀ (vs : List TermVariant) (seen : Seen),
    (∀ seen', defineTerminalVariants seen vs = .ok seen' → seen' = seen ++ tvDefs vs) ∧
    (∀ e, defineTerminalVariants seen vs = .err e →
      ∃ name p q, e = .nameClash name p q ∧ Before (seen ++ tvDefs vs) (name, p) (name, q)) := by
  intro vs
  induction vs with
  | nil => intro seen; simp [defineTerminalVariants, tvDefs]
  | cons v vs ih =>
    intro seen
    simp only [defineTerminalVariants]
    constructor
    · intro seen' h
      obtain ⟨s1, h1, h2⟩ := bind_ok h
      rw [(ih s1).1 seen' h2, define_ok' h1]; simp [tvDefs]
    · intro e h
      rcases bind_err h with h1 | ⟨s1, h1, h2⟩
      · obtain ⟨old, rfl, hs⟩ := define_err h1
        exact ⟨_, _, _, rfl, by simpa [tvDefs] using before_of_clash (rest := tvDefs vs) hs⟩
      · obtain ⟨name, p, q, rfl, hb⟩ := (ih s1).2 e h2
        rw [define_ok' h1] at hb
        exact ⟨name, p, q, rfl, by simpa [tvDefs] using hb⟩

theorem itemDefs_eq (f : File) : itemDefs f.items = ntDefs f := rfl

theorem before_append_right {α : Type} {l : List α} {a b : α} (r : List α) (h : Before l a b) :
    Before (l ++ r) a b := by
  obtain ⟨pre, mid, post, rfl⟩ := h
  exact ⟨pre, mid, post ++ r, by simp⟩

/-- errors of the terminal-enum lookup -/
theorem unvalidated_err {f : File} {e : KErr} (h : getUnvalidatedTerminalEnum f = .err e) : Truthful f e := by
  unfold getUnvalidatedTerminalEnum at h
  split at h
  · rename_i hnil; cases h; exact .noTerminal hnil
  · cases h
  · rename_i ts hne1 hne2
    cases h
    have hlen : 2 ≤ (termEnums f).length := by
      rw [termEnums_eq]
      match hts : terminals f with
      | [] => exact absurd hts hne1
      | [t] => exact absurd hts (hne2 t)
      | _ :: _ :: _ => simp
    exact .multiTerminal hlen

theorem positions_res {f : File} {t : TermEnum} (hu : getUnvalidatedTerminalEnum f = .ok t) :
    (∀ seen, getDefinedSymbolPositions f = .ok seen → seen = ntDefs f ++ tvDefs t.variants) ∧
    (∀ e, getDefinedSymbolPositions f = .err e → Truthful f e) := by
  unfold getDefinedSymbolPositions
  rw [hu]
  constructor
  · intro seen h
    obtain ⟨s1, h1, h4⟩ := bind_ok h
    have h4 : defineTerminalVariants s1 t.variants = .ok seen := h4
    rw [(defineTerminalVariants_res _ _).1 seen h4, (defineNonterminals_res _ _).1 s1 h1]
    simp [itemDefs_eq]
  · intro e h
    rcases bind_err h with h1 | ⟨s1, h1, h4⟩
    · obtain ⟨name, p, q, rfl, hb⟩ := (defineNonterminals_res _ _).2 e h1
      refine .nameClash t name p q (terminal_unique hu) ?_
      simp only [List.nil_append, itemDefs_eq] at hb
      unfold topDefs
      rw [List.append_assoc]
      exact before_append_right _ hb
    · have h4 : defineTerminalVariants s1 t.variants = .err e := h4
      obtain ⟨name, p, q, rfl, hb⟩ := (defineTerminalVariants_res _ _).2 e h4
      refine .nameClash t name p q (terminal_unique hu) ?_
      rw [(defineNonterminals_res _ _).1 s1 h1] at hb
      simp only [List.nil_append, itemDefs_eq] at hb
      unfold topDefs
      exact before_append_right _ hb

end Validate
end KikiVerif

namespace KikiVerif
namespace Validate
open Ast Text Spec

/-! ### stage 1: the terminal enum -/

theorem terminalVariants_err : ∀ (vs : List TermVariant) (e : KErr), validateTerminalVariants vs = .err e →
    ∃ v ∈ vs, e = .notUppercase v.name.dpos ∧ ¬ UpperOk v.name.name := by
  intro vs
  induction vs with
  | nil => intro e h; simp [validateTerminalVariants] at h
  | cons v vs ih =>
    intro e h
    simp only [validateTerminalVariants] at h
    rcases bind_err h with h1 | ⟨_, h1, h2⟩
    · exact ⟨v, List.mem_cons_self, upper_err h1⟩
    · rcases bind_err h2 with h3 | ⟨_, h3, h4⟩
      · obtain ⟨w, hw, r⟩ := ih e h3
        exact ⟨w, List.mem_cons_of_mem _ hw, r⟩
      · cases h4

theorem mem_terminal {f : File} {t : TermEnum} (h : termEnums f = [t]) : Item.terminal t ∈ f.items := by
  have : t ∈ termEnums f := by rw [h]; exact List.mem_singleton.mpr rfl
  unfold termEnums at this
  rw [List.mem_filterMap] at this
  obtain ⟨it, hit, he⟩ := this
  cases it <;> simp at he
  subst he; exact hit

theorem getTerminalEnum_err {f : File} {e : KErr} (h : getTerminalEnum f = .err e) : Truthful f e := by
  unfold getTerminalEnum at h
  rcases bind_err h with h1 | ⟨t, h1, h2⟩
  · exact unvalidated_err h1
  · have hmem := mem_terminal (terminal_unique h1)
    rcases bind_err h2 with h3 | ⟨_, h3, h4⟩
    · obtain ⟨rfl, hn⟩ := upper_err h3
      refine .notUpper t.name.name _ ?_ hn
      unfold upperOccs
      exact List.mem_flatMap.mpr ⟨_, hmem, by simp⟩
    · rcases bind_err h4 with h5 | ⟨_, h5, h6⟩
      · obtain ⟨v, hv, rfl, hn⟩ := terminalVariants_err _ _ h5
        refine .notUpper v.name.name _ ?_ hn
        unfold upperOccs
        refine List.mem_flatMap.mpr ⟨_, hmem, ?_⟩
        simp only [List.mem_cons, List.mem_map]
        exact Or.inr ⟨v, hv, rfl⟩
      · cases h6

/-! ### stage 2: the nonterminals -/

inductive FsErr (d : Defined) (fs : Fieldset) : KErr → Prop
  | lower (i : Ident) : i ∈ fieldsetIdents fs → ¬ LowerOk i.name → FsErr d fs (.notLowercase i.pos)
  | undefN (i : Ident) : SymId.n i ∈ fs.syms → i.name ∉ d.nonterminals →
      FsErr d fs (.undefinedNonterminal i.name i.pos)
  | undefT (i : TermIdent) : SymId.t i ∈ fs.syms → i.name ∉ d.terminals →
      FsErr d fs (.undefinedTerminal i.name i.dpos)

inductive SymErr (d : Defined) (s : SymId) : KErr → Prop
  | undefN (i : Ident) : s = .n i → i.name ∉ d.nonterminals → SymErr d s (.undefinedNonterminal i.name i.pos)
  | undefT (i : TermIdent) : s = .t i → i.name ∉ d.terminals → SymErr d s (.undefinedTerminal i.name i.dpos)

theorem symbol_err {d : Defined} {s : SymId} {e : KErr} (h : assertSymbolIsDefined d s = .err e) : SymErr d s e := by
  cases s with
  | n i =>
    simp only [assertSymbolIsDefined] at h
    split at h
    · cases h
    · rename_i hc; cases h
      exact .undefN i rfl (fun hm => hc (List.contains_iff_mem.mpr hm))
  | t i =>
    simp only [assertSymbolIsDefined] at h
    split at h
    · cases h
    · rename_i hc; cases h
      exact .undefT i rfl (fun hm => hc (List.contains_iff_mem.mpr hm))

theorem FsErr.of_sym {d : Defined} {fs : Fieldset} {s : SymId} {e : KErr} (hs : s ∈ fs.syms) (h : SymErr d s e) :
    FsErr d fs e := by
  cases h with
  | undefN i es hn => subst es; exact .undefN i hs hn
  | undefT i es hn => subst es; exact .undefT i hs hn

theorem namedFields_err (d : Defined) : ∀ (fs : List NamedField) (e : KErr), assertNamedFields d fs = .err e →
    FsErr d (.named fs) e := by
  intro fs
  induction fs with
  | nil => intro e h; simp [assertNamedFields] at h
  | cons fld fs ih =>
    intro e h
    simp only [assertNamedFields] at h
    have tail : ∀ e, FsErr d (.named fs) e → FsErr d (.named (fld :: fs)) e := by
      intro e h
      cases h with
      | lower i hi hn =>
        refine .lower i ?_ hn
        simp only [fieldsetIdents, List.filterMap_cons] at hi ⊢
        split
        · exact hi
        · exact List.mem_cons_of_mem _ hi
      | undefN i hi hn => exact .undefN i (by simp only [Fieldset.syms, List.map_cons] at hi ⊢; exact List.mem_cons_of_mem _ hi) hn
      | undefT i hi hn => exact .undefT i (by simp only [Fieldset.syms, List.map_cons] at hi ⊢; exact List.mem_cons_of_mem _ hi) hn
    have symcase : ∀ e, assertSymbolIsDefined d fld.sym = .err e → FsErr d (.named (fld :: fs)) e := by
      intro e h
      exact FsErr.of_sym (by simp [Fieldset.syms]) (symbol_err h)
    cases hname : fld.name with
    | us p =>
      rw [hname] at h
      rcases bind_err h with h3 | ⟨_, h3, h4⟩
      · exact symcase e h3
      · exact tail e (ih e h4)
    | id i =>
      rw [hname] at h
      rcases bind_err h with h1 | ⟨_, h1, h2⟩
      · obtain ⟨rfl, hn⟩ := lower_err h1
        refine .lower i ?_ hn
        simp [fieldsetIdents, hname]
      · rcases bind_err h2 with h3 | ⟨_, h3, h4⟩
        · exact symcase e h3
        · exact tail e (ih e h4)

theorem tupleFields_err (d : Defined) : ∀ (fs : List TupleField) (e : KErr), assertTupleFields d fs = .err e →
    FsErr d (.tuple fs) e := by
  intro fs
  induction fs with
  | nil => intro e h; simp [assertTupleFields] at h
  | cons fld fs ih =>
    intro e h
    simp only [assertTupleFields] at h
    rcases bind_err h with h1 | ⟨_, h1, h2⟩
    · exact FsErr.of_sym (by simp [Fieldset.syms]) (symbol_err h1)
    · cases ih e h2 with
      | lower i hi hn => simp [fieldsetIdents] at hi
      | undefN i hi hn => exact .undefN i (by simp only [Fieldset.syms, List.map_cons] at hi ⊢; exact List.mem_cons_of_mem _ hi) hn
      | undefT i hi hn => exact .undefT i (by simp only [Fieldset.syms, List.map_cons] at hi ⊢; exact List.mem_cons_of_mem _ hi) hn

theorem fieldset_err {d : Defined} {fs : Fieldset} {e : KErr} (h : assertFieldsetIsValid d fs = .err e) :
    FsErr d fs e := by
  cases fs with
  | empty => cases h
  | named flds => exact namedFields_err d flds e h
  | tuple flds => exact tupleFields_err d flds e h

theorem uniqueNames_err : ∀ (vs : List Variant) (seen : Seen) (e : KErr), assertUniqueNames seen vs = .err e →
    ∃ name p q, e = .variantNameClash name p q ∧
      Before (seen ++ vs.map fun v => (v.name.name, v.name.pos)) (name, p) (name, q) := by
  intro vs
  induction vs with
  | nil => intro seen e h; simp [assertUniqueNames] at h
  | cons v vs ih =>
    intro seen e h
    simp only [assertUniqueNames] at h
    split at h
    · rename_i old hl
      cases h
      exact ⟨_, _, _, rfl, by simpa using before_of_clash (rest := vs.map fun v => (v.name.name, v.name.pos)) (lookup_split hl)⟩
    · obtain ⟨name, p, q, rfl, hb⟩ := ih _ e h
      exact ⟨name, p, q, rfl, by simpa using hb⟩

theorem uniqueSeqs_err : ∀ (vs : List Variant) (seen : List (List Sym' × Nat)) (e : KErr),
    assertUniqueSeqs seen vs = .err e →
    ∃ seq p q, e = .variantSeqClash seq p q ∧
      Before (seen ++ vs.map fun v => (v.fieldset.syms.map (·.toSym), v.name.pos)) (seq, p) (seq, q) := by
  intro vs
  induction vs with
  | nil => intro seen e h; simp [assertUniqueSeqs] at h
  | cons v vs ih =>
    intro seen e h
    simp only [assertUniqueSeqs] at h
    split at h
    · rename_i old hl
      cases h
      obtain ⟨pre, mid, hs⟩ := lookup_split hl
      exact ⟨_, _, _, rfl, ⟨pre, mid, vs.map fun v => (v.fieldset.syms.map (·.toSym), v.name.pos),
        by rw [hs]; simp [fieldSymbolSequence]⟩⟩
    · obtain ⟨seq, p, q, rfl, hb⟩ := ih _ e h
      exact ⟨seq, p, q, rfl, by simpa [fieldSymbolSequence] using hb⟩

theorem eachVariant_err (d : Defined) : ∀ (vs : List Variant) (e : KErr), assertEachVariant d vs = .err e →
    ∃ v ∈ vs, (e = .notUppercase v.name.pos ∧ ¬ UpperOk v.name.name) ∨ FsErr d v.fieldset e := by
  intro vs
  induction vs with
  | nil => intro e h; simp [assertEachVariant] at h
  | cons v vs ih =>
    intro e h
    simp only [assertEachVariant] at h
    rcases bind_err h with h1 | ⟨_, h1, h2⟩
    · exact ⟨v, List.mem_cons_self, Or.inl (upper_err h1)⟩
    · rcases bind_err h2 with h3 | ⟨_, h3, h4⟩
      · exact ⟨v, List.mem_cons_self, Or.inr (fieldset_err h3)⟩
      · obtain ⟨w, hw, r⟩ := ih e h4
        exact ⟨w, List.mem_cons_of_mem _ hw, r⟩

/-- what an error of `validate_nonterminal` over some item says about that item -/
inductive ItemsErr (d : Defined) (items : List Item) : KErr → Prop
  | structUpper (s : Struct) : Item.struct s ∈ items → ¬ UpperOk s.name.name → ItemsErr d items (.notUppercase s.name.pos)
  | structFs (s : Struct) (e : KErr) : Item.struct s ∈ items → FsErr d s.fieldset e → ItemsErr d items e
  | enumUpper (en : Enum) : Item.enum en ∈ items → ¬ UpperOk en.name.name → ItemsErr d items (.notUppercase en.name.pos)
  | vname (en : Enum) (name : Str) (p q : Nat) : Item.enum en ∈ items →
      Before (en.variants.map fun v => (v.name.name, v.name.pos)) (name, p) (name, q) →
      ItemsErr d items (.variantNameClash name p q)
  | vseq (en : Enum) (seq : List Sym') (p q : Nat) : Item.enum en ∈ items →
      Before (en.variants.map fun v => (v.fieldset.syms.map (·.toSym), v.name.pos)) (seq, p) (seq, q) →
      ItemsErr d items (.variantSeqClash seq p q)
  | variantUpper (en : Enum) (v : Variant) : Item.enum en ∈ items → v ∈ en.variants → ¬ UpperOk v.name.name →
      ItemsErr d items (.notUppercase v.name.pos)
  | variantFs (en : Enum) (v : Variant) (e : KErr) : Item.enum en ∈ items → v ∈ en.variants → FsErr d v.fieldset e →
      ItemsErr d items e

theorem ItemsErr.cons {d : Defined} {it : Item} {items : List Item} {e : KErr} (h : ItemsErr d items e) :
    ItemsErr d (it :: items) e := by
  cases h with
  | structUpper s hm hn => exact .structUpper s (List.mem_cons_of_mem _ hm) hn
  | structFs s e hm hf => exact .structFs s e (List.mem_cons_of_mem _ hm) hf
  | enumUpper en hm hn => exact .enumUpper en (List.mem_cons_of_mem _ hm) hn
  | vname en name p q hm hb => exact .vname en name p q (List.mem_cons_of_mem _ hm) hb
  | vseq en seq p q hm hb => exact .vseq en seq p q (List.mem_cons_of_mem _ hm) hb
  | variantUpper en v hm hv hn => exact .variantUpper en v (List.mem_cons_of_mem _ hm) hv hn
  | variantFs en v e hm hv hf => exact .variantFs en v e (List.mem_cons_of_mem _ hm) hv hf

theorem validateNonterminals_err (d : Defined) : ∀ (items : List Item) (e : KErr),
    validateNonterminals d items = .err e → ItemsErr d items e := by
  intro items
  induction items with
  | nil => intro e h; simp [validateNonterminals] at h
  | cons it items ih =>
    intro e h
    cases it with
    | start i => simp only [validateNonterminals] at h; exact (ih e h).cons
    | terminal t => simp only [validateNonterminals] at h; exact (ih e h).cons
    | struct s =>
      simp only [validateNonterminals] at h
      rcases bind_err h with h1 | ⟨_, h1, h2⟩
      · obtain ⟨rfl, hn⟩ := upper_err h1
        exact .structUpper s List.mem_cons_self hn
      · rcases bind_err h2 with h3 | ⟨_, h3, h4⟩
        · exact .structFs s e List.mem_cons_self (fieldset_err h3)
        · rcases bind_err h4 with h5 | ⟨_, h5, h6⟩
          · exact (ih e h5).cons
          · cases h6
    | enum en =>
      simp only [validateNonterminals] at h
      rcases bind_err h with h1 | ⟨_, h1, h2⟩
      · obtain ⟨rfl, hn⟩ := upper_err h1
        exact .enumUpper en List.mem_cons_self hn
      · rcases bind_err h2 with h3 | ⟨_, h3, h4⟩
        · obtain ⟨name, p, q, rfl, hb⟩ := uniqueNames_err _ _ e h3
          exact .vname en name p q List.mem_cons_self (by simpa using hb)
        · rcases bind_err h4 with h5 | ⟨_, h5, h6⟩
          · obtain ⟨seq, p, q, rfl, hb⟩ := uniqueSeqs_err _ _ e h5
            exact .vseq en seq p q List.mem_cons_self (by simpa using hb)
          · rcases bind_err h6 with h7 | ⟨_, h7, h8⟩
            · obtain ⟨v, hv, r⟩ := eachVariant_err d _ e h7
              rcases r with ⟨rfl, hn⟩ | hf
              · exact .variantUpper en v List.mem_cons_self hv hn
              · exact .variantFs en v e List.mem_cons_self hv hf
            · rcases bind_err h8 with h9 | ⟨_, h9, h10⟩
              · exact (ih e h9).cons
              · cases h10

theorem enum_mem {f : File} {en : Enum} (h : Item.enum en ∈ f.items) : en ∈ enums f := by
  unfold enums
  exact List.mem_filterMap.mpr ⟨_, h, rfl⟩

theorem fieldset_mem_struct {f : File} {s : Struct} (h : Item.struct s ∈ f.items) : s.fieldset ∈ fieldsets f := by
  unfold fieldsets
  exact List.mem_flatMap.mpr ⟨_, h, by simp⟩

theorem fieldset_mem_variant {f : File} {en : Enum} {v : Variant} (h : Item.enum en ∈ f.items) (hv : v ∈ en.variants) :
    v.fieldset ∈ fieldsets f := by
  unfold fieldsets
  exact List.mem_flatMap.mpr ⟨_, h, List.mem_map.mpr ⟨v, hv, rfl⟩⟩

theorem fsErr_truthful {f : File} {d : Defined} {t : TermEnum} {fs : Fieldset} {e : KErr}
    (ht : termEnums f = [t]) (hdn : d.nonterminals = nonterminalNames f)
    (hdt : d.terminals = t.variants.map (·.name.name)) (hfs : fs ∈ fieldsets f) (h : FsErr d fs e) :
    Truthful f e := by
  cases h with
  | lower i hi hn => exact .notLower i (List.mem_flatMap.mpr ⟨fs, hfs, hi⟩) hn
  | undefN i hi hn =>
    exact .undefNonterminal i (Or.inl (List.mem_flatMap.mpr ⟨fs, hfs, hi⟩)) (by rw [← hdn]; exact hn)
  | undefT i hi hn =>
    exact .undefTerminal t i ht (List.mem_flatMap.mpr ⟨fs, hfs, hi⟩) (by rw [← hdt]; exact hn)

theorem itemsErr_truthful {f : File} {d : Defined} {t : TermEnum} {e : KErr}
    (ht : termEnums f = [t]) (hdn : d.nonterminals = nonterminalNames f)
    (hdt : d.terminals = t.variants.map (·.name.name)) (h : ItemsErr d f.items e) : Truthful f e := by
  cases h with
  | structUpper s hm hn =>
    exact .notUpper s.name.name _ (List.mem_flatMap.mpr ⟨_, hm, by simp⟩) hn
  | structFs s e hm hf => exact fsErr_truthful ht hdn hdt (fieldset_mem_struct hm) hf
  | enumUpper en hm hn =>
    exact .notUpper en.name.name _ (List.mem_flatMap.mpr ⟨_, hm, by simp⟩) hn
  | vname en name p q hm hb => exact .variantNameClash en name p q (enum_mem hm) hb
  | vseq en seq p q hm hb => exact .variantSeqClash en seq p q (enum_mem hm) hb
  | variantUpper en v hm hv hn =>
    refine .notUpper v.name.name _ (List.mem_flatMap.mpr ⟨_, hm, ?_⟩) hn
    simp only [List.mem_cons, List.mem_map]
    exact Or.inr ⟨v, hv, rfl⟩
  | variantFs en v e hm hv hf => exact fsErr_truthful ht hdn hdt (fieldset_mem_variant hm hv) hf

/-! ### the theorem -/

/-- **C10, truthful rejection**: every error `validate_ast` returns names a rule the file really breaks,
with the positions of the offending occurrences -/
theorem validate_err_truthful {f : File} {e : KErr} (h : validateAst f = .err e) : Truthful f e := by
  unfold validateAst at h
  rcases bind_err h with h1 | ⟨te, h1, h2⟩
  · exact getTerminalEnum_err h1
  obtain ⟨t, hu⟩ : ∃ t, getUnvalidatedTerminalEnum f = .ok t := by
    unfold getTerminalEnum at h1
    obtain ⟨t, a, _⟩ := bind_ok h1
    exact ⟨t, a⟩
  have ht : termEnums f = [t] := terminal_unique hu
  have hpos := positions_res hu
  rcases bind_err h2 with h3 | ⟨nts, h3, h4⟩
  · -- get_nonterminals
    unfold getNonterminals at h3
    rcases bind_err h3 with h5 | ⟨d, h5, h6⟩
    · unfold getDefinedSymbols at h5
      rcases bind_err h5 with h7 | ⟨_, h7, h8⟩
      · exact hpos.2 e h7
      · rw [hu] at h8; cases h8
    · obtain ⟨t2, ht2, hdn, hdt⟩ := getDefinedSymbols_ok h5
      have : t2 = t := by
        have := terminal_unique hu
        rw [ht2] at this; injection this with a _
      subst this
      exact itemsErr_truthful ht hdn hdt (validateNonterminals_err d _ e h6)
  · rcases bind_err h4 with h5 | ⟨start, h5, h6⟩
    · -- get_start_symbol_name
      unfold getNonterminals at h3
      obtain ⟨d, h8, h9⟩ := bind_ok h3
      obtain ⟨_, hnames⟩ := validateNonterminals_ok d _ _ h9
      unfold getStartSymbolName at h5
      split at h5
      · rename_i hs; cases h5; exact .noStart hs
      · rename_i i hs
        split at h5
        · cases h5
        · rename_i hany
          cases h5
          refine .undefNonterminal i (Or.inr (by rw [startDecls_eq, hs]; exact List.mem_singleton.mpr rfl)) ?_
          intro hm
          apply hany
          rw [← itemNtNames_eq, ← hnames] at hm
          obtain ⟨n, hn, he⟩ := List.mem_map.mp hm
          exact List.any_eq_true.mpr ⟨n, hn, by simpa using he⟩
      · rename_i ss hne1 hne2
        cases h5
        have hlen : 2 ≤ (startDecls f).length := by
          rw [startDecls_eq]
          match hss : starts f with
          | [] => exact absurd hss hne1
          | [s] => exact absurd hss (hne2 s)
          | _ :: _ :: _ => simp
        exact .multiStart hlen
    · rcases bind_err h6 with h7 | ⟨_, h7, h8⟩
      · -- assert_there_are_no_top_level_name_clashes
        unfold assertNoTopLevelNameClashes at h7
        rcases bind_err h7 with h9 | ⟨seen, h9, h10⟩
        · exact hpos.2 e h9
        · rw [hu] at h10
          have h10 : (define seen t.name.name t.name.pos >>= fun _ => (pure () : Res Unit)) = .err e := h10
          rcases bind_err h10 with h11 | ⟨_, h11, h12⟩
          · obtain ⟨old, rfl, hs⟩ := define_err h11
            refine .nameClash t _ _ _ ht ?_
            have := before_of_clash (pos := t.name.pos) (rest := []) hs
            rw [hpos.1 seen h9] at this
            exact this
          · cases h12
      · cases h8

end Validate
end KikiVerif

namespace KikiVerif
namespace Validate
open Ast Text Spec

/-! ### every truthful error contradicts well-formedness (the two specifications agree) -/

theorem before_not_nodup {α β : Type} {l : List (α × β)} {a : α} {p q : β} (h : Before l (a, p) (a, q)) :
    ¬ (l.map (·.1)).Nodup := by
  obtain ⟨pre, mid, post, rfl⟩ := h
  intro hn
  simp only [List.map_append, List.map_cons, List.append_assoc] at hn
  have := (List.nodup_append.mp hn).2.1
  rw [List.cons_append, List.nodup_cons] at this
  exact this.1 (by simp)

theorem topDefs_names (f : File) (t : TermEnum) :
    (topDefs f t).map (·.1) = nonterminalNames f ++ t.variants.map (·.name.name) ++ [t.name.name] := by
  unfold topDefs ntDefs nonterminalNames
  simp only [List.map_append, List.map_map, List.map_cons, List.map_nil]
  congr 2
  induction f.items with
  | nil => rfl
  | cons it items ih =>
    cases it <;> simp [List.filterMap_cons, ih]

theorem truthful_not_wellFormed {f : File} {e : KErr} (h : Truthful f e) : ¬ WellFormed f := by
  intro wf
  have single : ∀ t t', termEnums f = [t] → termEnums f = [t'] → t' = t := by
    intro t t' a b; rw [a] at b; injection b with c _; exact c.symm
  cases h with
  | noStart h => obtain ⟨s, hs⟩ := wf.oneStart; rw [hs] at h; cases h
  | multiStart h => obtain ⟨s, hs⟩ := wf.oneStart; rw [hs] at h; simp at h
  | noTerminal h => obtain ⟨s, hs⟩ := wf.oneTerminal; rw [hs] at h; cases h
  | multiTerminal h => obtain ⟨s, hs⟩ := wf.oneTerminal; rw [hs] at h; simp at h
  | notUpper name pos hm hn =>
    apply hn
    unfold upperOccs at hm
    obtain ⟨it, hit, hmem⟩ := List.mem_flatMap.mp hm
    cases it with
    | start i => simp at hmem
    | struct s =>
      simp only [List.mem_singleton, Prod.mk.injEq] at hmem
      obtain ⟨rfl, _⟩ := hmem
      exact wf.upperTypes _ (List.mem_filterMap.mpr ⟨_, hit, rfl⟩)
    | enum en =>
      simp only [List.mem_cons, Prod.mk.injEq, List.mem_map] at hmem
      rcases hmem with ⟨rfl, _⟩ | ⟨v, hv, rfl, _⟩
      · exact wf.upperTypes _ (List.mem_filterMap.mpr ⟨_, hit, rfl⟩)
      · exact wf.upperVariants en (enum_mem hit) v hv
    | terminal t =>
      obtain ⟨t', ht'⟩ := wf.oneTerminal
      have : t ∈ termEnums f := List.mem_filterMap.mpr ⟨_, hit, rfl⟩
      rw [ht'] at this
      have := List.mem_singleton.mp this; subst this
      obtain ⟨u1, u2⟩ := wf.upperTerminals t ht'
      simp only [List.mem_cons, Prod.mk.injEq, List.mem_map] at hmem
      rcases hmem with ⟨rfl, _⟩ | ⟨v, hv, rfl, _⟩
      · exact u1
      · exact u2 v hv
  | notLower i hm hn =>
    apply hn
    obtain ⟨fs, hfs, hi⟩ := List.mem_flatMap.mp hm
    refine wf.lowerFields fs hfs _ ?_
    cases fs with
    | empty => simp [fieldsetIdents] at hi
    | tuple _ => simp [fieldsetIdents] at hi
    | named flds =>
      simp only [fieldsetIdents, List.mem_filterMap] at hi
      obtain ⟨fld, hfld, hi⟩ := hi
      simp only [namedFieldNames, List.mem_filterMap]
      refine ⟨fld, hfld, ?_⟩
      cases hname : fld.name with
      | us p => rw [hname] at hi; cases hi
      | id j => rw [hname] at hi; cases hi; rfl
  | nameClash t name p q ht hb =>
    have := wf.topLevelDistinct t ht
    rw [← topDefs_names] at this
    exact before_not_nodup hb this
  | variantNameClash en name p q he hb =>
    have := wf.variantNames en he
    apply before_not_nodup hb
    rw [List.map_map]; exact this
  | variantSeqClash en seq p q he hb =>
    have := wf.variantSeqs en he
    apply before_not_nodup hb
    rw [List.map_map]; exact this
  | undefNonterminal i hm hn =>
    apply hn
    rcases hm with hm | hm
    · obtain ⟨t, ht⟩ := wf.oneTerminal
      obtain ⟨fs, hfs, hs⟩ := List.mem_flatMap.mp hm
      exact wf.refsDefined t ht fs hfs _ hs
    · obtain ⟨s, hs⟩ := wf.oneStart
      rw [hs] at hm
      have := List.mem_singleton.mp hm; subst this
      exact wf.startDefined _ hs
  | undefTerminal t i ht hm hn =>
    apply hn
    obtain ⟨fs, hfs, hs⟩ := List.mem_flatMap.mp hm
    exact wf.refsDefined t ht fs hfs _ hs

/-! ### validation never panics, hence accepts every well-formed file -/

def NP {α : Type} (x : Res α) : Prop := ∀ s, x ≠ .panic s

theorem NP.ok {α : Type} (a : α) : NP (Res.ok a) := fun _ h => by cases h
theorem NP.pure {α : Type} (a : α) : NP (Pure.pure a : Res α) := fun _ h => by cases h
theorem NP.err {α : Type} (e : KErr) : NP (Res.err e : Res α) := fun _ h => by cases h
theorem NP.bind {α β : Type} {x : Res α} {g : α → Res β} (hx : NP x) (hg : ∀ a, NP (g a)) : NP (x >>= g) := by
  intro s h
  cases x with
  | ok a => exact hg a s h
  | err e => cases h
  | panic s' => exact hx s' rfl

theorem np_upper (name : Str) (pos : Nat) : NP (validateUppercaseStart name pos) := by
  unfold validateUppercaseStart; split
  · exact NP.ok _
  · split
    · exact NP.ok _
    · exact NP.err _

theorem np_lower (name : Str) (pos : Nat) : NP (assertLowercaseStart name pos) := by
  unfold assertLowercaseStart; split
  · exact NP.ok _
  · split
    · exact NP.ok _
    · exact NP.err _

theorem np_unvalidated (f : File) : NP (getUnvalidatedTerminalEnum f) := by
  unfold getUnvalidatedTerminalEnum; split
  · exact NP.err _
  · exact NP.ok _
  · exact NP.err _

theorem np_terminalVariants : ∀ vs, NP (validateTerminalVariants vs)
  | [] => NP.ok _
  | v :: vs => by
    simp only [validateTerminalVariants]
    exact NP.bind (np_upper _ _) fun _ => NP.bind (np_terminalVariants vs) fun _ => NP.pure _

theorem np_getTerminalEnum (f : File) : NP (getTerminalEnum f) := by
  unfold getTerminalEnum
  exact NP.bind (np_unvalidated f) fun _ => NP.bind (np_upper _ _) fun _ =>
    NP.bind (np_terminalVariants _) fun _ => NP.pure _

theorem np_define (seen : Seen) (name : Str) (pos : Nat) : NP (define seen name pos) := by
  unfold define; split
  · exact NP.err _
  · exact NP.ok _

theorem np_defineNonterminals : ∀ items seen, NP (defineNonterminals seen items)
  | [], seen => NP.ok _
  | .struct s :: rest, seen => by
    simp only [defineNonterminals]
    exact NP.bind (np_define _ _ _) fun _ => np_defineNonterminals rest _
  | .enum e :: rest, seen => by
    simp only [defineNonterminals]
    exact NP.bind (np_define _ _ _) fun _ => np_defineNonterminals rest _
  | .start _ :: rest, seen => by simp only [defineNonterminals]; exact np_defineNonterminals rest _
  | .terminal _ :: rest, seen => by simp only [defineNonterminals]; exact np_defineNonterminals rest _

theorem np_defineTerminalVariants : ∀ vs seen, NP (defineTerminalVariants seen vs)
  | [], seen => NP.ok _
  | v :: rest, seen => by
    simp only [defineTerminalVariants]
    exact NP.bind (np_define _ _ _) fun _ => np_defineTerminalVariants rest _

theorem np_positions (f : File) : NP (getDefinedSymbolPositions f) := by
  unfold getDefinedSymbolPositions
  exact NP.bind (np_defineNonterminals _ _) fun _ => NP.bind (np_unvalidated f) fun _ =>
    np_defineTerminalVariants _ _

theorem np_definedSymbols (f : File) : NP (getDefinedSymbols f) := by
  unfold getDefinedSymbols
  exact NP.bind (np_positions f) fun _ => NP.bind (np_unvalidated f) fun _ => NP.pure _

theorem np_symbol (d : Defined) (s : SymId) : NP (assertSymbolIsDefined d s) := by
  cases s <;> simp only [assertSymbolIsDefined] <;> split <;> first | exact NP.ok _ | exact NP.err _

theorem np_namedFields (d : Defined) : ∀ fs, NP (assertNamedFields d fs)
  | [] => NP.ok _
  | fld :: fs => by
    simp only [assertNamedFields]
    split
    · exact NP.bind (np_symbol d _) fun _ => np_namedFields d fs
    · exact NP.bind (np_lower _ _) fun _ => NP.bind (np_symbol d _) fun _ => np_namedFields d fs

theorem np_tupleFields (d : Defined) : ∀ fs, NP (assertTupleFields d fs)
  | [] => NP.ok _
  | fld :: fs => by
    simp only [assertTupleFields]
    exact NP.bind (np_symbol d _) fun _ => np_tupleFields d fs

theorem np_fieldset (d : Defined) (fs : Fieldset) : NP (assertFieldsetIsValid d fs) := by
  cases fs
  · exact NP.ok _
  · exact np_namedFields d _
  · exact np_tupleFields d _

theorem np_uniqueNames : ∀ vs seen, NP (assertUniqueNames seen vs)
  | [], seen => NP.ok _
  | v :: vs, seen => by
    simp only [assertUniqueNames]; split
    · exact NP.err _
    · exact np_uniqueNames vs _

theorem np_uniqueSeqs : ∀ vs seen, NP (assertUniqueSeqs seen vs)
  | [], seen => NP.ok _
  | v :: vs, seen => by
    simp only [assertUniqueSeqs]; split
    · exact NP.err _
    · exact np_uniqueSeqs vs _

theorem np_eachVariant (d : Defined) : ∀ vs, NP (assertEachVariant d vs)
  | [] => NP.ok _
  | v :: vs => by
    simp only [assertEachVariant]
    exact NP.bind (np_upper _ _) fun _ => NP.bind (np_fieldset d _) fun _ => np_eachVariant d vs

theorem np_validateNonterminals (d : Defined) : ∀ items, NP (validateNonterminals d items)
  | [] => NP.ok _
  | .struct s :: rest => by
    simp only [validateNonterminals]
    exact NP.bind (np_upper _ _) fun _ => NP.bind (np_fieldset d _) fun _ =>
      NP.bind (np_validateNonterminals d rest) fun _ => NP.pure _
  | .enum e :: rest => by
    simp only [validateNonterminals]
    exact NP.bind (np_upper _ _) fun _ => NP.bind (np_uniqueNames _ _) fun _ => NP.bind (np_uniqueSeqs _ _) fun _ =>
      NP.bind (np_eachVariant d _) fun _ => NP.bind (np_validateNonterminals d rest) fun _ => NP.pure _
  | .start _ :: rest => by simp only [validateNonterminals]; exact np_validateNonterminals d rest
  | .terminal _ :: rest => by simp only [validateNonterminals]; exact np_validateNonterminals d rest

theorem np_start (f : File) (nts : List VFile.Nonterminal) : NP (getStartSymbolName f nts) := by
  unfold getStartSymbolName; split
  · exact NP.err _
  · split
    · exact NP.ok _
    · exact NP.err _
  · exact NP.err _

theorem np_noClashes (f : File) : NP (assertNoTopLevelNameClashes f) := by
  unfold assertNoTopLevelNameClashes
  exact NP.bind (np_positions f) fun _ => NP.bind (np_unvalidated f) fun _ =>
    NP.bind (np_define _ _ _) fun _ => NP.pure _

/-- `validate_ast` has no panicking path -/
theorem validate_no_panic (f : File) : NP (validateAst f) := by
  unfold validateAst
  exact NP.bind (np_getTerminalEnum f) fun _ =>
    NP.bind (NP.bind (np_definedSymbols f) fun _ => np_validateNonterminals _ _) fun _ =>
    NP.bind (np_start f _) fun _ => NP.bind (np_noClashes f) fun _ => NP.pure _

/-- **completeness of validation**: every well-formed file is accepted -/
theorem wellFormed_validate_ok {f : File} (wf : WellFormed f) : ∃ v, validateAst f = .ok v := by
  cases h : validateAst f with
  | ok v => exact ⟨v, rfl⟩
  | err e => exact absurd wf (truthful_not_wellFormed (validate_err_truthful h))
  | panic s => exact absurd h (validate_no_panic f s)

end Validate
end KikiVerif
