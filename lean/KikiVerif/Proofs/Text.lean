/-
Lemmas about byte offsets and slices.
-/
import KikiVerif.Model.Text

namespace KikiVerif
namespace Text

theorem clen_pos (c : Char) : 0 < clen c := by
  unfold clen
  have := Char.utf8Size_pos c
  exact this

@[simp] theorem blen_nil : blen [] = 0 := rfl
@[simp] theorem blen_cons (c : Char) (cs : Str) : blen (c :: cs) = clen c + blen cs := rfl

@[simp] theorem blen_append (a b : Str) : blen (a ++ b) = blen a + blen b := by
  induction a with
  | nil => simp
  | cons c cs ih => simp [ih]; omega

theorem dropBytes_append (pre r : Str) : dropBytes (pre ++ r) (blen pre) = some r := by
  induction pre with
  | nil => cases r <;> simp [dropBytes]
  | cons c cs ih =>
    have hp := clen_pos c
    have e : blen (c :: cs) = (clen c + blen cs - 1) + 1 := by simp; omega
    rw [List.cons_append, e, dropBytes]
    have h1 : clen c ≤ clen c + blen cs - 1 + 1 := by omega
    have h2 : clen c + blen cs - 1 + 1 - clen c = blen cs := by omega
    simp only [h1, if_true, h2]
    exact ih

theorem takeBytes_append (w post : Str) : takeBytes (w ++ post) (blen w) = some w := by
  induction w with
  | nil => cases post <;> simp [takeBytes]
  | cons c cs ih =>
    have hp := clen_pos c
    have e : blen (c :: cs) = (clen c + blen cs - 1) + 1 := by simp; omega
    rw [List.cons_append, e, takeBytes]
    have h1 : clen c ≤ clen c + blen cs - 1 + 1 := by omega
    have h2 : clen c + blen cs - 1 + 1 - clen c = blen cs := by omega
    simp only [h1, if_true, h2, ih, Option.map_some]

/-- the slice of `pre ++ w ++ post` between the byte offsets of `w` is `w` -/
theorem slice_mid (pre w post : Str) :
    sliceBytes (pre ++ w ++ post) (blen pre) (blen pre + blen w) = some w := by
  unfold sliceBytes
  have h : blen pre ≤ blen pre + blen w := by omega
  simp only [h, if_true, List.append_assoc, dropBytes_append, Option.bind_some]
  have : blen pre + blen w - blen pre = blen w := by omega
  rw [this]
  exact takeBytes_append w post

end Text
end KikiVerif
