/-
The scanner is translation invariant: scanning the same characters at a different byte offset gives the same
tokens with all positions moved by the difference (and the same lexical error, moved likewise).  Hence what
precedes a token boundary — in particular how much whitespace or how many comments — influences the rest of the
scan only through positions.
-/
import KikiVerif.Proofs.Positions
import KikiVerif.Spec.Unparse

set_option linter.unusedSimpArgs false
set_option linter.unusedVariables false

namespace KikiVerif
namespace Spec
open Text Tokenize

def shiftTok (d : Nat) : Token → Token
  | .underscore p => .underscore (p + d)
  | .ident n p => .ident n (p + d)
  | .termIdent n p => .termIdent n (p + d)
  | .attr s p => .attr s (p + d)
  | .startKw p => .startKw (p + d)
  | .structKw p => .structKw (p + d)
  | .enumKw p => .enumKw (p + d)
  | .terminalKw p => .terminalKw (p + d)
  | .colon p => .colon (p + d)
  | .dcolon p => .dcolon (p + d)
  | .comma p => .comma (p + d)
  | .lparen p => .lparen (p + d)
  | .rparen p => .rparen (p + d)
  | .lcurly p => .lcurly (p + d)
  | .rcurly p => .rcurly (p + d)
  | .langle p => .langle (p + d)
  | .rangle p => .rangle (p + d)

def shiftStep (d : Nat) : Step → Step
  | .done => .done
  | .skip k => .skip k
  | .emit t k => .emit (shiftTok d t) k
  | .bad j c => .bad (j + d) c

def shiftRes (d : Nat) : Res (List Token) → Res (List Token)
  | .ok ts => .ok (ts.map (shiftTok d))
  | .err (.lex j c) => .err (.lex (j + d) c)
  | r => r

theorem erase_shiftTok (d : Nat) (t : Token) : erase (shiftTok d t) = erase t := by
  cases t <;> rfl

theorem reserved_shift (w : Str) (p d : Nat) : reserved w (p + d) = (reserved w p).map (shiftTok d) := by
  unfold reserved
  split
  · rfl
  · split
    · rfl
    · split
      · rfl
      · split
        · rfl
        · split <;> rfl

theorem punct_shift (c : Char) (p d : Nat) : punct c (p + d) = (punct c p).map (shiftTok d) := by
  unfold punct
  split <;> rfl

theorem attrBody_shift : ∀ (cs : Str) (i d : Nat) (st : List Char),
    attrBody cs (i + d) st =
      match attrBody cs i st with
      | .done b r => .done b r
      | .bad j c => .bad (j + d) c := by
  intro cs
  induction cs with
  | nil => intro i d st; simp [attrBody]
  | cons c cs ih =>
    intro i d st
    have e : i + d + clen c = i + clen c + d := by omega
    simp only [attrBody]
    split
    · rw [e, ih]
      cases attrBody cs (i + clen c) (c :: st) <;> rfl
    · split
      · cases st with
        | nil => rfl
        | cons o st' =>
          simp only
          split
          · split
            · rfl
            · rw [e, ih]
              cases attrBody cs (i + clen c) st' <;> rfl
          · rfl
      · split
        · rfl
        · rw [e, ih]
          cases attrBody cs (i + clen c) st <;> rfl

/-- one step of the scanner at offset `i + d` is the step at offset `i`, shifted -/
theorem next_shift (cs : Str) (i d : Nat) : next cs (i + d) = shiftStep d (next cs i) := by
  cases cs with
  | nil => rfl
  | cons c rest =>
    unfold next
    simp only
    by_cases hw : isWhitespace c = true
    · rw [if_pos hw, if_pos hw]; rfl
    rw [if_neg hw, if_neg hw]
    by_cases hsl : c = '/'
    · rw [if_pos hsl, if_pos hsl]
      cases rest with
      | nil => rfl
      | cons x r => simp only; split <;> rfl
    rw [if_neg hsl, if_neg hsl]
    by_cases hid : isIdentStart c = true
    · rw [if_pos hid, if_pos hid]
      simp only [shiftStep, reserved_shift]
      cases reserved (c :: (span isIdentChar rest).1) i <;> rfl
    rw [if_neg hid, if_neg hid]
    by_cases hdol : c = '$'
    · rw [if_pos hdol, if_pos hdol]
      cases rest with
      | nil => rfl
      | cons x r =>
        simp only
        split
        · split
          · simp only [shiftStep]
            congr 1
            omega
          · simp only [shiftStep, shiftTok]
            congr 2
            omega
        · rfl
    rw [if_neg hdol, if_neg hdol]
    by_cases hcol : c = ':'
    · rw [if_pos hcol, if_pos hcol]
      cases rest with
      | nil => rfl
      | cons x r => simp only; split <;> rfl
    rw [if_neg hcol, if_neg hcol]
    by_cases hhash : c = '#'
    · rw [if_pos hhash, if_pos hhash]
      cases rest with
      | nil => rfl
      | cons x r =>
        simp only
        split
        · have e : i + d + 2 = i + 2 + d := by omega
          rw [e, attrBody_shift]
          cases attrBody r (i + 2) ['['] <;> rfl
        · rfl
    rw [if_neg hhash, if_neg hhash]
    rw [punct_shift]
    cases punct c i <;> rfl

/-- **translation invariance of the scanner** -/
theorem scanFrom_shift : ∀ (n : Nat) (cs : Str) (i d : Nat), cs.length ≤ n →
    scanFrom cs (i + d) = shiftRes d (scanFrom cs i) := by
  intro n
  induction n with
  | zero =>
    intro cs i d h
    have : cs = [] := List.eq_nil_of_length_eq_zero (by omega)
    subst this
    rw [scanFrom_done rfl, scanFrom_done rfl]; rfl
  | succ n ih =>
    intro cs i d h
    have hn := next_shift cs i d
    cases hs : next cs i with
    | done =>
      rw [hs] at hn
      rw [scanFrom_done hs, scanFrom_done hn]; rfl
    | bad j c =>
      rw [hs] at hn
      rw [scanFrom_bad hs, scanFrom_bad hn]; rfl
    | skip k =>
      rw [hs] at hn
      have hk := next_skip_len hs
      rw [scanFrom_skip hs, scanFrom_skip hn]
      have e : i + d + blen (cs.take (k + 1)) = i + blen (cs.take (k + 1)) + d := by omega
      rw [e]
      exact ih _ _ d (by simp; omega)
    | emit t k =>
      rw [hs] at hn
      obtain ⟨_, _, hk, _⟩ := next_emit_text hs
      rw [scanFrom_emit hs, scanFrom_emit hn]
      have e : i + d + blen (cs.take (k + 1)) = i + blen (cs.take (k + 1)) + d := by omega
      rw [e, ih _ _ d (by simp; omega)]
      cases scanFrom (cs.drop (k + 1)) (i + blen (cs.take (k + 1))) with
      | ok ts => rfl
      | err e' => cases e' <;> rfl
      | panic s => rfl

/-- the erased token sequence (kinds and payloads, no positions) does not depend on the offset -/
theorem scanFrom_erase_offset (cs : Str) (i j : Nat) :
    (match scanFrom cs i with | .ok ts => some (ts.map erase) | _ => none) =
    (match scanFrom cs j with | .ok ts => some (ts.map erase) | _ => none) := by
  have key : ∀ i d, (match scanFrom cs (i + d) with | .ok ts => some (ts.map erase) | _ => none) =
      (match scanFrom cs i with | .ok ts => some (ts.map erase) | _ => none) := by
    intro i d
    rw [scanFrom_shift cs.length cs i d (Nat.le_refl _)]
    cases scanFrom cs i with
    | ok ts => simp only [shiftRes, List.map_map]; congr 1; apply List.map_congr_left; intro t _; exact erase_shiftTok d t
    | err e => cases e <;> rfl
    | panic s => rfl
  rcases Nat.le_total i j with h | h
  · obtain ⟨d, rfl⟩ := Nat.exists_eq_add_of_le h
    exact (key i d).symm
  · obtain ⟨d, rfl⟩ := Nat.exists_eq_add_of_le h
    exact key j d

end Spec
end KikiVerif

namespace KikiVerif
namespace Spec
open Text Tokenize

/-- leading whitespace is skipped: the scan continues behind it, at the offset after it -/
theorem scanFrom_ws_prefix : ∀ (ws cs : Str) (i : Nat), (∀ c ∈ ws, isWhitespace c = true) →
    scanFrom (ws ++ cs) i = scanFrom cs (i + blen ws) := by
  intro ws
  induction ws with
  | nil => intro cs i _; simp
  | cons c ws ih =>
    intro cs i h
    have hn := next_whitespace c (ws ++ cs) i (h c List.mem_cons_self)
    rw [List.cons_append, scanFrom_skip hn]
    simp only [List.drop_succ_cons, List.drop_zero, List.take_succ_cons, List.take_zero, blen_cons, blen_nil, Nat.add_zero]
    rw [ih cs (i + clen c) (fun x hx => h x (List.mem_cons_of_mem _ hx))]
    congr 1
    omega

/-- **leading layout is irrelevant up to positions**: whatever whitespace precedes the rest of the input, and at
whatever offset, the scanner returns the same token kinds and payloads for the rest -/
theorem leading_whitespace_irrelevant (ws cs : Str) (i j : Nat) (h : ∀ c ∈ ws, isWhitespace c = true) :
    (match scanFrom (ws ++ cs) i with | .ok ts => some (ts.map erase) | _ => none) =
    (match scanFrom cs j with | .ok ts => some (ts.map erase) | _ => none) := by
  rw [scanFrom_ws_prefix ws cs i h]
  exact scanFrom_erase_offset cs _ j

end Spec
end KikiVerif
