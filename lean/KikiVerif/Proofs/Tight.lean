/-
A second executable validator: `tightB g nN C = true → CoreSound g (mkAuto C) ∧ NonEmpty (mkAuto C)`
(given the length facts `validB` establishes).  `CoreSound` — every item of a state lies in the inductive
closure of the state's kernel — and `NonEmpty` are what the "consumed input is a viable prefix" theorem
(`LR/Extend.lean`, property C03) needs on top of `Sound` and `Complete`.
-/
import KikiVerif.Proofs.Valid
import KikiVerif.LR.Extend

namespace KikiVerif
namespace Valid
open LR

abbrev Core := Option Nat × Nat

/-- cores demanded by the closure step from one core: `[A → α·Bβ]` demands `[B → ·γ]` for every rule of `B` -/
def demandedBy (g : Grammar Nat Nat) (c : Core) : List Core :=
  match g.rhsOf c.1 with
  | none => []
  | some rhs =>
    match rhs[c.2]? with
    | some (.n B) => (g.rules.zipIdx.filter fun p => p.1.lhs == B).map fun p => (some p.2, 0)
    | _ => []

def addNew (acc : List Core) (cs : List Core) : List Core :=
  cs.foldl (fun acc c => if acc.contains c then acc else acc ++ [c]) acc

def closeStep (g : Grammar Nat Nat) (cores : List Core) : List Core := addNew cores (cores.flatMap (demandedBy g))

def closeCores (g : Grammar Nat Nat) : Nat → List Core → List Core
  | 0, cores => cores
  | n + 1, cores => closeCores g n (closeStep g cores)

/-- kernel cores of the target of `s --X-->`, computed from the source -/
def kernelCores (g : Grammar Nat Nat) (C : Cert) (s : Nat) (X : Sym Nat Nat) : List Core :=
  (C.items s).filterMap fun it =>
    match g.rhsOf it.rule with
    | none => none
    | some rhs => if rhs[it.dot]? == some X then some (it.rule, it.dot + 1) else none

def coresWithin (items : List It) (cores : List Core) : Bool := items.all fun it => cores.contains (it.rule, it.dot)

def tightTransB (g : Grammar Nat Nat) (C : Cert) (s : Nat) (X : Sym Nat Nat) : Bool :=
  match C.delta s X with
  | none => true
  | some t =>
    !(C.items t).isEmpty && coresWithin (C.items t) (closeCores g (g.rules.length + 1) (kernelCores g C s X))

def tightB (g : Grammar Nat Nat) (nN : Nat) (C : Cert) : Bool :=
  coresWithin (C.items C.start) (closeCores g (g.rules.length + 1) [(none, 0)]) &&
  (allStates C).all fun s => (allSyms C nN).all (tightTransB g C s)

/-! ### soundness -/

theorem mem_addNew {acc cs : List Core} {c : Core} (h : c ∈ addNew acc cs) : c ∈ acc ∨ c ∈ cs := by
  unfold addNew at h
  induction cs generalizing acc with
  | nil => exact Or.inl h
  | cons x xs ih =>
    simp only [List.foldl_cons] at h
    rcases ih h with h1 | h1
    · split at h1
      · exact Or.inl h1
      · rcases List.mem_append.mp h1 with h2 | h2
        · exact Or.inl h2
        · exact Or.inr (by simp at h2; simp [h2])
    · exact Or.inr (List.mem_cons_of_mem _ h1)

theorem demanded_reach {g : Grammar Nat Nat} {K : Option Nat → Nat → Prop} {c c' : Core}
    (hc : CoreReach g K c.1 c.2) (h : c' ∈ demandedBy g c) : CoreReach g K c'.1 c'.2 := by
  unfold demandedBy at h
  split at h
  · simp at h
  · rename_i rhs hr
    split at h
    · rename_i B hget
      simp only [List.mem_map, List.mem_filter, beq_iff_eq] at h
      obtain ⟨⟨rule, j⟩, ⟨hm, hl⟩, rfl⟩ := h
      simp only at hl
      have hj : g.rules[j]? = some rule := by
        have := List.mem_zipIdx hm
        simp at this
        exact List.getElem?_eq_some_iff.mpr ⟨this.1, this.2.symm⟩
      subst hl
      exact .step hc hr hget hj
    · simp at h

theorem closeStep_reach {g : Grammar Nat Nat} {K : Option Nat → Nat → Prop} {cores : List Core}
    (h : ∀ c ∈ cores, CoreReach g K c.1 c.2) : ∀ c ∈ closeStep g cores, CoreReach g K c.1 c.2 := by
  intro c hc
  rcases mem_addNew hc with h1 | h1
  · exact h c h1
  · obtain ⟨c0, hc0, hd⟩ := List.mem_flatMap.mp h1
    exact demanded_reach (h c0 hc0) hd

theorem closeCores_reach {g : Grammar Nat Nat} {K : Option Nat → Nat → Prop} :
    ∀ n (cores : List Core), (∀ c ∈ cores, CoreReach g K c.1 c.2) →
      ∀ c ∈ closeCores g n cores, CoreReach g K c.1 c.2 := by
  intro n
  induction n with
  | zero => intro cores h; exact h
  | succ n ih => intro cores h; exact ih _ (closeStep_reach h)

theorem coresWithin_mem {items : List It} {cores : List Core} (h : coresWithin items cores = true) {r d a}
    (hm : (⟨r, d, a⟩ : It) ∈ items) : (r, d) ∈ cores := by
  unfold coresWithin at h
  rw [List.all_eq_true] at h
  have := h _ hm
  exact List.contains_iff_mem.mp this

theorem tightB_sound {g : Grammar Nat Nat} {nN : Nat} {C : Cert} (h : tightB g nN C = true)
    (hlen : C.actions.length = C.states.length) (hglen : C.gotos.length = C.states.length)
    (hrows : ∀ row ∈ C.gotos, row.length ≤ nN) :
    CoreSound g (mkAuto C) ∧ NonEmpty (mkAuto C) := by
  unfold tightB at h
  simp only [Bool.and_eq_true, List.all_eq_true] at h
  obtain ⟨h0, hall⟩ := h
  have htrans : ∀ s X t, C.delta s X = some t →
      (C.items t).isEmpty = false ∧
      coresWithin (C.items t) (closeCores g (g.rules.length + 1) (kernelCores g C s X)) = true := by
    intro s X t hd
    obtain ⟨hs, hX⟩ := delta_some_mem hd hlen hglen hrows
    have := hall s hs X hX
    unfold tightTransB at this
    rw [hd] at this
    simpa using this
  constructor
  · constructor
    · intro r d a hit
      have := coresWithin_mem h0 hit
      refine closeCores_reach (K := fun r d => r = none ∧ d = 0) _ _ ?_ _ this
      intro c hc
      simp only [List.mem_singleton] at hc
      subst hc
      exact .kernel ⟨rfl, rfl⟩
    · intro s X t hd r d a hit
      have := coresWithin_mem (htrans s X t hd).2 hit
      refine closeCores_reach _ _ ?_ _ this
      intro c hc
      unfold kernelCores at hc
      rw [List.mem_filterMap] at hc
      obtain ⟨⟨r', d', a'⟩, hm, he⟩ := hc
      simp only at he
      split at he
      · cases he
      · rename_i rhs hr
        split at he
        · rename_i hget
          cases he
          exact .kernel ⟨d', a', rhs, rfl, hm, hr, by simpa using hget⟩
        · cases he
  · intro s X t hd
    have := (htrans s X t hd).1
    cases hitems : C.items t with
    | nil => rw [hitems] at this; simp at this
    | cons it _ => exact ⟨it, by show it ∈ C.items t; rw [hitems]; exact List.mem_cons_self⟩

/-! ### productivity, executable -/

def symProd (prod : List Nat) : Sym Nat Nat → Bool
  | .t _ => true
  | .n B => prod.contains B

def prodStep (g : Grammar Nat Nat) (prod : List Nat) : List Nat :=
  prod ++ (g.rules.filter fun r => r.rhs.all (symProd prod)).map (·.lhs)

def prodIter (g : Grammar Nat Nat) : Nat → List Nat → List Nat
  | 0, prod => prod
  | n + 1, prod => prodIter g n (prodStep g prod)

def rhsNts : List (Sym Nat Nat) → List Nat
  | [] => []
  | .n B :: rest => B :: rhsNts rest
  | .t _ :: rest => rhsNts rest

/-- every nonterminal that can occur in a sentential form derives some token sequence -/
def productiveB (g : Grammar Nat Nat) : Bool :=
  let prod := prodIter g (g.rules.length + 1) []
  (g.start :: g.rules.flatMap fun r => rhsNts r.rhs).all prod.contains

theorem trees_of_symProd {P : Type} [Inhabited P] {g : Grammar Nat Nat} {prod : List Nat}
    (hinv : ∀ B ∈ prod, ∃ t : Tree Nat P, WF g t (.n B)) :
    ∀ rhs : List (Sym Nat Nat), rhs.all (symProd prod) = true → ∃ ts : List (Tree Nat P), WFL g ts rhs := by
  intro rhs
  induction rhs with
  | nil => intro _; exact ⟨[], .nil⟩
  | cons X rest ih =>
    intro h
    simp only [List.all_cons, Bool.and_eq_true] at h
    obtain ⟨ts, hts⟩ := ih h.2
    cases X with
    | t a => exact ⟨.leaf ⟨a, default⟩ :: ts, .cons (.leaf ⟨a, default⟩) hts⟩
    | n B =>
      obtain ⟨t, ht⟩ := hinv B (List.contains_iff_mem.mp h.1)
      exact ⟨t :: ts, .cons ht hts⟩

theorem prodStep_inv {P : Type} [Inhabited P] {g : Grammar Nat Nat} {prod : List Nat}
    (hinv : ∀ B ∈ prod, ∃ t : Tree Nat P, WF g t (.n B)) :
    ∀ B ∈ prodStep g prod, ∃ t : Tree Nat P, WF g t (.n B) := by
  intro B hB
  unfold prodStep at hB
  rcases List.mem_append.mp hB with h | h
  · exact hinv B h
  · simp only [List.mem_map, List.mem_filter] at h
    obtain ⟨rule, ⟨hmem, hall⟩, rfl⟩ := h
    obtain ⟨ts, hts⟩ := trees_of_symProd hinv rule.rhs hall
    obtain ⟨j, hj, hget⟩ := List.getElem_of_mem hmem
    exact ⟨.node j ts, .node j rule ts (by rw [List.getElem?_eq_getElem hj, hget]) hts⟩

theorem prodIter_inv {P : Type} [Inhabited P] {g : Grammar Nat Nat} :
    ∀ n (prod : List Nat), (∀ B ∈ prod, ∃ t : Tree Nat P, WF g t (.n B)) →
      ∀ B ∈ prodIter g n prod, ∃ t : Tree Nat P, WF g t (.n B) := by
  intro n
  induction n with
  | zero => intro prod h; exact h
  | succ n ih => intro prod h; exact ih _ (prodStep_inv h)

theorem mem_rhsNts {B : Nat} : ∀ {rhs : List (Sym Nat Nat)}, Sym.n B ∈ rhs → B ∈ rhsNts rhs := by
  intro rhs
  induction rhs with
  | nil => intro h; cases h
  | cons X rest ih =>
    intro h
    cases X with
    | t a =>
      simp only [rhsNts]
      rcases List.mem_cons.mp h with h | h
      · cases h
      · exact ih h
    | n C =>
      simp only [rhsNts]
      rcases List.mem_cons.mp h with h | h
      · injection h with e; subst e; exact List.mem_cons_self
      · exact List.mem_cons_of_mem _ (ih h)

theorem productiveB_sound {P : Type} [Inhabited P] {g : Grammar Nat Nat} (h : productiveB g = true) :
    Productive g P := by
  unfold productiveB at h
  simp only [List.all_eq_true] at h
  intro B hocc
  have hmem : B ∈ g.start :: g.rules.flatMap fun r => rhsNts r.rhs := by
    rcases hocc with rfl | ⟨rule, hr, hB⟩
    · exact List.mem_cons_self
    · exact List.mem_cons_of_mem _ (List.mem_flatMap.mpr ⟨rule, hr, mem_rhsNts hB⟩)
  have := List.contains_iff_mem.mp (h B hmem)
  exact prodIter_inv _ [] (fun _ h => by cases h) B this

/-- everything the C03 theorem needs, from the two validators -/
theorem valid_tight_first_offending {P : Type} [Inhabited P] {g : Grammar Nat Nat} {nN : Nat} {C : Cert}
    (hv : validB g nN C = true) (ht : tightB g nN C = true) (hp : productiveB g = true)
    {w : List (Tok Nat P)} {c : Cfg Nat P} (hrun : Steps g (mkAuto C) ⟨[C.start], [], w⟩ c)
    (herr : step g (mkAuto C) c = .err) :
    ∃ pre, w = pre ++ c.rest ∧
      (∃ suf t, WF g t (.n g.start) ∧ t.yield = pre ++ suf) ∧
      (∀ a r, c.rest = a :: r → ∀ r' t, WF g t (.n g.start) → t.yield ≠ pre ++ a :: r') ∧
      (c.rest = [] → ∀ t, WF g t (.n g.start) → t.yield ≠ w) := by
  have hk := checked_of_validB hv
  obtain ⟨hs, hc⟩ := validB_sound (P := P) hv
  obtain ⟨hcs, hne⟩ := tightB_sound ht hk.alen hk.glen hk.grows
  exact first_offending hs hc hcs hne (productiveB_sound hp) hrun herr

end Valid
end KikiVerif
