/-
Putting the stages together: for every coded grammar, whenever `validated_ast_to_machine` and `machine_to_table`
succeed, the machine and table form an automaton that passes every check of the validator (`Checked`), hence is
`Sound ∧ Complete` — for every grammar, not per grammar.
-/
import KikiVerif.Proofs.Generator
import KikiVerif.Proofs.TableCells
import KikiVerif.Proofs.Valid

set_option linter.unusedSimpArgs false
set_option linter.unusedVariables false

namespace KikiVerif
namespace Assemble
open Machine Table
open LR (Sym Rule Grammar Action)
open Valid (Cert It)

/-- machine item ↦ validator item (`numRules` = augmented rule, `nT` = end of input) -/
def decodeItem (c : Ctx) (x : Item) : It :=
  ⟨if x.rule = c.numRules then none else some x.rule, x.dot, if x.la = c.nT then none else some x.la⟩

/-- the automaton as the validator sees it -/
def certOf (c : Ctx) (fm : List FirstSet) (m : Machine) (t : Table.Table) : Cert :=
  { nT := c.nT, start := m.start,
    states := m.states.map fun st => st.map (decodeItem c),
    actions := (List.range m.states.length).map fun s => (List.range (c.nT + 1)).map fun col => t.action s col,
    gotos := (List.range m.states.length).map fun s => (List.range c.nN).map fun b => t.goto s b,
    first := toTbl fm }

variable {c : Ctx} {fm : List FirstSet} {m : Machine} {t : Table.Table}

theorem items_certOf (s : Nat) (it : It) :
    it ∈ (certOf c fm m t).items s ↔ ∃ x ∈ m.states.getD s [], decodeItem c x = it := by
  unfold Cert.items certOf
  simp only
  rw [List.getD_eq_getElem?_getD, List.getElem?_map]
  cases h : m.states[s]? with
  | none =>
    simp only [Option.map_none, Option.getD_none, List.not_mem_nil, false_iff]
    rintro ⟨x, hx, _⟩
    rw [List.getD_eq_getElem?_getD, h] at hx
    cases hx
  | some st =>
    simp only [Option.map_some, Option.getD_some, List.mem_map]
    rw [List.getD_eq_getElem?_getD, h]
    rfl

theorem act_none_certOf (s : Nat) :
    (certOf c fm m t).act s none = if s < m.states.length then t.action s c.nT else .err := by
  unfold Cert.act certOf
  simp only
  by_cases hs : s < m.states.length
  · rw [if_pos hs]
    rw [List.getElem?_map, List.getElem?_range hs]
    simp only [Option.map_some, Option.bind_some]
    rw [List.getElem?_map, List.getElem?_range (by omega)]
    rfl
  · rw [if_neg hs]
    rw [List.getElem?_eq_none (by simp; omega)]
    rfl

theorem act_some_certOf (s a : Nat) :
    (certOf c fm m t).act s (some a) = if a < c.nT ∧ s < m.states.length then t.action s a else .err := by
  unfold Cert.act certOf
  simp only
  by_cases ha : a < c.nT
  · rw [if_pos ha]
    by_cases hs : s < m.states.length
    · rw [if_pos ⟨ha, hs⟩]
      rw [List.getElem?_map, List.getElem?_range hs]
      simp only [Option.map_some, Option.bind_some]
      rw [List.getElem?_map, List.getElem?_range (by omega)]
      rfl
    · rw [if_neg (fun h => hs h.2)]
      rw [List.getElem?_eq_none (by simp; omega)]
      rfl
  · rw [if_neg ha, if_neg (fun h => ha h.1)]

theorem goto_certOf (s b : Nat) :
    (certOf c fm m t).goto s b = if b < c.nN ∧ s < m.states.length then t.goto s b else none := by
  unfold Cert.goto certOf
  simp only
  by_cases hs : s < m.states.length
  · rw [List.getElem?_map, List.getElem?_range hs]
    simp only [Option.map_some, Option.bind_some]
    by_cases hb : b < c.nN
    · rw [if_pos ⟨hb, hs⟩, List.getElem?_map, List.getElem?_range hb]
      simp
    · rw [if_neg (fun h => hb h.1), List.getElem?_eq_none (by simp; omega)]
      rfl
  · rw [if_neg (fun h => hs h.2), List.getElem?_eq_none (by simp; omega)]
    rfl

/-! ### the coded grammar -/

structure CtxOK (c : Ctx) : Prop where
  terms : CtxWF c
  start : c.g.start < c.nN
  lhs : ∀ r ∈ c.g.rules, r.lhs < c.nN
  nts : ∀ r ∈ c.g.rules, ∀ b, Sym.n b ∈ r.rhs → b < c.nN

theorem rhsOf_decode {x : Item} (hx : x.rule ≤ c.numRules) :
    c.g.rhsOf (decodeItem c x).rule = some (rhsOf c x.rule) := by
  unfold decodeItem rhsOf
  simp only
  by_cases h : x.rule = c.numRules
  · rw [if_pos h, if_pos h]; rfl
  · rw [if_neg h, if_neg h]
    have hlt : x.rule < c.g.rules.length := by unfold Ctx.numRules at hx h; omega
    simp only [Grammar.rhsOf, List.getElem?_eq_getElem hlt, Option.map_some]

theorem sym_bound (ok : CtxOK c) {x : Item} {X : Sym Nat Nat} (h : symRightOfDot c x = some X) :
    match X with
    | .t a => a < c.nT
    | .n b => b < c.nN := by
  unfold symRightOfDot rhsOf at h
  split at h
  · have := List.mem_of_getElem? h
    simp only [List.mem_singleton] at this
    subst this
    exact ok.start
  · split at h
    · rename_i r hr
      have hm := List.mem_of_getElem? h
      have hrm := List.mem_of_getElem? hr
      cases X with
      | t a => exact ok.terms r hrm a hm
      | n b => exact ok.nts r hrm b hm
    · simp at h

theorem states_get {s : Nat} (hs : s < m.states.length) : m.states[s]? = some (m.states.getD s []) := by
  rw [List.getD_eq_getElem?_getD, List.getElem?_eq_getElem hs]; rfl

/-- the demand of an item with a terminal right of its dot -/
theorem demand_shift (mok : MachineOK c fm m) {s : Nat} (hs : s < m.states.length) {x : Item}
    (hx : x ∈ m.states.getD s []) {a : Nat} (hX : symRightOfDot c x = some (.t a)) {t' : Nat}
    (htr : (⟨s, t', .t a⟩ : Transition) ∈ m.transitions) :
    Table.demand c m s x = some (a, .shift t') := by
  have hwf := (mok.good s hs).wf x hx
  unfold symRightOfDot rhsOf at hX
  unfold Table.demand
  split at hX
  · rename_i he
    have := List.mem_of_getElem? hX
    simp at this
  · rename_i hne
    rw [if_neg hne]
    split at hX
    · rename_i r hr
      simp only [hr]
      have hlt := (List.getElem?_eq_some_iff.mp hX).1
      rw [if_neg (by omega), hX]
      simp only
      -- the shift destination is the transition's target
      have hfind : ∃ tr, m.transitions.find? (fun tr => tr.frm == s && tr.sym == Sym.t a) = some tr := by
        cases hf : m.transitions.find? (fun tr => tr.frm == s && tr.sym == Sym.t a) with
        | some tr => exact ⟨tr, rfl⟩
        | none =>
          have := List.find?_eq_none.mp hf _ htr
          simp at this
      obtain ⟨tr, hf⟩ := hfind
      have hp := List.find?_some hf
      have hmem := List.mem_of_find?_eq_some hf
      simp only [Bool.and_eq_true, beq_iff_eq] at hp
      have hto : tr.to = t' := mok.func tr hmem _ htr hp.1 hp.2
      unfold getShiftDest
      rw [hf]
      simp [hto]
    · simp at hX

theorem delta_of_done (ok : CtxOK c) (mok : MachineOK c fm m) (cells : Cells c m t) {s : Nat} (hs : s < m.states.length)
    {x : Item} (hx : x ∈ m.states.getD s []) {X : Sym Nat Nat} (hX : symRightOfDot c x = some X) :
    ∃ t', (certOf c fm m t).delta s X = some t' ∧ t' < m.states.length ∧
      (⟨s, t', X⟩ : Transition) ∈ m.transitions ∧
      ∀ y ∈ transitionItems c (m.states.getD s []) X, y ∈ m.states.getD t' [] := by
  obtain ⟨t', htr, hsub⟩ := mok.done s hs x hx X hX
  have hb := sym_bound ok hX
  have hto := (mok.trans _ htr).2.1
  refine ⟨t', ?_, hto, htr, hsub⟩
  cases X with
  | t a =>
    simp only at hb
    have hd := demand_shift mok hs hx hX htr
    have hcell := cells.demand s _ (states_get hs) x hx a _ hd
    simp only [Cert.delta, act_some_certOf, if_pos (And.intro hb hs), hcell]
  | n b =>
    simp only at hb
    have := cells.gotoOf _ htr b rfl
    simp only [Cert.delta, goto_certOf, if_pos (And.intro hb hs)]
    exact this

/-! ### lookaheads: the coded list and the validator's `firstSeq` -/

def decodeLa (c : Ctx) (la : Nat) : Option Nat := if la = c.nT then none else some la
def codeLa (c : Ctx) : Option Nat → Nat
  | none => c.nT
  | some a => a

theorem firstOfSeq_spec (fm : List FirstSet) : ∀ (β : List (Sym Nat Nat)) (ts : List Nat) (f : FirstSet),
    Oset.Sorted ts → firstOfSeq fm β ts = some f →
    (∀ x, x ∈ f.terminals ↔ x ∈ ts ∨ x ∈ Valid.seqTerms (toTbl fm) β) ∧ f.eps = Valid.seqNullable (toTbl fm) β := by
  intro β
  induction β with
  | nil =>
    intro ts f _ h
    simp only [firstOfSeq] at h
    cases h
    simp [Valid.seqTerms, Valid.seqNullable]
  | cons X rest ih =>
    intro ts f hs h
    cases X with
    | t a =>
      simp only [firstOfSeq] at h
      cases h
      refine ⟨fun x => ?_, by simp [Valid.seqNullable]⟩
      simp only [Valid.seqTerms, List.mem_singleton]
      rw [Oset.mem_insert ⟨ts⟩ a x hs]
      exact Or.comm
    | n b =>
      simp only [firstOfSeq] at h
      cases hb : fm[b]? with
      | none => rw [hb] at h; cases h
      | some f0 =>
        rw [hb] at h
        simp only at h
        have hget := toTbl_getD fm b f0 hb
        simp only [Valid.seqTerms, Valid.seqNullable, hget]
        have hs' := Oset.extend_sorted (⟨ts⟩ : Oset Nat) f0.terminals
        split at h
        · rename_i heps
          obtain ⟨h1, h2⟩ := ih _ f hs' h
          refine ⟨fun x => ?_, by rw [h2, heps]; simp⟩
          rw [h1 x, Oset.mem_extend, heps]
          simp only [List.mem_append, if_true]
          constructor
          · rintro ((a | a) | a)
            · exact Or.inl a
            · exact Or.inr (Or.inl a)
            · exact Or.inr (Or.inr a)
          · rintro (a | a | a)
            · exact Or.inl (Or.inl a)
            · exact Or.inl (Or.inr a)
            · exact Or.inr a
        · rename_i heps
          cases h
          have : f0.eps = false := by simpa using heps
          refine ⟨fun x => ?_, by rw [this]; simp⟩
          rw [Oset.mem_extend, this]
          simp

theorem las_mem {fm : List FirstSet} {β : List (Sym Nat Nat)} {la : Nat} {las : List Nat}
    (h : augmentedFirst fm β la = some las) (x : Nat) :
    x ∈ las ↔ x ∈ Valid.seqTerms (toTbl fm) β ∨ (Valid.seqNullable (toTbl fm) β = true ∧ x = la) := by
  unfold augmentedFirst at h
  split at h
  · cases h
  · rename_i f hf
    obtain ⟨h1, h2⟩ := firstOfSeq_spec fm β [] f List.Pairwise.nil hf
    split at h
    · rename_i he
      cases h
      rw [Oset.mem_ofList, List.mem_append, h1 x, ← h2, he]
      simp
    · rename_i he
      cases h
      rw [Oset.mem_ofList, h1 x, ← h2]
      have : f.eps = false := by simpa using he
      rw [this]
      simp

theorem decodeLa_codeLa (c : Ctx) {b : Option Nat} (hb : ∀ a, b = some a → a < c.nT) : decodeLa c (codeLa c b) = b := by
  cases b with
  | none => simp [codeLa, decodeLa]
  | some a =>
    have := hb a rfl
    show decodeLa c a = some a
    unfold decodeLa
    rw [if_neg (by omega)]

/-- every lookahead the validator's `firstSeq` asks for is in the coded list -/
theorem firstSeq_in_las (ok : CtxOK c) (hfb : FmBound c.nT fm) {β : List (Sym Nat Nat)} {la : Nat} {las : List Nat}
    (hβ : ∀ a, Sym.t a ∈ β → a < c.nT) (hla : la ≤ c.nT)
    (h : augmentedFirst fm β la = some las) {b : Option Nat} (hb : b ∈ Valid.firstSeq (toTbl fm) β (decodeLa c la)) :
    codeLa c b ∈ las ∧ decodeLa c (codeLa c b) = b := by
  unfold Valid.firstSeq at hb
  rcases List.mem_append.mp hb with hb | hb
  · obtain ⟨a, ha, rfl⟩ := List.mem_map.mp hb
    have hlt := seqTerms_bound hfb β hβ a ha
    exact ⟨(las_mem h a).mpr (Or.inl ha), decodeLa_codeLa c (by intro a' e; cases e; exact hlt)⟩
  · split at hb
    · rename_i hn
      simp only [List.mem_singleton] at hb
      subst hb
      have hcode : codeLa c (decodeLa c la) = la := by
        unfold decodeLa
        by_cases e : la = c.nT
        · rw [if_pos e]; exact e.symm
        · rw [if_neg e]; rfl
      refine ⟨by rw [hcode]; exact (las_mem h la).mpr (Or.inr ⟨hn, rfl⟩), by rw [hcode]⟩
    · cases hb

/-! ### the per-item check -/

theorem decode_dot (x : Item) : (decodeItem c x).dot = x.dot := rfl
theorem decode_la (x : Item) : (decodeItem c x).la = decodeLa c x.la := rfl
theorem decode_rule_none {x : Item} (h : x.rule = c.numRules) : (decodeItem c x).rule = none := by
  unfold decodeItem; simp only; rw [if_pos h]
theorem decode_rule_some {x : Item} (h : x.rule ≠ c.numRules) : (decodeItem c x).rule = some x.rule := by
  unfold decodeItem; simp only; rw [if_neg h]

theorem mem_items_of (s : Nat) {x : Item} (hx : x ∈ m.states.getD s []) :
    decodeItem c x ∈ (certOf c fm m t).items s := (items_certOf s _).mpr ⟨x, hx, rfl⟩

/-- the action cell of a completed item -/
theorem complete_cell (mok : MachineOK c fm m) (cells : Cells c m t) {s : Nat} (hs : s < m.states.length)
    {x : Item} (hx : x ∈ m.states.getD s []) (hdot : x.dot = (rhsOf c x.rule).length) :
    (x.rule ≠ c.numRules → (certOf c fm m t).act s (decodeLa c x.la) = .reduce x.rule) ∧
    (x.rule = c.numRules → (certOf c fm m t).act s none = .accept) := by
  have hwf := (mok.good s hs).wf x hx
  constructor
  · intro hne
    have hlt : x.rule < c.g.rules.length := by have := hwf.1; unfold Ctx.numRules at this hne; omega
    have hr : c.g.rules[x.rule]? = some c.g.rules[x.rule] := List.getElem?_eq_getElem hlt
    have hrhs : rhsOf c x.rule = c.g.rules[x.rule].rhs := by
      unfold rhsOf; rw [if_neg hne, hr]
    have hd : Table.demand c m s x = some (x.la, .reduce x.rule) := by
      unfold Table.demand
      rw [if_neg hne, hr]
      simp only
      rw [if_pos (by rw [hdot, hrhs])]
    have hcell := cells.demand s _ (states_get hs) x hx _ _ hd
    unfold decodeLa
    by_cases e : x.la = c.nT
    · rw [if_pos e, act_none_certOf, if_pos hs, ← e]; exact hcell
    · rw [if_neg e, act_some_certOf, if_pos ⟨by have := hwf.2.2; omega, hs⟩]; exact hcell
  · intro he
    have hrhs : rhsOf c x.rule = [.n c.g.start] := by unfold rhsOf; rw [if_pos he]
    have hd : Table.demand c m s x = some (c.nT, .accept) := by
      unfold Table.demand
      rw [if_pos he, if_neg (by rw [hdot, hrhs]; simp)]
    have hcell := cells.demand s _ (states_get hs) x hx _ _ hd
    rw [act_none_certOf, if_pos hs]; exact hcell

theorem itemB_ok (ok : CtxOK c) (hfb : FmBound c.nT fm) (mok : MachineOK c fm m) (cells : Cells c m t)
    {s : Nat} (hs : s < m.states.length) {x : Item} (hx : x ∈ m.states.getD s []) :
    Valid.itemB c.g (certOf c fm m t) s (decodeItem c x) = true := by
  have hgood := mok.good s hs
  have hwf := hgood.wf x hx
  unfold Valid.itemB
  rw [rhsOf_decode hwf.1]
  simp only [decode_dot, decode_la]
  have hA : decide (x.dot ≤ (rhsOf c x.rule).length) = true := by simpa using hwf.2.1
  have hB : (s != (certOf c fm m t).start || x.dot == 0) = true := by
    by_cases e : s = m.start
    · subst e
      have := mok.zero x hx
      simp [this]
    · have : (s != (certOf c fm m t).start) = true := by
        show (s != m.start) = true
        simpa using e
      rw [this]; rfl
  have hC : (!((decodeItem c x).rule == none && x.dot == 0) || s == (certOf c fm m t).start) = true := by
    by_cases e : s = m.start
    · have : (s == (certOf c fm m t).start) = true := by show (s == m.start) = true; simpa using e
      rw [this]; simp
    · by_cases hr : x.rule = c.numRules
      · by_cases hd : x.dot = 0
        · have := mok.aug s hs e x hx hd
          omega
        · have : (x.dot == 0) = false := by simpa using hd
          rw [this]; simp
      · rw [decode_rule_some hr]; simp
  have hE : (match (decodeItem c x).rule, x.dot with
      | some j, 0 =>
        (match c.g.rules[j]? with
         | some rule => ((certOf c fm m t).items s).any fun it' =>
             match c.g.rhsOf it'.rule with
             | some rhs' => rhs'[it'.dot]? == some (.n rule.lhs)
             | none => false
         | none => false)
      | _, _ => true) = true := by
    by_cases hr : x.rule = c.numRules
    · rw [decode_rule_none hr]
    · rw [decode_rule_some hr]
      by_cases hd : x.dot = 0
      · rw [hd]
        simp only
        have hlt : x.rule < c.g.rules.length := by have := hwf.1; unfold Ctx.numRules at this hr; omega
        rw [List.getElem?_eq_getElem hlt]
        simp only
        rcases hgood.gen x hx hd with e | ⟨x0, hx0, imp, himp, hxi⟩
        · exfalso; apply hr; rw [e]; rfl
        · rw [List.any_eq_true]
          refine ⟨decodeItem c x0, mem_items_of s hx0, ?_⟩
          rw [rhsOf_decode (hgood.wf x0 hx0).1]
          simp only [decode_dot]
          -- `x` is one of the items implied by `x0`
          unfold impliedItems at himp
          split at himp
          · rename_i b hb
            split at himp
            · cases himp
            · cases himp
              simp only [List.mem_flatMap, List.mem_map] at hxi
              obtain ⟨la, _, r, hr', rfl⟩ := hxi
              unfold ruleIndicesFor at hr'
              simp only [List.mem_map, List.mem_filter, beq_iff_eq] at hr'
              obtain ⟨⟨rule, j⟩, ⟨hm, hl⟩, rfl⟩ := hr'
              have := List.mem_zipIdx hm
              simp at this
              simp only at hl ⊢
              unfold symRightOfDot at hb
              rw [hb]
              have hrule : c.g.rules[j] = rule := this.2.symm
              rw [hrule, hl]
              simp
          · cases himp; cases hxi
      · cases hxd : x.dot with
        | zero => exact absurd hxd hd
        | succ k => rfl
  -- the symbol right of the dot
  have hD : (match (rhsOf c x.rule)[x.dot]? with
     | some X =>
       (match (certOf c fm m t).delta s X with
        | some t' => ((certOf c fm m t).items t').contains ⟨(decodeItem c x).rule, x.dot + 1, decodeLa c x.la⟩
        | none => false) &&
       (match X with
        | .n B =>
          c.g.rules.zipIdx.all fun (rule', j) =>
            rule'.lhs != B ||
            (Valid.firstSeq (certOf c fm m t).first ((rhsOf c x.rule).drop (x.dot + 1)) (decodeLa c x.la)).all
              fun b => ((certOf c fm m t).items s).contains ⟨some j, 0, b⟩
        | .t _ => true)
     | none =>
       (match (decodeItem c x).rule with
        | some j => (certOf c fm m t).act s (decodeLa c x.la) == .reduce j
        | none => decodeLa c x.la != none || (certOf c fm m t).act s none == .accept)) = true := by
    cases hsym : (rhsOf c x.rule)[x.dot]? with
    | none =>
      simp only
      have hdot : x.dot = (rhsOf c x.rule).length := by
        have := List.getElem?_eq_none_iff.mp hsym
        have := hwf.2.1
        omega
      obtain ⟨c1, c2⟩ := complete_cell mok cells hs hx hdot
      by_cases hr : x.rule = c.numRules
      · rw [decode_rule_none hr]
        simp only
        rw [c2 hr]; simp
      · rw [decode_rule_some hr]
        simp only
        rw [c1 hr]; simp
    | some X =>
      simp only
      have hX : symRightOfDot c x = some X := hsym
      obtain ⟨t', hdelta, ht', _, hsub⟩ := delta_of_done ok mok cells hs hx hX
      rw [hdelta]
      simp only [Bool.and_eq_true]
      constructor
      · rw [List.contains_iff_mem]
        have hmem : ({ x with dot := x.dot + 1 } : Item) ∈ m.states.getD t' [] :=
          hsub _ (mem_transitionItems.mpr ⟨x, hx, hX, rfl⟩)
        exact mem_items_of t' hmem
      · cases X with
        | t a => rfl
        | n B =>
          simp only
          rw [List.all_eq_true]
          rintro ⟨rule', j⟩ hm
          simp only [Bool.or_eq_true, bne_iff_ne, ne_eq, List.all_eq_true]
          by_cases hl : rule'.lhs = B
          · right
            intro b hb
            rw [List.contains_iff_mem]
            -- the items implied by `x`
            obtain ⟨imp, himp⟩ := hgood.total x hx
            have hcl := hgood.closed x hx imp himp
            unfold impliedItems at himp
            rw [hX] at himp
            simp only at himp
            cases haf : augmentedFirst fm (List.drop (x.dot + 1) (rhsOf c x.rule)) x.la with
            | none => rw [haf] at himp; cases himp
            | some las =>
              rw [haf] at himp
              simp only [Option.some.injEq] at himp
              have hβ : ∀ a, Sym.t a ∈ List.drop (x.dot + 1) (rhsOf c x.rule) → a < c.nT :=
                fun a ha => rhsOf_terminals ok.terms x.rule a (List.mem_of_mem_drop ha)
              obtain ⟨hin, hdec⟩ := firstSeq_in_las ok hfb hβ hwf.2.2 haf hb
              have hzi := List.mem_zipIdx hm
              simp at hzi
              have hj : j ∈ ruleIndicesFor c B := by
                unfold ruleIndicesFor
                simp only [List.mem_map, List.mem_filter, beq_iff_eq]
                exact ⟨(rule', j), ⟨hm, hl⟩, rfl⟩
              have hy : (⟨j, codeLa c b, 0⟩ : Item) ∈ imp := by
                rw [← himp]
                simp only [List.mem_flatMap, List.mem_map]
                exact ⟨codeLa c b, hin, j, hj, rfl⟩
              have hmem := mem_items_of (c := c) (fm := fm) (t := t) s (hcl _ hy)
              have hdecode : decodeItem c ⟨j, codeLa c b, 0⟩ = ⟨some j, 0, b⟩ := by
                unfold decodeItem
                simp only
                have hjne : j ≠ c.numRules := by unfold Ctx.numRules; omega
                rw [if_neg hjne]
                have : (if codeLa c b = c.nT then none else some (codeLa c b)) = b := hdec
                rw [this]
              rw [hdecode] at hmem
              exact hmem
          · left; exact hl
  simp only [Bool.and_eq_true]
  exact ⟨⟨⟨⟨hA, hB⟩, hC⟩, hD⟩, hE⟩

/-! ### the per-transition and per-cell checks -/

theorem demand_cases {s : Nat} {it : Item} {col : Nat} {A : Action} (h : Table.demand c m s it = some (col, A)) :
    (it.rule = c.numRules ∧ it.dot ≠ 0 ∧ col = c.nT ∧ A = .accept) ∨
    (∃ r, it.rule ≠ c.numRules ∧ c.g.rules[it.rule]? = some r ∧ it.dot = r.rhs.length ∧ col = it.la ∧
      A = .reduce it.rule) ∨
    (∃ r t0 dest, it.rule ≠ c.numRules ∧ c.g.rules[it.rule]? = some r ∧ r.rhs[it.dot]? = some (.t t0) ∧
      getShiftDest m s t0 = some dest ∧ col = t0 ∧ A = .shift dest) := by
  unfold Table.demand at h
  split at h
  · rename_i he
    split at h
    · cases h
    · rename_i hd
      cases h
      exact Or.inl ⟨he, hd, rfl, rfl⟩
  · rename_i hne
    split at h
    · cases h
    · rename_i r hr
      split at h
      · rename_i hd
        cases h
        exact Or.inr (Or.inl ⟨r, hne, hr, hd, rfl, rfl⟩)
      · cases hs : r.rhs[it.dot]? with
        | none => rw [hs] at h; cases h
        | some X =>
          rw [hs] at h
          cases X with
          | n b => cases h
          | t t0 =>
            simp only at h
            cases hg : getShiftDest m s t0 with
            | none => rw [hg] at h; cases h
            | some dest =>
              rw [hg] at h
              simp only [Option.map_some, Option.some.injEq, Prod.mk.injEq] at h
              exact Or.inr (Or.inr ⟨r, t0, dest, hne, hr, hs, hg, h.1.symm, h.2.symm⟩)

theorem shiftDest_transition {s a dest : Nat} (h : getShiftDest m s a = some dest) :
    (⟨s, dest, .t a⟩ : Transition) ∈ m.transitions := by
  unfold getShiftDest at h
  cases hf : m.transitions.find? (fun tr => tr.frm == s && tr.sym == Sym.t a) with
  | none => rw [hf] at h; cases h
  | some tr =>
    rw [hf] at h
    simp only [Option.map_some, Option.some.injEq] at h
    have hp := List.find?_some hf
    have hmem := List.mem_of_find?_eq_some hf
    simp only [Bool.and_eq_true, beq_iff_eq] at hp
    have : tr = ⟨s, dest, .t a⟩ := by
      cases tr; simp only at hp h; rw [hp.1, hp.2, h]
    rw [← this]; exact hmem

/-- a transition of the validator's view is a transition of the machine -/
theorem delta_transition (ok : CtxOK c) (cells : Cells c m t) {s t' : Nat} {X : Sym Nat Nat}
    (h : (certOf c fm m t).delta s X = some t') : s < m.states.length ∧ (⟨s, t', X⟩ : Transition) ∈ m.transitions := by
  cases X with
  | t a =>
    simp only [Cert.delta, act_some_certOf] at h
    by_cases hg : a < c.nT ∧ s < m.states.length
    · rw [if_pos hg] at h
      refine ⟨hg.2, ?_⟩
      cases hact : t.action s a with
      | shift d =>
        rw [hact] at h
        simp only [Option.some.injEq] at h
        subst h
        obtain ⟨st, it0, hst, hit0, hd⟩ := cells.justified s a (Nat.le_of_lt hg.1) (by rw [hact]; intro e; cases e)
        rw [hact] at hd
        rcases demand_cases hd with ⟨_, _, _, e⟩ | ⟨_, _, _, _, _, e⟩ | ⟨r, t0, dest, _, _, _, hg', e1, e2⟩
        · cases e
        · cases e
        · cases e2
          subst e1
          exact shiftDest_transition hg'
      | reduce j => rw [hact] at h; cases h
      | accept => rw [hact] at h; cases h
      | err => rw [hact] at h; cases h
    · rw [if_neg hg] at h; cases h
  | n b =>
    simp only [Cert.delta, goto_certOf] at h
    split at h
    · rename_i hg
      exact ⟨hg.2, cells.gotoJust s b t' hg.1 h⟩
    · cases h

theorem transB_ok (ok : CtxOK c) (mok : MachineOK c fm m) (cells : Cells c m t) (s : Nat) (X : Sym Nat Nat) :
    Valid.transB c.g (certOf c fm m t) s X = true := by
  unfold Valid.transB
  cases hdelta : (certOf c fm m t).delta s X with
  | none => rfl
  | some t' =>
    simp only
    obtain ⟨hs, htr⟩ := delta_transition ok cells hdelta
    obtain ⟨_, ht', hne, hk⟩ := mok.trans _ htr
    simp only at ht' hne hk
    rw [Bool.and_eq_true]
    constructor
    · show (t' != m.start) = true
      simpa using hne
    · rw [List.all_eq_true]
      intro it hit
      obtain ⟨y, hy, rfl⟩ := (items_certOf t' it).mp hit
      rw [decode_dot]
      cases hyd : y.dot with
      | zero => rfl
      | succ d =>
        simp only
        have hwfy := (mok.good t' ht').wf y hy
        rw [rhsOf_decode hwfy.1]
        simp only
        obtain ⟨x, hx, r1, r2, r3⟩ := hk y hy (by omega)
        rw [Bool.and_eq_true]
        constructor
        · unfold symRightOfDot at r3
          rw [r1] at r3
          have : x.dot = d := by omega
          rw [this] at r3
          rw [r3]; simp
        · rw [Valid.hasCore_iff]
          refine ⟨decodeLa c x.la, ?_⟩
          have := mem_items_of (c := c) (fm := fm) (t := t) s hx
          have hd : decodeItem c x = ⟨(decodeItem c y).rule, d, decodeLa c x.la⟩ := by
            unfold decodeItem
            simp only
            rw [r1]
            have : x.dot = d := by omega
            rw [this]
            rfl
          rw [← hd]; exact this

theorem cellB_ok (ok : CtxOK c) (mok : MachineOK c fm m) (cells : Cells c m t) (s : Nat) (a : Option Nat) :
    Valid.cellB c.g (certOf c fm m t) s a = true := by
  unfold Valid.cellB
  -- the cell, as a table cell
  have key : ∀ A, (certOf c fm m t).act s a = A → A ≠ .err →
      s < m.states.length ∧ ∃ it0, it0 ∈ m.states.getD s [] ∧ Table.demand c m s it0 = some (codeLa c a, A) ∧
        (∀ a', a = some a' → a' < c.nT) := by
    intro A hA hne
    cases a with
    | none =>
      rw [act_none_certOf] at hA
      split at hA
      · rename_i hs
        obtain ⟨st, it0, hst, hit0, hd⟩ := cells.justified s c.nT (Nat.le_refl _) (by rw [hA]; exact hne)
        rw [states_get hs] at hst
        cases hst
        exact ⟨hs, it0, hit0, by rw [hA] at hd; exact hd, by intro a' e; cases e⟩
      · exact absurd hA.symm hne
    | some a' =>
      rw [act_some_certOf] at hA
      split at hA
      · rename_i hg
        obtain ⟨st, it0, hst, hit0, hd⟩ := cells.justified s a' (Nat.le_of_lt hg.1) (by rw [hA]; exact hne)
        rw [states_get hg.2] at hst
        cases hst
        exact ⟨hg.2, it0, hit0, by rw [hA] at hd; exact hd, by intro a'' e; cases e; exact hg.1⟩
      · exact absurd hA.symm hne
  cases hA : (certOf c fm m t).act s a with
  | err => rfl
  | shift d =>
    simp only
    obtain ⟨hs, it0, hit0, hd, hb⟩ := key _ hA (by intro e; cases e)
    rcases demand_cases hd with ⟨_, _, _, e⟩ | ⟨_, _, _, _, _, e⟩ | ⟨r, t0, dest, _, hr, hsym, _, e1, _⟩
    · cases e
    · cases e
    · cases a with
      | some _ => rfl
      | none =>
        exfalso
        have : t0 < c.nT := ok.terms r (List.mem_of_getElem? hr) t0 (List.mem_of_getElem? hsym)
        simp only [codeLa] at e1
        omega
  | reduce j =>
    simp only
    obtain ⟨hs, it0, hit0, hd, hb⟩ := key _ hA (by intro e; cases e)
    rcases demand_cases hd with ⟨_, _, _, e⟩ | ⟨r, hne, hr, hdot, _, e⟩ | ⟨_, _, _, _, _, _, _, _, e⟩
    · cases e
    · cases e
      rw [hr]
      simp only
      rw [Valid.hasCore_iff]
      refine ⟨decodeLa c it0.la, ?_⟩
      have := mem_items_of (c := c) (fm := fm) (t := t) s hit0
      have hdec : decodeItem c it0 = ⟨some it0.rule, r.rhs.length, decodeLa c it0.la⟩ := by
        unfold decodeItem
        rw [if_neg hne, hdot]
        rfl
      rw [← hdec]; exact this
    · cases e
  | accept =>
    simp only
    obtain ⟨hs, it0, hit0, hd, hb⟩ := key _ hA (by intro e; cases e)
    rcases demand_cases hd with ⟨he, hd0, e1, _⟩ | ⟨_, _, _, _, _, e⟩ | ⟨_, _, _, _, _, _, _, _, e⟩
    · rw [Bool.and_eq_true]
      constructor
      · cases a with
        | none => rfl
        | some a' =>
          exfalso
          have := hb a' rfl
          simp only [codeLa] at e1
          omega
      · rw [Valid.hasCore_iff]
        refine ⟨decodeLa c it0.la, ?_⟩
        have := mem_items_of (c := c) (fm := fm) (t := t) s hit0
        have hwf := (mok.good s hs).wf it0 hit0
        have hdot : it0.dot = 1 := by
          have h2 := hwf.2.1
          unfold rhsOf at h2
          rw [if_pos he] at h2
          simp at h2
          omega
        have hdec : decodeItem c it0 = ⟨none, 1, decodeLa c it0.la⟩ := by
          unfold decodeItem
          rw [if_pos he, hdot]
          rfl
        rw [← hdec]; exact this
    · cases e
    · cases e

/-! ### the theorem -/

theorem checked_of_generator (ok : CtxOK c) (hfb : FmBound c.nT fm) (hfc : Valid.firstClosedB c.g (toTbl fm) = true)
    (mok : MachineOK c fm m) (cells : Cells c m t) : Valid.Checked c.g c.nN (certOf c fm m t) where
  alen := by simp [certOf]
  glen := by simp [certOf]
  grows := by
    intro row hrow
    simp only [certOf, List.mem_map, List.mem_range] at hrow
    obtain ⟨s, _, rfl⟩ := hrow
    simp
  first := hfc
  start := by
    have := mem_items_of (c := c) (fm := fm) (t := t) m.start mok.startItem
    have hdec : decodeItem c (startItem c) = ⟨none, 0, none⟩ := by
      unfold decodeItem startItem
      simp
    rw [hdec] at this
    exact this
  item := by
    intro s it hit
    obtain ⟨x, hx, rfl⟩ := (items_certOf s it).mp hit
    have hs : s < m.states.length := by
      rcases Nat.lt_or_ge s m.states.length with h | h
      · exact h
      · rw [List.getD_eq_getElem?_getD, List.getElem?_eq_none h] at hx
        cases hx
    exact itemB_ok ok hfb mok cells hs hx
  trans := fun s X _ _ => transB_ok ok mok cells s X
  cell := fun s a _ _ => cellB_ok ok mok cells s a

end Assemble
end KikiVerif
