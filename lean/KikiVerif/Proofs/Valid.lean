/-
The executable validator: `validB g C = true → Sound g (mkAuto C) ∧ Complete g (mkAuto C)`.

`C : Cert` is a candidate automaton given as plain data: item sets per state,
ACTION / GOTO rows, FIRST table.  All conditions are *local* and finite, so
`validB` can be
  * evaluated by the kernel (`decide +kernel`) over the tables extracted from
    `parser.rs` (C09), and
  * run (compiled) by the correspondence check on the machine and table the
    implementation produced for every generated grammar (C01–C03):
a per-grammar proof, for all token strings, that the emitted driver is right.
-/
import KikiVerif.LR.Snd
import KikiVerif.LR.Cert

namespace KikiVerif
namespace Valid
open LR

/-! ### the checks -/

def allStates (C : Cert) : List Nat := List.range C.states.length
def allLa (C : Cert) : List (Option Nat) := none :: (List.range C.nT).map some
def allSyms (C : Cert) (nN : Nat) : List (Sym Nat Nat) :=
  (List.range C.nT).map .t ++ (List.range nN).map .n

/-- FIRST table closed under the FIRST / nullable equations -/
def firstClosedB (g : Grammar Nat Nat) (ft : FirstTbl) : Bool :=
  g.rules.all fun r =>
    (seqTerms ft r.rhs).all (fun c => (ft.getD r.lhs ([], false)).1.contains c) &&
    (!seqNullable ft r.rhs || (ft.getD r.lhs ([], false)).2)

def hasCore (l : List It) (r : Option Nat) (d : Nat) : Bool := l.any fun it => it.rule == r && it.dot == d

/-- per-item checks -/
def itemB (g : Grammar Nat Nat) (C : Cert) (s : Nat) (it : It) : Bool :=
  match g.rhsOf it.rule with
  | none => false
  | some rhs =>
    decide (it.dot ≤ rhs.length) &&
    -- startDot
    (s != C.start || it.dot == 0) &&
    -- aug0
    (!(it.rule == none && it.dot == 0) || s == C.start) &&
    (match rhs[it.dot]? with
     | some X =>
       -- trans (with the same lookahead)
       (match C.delta s X with
        | some t => (C.items t).contains ⟨it.rule, it.dot + 1, it.la⟩
        | none => false) &&
       -- closure
       (match X with
        | .n B =>
          g.rules.zipIdx.all fun (rule', j) =>
            rule'.lhs != B ||
            (firstSeq C.first (rhs.drop (it.dot + 1)) it.la).all fun b => (C.items s).contains ⟨some j, 0, b⟩
        | .t _ => true)
     | none =>
       -- complete item: reduce / accept cell
       (match it.rule with
        | some j => C.act s it.la == .reduce j
        | none => it.la != none || C.act s none == .accept)) &&
    -- closure0: a dot-0 original item is demanded by an item of the same state
    (match it.rule, it.dot with
     | some j, 0 =>
       (match g.rules[j]? with
        | some rule => (C.items s).any fun it' =>
            match g.rhsOf it'.rule with
            | some rhs' => rhs'[it'.dot]? == some (.n rule.lhs)
            | none => false
        | none => false)
     | _, _ => true)

/-- per-transition checks (kernel, noBack) -/
def transB (g : Grammar Nat Nat) (C : Cert) (s : Nat) (X : Sym Nat Nat) : Bool :=
  match C.delta s X with
  | none => true
  | some t =>
    t != C.start &&
    (C.items t).all fun it =>
      match it.dot with
      | 0 => true
      | d + 1 =>
        match g.rhsOf it.rule with
        | none => false
        | some rhs => rhs[d]? == some X && hasCore (C.items s) it.rule d

/-- per-cell checks -/
def cellB (g : Grammar Nat Nat) (C : Cert) (s : Nat) (a : Option Nat) : Bool :=
  match C.act s a with
  | .shift _ => a != none
  | .reduce j =>
    (match g.rules[j]? with
     | some rule => hasCore (C.items s) (some j) rule.rhs.length
     | none => false)
  | .accept => a == none && hasCore (C.items s) none 1
  | .err => true

def validB (g : Grammar Nat Nat) (nN : Nat) (C : Cert) : Bool :=
  C.actions.length == C.states.length && C.gotos.length == C.states.length &&
  C.gotos.all (fun row => row.length ≤ nN) &&
  firstClosedB g C.first &&
  (C.items C.start).contains ⟨none, 0, none⟩ &&
  (allStates C).all (fun s =>
    (C.items s).all (itemB g C s) &&
    (allSyms C nN).all (transB g C s) &&
    (allLa C).all (cellB g C s))

/-! ### soundness of the validator -/

theorem items_lt {C : Cert} {s : Nat} {it : It} (h : it ∈ C.items s) : s ∈ allStates C := by
  unfold Cert.items at h
  unfold allStates
  rw [List.mem_range]
  by_cases hs : s < C.states.length
  · exact hs
  · rw [List.getD_eq_getElem?_getD, List.getElem?_eq_none (by omega)] at h
    simp at h

theorem act_some_lt {C : Cert} {s c : Nat} (h : C.act s (some c) ≠ .err) : c < C.nT := by
  unfold Cert.act at h
  simp only at h
  by_cases hc : c < C.nT
  · exact hc
  · simp [hc] at h

theorem act_ne_err_lt {C : Cert} {s : Nat} {a : Option Nat} (h : C.act s a ≠ .err)
    (hlen : C.actions.length = C.states.length) : s ∈ allStates C ∧ a ∈ allLa C := by
  constructor
  · unfold allStates; rw [List.mem_range]
    by_cases hs : s < C.states.length
    · exact hs
    · exfalso; apply h
      unfold Cert.act
      have : C.actions[s]? = none := List.getElem?_eq_none (by omega)
      cases a <;> simp [this]
  · unfold allLa
    cases a with
    | none => simp
    | some c =>
      have := act_some_lt h
      simp only [List.mem_cons, List.mem_map, List.mem_range]
      exact Or.inr ⟨c, this, rfl⟩

theorem delta_some_mem {C : Cert} {nN s t : Nat} {X : Sym Nat Nat} (h : C.delta s X = some t)
    (hlen : C.actions.length = C.states.length) (hglen : C.gotos.length = C.states.length)
    (hrows : ∀ row ∈ C.gotos, row.length ≤ nN) : s ∈ allStates C ∧ X ∈ allSyms C nN := by
  cases X with
  | t c =>
    simp only [Cert.delta] at h
    have hne : C.act s (some c) ≠ .err := by
      intro e; rw [e] at h; cases h
    obtain ⟨h1, _⟩ := act_ne_err_lt hne hlen
    refine ⟨h1, ?_⟩
    unfold allSyms
    simp only [List.mem_append, List.mem_map, List.mem_range]
    exact Or.inl ⟨c, act_some_lt hne, rfl⟩
  | n B =>
    simp only [Cert.delta, Cert.goto] at h
    cases hrow : C.gotos[s]? with
    | none => simp [hrow] at h
    | some row =>
      have hs : s < C.gotos.length := (List.getElem?_eq_some_iff.mp hrow).1
      have hmem : row ∈ C.gotos := List.mem_of_getElem? hrow
      cases hcell : row[B]? with
      | none => simp [hrow, hcell] at h
      | some cell =>
        have hB : B < row.length := (List.getElem?_eq_some_iff.mp hcell).1
        have := hrows row hmem
        refine ⟨by unfold allStates; rw [List.mem_range]; omega, ?_⟩
        unfold allSyms
        simp only [List.mem_append, List.mem_map, List.mem_range]
        exact Or.inr ⟨B, by omega, rfl⟩

theorem hasCore_iff {l : List It} {r : Option Nat} {d : Nat} :
    hasCore l r d = true ↔ ∃ a, (⟨r, d, a⟩ : It) ∈ l := by
  unfold hasCore
  rw [List.any_eq_true]
  constructor
  · rintro ⟨⟨r', d', a'⟩, hm, he⟩
    simp only [Bool.and_eq_true, beq_iff_eq] at he
    obtain ⟨rfl, rfl⟩ := he
    exact ⟨a', hm⟩
  · rintro ⟨a, hm⟩
    exact ⟨_, hm, by simp⟩

structure Checked (g : Grammar Nat Nat) (nN : Nat) (C : Cert) : Prop where
  alen : C.actions.length = C.states.length
  glen : C.gotos.length = C.states.length
  grows : ∀ row ∈ C.gotos, row.length ≤ nN
  first : firstClosedB g C.first = true
  start : (⟨none, 0, none⟩ : It) ∈ C.items C.start
  item : ∀ s it, it ∈ C.items s → itemB g C s it = true
  trans : ∀ s X, s ∈ allStates C → X ∈ allSyms C nN → transB g C s X = true
  cell : ∀ s a, s ∈ allStates C → a ∈ allLa C → cellB g C s a = true

theorem checked_of_validB {g : Grammar Nat Nat} {nN : Nat} {C : Cert} (h : validB g nN C = true) :
    Checked g nN C := by
  unfold validB at h
  simp only [Bool.and_eq_true, beq_iff_eq, List.all_eq_true, decide_eq_true_eq, List.contains_iff_mem] at h
  obtain ⟨⟨⟨⟨⟨h1, h2⟩, h3⟩, h4⟩, h5⟩, h6⟩ := h
  refine ⟨h1, h2, h3, ?_, h5, ?_, ?_, ?_⟩
  · exact h4
  · intro s it hm
    exact (h6 s (items_lt hm)).1.1 it hm
  · intro s X hs hX
    exact (h6 s hs).1.2 X hX
  · intro s a hs ha
    exact (h6 s hs).2 a ha

/-! #### FIRST -/

theorem mem_firstSeq_cons_t {ft : FirstTbl} {c : Nat} {xs : List (Sym Nat Nat)} {a : Option Nat} :
    firstSeq ft (.t c :: xs) a = [some c] := by
  simp [firstSeq, seqTerms, seqNullable]

theorem mem_first_aux (ts T : List Nat) (eps nl : Bool) (a b : Option Nat) :
    (b ∈ (ts ++ if eps = true then T else []).map some ++ (if (eps && nl) = true then [a] else [])) ↔
      b ∈ ts.map some ∨ (eps = true ∧ b ∈ T.map some ++ if nl = true then [a] else []) := by
  cases eps with
  | false => simp
  | true =>
    simp only [if_true, Bool.true_and, List.map_append, List.mem_append, true_and]
    constructor
    · rintro ((h1 | h1) | h1)
      · exact Or.inl h1
      · exact Or.inr (Or.inl h1)
      · exact Or.inr (Or.inr h1)
    · rintro (h1 | h1 | h1)
      · exact Or.inl (Or.inl h1)
      · exact Or.inl (Or.inr h1)
      · exact Or.inr h1

theorem mem_firstSeq_cons_n {ft : FirstTbl} {B : Nat} {xs : List (Sym Nat Nat)} {a b : Option Nat} :
    b ∈ firstSeq ft (.n B :: xs) a ↔
      b ∈ (ft.getD B ([], false)).1.map some ∨ ((ft.getD B ([], false)).2 = true ∧ b ∈ firstSeq ft xs a) := by
  simp only [firstSeq, seqTerms, seqNullable]
  exact mem_first_aux _ _ _ _ _ _

/-- composition: FIRST of `x :: xs` from FIRST of `[x]` and FIRST of `xs` -/
theorem firstSeq_compose {ft : FirstTbl} {x : Sym Nat Nat} {xs : List (Sym Nat Nat)} {a a' b : Option Nat}
    (h1 : b ∈ firstSeq ft [x] a') (h2 : a' ∈ firstSeq ft xs a) : b ∈ firstSeq ft (x :: xs) a := by
  cases x with
  | t c => rw [mem_firstSeq_cons_t] at h1 ⊢; exact h1
  | n B =>
    rw [mem_firstSeq_cons_n] at h1 ⊢
    rcases h1 with h1 | ⟨he, h1⟩
    · exact Or.inl h1
    · refine Or.inr ⟨he, ?_⟩
      have : b = a' := by simpa [firstSeq, seqTerms, seqNullable] using h1
      rw [this]; exact h2

theorem first_rule_closed {g : Grammar Nat Nat} {ft : FirstTbl} (hc : firstClosedB g ft = true)
    {rule : Rule Nat Nat} (hr : rule ∈ g.rules) {a b : Option Nat} (hb : b ∈ firstSeq ft rule.rhs a) :
    b ∈ firstSeq ft [.n rule.lhs] a := by
  unfold firstClosedB at hc
  rw [List.all_eq_true] at hc
  have := hc rule hr
  simp only [Bool.and_eq_true, List.all_eq_true, Bool.or_eq_true, Bool.not_eq_true', List.contains_iff_mem] at this
  obtain ⟨h1, h2⟩ := this
  rw [mem_firstSeq_cons_n]
  simp only [firstSeq, List.mem_append, List.mem_map] at hb
  rcases hb with ⟨c, hc', rfl⟩ | hb
  · exact Or.inl (List.mem_map.mpr ⟨c, h1 c hc', rfl⟩)
  · cases hn : seqNullable ft rule.rhs with
    | false => simp [hn] at hb
    | true =>
      simp [hn] at hb
      rcases h2 with h2 | h2
      · rw [hn] at h2; cases h2
      · refine Or.inr ⟨h2, ?_⟩
        simp [firstSeq, seqTerms, seqNullable, hb]

theorem la_yield_append {P : Type} (tok : Tok Nat P) (l : List (Tok Nat P)) : la (tok :: l) = some tok.kind := rfl

/-- FIRST is complete for trees (by induction on size) -/
theorem first_complete_aux {P : Type} {g : Grammar Nat Nat} {ft : FirstTbl} (hc : firstClosedB g ft = true) :
    ∀ n,
      (∀ (t : Tree Nat P) X, t.size ≤ n → WF g t X → ∀ rest : List (Tok Nat P),
        la (t.yield ++ rest) ∈ firstSeq ft [X] (la rest)) ∧
      (∀ (ts : List (Tree Nat P)) β, sizeList ts ≤ n → WFL g ts β → ∀ rest : List (Tok Nat P),
        la (yieldList ts ++ rest) ∈ firstSeq ft β (la rest)) := by
  intro n
  induction n with
  | zero =>
    constructor
    · intro t X hs; have := tree_size_pos t; omega
    · intro ts β hs hw rest
      cases hw with
      | nil => simp [yieldList, firstSeq, seqTerms, seqNullable]
      | @cons c _ _ _ h1 _ => have := tree_size_pos c; simp [sizeList] at hs; omega
  | succ n ih =>
    have hlist : ∀ (ts : List (Tree Nat P)) β, sizeList ts ≤ n + 1 → WFL g ts β → ∀ rest : List (Tok Nat P),
        (∀ (t : Tree Nat P) X, t.size ≤ n + 1 → WF g t X → ∀ rest : List (Tok Nat P),
          la (t.yield ++ rest) ∈ firstSeq ft [X] (la rest)) →
        la (yieldList ts ++ rest) ∈ firstSeq ft β (la rest) := by
      intro ts
      induction ts with
      | nil =>
        intro β _ hw rest _
        cases hw
        simp [yieldList, firstSeq, seqTerms, seqNullable]
      | cons c cs ihl =>
        intro β hs hw rest htree
        cases hw with
        | @cons _ _ x xs h1 h2 =>
          simp only [sizeList] at hs
          have hcs : sizeList cs ≤ n + 1 := by omega
          have hc1 : c.size ≤ n + 1 := by omega
          have e : yieldList (c :: cs) ++ rest = c.yield ++ (yieldList cs ++ rest) := by simp [yieldList]
          rw [e]
          exact firstSeq_compose (htree c x hc1 h1 _) (ihl xs hcs h2 rest htree)
    have htree : ∀ (t : Tree Nat P) X, t.size ≤ n + 1 → WF g t X → ∀ rest : List (Tok Nat P),
        la (t.yield ++ rest) ∈ firstSeq ft [X] (la rest) := by
      intro t X hs hw rest
      cases hw with
      | leaf tok => simp [Tree.yield, la, firstSeq, seqTerms, seqNullable]
      | node r rule cs hr hwl =>
        simp only [Tree.size] at hs
        have hcs : sizeList cs ≤ n := by omega
        have := ih.2 cs rule.rhs hcs hwl rest
        simp only [Tree.yield]
        exact first_rule_closed hc (List.mem_of_getElem? hr) this
    exact ⟨htree, fun ts β hs hw rest => hlist ts β hs hw rest htree⟩

/-! #### the two theorems -/

theorem rhs_get_of_drop {α} {l : List α} {d : Nat} {x : α} (h : l[d]? = some x) : d < l.length :=
  (List.getElem?_eq_some_iff.mp h).1

theorem complete_of_checked {P : Type} {g : Grammar Nat Nat} {nN : Nat} {C : Cert} (hk : Checked g nN C) :
    Complete (P := P) g (mkAuto C) where
  start := hk.start
  closure := by
    intro s r d a rhs B j rule' b hit hrhs hget hj hlhs hfirst
    have := hk.item s ⟨r, d, a⟩ hit
    unfold itemB at this
    simp only [hrhs, hget, Bool.and_eq_true] at this
    obtain ⟨⟨_, h2⟩, _⟩ := this
    obtain ⟨_, hcl⟩ := h2
    rw [List.all_eq_true] at hcl
    have hmem : (rule', j) ∈ g.rules.zipIdx := by
      rw [List.mem_zipIdx_iff_getElem?]; simpa using hj
    have := hcl (rule', j) hmem
    simp only [Bool.or_eq_true, bne_iff_ne, ne_eq, List.all_eq_true, List.contains_iff_mem] at this
    rcases this with h | h
    · exact absurd hlhs h
    · exact h b hfirst
  trans := by
    intro s r d a rhs X hit hrhs hget
    have := hk.item s ⟨r, d, a⟩ hit
    unfold itemB at this
    simp only [hrhs, hget, Bool.and_eq_true] at this
    obtain ⟨⟨_, h2⟩, _⟩ := this
    obtain ⟨htr, _⟩ := h2
    show ∃ t, C.delta s X = some t ∧ _ ∈ C.items t
    cases hd : C.delta s X with
    | none => simp [hd] at htr
    | some t =>
      simp only [hd, List.contains_iff_mem] at htr
      exact ⟨t, rfl, htr⟩
  shift := by
    intro s r d a rhs c t _ _ _ hd
    show C.act s (some c) = .shift t
    simp only [mkAuto, Cert.delta] at hd
    split at hd
    · rename_i t' ht; cases hd; exact ht
    · cases hd
  reduce := by
    intro s j a rule hit hr
    have := hk.item s ⟨some j, rule.rhs.length, a⟩ hit
    unfold itemB at this
    have hrhs : g.rhsOf (some j) = some rule.rhs := by simp [Grammar.rhsOf, hr]
    have hget : rule.rhs[rule.rhs.length]? = none := List.getElem?_eq_none (Nat.le_refl _)
    simp only [hrhs, hget, Bool.and_eq_true, beq_iff_eq] at this
    exact this.1.2
  accept := by
    intro s hit
    have := hk.item s ⟨none, 1, none⟩ hit
    unfold itemB at this
    have hrhs : g.rhsOf none = some [.n g.start] := rfl
    simp only [hrhs, Bool.and_eq_true] at this
    have h3 := this.1.2
    simp at h3
    exact h3
  goto := by intro s B; rfl
  firstComplete := by
    intro ts β rest hw
    exact (first_complete_aux hk.first (sizeList ts)).2 ts β (Nat.le_refl _) hw rest

theorem sound_of_checked {g : Grammar Nat Nat} {nN : Nat} {C : Cert} (hk : Checked g nN C) :
    Sound g (mkAuto C) where
  wfItem := by
    intro s r d a hit
    have := hk.item s ⟨r, d, a⟩ hit
    unfold itemB at this
    cases hr : g.rhsOf r with
    | none => simp [hr] at this
    | some rhs =>
      simp only [hr, Bool.and_eq_true, decide_eq_true_eq] at this
      exact ⟨rhs, rfl, this.1.1.1.1⟩
  startDot := by
    intro r d a hit
    have := hk.item C.start ⟨r, d, a⟩ hit
    unfold itemB at this
    cases hr : g.rhsOf r with
    | none => simp [hr] at this
    | some rhs =>
      simp only [hr, Bool.and_eq_true] at this
      have h := this.1.1.1.2
      simpa using h
  kernel := by
    intro s X t r d a rhs hd hit hrhs
    obtain ⟨hs, hX⟩ := delta_some_mem (nN := nN) hd hk.alen hk.glen hk.grows
    have := hk.trans s X hs hX
    unfold transB at this
    simp only [show C.delta s X = some t from hd, Bool.and_eq_true, List.all_eq_true] at this
    have := this.2 ⟨r, d + 1, a⟩ hit
    simp only [hrhs, Bool.and_eq_true, beq_iff_eq] at this
    exact ⟨this.1, hasCore_iff.mp this.2⟩
  closure0 := by
    intro s j a rule hit hr
    have := hk.item s ⟨some j, 0, a⟩ hit
    unfold itemB at this
    have hrhs : g.rhsOf (some j) = some rule.rhs := by simp [Grammar.rhsOf, hr]
    simp only [hrhs, hr, Bool.and_eq_true] at this
    have h := this.2
    rw [List.any_eq_true] at h
    obtain ⟨⟨r', d', a'⟩, hm, hp⟩ := h
    cases hr' : g.rhsOf r' with
    | none => simp [hr'] at hp
    | some rhs' =>
      simp only [hr', beq_iff_eq] at hp
      exact ⟨r', d', a', rhs', hm, hr', hp⟩
  aug0 := by
    intro s a hit
    have := hk.item s ⟨none, 0, a⟩ hit
    unfold itemB at this
    have hrhs : g.rhsOf none = some [.n g.start] := rfl
    simp only [hrhs, Bool.and_eq_true] at this
    have h := this.1.1.2
    show s = C.start
    simpa using h
  noBack := by
    intro s X hd
    obtain ⟨hs, hX⟩ := delta_some_mem (nN := nN) hd hk.alen hk.glen hk.grows
    have := hk.trans s X hs hX
    unfold transB at this
    simp only [show C.delta s X = some C.start from hd, Bool.and_eq_true] at this
    simp at this
  transN := by
    intro s r d a rhs B hit hrhs hget
    obtain ⟨t, ht, _⟩ := (complete_of_checked (P := Unit) hk).trans s r d a rhs (.n B) hit hrhs hget
    exact ⟨t, ht⟩
  goto := by intro s B; rfl
  actShift := by
    intro s a t hact
    have hne : C.act s a ≠ .err := by intro e; rw [show C.act s a = .shift t from hact] at e; cases e
    obtain ⟨hs, ha⟩ := act_ne_err_lt hne hk.alen
    have := hk.cell s a hs ha
    unfold cellB at this
    rw [show C.act s a = .shift t from hact] at this
    cases a with
    | none => simp at this
    | some c =>
      refine ⟨c, rfl, ?_⟩
      show C.delta s (.t c) = some t
      simp only [Cert.delta, show C.act s (some c) = .shift t from hact]
  actReduce := by
    intro s a j hact
    have hne : C.act s a ≠ .err := by intro e; rw [show C.act s a = .reduce j from hact] at e; cases e
    obtain ⟨hs, ha⟩ := act_ne_err_lt hne hk.alen
    have := hk.cell s a hs ha
    unfold cellB at this
    rw [show C.act s a = .reduce j from hact] at this
    cases hr : g.rules[j]? with
    | none => simp [hr] at this
    | some rule =>
      simp only [hr] at this
      obtain ⟨a', hm⟩ := hasCore_iff.mp this
      exact ⟨rule, a', rfl, hm⟩
  actAccept := by
    intro s a hact
    have hne : C.act s a ≠ .err := by intro e; rw [show C.act s a = .accept from hact] at e; cases e
    obtain ⟨hs, ha⟩ := act_ne_err_lt hne hk.alen
    have := hk.cell s a hs ha
    unfold cellB at this
    rw [show C.act s a = .accept from hact] at this
    simp only [Bool.and_eq_true, beq_iff_eq] at this
    exact ⟨this.1, hasCore_iff.mp this.2⟩

/-- **the validator is sound** -/
theorem validB_sound {P : Type} {g : Grammar Nat Nat} {nN : Nat} {C : Cert} (h : validB g nN C = true) :
    Sound g (mkAuto C) ∧ Complete (P := P) g (mkAuto C) :=
  ⟨sound_of_checked (checked_of_validB h), complete_of_checked (checked_of_validB h)⟩

end Valid
end KikiVerif

namespace KikiVerif
namespace Valid
open LR

/-! ### untrusted helpers for building certificates (their output is checked by `validB`) -/

def firstStep (g : Grammar Nat Nat) (ft : FirstTbl) : FirstTbl :=
  g.rules.foldl (fun ft r =>
    let old := ft.getD r.lhs ([], false)
    let ts := (seqTerms ft r.rhs).foldl (fun acc c => if acc.contains c then acc else acc ++ [c]) old.1
    ft.set r.lhs (ts, old.2 || seqNullable ft r.rhs)) ft

def computeFirst (g : Grammar Nat Nat) (nT nN : Nat) : FirstTbl :=
  (List.range (nN * (nT + 2) + 2)).foldl (fun ft _ => firstStep g ft) (List.replicate nN ([], false))

/-- which part of `validB` fails first (diagnostics for the correspondence check) -/
def explain (g : Grammar Nat Nat) (nN : Nat) (C : Cert) : String :=
  if !(C.actions.length == C.states.length && C.gotos.length == C.states.length) then "table height differs from the number of states"
  else if !(C.gotos.all (fun row => row.length ≤ nN)) then "goto row too wide"
  else if !(firstClosedB g C.first) then "FIRST table not closed"
  else if !((C.items C.start).contains ⟨none, 0, none⟩) then "start state lacks the augmented item"
  else
    match (allStates C).find? (fun s => !((C.items s).all (itemB g C s))) with
    | some s =>
      match (C.items s).find? (fun it => !(itemB g C s it)) with
      | some it => s!"state {s}: item check fails for rule {it.rule} dot {it.dot} la {it.la}"
      | none => "?"
    | none =>
      match (allStates C).find? (fun s => !((allSyms C nN).all (transB g C s))) with
      | some s => s!"state {s}: a transition target has a kernel item without pre-image, or targets the start state"
      | none =>
        match (allStates C).find? (fun s => !((allLa C).all (cellB g C s))) with
        | some s => s!"state {s}: an action cell is not demanded by an item of the state"
        | none => "ok"

end Valid
end KikiVerif
