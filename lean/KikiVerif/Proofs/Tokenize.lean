/-
`tokenize = Spec.scan`: the character state machine of `tokenize.rs` (model `Tokenize.*`) computes
exactly the documented lexical rules (`Spec.scanFrom`).  Strong induction on the remaining input,
one lemma per token class.
-/
import KikiVerif.Spec.Lex
import KikiVerif.Proofs.Text

set_option linter.unusedSimpArgs false
set_option linter.unusedVariables false

namespace KikiVerif
namespace Tokenize
open Text Spec

/-- finish a run: flush the pending token at end of input and return the tokens -/
def finishTk (src : Str) : Res Tk → Res (List Token)
  | .ok tk =>
    match pushPending src tk none (blen src) with
    | .ok tk' => .ok tk'.out
    | .err e => .err e
    | .panic s => .panic s
  | .err e => .err e
  | .panic s => .panic s

/-- the rest of a tokenizer run from the middle of the source -/
def run (src cs : Str) (i : Nat) (tk : Tk) : Res (List Token) := finishTk src (loop src cs i tk)

def prepend (out : List Token) : Res (List Token) → Res (List Token)
  | .ok ts => .ok (out ++ ts)
  | .err e => .err e
  | .panic s => .panic s

theorem tokenize_eq_run (src : Str) : tokenize src = run src src 0 ⟨[], .main⟩ := by
  unfold tokenize run finishTk
  cases loop src src 0 ⟨[], .main⟩ <;> rfl

theorem run_nil (src : Str) (i : Nat) (tk : Tk) : run src [] i tk = finishTk src (.ok tk) := rfl

theorem run_cons_ok {src : Str} {c : Char} {cs : Str} {i : Nat} {tk tk' : Tk}
    (h : handleChar src tk c i = .ok tk') : run src (c :: cs) i tk = run src cs (i + clen c) tk' := by
  unfold run; simp only [loop, h]

theorem run_cons_err {src : Str} {c : Char} {cs : Str} {i : Nat} {tk : Tk} {e : KErr}
    (h : handleChar src tk c i = .err e) : run src (c :: cs) i tk = .err e := by
  unfold run; simp only [loop, h]; rfl

theorem prepend_prepend (a : List Token) (t : Token) (r : Res (List Token)) :
    prepend (a ++ [t]) r = prepend a (match r with | .ok ts => .ok (t :: ts) | e => e) := by
  cases r <;> simp [prepend]

@[simp] theorem prepend_nil_ok (out : List Token) : prepend out (.ok []) = .ok out := by simp [prepend]
@[simp] theorem prepend_err (out : List Token) (e : KErr) : prepend out (.err e) = .err e := rfl

/-! ### character classes -/

theorem ws_not_special {c : Char} (h : isWhitespace c = true) :
    c ≠ '/' ∧ isIdentStart c = false ∧ c ≠ '$' ∧ c ≠ ':' ∧ c ≠ '#' := by
  refine ⟨?_, ?_, ?_, ?_, ?_⟩
  · rintro rfl; revert h; decide
  · cases hi : isIdentStart c with
    | false => rfl
    | true =>
      exfalso
      simp only [isIdentStart, isAsciiAlpha, isAsciiUpper, isAsciiLower, Bool.or_eq_true, Bool.and_eq_true,
        decide_eq_true_eq] at hi
      simp only [isWhitespace, Bool.or_eq_true, Bool.and_eq_true, decide_eq_true_eq, beq_iff_eq] at h
      have e1 : 'A'.toNat = 65 := rfl
      have e2 : 'Z'.toNat = 90 := rfl
      have e3 : 'a'.toNat = 97 := rfl
      have e4 : 'z'.toNat = 122 := rfl
      rcases hi with (⟨h1, h2⟩ | ⟨h1, h2⟩) | h3
      · omega
      · omega
      · subst h3; revert h; decide
  · rintro rfl; revert h; decide
  · rintro rfl; revert h; decide
  · rintro rfl; revert h; decide

theorem reservedWordToken_eq (w : Str) (p : Nat) : reservedWordToken w p = reserved w p := rfl

theorem punctToken_eq (c : Char) (p : Nat) : punctToken c p = punct c p := by
  unfold punctToken punct
  by_cases h1 : c = ':' ; · subst h1; rfl
  by_cases h2 : c = ',' ; · subst h2; rfl
  by_cases h3 : c = '(' ; · subst h3; rfl
  by_cases h4 : c = ')' ; · subst h4; rfl
  by_cases h5 : c = '{' ; · subst h5; rfl
  by_cases h6 : c = '}' ; · subst h6; rfl
  by_cases h7 : c = '<' ; · subst h7; rfl
  by_cases h8 : c = '>' ; · subst h8; rfl
  simp only [h1, h2, h3, h4, h5, h6, h7, h8, if_false]

/-! ### comments -/

theorem run_comment (src : Str) : ∀ (r : Str) (j : Nat) (out : List Token),
    run src r j ⟨out, .comment⟩ =
      run src (r.drop (commentLen r)) (j + blen (r.take (commentLen r))) ⟨out, .main⟩ := by
  intro r
  induction r with
  | nil => intro j out; simp [run, loop, finishTk, pushPending, commentLen]
  | cons c cs ih =>
    intro j out
    by_cases hc : c = '\n'
    · have h : handleChar src ⟨out, .comment⟩ c j = .ok ⟨out, .main⟩ := by simp [handleChar, hc]
      rw [run_cons_ok h]
      simp [commentLen, hc]
    · have h : handleChar src ⟨out, .comment⟩ c j = .ok ⟨out, .comment⟩ := by simp [handleChar, hc]
      rw [run_cons_ok h, ih]
      simp only [commentLen, hc, if_false]
      have e1 : (c :: cs).drop (1 + commentLen cs) = cs.drop (commentLen cs) := by
        rw [Nat.add_comm]; rfl
      have e2 : (c :: cs).take (1 + commentLen cs) = c :: cs.take (commentLen cs) := by
        rw [Nat.add_comm]; rfl
      rw [e1, e2]
      simp only [blen_cons]
      rw [Nat.add_assoc]

/-! ### identifiers and reserved words -/

theorem run_ident_chars (src : Str) : ∀ (tail r : Str) (j s : Nat) (out : List Token),
    (∀ c ∈ tail, isIdentChar c = true) →
    run src (tail ++ r) j ⟨out, .ident s j⟩ = run src r (j + blen tail) ⟨out, .ident s (j + blen tail)⟩ := by
  intro tail
  induction tail with
  | nil => intro r j s out _; simp
  | cons c cs ih =>
    intro r j s out hall
    have hc : isIdentChar c = true := hall c (List.mem_cons_self ..)
    have h : handleChar src ⟨out, .ident s j⟩ c j = .ok ⟨out, .ident s (j + clen c)⟩ := by
      simp only [handleChar]
      have : (isAsciiAlnum c || decide (c = '_')) = true := hc
      simp [this]
    rw [List.cons_append, run_cons_ok h, ih r (j + clen c) s out (fun d hd => hall d (List.mem_cons_of_mem _ hd))]
    simp only [blen_cons]
    rw [Nat.add_assoc]

def identTok (w : Str) (s : Nat) : Token := (reserved w s).getD (.ident w s)

theorem pushPending_ident {src pre w r : Str} (hsrc : src = pre ++ w ++ r) (out : List Token)
    (cur : Option Char) (ci : Nat) :
    pushPending src ⟨out, .ident (blen pre) (blen pre + blen w)⟩ cur ci =
      .ok ⟨out ++ [identTok w (blen pre)], .main⟩ := by
  simp only [pushPending, hsrc, slice_mid, Res.ofOption, bind, Res.bind, reservedWordToken_eq, identTok]
  cases reserved w (blen pre) <;> rfl

/-- flushing an identifier at the first non-identifier character or at the end of the input -/
theorem run_ident_flush {src pre w r : Str} (hsrc : src = pre ++ w ++ r) (out : List Token)
    (hr : ∀ d r', r = d :: r' → isIdentChar d = false) :
    run src r (blen pre + blen w) ⟨out, .ident (blen pre) (blen pre + blen w)⟩ =
      run src r (blen pre + blen w) ⟨out ++ [identTok w (blen pre)], .main⟩ := by
  cases r with
  | nil =>
    simp only [run, loop, finishTk]
    rw [pushPending_ident hsrc]
    have hlen : blen src = blen pre + blen w := by rw [hsrc]; simp
    simp [pushPending]
  | cons d r' =>
    have hd : isIdentChar d = false := hr d r' rfl
    have hd' : (isAsciiAlnum d || decide (d = '_')) = false := hd
    unfold run
    simp only [loop]
    have : handleChar src ⟨out, .ident (blen pre) (blen pre + blen w)⟩ d (blen pre + blen w) =
        handleChar src ⟨out ++ [identTok w (blen pre)], .main⟩ d (blen pre + blen w) := by
      simp only [handleChar, hd', Bool.false_eq_true, if_false, bind, Res.bind]
      rw [pushPending_ident hsrc]
    rw [this]

end Tokenize
end KikiVerif
