/-
`tokenize = Spec.scan`: the character state machine of `tokenize.rs` (model `Tokenize.*`) computes
exactly the documented lexical rules (`Spec.scanFrom`).  Strong induction on the remaining input,
one lemma per token class.
-/
import KikiVerif.Spec.Lex
import KikiVerif.Proofs.Text

set_option linter.unusedSimpArgs false
set_option linter.unusedVariables false

namespace KikiVerif
namespace Tokenize
open Text Spec

/-- finish a run: flush the pending token at end of input and return the tokens -/
def finishTk (src : Str) : Res Tk → Res (List Token)
  | .ok tk =>
    match pushPending src tk none (blen src) with
    | .ok tk' => .ok tk'.out
    | .err e => .err e
    | .panic s => .panic s
  | .err e => .err e
  | .panic s => .panic s

/-- the rest of a tokenizer run from the middle of the source -/
def run (src cs : Str) (i : Nat) (tk : Tk) : Res (List Token) := finishTk src (loop src cs i tk)

def prepend (out : List Token) : Res (List Token) → Res (List Token)
  | .ok ts => .ok (out ++ ts)
  | .err e => .err e
  | .panic s => .panic s

theorem tokenize_eq_run (src : Str) : tokenize src = run src src 0 ⟨[], .main⟩ := by
  unfold tokenize run finishTk
  cases loop src src 0 ⟨[], .main⟩ <;> rfl

theorem run_nil (src : Str) (i : Nat) (tk : Tk) : run src [] i tk = finishTk src (.ok tk) := rfl

theorem run_cons_ok {src : Str} {c : Char} {cs : Str} {i : Nat} {tk tk' : Tk}
    (h : handleChar src tk c i = .ok tk') : run src (c :: cs) i tk = run src cs (i + clen c) tk' := by
  unfold run; simp only [loop, h]

theorem run_cons_err {src : Str} {c : Char} {cs : Str} {i : Nat} {tk : Tk} {e : KErr}
    (h : handleChar src tk c i = .err e) : run src (c :: cs) i tk = .err e := by
  unfold run; simp only [loop, h]; rfl

theorem prepend_prepend (a : List Token) (t : Token) (r : Res (List Token)) :
    prepend (a ++ [t]) r = prepend a (match r with | .ok ts => .ok (t :: ts) | e => e) := by
  cases r <;> simp [prepend]

@[simp] theorem prepend_nil_ok (out : List Token) : prepend out (.ok []) = .ok out := by simp [prepend]
@[simp] theorem prepend_err (out : List Token) (e : KErr) : prepend out (.err e) = .err e := rfl

/-! ### character classes -/

theorem ws_not_special {c : Char} (h : isWhitespace c = true) :
    c ≠ '/' ∧ isIdentStart c = false ∧ c ≠ '$' ∧ c ≠ ':' ∧ c ≠ '#' := by
  refine ⟨?_, ?_, ?_, ?_, ?_⟩
  · rintro rfl; revert h; decide
  · cases hi : isIdentStart c with
    | false => rfl
    | true =>
      exfalso
      simp only [isIdentStart, isAsciiAlpha, isAsciiUpper, isAsciiLower, Bool.or_eq_true, Bool.and_eq_true,
        decide_eq_true_eq] at hi
      simp only [isWhitespace, Bool.or_eq_true, Bool.and_eq_true, decide_eq_true_eq, beq_iff_eq] at h
      have e1 : 'A'.toNat = 65 := rfl
      have e2 : 'Z'.toNat = 90 := rfl
      have e3 : 'a'.toNat = 97 := rfl
      have e4 : 'z'.toNat = 122 := rfl
      rcases hi with (⟨h1, h2⟩ | ⟨h1, h2⟩) | h3
      · omega
      · omega
      · subst h3; revert h; decide
  · rintro rfl; revert h; decide
  · rintro rfl; revert h; decide
  · rintro rfl; revert h; decide

theorem reservedWordToken_eq (w : Str) (p : Nat) : reservedWordToken w p = reserved w p := rfl

theorem punctToken_eq (c : Char) (p : Nat) : punctToken c p = punct c p := by
  unfold punctToken punct
  by_cases h1 : c = ':' ; · subst h1; rfl
  by_cases h2 : c = ',' ; · subst h2; rfl
  by_cases h3 : c = '(' ; · subst h3; rfl
  by_cases h4 : c = ')' ; · subst h4; rfl
  by_cases h5 : c = '{' ; · subst h5; rfl
  by_cases h6 : c = '}' ; · subst h6; rfl
  by_cases h7 : c = '<' ; · subst h7; rfl
  by_cases h8 : c = '>' ; · subst h8; rfl
  simp only [h1, h2, h3, h4, h5, h6, h7, h8, if_false]

/-! ### comments -/

theorem run_comment (src : Str) : ∀ (r : Str) (j : Nat) (out : List Token),
    run src r j ⟨out, .comment⟩ =
      run src (r.drop (commentLen r)) (j + blen (r.take (commentLen r))) ⟨out, .main⟩ := by
  intro r
  induction r with
  | nil => intro j out; simp [run, loop, finishTk, pushPending, commentLen]
  | cons c cs ih =>
    intro j out
    by_cases hc : c = '\n'
    · have h : handleChar src ⟨out, .comment⟩ c j = .ok ⟨out, .main⟩ := by simp [handleChar, hc]
      rw [run_cons_ok h]
      simp [commentLen, hc]
    · have h : handleChar src ⟨out, .comment⟩ c j = .ok ⟨out, .comment⟩ := by simp [handleChar, hc]
      rw [run_cons_ok h, ih]
      simp only [commentLen, hc, if_false]
      have e1 : (c :: cs).drop (1 + commentLen cs) = cs.drop (commentLen cs) := by
        rw [Nat.add_comm]; rfl
      have e2 : (c :: cs).take (1 + commentLen cs) = c :: cs.take (commentLen cs) := by
        rw [Nat.add_comm]; rfl
      rw [e1, e2]
      simp only [blen_cons]
      rw [Nat.add_assoc]

/-! ### identifiers and reserved words -/

theorem run_ident_chars (src : Str) : ∀ (tail r : Str) (j s : Nat) (out : List Token),
    (∀ c ∈ tail, isIdentChar c = true) →
    run src (tail ++ r) j ⟨out, .ident s j⟩ = run src r (j + blen tail) ⟨out, .ident s (j + blen tail)⟩ := by
  intro tail
  induction tail with
  | nil => intro r j s out _; simp
  | cons c cs ih =>
    intro r j s out hall
    have hc : isIdentChar c = true := hall c (List.mem_cons_self ..)
    have h : handleChar src ⟨out, .ident s j⟩ c j = .ok ⟨out, .ident s (j + clen c)⟩ := by
      simp only [handleChar]
      have : (isAsciiAlnum c || decide (c = '_')) = true := hc
      simp [this]
    rw [List.cons_append, run_cons_ok h, ih r (j + clen c) s out (fun d hd => hall d (List.mem_cons_of_mem _ hd))]
    simp only [blen_cons]
    rw [Nat.add_assoc]

def identTok (w : Str) (s : Nat) : Token := (reserved w s).getD (.ident w s)

theorem pushPending_ident {src pre w r : Str} (hsrc : src = pre ++ w ++ r) (out : List Token)
    (cur : Option Char) (ci : Nat) :
    pushPending src ⟨out, .ident (blen pre) (blen pre + blen w)⟩ cur ci =
      .ok ⟨out ++ [identTok w (blen pre)], .main⟩ := by
  simp only [pushPending, hsrc, slice_mid, Res.ofOption, bind, Res.bind, reservedWordToken_eq, identTok]
  cases reserved w (blen pre) <;> rfl

/-- flushing an identifier at the first non-identifier character or at the end of the input -/
theorem run_ident_flush {src pre w r : Str} (hsrc : src = pre ++ w ++ r) (out : List Token)
    (hr : ∀ d r', r = d :: r' → isIdentChar d = false) :
    run src r (blen pre + blen w) ⟨out, .ident (blen pre) (blen pre + blen w)⟩ =
      run src r (blen pre + blen w) ⟨out ++ [identTok w (blen pre)], .main⟩ := by
  cases r with
  | nil =>
    simp only [run, loop, finishTk]
    rw [pushPending_ident hsrc]
    have hlen : blen src = blen pre + blen w := by rw [hsrc]; simp
    simp [pushPending]
  | cons d r' =>
    have hd : isIdentChar d = false := hr d r' rfl
    have hd' : (isAsciiAlnum d || decide (d = '_')) = false := hd
    unfold run
    simp only [loop]
    have : handleChar src ⟨out, .ident (blen pre) (blen pre + blen w)⟩ d (blen pre + blen w) =
        handleChar src ⟨out ++ [identTok w (blen pre)], .main⟩ d (blen pre + blen w) := by
      simp only [handleChar, hd', Bool.false_eq_true, if_false, bind, Res.bind]
      rw [pushPending_ident hsrc]
    rw [this]

/-! ### `span` -/

theorem span_append (p : Char → Bool) (cs : Str) : (span p cs).1 ++ (span p cs).2 = cs := by
  induction cs with
  | nil => rfl
  | cons c cs ih =>
    simp only [span]
    split
    · simp [ih]
    · rfl

theorem span_fst_all (p : Char → Bool) (cs : Str) : ∀ c ∈ (span p cs).1, p c = true := by
  induction cs with
  | nil => simp [span]
  | cons c cs ih =>
    simp only [span]
    split
    · rename_i h
      intro d hd
      rcases List.mem_cons.mp hd with rfl | hd
      · exact h
      · exact ih d hd
    · simp

theorem span_snd_head (p : Char → Bool) (cs : Str) : ∀ d r, (span p cs).2 = d :: r → p d = false := by
  induction cs with
  | nil => simp [span]
  | cons c cs ih =>
    simp only [span]
    split
    · exact ih
    · rename_i h
      intro d r hd
      cases hd
      simpa using h

theorem span_cons_true (p : Char → Bool) (c : Char) (cs : Str) (h : p c = true) :
    (span p (c :: cs)).1 = c :: (span p cs).1 ∧ (span p (c :: cs)).2 = (span p cs).2 := by
  simp [span, h]

theorem drop_len_append {α} (a b : List α) : (a ++ b).drop a.length = b := by simp
theorem take_len_append {α} (a b : List α) : (a ++ b).take a.length = a := by simp

/-! ### terminal identifiers -/

theorem run_termIdent_chars (src : Str) : ∀ (tail r : Str) (j s : Nat) (out : List Token),
    (∀ c ∈ tail, isIdentChar c = true) →
    run src (tail ++ r) j ⟨out, .termIdent s j⟩ =
      run src r (j + blen tail) ⟨out, .termIdent s (j + blen tail)⟩ := by
  intro tail
  induction tail with
  | nil => intro r j s out _; simp
  | cons c cs ih =>
    intro r j s out hall
    have hc : isIdentChar c = true := hall c (List.mem_cons_self ..)
    have h : handleChar src ⟨out, .termIdent s j⟩ c j = .ok ⟨out, .termIdent s (j + clen c)⟩ := by
      simp only [handleChar]
      have : (isAsciiAlnum c || decide (c = '_')) = true := hc
      simp [this]
    rw [List.cons_append, run_cons_ok h, ih r (j + clen c) s out (fun d hd => hall d (List.mem_cons_of_mem _ hd))]
    simp only [blen_cons]
    rw [Nat.add_assoc]

theorem removeDollars_identChars (w : Str) (h : ∀ c ∈ w, isIdentChar c = true) : removeDollars w = w := by
  unfold removeDollars
  rw [List.filter_eq_self]
  intro c hc
  have := h c hc
  by_cases e : c = '$'
  · subst e; revert this; decide
  · simpa using e

theorem pushPending_termIdent {src pre w r : Str} (hsrc : src = pre ++ ('$' :: w) ++ r) (out : List Token)
    (hw : ∀ c ∈ w, isIdentChar c = true) (cur : Option Char) (ci : Nat) :
    pushPending src ⟨out, .termIdent (blen pre) (blen pre + 1 + blen w)⟩ cur ci =
      if (reserved w 0).isSome then .err (.lex ci cur)
      else .ok ⟨out ++ [.termIdent w (blen pre + 1)], .main⟩ := by
  have hs : sliceBytes src (blen pre) (blen pre + 1 + blen w) = some ('$' :: w) := by
    have := slice_mid pre ('$' :: w) r
    rw [hsrc]
    have e : blen pre + blen ('$' :: w) = blen pre + 1 + blen w := by
      simp only [blen_cons]; have : clen '$' = 1 := by decide
      omega
    rw [e] at this; exact this
  have hrd : removeDollars ('$' :: w) = w := by
    have : removeDollars ('$' :: w) = removeDollars w := by simp [removeDollars]
    rw [this]; exact removeDollars_identChars w hw
  simp only [pushPending, hs, Res.ofOption, bind, Res.bind, hrd, reservedWordToken_eq]
  split <;> rfl

/-! ### outer attributes -/

theorem isOpener_eq (c : Char) : isOpener c = isOpen c := rfl
theorem isCloser_eq (c : Char) : isCloser c = isClose c := rfl
theorem bracketsMatch_eq (o c : Char) : bracketsMatch o c = closes o c := rfl

theorem clen_hash : clen '#' = 1 := by decide
theorem clen_lbracket : clen '[' = 1 := by decide

theorem slice_attr {src pre done rest : Str} (hsrc : src = pre ++ '#' :: '[' :: done ++ rest) :
    sliceBytes src (blen pre) (blen pre + 2 + blen done) = some ('#' :: '[' :: done) := by
  have := slice_mid pre ('#' :: '[' :: done) rest
  have e : blen pre + blen ('#' :: '[' :: done) = blen pre + 2 + blen done := by
    simp only [blen_cons, clen_hash, clen_lbracket]; omega
  rw [e] at this
  rw [hsrc]
  simpa using this

theorem assertBrackets_eq {src pre done rest : Str} (hsrc : src = pre ++ '#' :: '[' :: done ++ rest) :
    assertBrackets src (blen pre) (blen pre + 2 + blen done) = bracketScan done (blen pre + 2) ['['] := by
  have hs : sliceBytes src (blen pre + 1) (blen pre + 2 + blen done) = some ('[' :: done) := by
    have := slice_mid (pre ++ ['#']) ('[' :: done) rest
    have e1 : blen (pre ++ ['#']) = blen pre + 1 := by simp [clen_hash]
    have e2 : blen (pre ++ ['#']) + blen ('[' :: done) = blen pre + 2 + blen done := by
      simp only [blen_append, blen_cons, blen_nil, clen_hash, clen_lbracket]; omega
    rw [e2, e1] at this
    rw [hsrc]
    simpa using this
  simp only [assertBrackets, hs, Res.ofOption, bind, Res.bind]
  have : isOpener '[' = true := by decide
  simp only [bracketScan, this, if_true, clen_lbracket]

theorem bracketScan_append_err : ∀ (a b : Str) (i : Nat) (st : List Char) (e : KErr),
    bracketScan a i st = .err e → bracketScan (a ++ b) i st = .err e := by
  intro a
  induction a with
  | nil => intro b i st e h; simp [bracketScan] at h
  | cons c cs ih =>
    intro b i st e h
    simp only [List.cons_append, bracketScan] at h ⊢
    split
    · rename_i h1; simp only [h1, if_true] at h; exact ih _ _ _ _ h
    · rename_i h1
      simp only [h1] at h
      split
      · rename_i h2
        simp only [h2, if_true] at h
        cases st with
        | nil => simpa using h
        | cons o st' =>
          simp only at h ⊢
          split
          · rename_i h3; simp only [h3, if_true] at h; exact ih _ _ _ _ h
          · rename_i h3; simp only [h3] at h; simpa using h
      · rename_i h2; simp only [h2] at h; exact ih _ _ _ _ h

/-- once the bracket scan of the consumed part has failed, every continuation of the state machine
reports that failure (it is found by the scan at the closing bracket, the newline or the end of input) -/
theorem run_attr_doomed {src pre : Str} (e : KErr) (out : List Token) :
    ∀ (cs done : Str) (cnt : Nat), 1 ≤ cnt → src = pre ++ '#' :: '[' :: done ++ cs →
      bracketScan done (blen pre + 2) ['['] = .err e →
      run src cs (blen pre + 2 + blen done) ⟨out, .attr (blen pre) cnt (blen pre + 2 + blen done)⟩ = .err e := by
  intro cs
  induction cs with
  | nil =>
    intro done cnt _ hsrc hbad
    simp only [run, loop, finishTk, pushPending, bind, Res.bind]
    rw [assertBrackets_eq hsrc, hbad]
  | cons c cs ih =>
    intro done cnt hcnt hsrc hbad
    have hsrc' : src = pre ++ '#' :: '[' :: (done ++ [c]) ++ cs := by rw [hsrc]; simp
    have hbad' : bracketScan (done ++ [c]) (blen pre + 2) ['['] = .err e := bracketScan_append_err _ _ _ _ _ hbad
    have hj : blen pre + 2 + blen done + clen c = blen pre + 2 + blen (done ++ [c]) := by simp; omega
    by_cases h1 : isOpener c = true
    · have h : handleChar src ⟨out, .attr (blen pre) cnt (blen pre + 2 + blen done)⟩ c (blen pre + 2 + blen done) =
          .ok ⟨out, .attr (blen pre) (cnt + 1) (blen pre + 2 + blen done + clen c)⟩ := by
        simp [handleChar, h1]
      rw [run_cons_ok h, hj]
      exact ih _ _ (by omega) hsrc' hbad'
    · by_cases h2 : isCloser c = true
      · by_cases h3 : cnt = 1
        · have h : handleChar src ⟨out, .attr (blen pre) cnt (blen pre + 2 + blen done)⟩ c (blen pre + 2 + blen done) =
              .err e := by
            simp only [handleChar, h1, h2, h3, if_true, Bool.false_eq_true, if_false, finishOuterAttribute, bind, Res.bind]
            rw [hj, assertBrackets_eq hsrc', hbad']
          exact run_cons_err h
        · have h : handleChar src ⟨out, .attr (blen pre) cnt (blen pre + 2 + blen done)⟩ c (blen pre + 2 + blen done) =
              .ok ⟨out, .attr (blen pre) (cnt - 1) (blen pre + 2 + blen done + clen c)⟩ := by
            simp [handleChar, h1, h2, h3]
          rw [run_cons_ok h, hj]
          exact ih _ _ (by omega) hsrc' hbad'
      · by_cases h4 : c = '\n'
        · have h : handleChar src ⟨out, .attr (blen pre) cnt (blen pre + 2 + blen done)⟩ c (blen pre + 2 + blen done) =
              .err e := by
            subst h4
            simp only [handleChar, show isOpener '\n' = false from by decide, show isCloser '\n' = false from by decide,
              Bool.false_eq_true, if_false, if_true, bind, Res.bind]
            rw [assertBrackets_eq hsrc, hbad]
          exact run_cons_err h
        · have h : handleChar src ⟨out, .attr (blen pre) cnt (blen pre + 2 + blen done)⟩ c (blen pre + 2 + blen done) =
              .ok ⟨out, .attr (blen pre) cnt (blen pre + 2 + blen done + clen c)⟩ := by
            simp [handleChar, h1, h2, h4]
          rw [run_cons_ok h, hj]
          exact ih _ _ hcnt hsrc' hbad'

/-- scanning the consumed part `done` of an attribute (after `#[`) succeeds and leaves the stack `st` -/
def Inv (pre done : Str) (st : List Char) : Prop :=
  ∀ tail, bracketScan (done ++ tail) (blen pre + 2) ['['] = bracketScan tail (blen pre + 2 + blen done) st

theorem Inv.snoc {pre done : Str} {st st' : List Char} {c : Char} (h : Inv pre done st)
    (hstep : ∀ tail, bracketScan (c :: tail) (blen pre + 2 + blen done) st =
      bracketScan tail (blen pre + 2 + blen done + clen c) st') : Inv pre (done ++ [c]) st' := by
  intro tail
  have : (done ++ [c]) ++ tail = done ++ (c :: tail) := by simp
  rw [this, h (c :: tail), hstep tail]
  congr 1
  simp; omega

theorem run_attr {src pre : Str} (out : List Token) :
    ∀ (cs done : Str) (st : List Char), st ≠ [] → src = pre ++ '#' :: '[' :: done ++ cs → Inv pre done st →
      run src cs (blen pre + 2 + blen done) ⟨out, .attr (blen pre) st.length (blen pre + 2 + blen done)⟩ =
        match attrBody cs (blen pre + 2 + blen done) st with
        | .bad k ch => .err (.lex k ch)
        | .done body r' =>
          run src r' (blen pre + 2 + blen done + blen body)
            ⟨out ++ [.attr ('#' :: '[' :: done ++ body) (blen pre)], .main⟩ := by
  intro cs
  induction cs with
  | nil =>
    intro done st hst hsrc hinv
    have hlen : blen src = blen pre + 2 + blen done := by
      rw [hsrc]; simp [clen_hash, clen_lbracket]; omega
    have h0 := hinv []
    simp only [List.append_nil, bracketScan] at h0
    simp only [run, loop, finishTk, pushPending, bind, Res.bind, attrBody]
    rw [assertBrackets_eq hsrc, h0, hlen]
  | cons c cs ih =>
    intro done st hst hsrc hinv
    have hsrc' : src = pre ++ '#' :: '[' :: (done ++ [c]) ++ cs := by rw [hsrc]; simp
    have hj : blen pre + 2 + blen done + clen c = blen pre + 2 + blen (done ++ [c]) := by simp; omega
    by_cases h1 : isOpen c = true
    · -- an opening bracket
      have h : handleChar src ⟨out, .attr (blen pre) st.length (blen pre + 2 + blen done)⟩ c (blen pre + 2 + blen done) =
          .ok ⟨out, .attr (blen pre) (c :: st).length (blen pre + 2 + blen done + clen c)⟩ := by
        simp [handleChar, isOpener_eq, h1]
      have hinv' : Inv pre (done ++ [c]) (c :: st) :=
        hinv.snoc (fun tail => by simp [bracketScan, isOpener_eq, h1])
      rw [run_cons_ok h, hj, ih (done ++ [c]) (c :: st) (by simp) hsrc' hinv']
      simp only [attrBody, h1, if_true, ← hj]
      cases attrBody cs (blen pre + 2 + blen done + clen c) (c :: st) with
      | bad k ch => rfl
      | done body r' => simp [Nat.add_assoc]
    · by_cases h2 : isClose c = true
      · cases st with
        | nil => exact absurd rfl hst
        | cons o st' =>
          by_cases h3 : closes o c = true
          · by_cases h4 : st'.isEmpty = true
            · -- the bracket that ends the attribute
              have hst' : st' = [] := by simpa using h4
              subst hst'
              have hscan : bracketScan (done ++ [c]) (blen pre + 2) ['['] = .ok () := by
                rw [hinv [c]]
                simp [bracketScan, isOpener_eq, isCloser_eq, bracketsMatch_eq, h1, h2, h3]
              have h : handleChar src ⟨out, .attr (blen pre) [o].length (blen pre + 2 + blen done)⟩ c (blen pre + 2 + blen done) =
                  .ok ⟨out ++ [.attr ('#' :: '[' :: (done ++ [c])) (blen pre)], .main⟩ := by
                simp only [handleChar, isOpener_eq, isCloser_eq, h1, h2, List.length_singleton, if_true,
                  Bool.false_eq_true, if_false, finishOuterAttribute, bind, Res.bind]
                rw [hj, assertBrackets_eq hsrc', hscan, slice_attr hsrc']
                rfl
              rw [run_cons_ok h]
              simp [attrBody, h1, h2, h3]
            · -- a closing bracket inside the attribute
              have hne : st' ≠ [] := by intro e; subst e; simp at h4
              have hlen : (o :: st').length ≠ 1 := by
                cases st' with
                | nil => exact absurd rfl hne
                | cons _ _ => simp
              have h : handleChar src ⟨out, .attr (blen pre) (o :: st').length (blen pre + 2 + blen done)⟩ c (blen pre + 2 + blen done) =
                  .ok ⟨out, .attr (blen pre) st'.length (blen pre + 2 + blen done + clen c)⟩ := by
                simp only [handleChar, isOpener_eq, isCloser_eq, h1, h2, hlen, if_true, Bool.false_eq_true, if_false]
                simp
              have hinv' : Inv pre (done ++ [c]) st' :=
                hinv.snoc (fun tail => by simp [bracketScan, isOpener_eq, isCloser_eq, bracketsMatch_eq, h1, h2, h3])
              rw [run_cons_ok h, hj, ih (done ++ [c]) st' hne hsrc' hinv']
              simp only [attrBody, h1, h2, h3, h4, if_true, Bool.false_eq_true, if_false, ← hj]
              cases attrBody cs (blen pre + 2 + blen done + clen c) st' with
              | bad k ch => rfl
              | done body r' => simp [Nat.add_assoc]
          · -- a closing bracket of the wrong kind: the first offending character
            have hbad : bracketScan (done ++ [c]) (blen pre + 2) ['['] =
                .err (.lex (blen pre + 2 + blen done) (some c)) := by
              rw [hinv [c]]
              simp [bracketScan, isOpener_eq, isCloser_eq, bracketsMatch_eq, h1, h2, h3]
            have hspec : attrBody (c :: cs) (blen pre + 2 + blen done) (o :: st') =
                .bad (blen pre + 2 + blen done) (some c) := by
              simp [attrBody, h1, h2, h3]
            rw [hspec]
            by_cases h5 : (o :: st').length = 1
            · have h : handleChar src ⟨out, .attr (blen pre) (o :: st').length (blen pre + 2 + blen done)⟩ c (blen pre + 2 + blen done) =
                  .err (.lex (blen pre + 2 + blen done) (some c)) := by
                simp only [handleChar, isOpener_eq, isCloser_eq, h1, h2, h5, if_true, Bool.false_eq_true, if_false,
                  finishOuterAttribute, bind, Res.bind]
                rw [hj, assertBrackets_eq hsrc', hbad]
              exact run_cons_err h
            · have h : handleChar src ⟨out, .attr (blen pre) (o :: st').length (blen pre + 2 + blen done)⟩ c (blen pre + 2 + blen done) =
                  .ok ⟨out, .attr (blen pre) ((o :: st').length - 1) (blen pre + 2 + blen done + clen c)⟩ := by
                simp only [handleChar, isOpener_eq, isCloser_eq, h1, h2, h5, if_true, Bool.false_eq_true, if_false]
              rw [run_cons_ok h, hj]
              have hge : 1 ≤ (o :: st').length - 1 := by
                cases st' with
                | nil => simp at h5
                | cons _ _ => simp
              exact run_attr_doomed _ out cs (done ++ [c]) _ hge hsrc' hbad
      · by_cases h4 : c = '\n'
        · -- a newline before the attribute is closed
          subst h4
          have h0 := hinv []
          simp only [List.append_nil, bracketScan] at h0
          have h : handleChar src ⟨out, .attr (blen pre) st.length (blen pre + 2 + blen done)⟩ '\n' (blen pre + 2 + blen done) =
              .err (.lex (blen pre + 2 + blen done) (some '\n')) := by
            simp only [handleChar, show isOpener '\n' = false from by decide, show isCloser '\n' = false from by decide,
              Bool.false_eq_true, if_false, if_true, bind, Res.bind]
            rw [assertBrackets_eq hsrc, h0]
          rw [run_cons_err h]
          simp [attrBody, show isOpen '\n' = false from by decide, show isClose '\n' = false from by decide]
        · -- any other character
          have h : handleChar src ⟨out, .attr (blen pre) st.length (blen pre + 2 + blen done)⟩ c (blen pre + 2 + blen done) =
              .ok ⟨out, .attr (blen pre) st.length (blen pre + 2 + blen done + clen c)⟩ := by
            simp [handleChar, isOpener_eq, isCloser_eq, h1, h2, h4]
          have hinv' : Inv pre (done ++ [c]) st :=
            hinv.snoc (fun tail => by simp [bracketScan, isOpener_eq, isCloser_eq, h1, h2])
          rw [run_cons_ok h, hj, ih (done ++ [c]) st hst hsrc' hinv']
          simp only [attrBody, h1, h2, h4, Bool.false_eq_true, if_false, ← hj]
          cases attrBody cs (blen pre + 2 + blen done + clen c) st with
          | bad k ch => rfl
          | done body r' => simp [Nat.add_assoc]

theorem attrBody_done_append : ∀ (cs : Str) (i : Nat) (st : List Char) (body r : Str),
    attrBody cs i st = .done body r → cs = body ++ r := by
  intro cs
  induction cs with
  | nil => intro i st body r h; simp [attrBody] at h
  | cons c cs ih =>
    intro i st body r h
    simp only [attrBody] at h
    by_cases h1 : isOpen c = true
    · simp only [h1, if_true] at h
      cases hb : attrBody cs (i + clen c) (c :: st) with
      | done b' r' => rw [hb] at h; cases h; rw [ih _ _ _ _ hb]; rfl
      | bad j ch => rw [hb] at h; cases h
    · simp only [h1] at h
      by_cases h2 : isClose c = true
      · simp only [h2, if_true] at h
        cases st with
        | nil => simp at h
        | cons o st' =>
          simp only at h
          by_cases h3 : closes o c = true
          · simp only [h3, if_true] at h
            by_cases h4 : st'.isEmpty = true
            · simp only [h4, if_true] at h; cases h; rfl
            · simp only [h4] at h
              cases hb : attrBody cs (i + clen c) st' with
              | done b' r' => rw [hb] at h; cases h; rw [ih _ _ _ _ hb]; rfl
              | bad j ch => rw [hb] at h; cases h
          · simp [h3] at h
      · simp only [h2] at h
        by_cases h5 : c = '\n'
        · simp [h5] at h
        · simp only [h5, if_false] at h
          cases hb : attrBody cs (i + clen c) st with
          | done b' r' => rw [hb] at h; cases h; rw [ih _ _ _ _ hb]; rfl
          | bad j ch => rw [hb] at h; cases h

/-- flushing a terminal identifier at the first non-identifier character or at the end of the input -/
theorem run_termIdent_flush {src pre w r : Str} (hsrc : src = pre ++ ('$' :: w) ++ r) (out : List Token)
    (hw : ∀ c ∈ w, isIdentChar c = true) (hr : ∀ d r', r = d :: r' → isIdentChar d = false) :
    run src r (blen pre + 1 + blen w) ⟨out, .termIdent (blen pre) (blen pre + 1 + blen w)⟩ =
      if (reserved w 0).isSome then .err (.lex (blen pre + 1 + blen w) r.head?)
      else run src r (blen pre + 1 + blen w) ⟨out ++ [.termIdent w (blen pre + 1)], .main⟩ := by
  cases r with
  | nil =>
    have hlen : blen src = blen pre + 1 + blen w := by
      rw [hsrc]; simp [show clen '$' = 1 from by decide]; omega
    simp only [run, loop, finishTk]
    rw [pushPending_termIdent hsrc out hw, hlen]
    by_cases hres : (reserved w 0).isSome = true
    · simp [hres]
    · simp [hres, pushPending]
  | cons d r' =>
    have hd : isIdentChar d = false := hr d r' rfl
    have hd' : (isAsciiAlnum d || decide (d = '_')) = false := hd
    by_cases hres : (reserved w 0).isSome = true
    · simp only [hres, if_true, List.head?_cons]
      have h : handleChar src ⟨out, .termIdent (blen pre) (blen pre + 1 + blen w)⟩ d (blen pre + 1 + blen w) =
          .err (.lex (blen pre + 1 + blen w) (some d)) := by
        simp only [handleChar, hd', Bool.false_eq_true, if_false, bind, Res.bind]
        rw [pushPending_termIdent hsrc out hw]
        simp [hres]
      exact run_cons_err h
    · simp only [hres, Bool.false_eq_true, if_false]
      unfold run
      simp only [loop]
      have : handleChar src ⟨out, .termIdent (blen pre) (blen pre + 1 + blen w)⟩ d (blen pre + 1 + blen w) =
          handleChar src ⟨out ++ [.termIdent w (blen pre + 1)], .main⟩ d (blen pre + 1 + blen w) := by
        simp only [handleChar, hd', Bool.false_eq_true, if_false, bind, Res.bind]
        rw [pushPending_termIdent hsrc out hw]
        simp [hres]
      rw [this]

/-! ### the main theorem -/

theorem handleChar_main (src : Str) (out : List Token) (c : Char) (i : Nat) :
    handleChar src ⟨out, .main⟩ c i = handleMain ⟨out, .main⟩ c i := rfl

theorem run_main (src : Str) : ∀ (n : Nat) (cs pre : Str) (out : List Token), cs.length ≤ n → src = pre ++ cs →
    run src cs (blen pre) ⟨out, .main⟩ = prepend out (scanFrom cs (blen pre)) := by
  intro n
  induction n with
  | zero =>
    intro cs pre out hn hsrc
    have : cs = [] := by cases cs <;> simp_all
    subst this
    rw [scanFrom_done rfl]
    simp [run, loop, finishTk, pushPending]
  | succ n ih =>
    intro cs pre out hn hsrc
    cases cs with
    | nil =>
      rw [scanFrom_done rfl]
      simp [run, loop, finishTk, pushPending]
    | cons c rest =>
      have hrest : rest.length ≤ n := by simp at hn; omega
      have hsrc1 : src = (pre ++ [c]) ++ rest := by rw [hsrc]; simp
      have hb1 : blen (pre ++ [c]) = blen pre + clen c := by simp
      by_cases hws : isWhitespace c = true
      · -- whitespace
        have h : handleChar src ⟨out, .main⟩ c (blen pre) = .ok ⟨out, .main⟩ := by
          simp [handleChar_main, handleMain, hws]
        rw [run_cons_ok h, scanFrom_skip (next_whitespace c rest (blen pre) hws), ← hb1]
        have := ih rest (pre ++ [c]) out hrest hsrc1
        rw [this]
        simp [blen]
      · have hws' : isWhitespace c = false := by simpa using hws
        by_cases hsl : c = '/'
        · -- a slash: comment or error
          subst hsl
          have h : handleChar src ⟨out, .main⟩ '/' (blen pre) = .ok ⟨out, .slash (blen pre)⟩ := by
            simp [handleChar_main, handleMain, hws']
          rw [run_cons_ok h]
          cases rest with
          | nil =>
            have hn' : next ['/'] (blen pre) = .bad (blen pre) (some '/') := by
              simp [next, hws']
            rw [scanFrom_bad hn']
            simp [run, loop, finishTk, pushPending]
          | cons d r =>
            by_cases hd : d = '/'
            · subst hd
              have h2 : handleChar src ⟨out, .slash (blen pre)⟩ '/' (blen pre + clen '/') = .ok ⟨out, .comment⟩ := by
                simp [handleChar]
              have hn' : next ('/' :: '/' :: r) (blen pre) = .skip (1 + commentLen r) := by
                simp [next, hws']
              rw [run_cons_ok h2, run_comment, scanFrom_skip hn']
              have e1 : ('/' :: '/' :: r).drop (1 + commentLen r + 1) = r.drop (commentLen r) := by
                have : 1 + commentLen r + 1 = commentLen r + 2 := by omega
                rw [this]; rfl
              have e2 : ('/' :: '/' :: r).take (1 + commentLen r + 1) = '/' :: '/' :: r.take (commentLen r) := by
                have : 1 + commentLen r + 1 = commentLen r + 2 := by omega
                rw [this]; rfl
              rw [e1, e2]
              have hsrc2 : src = (pre ++ '/' :: '/' :: r.take (commentLen r)) ++ r.drop (commentLen r) := by
                rw [hsrc]; simp
              have hlen2 : (r.drop (commentLen r)).length ≤ n := by
                simp at hrest ⊢; omega
              have := ih (r.drop (commentLen r)) (pre ++ '/' :: '/' :: r.take (commentLen r)) out hlen2 hsrc2
              have hb2 : blen (pre ++ '/' :: '/' :: r.take (commentLen r)) =
                  blen pre + clen '/' + clen '/' + blen (r.take (commentLen r)) := by simp; omega
              rw [hb2] at this
              rw [this]
              simp [blen, Nat.add_assoc]
            · have h2 : handleChar src ⟨out, .slash (blen pre)⟩ d (blen pre + clen '/') =
                  .err (.lex (blen pre) (some '/')) := by
                simp [handleChar, hd]
              have hn' : next ('/' :: d :: r) (blen pre) = .bad (blen pre) (some '/') := by
                simp [next, hws', hd]
              rw [run_cons_err h2, scanFrom_bad hn']; rfl
        · by_cases hid : isIdentStart c = true
          · -- an identifier or reserved word
            have hid' : (isAsciiAlpha c || decide (c = '_')) = true := hid
            have h : handleChar src ⟨out, .main⟩ c (blen pre) = .ok ⟨out, .ident (blen pre) (blen pre + clen c)⟩ := by
              simp [handleChar_main, handleMain, hws', hsl, hid']
            have hsp := span_append isIdentChar rest
            generalize htl : (span isIdentChar rest).1 = tail at hsp
            generalize hrr : (span isIdentChar rest).2 = r at hsp
            have hall : ∀ d ∈ tail, isIdentChar d = true := by rw [← htl]; exact span_fst_all _ _
            have hhead : ∀ d r', r = d :: r' → isIdentChar d = false := by rw [← hrr]; exact span_snd_head _ _
            have hn' : next (c :: rest) (blen pre) = .emit (identTok (c :: tail) (blen pre)) tail.length := by
              simp only [next, hws', Bool.false_eq_true, if_false, hsl, hid, if_true, htl, identTok]
            have hsrcw : src = pre ++ (c :: tail) ++ r := by rw [hsrc, ← hsp]; simp
            rw [run_cons_ok h, scanFrom_emit hn']
            conv => lhs; rw [← hsp]
            rw [run_ident_chars src tail r _ _ out hall]
            have hbw : blen pre + clen c + blen tail = blen pre + blen (c :: tail) := by simp; omega
            rw [hbw, run_ident_flush hsrcw out hhead]
            have hlenr : r.length ≤ n := by
              have : rest.length = tail.length + r.length := by rw [← hsp]; simp
              omega
            have hb3 : blen (pre ++ (c :: tail)) = blen pre + blen (c :: tail) := by simp
            have := ih r (pre ++ (c :: tail)) (out ++ [identTok (c :: tail) (blen pre)]) hlenr hsrcw
            rw [hb3] at this
            rw [this, prepend_prepend]
            have e1 : (c :: rest).drop (tail.length + 1) = r := by
              rw [← hsp]; simp
            have e2 : (c :: rest).take (tail.length + 1) = c :: tail := by
              rw [← hsp]; simp
            rw [e1, e2]
            rfl
          · have hid' : (isAsciiAlpha c || decide (c = '_')) = false := by
              have : isIdentStart c = false := by simpa using hid
              exact this
            by_cases hdl : c = '$'
            · -- a terminal identifier
              subst hdl
              have h : handleChar src ⟨out, .main⟩ '$' (blen pre) = .ok ⟨out, .dollar (blen pre)⟩ := by
                simp [handleChar_main, handleMain, hws', show isAsciiAlpha '$' = false from by decide]
              have hcl : clen '$' = 1 := by decide
              rw [run_cons_ok h, hcl]
              cases rest with
              | nil =>
                have hn' : next ['$'] (blen pre) = .bad (blen pre) (some '$') := by
                  simp [next, hws', show isIdentStart '$' = false from by decide]
                rw [scanFrom_bad hn']
                simp [run, loop, finishTk, pushPending]
              | cons d r0 =>
                by_cases hds : isIdentStart d = true
                · have hds' : (isAsciiAlpha d || decide (d = '_')) = true := hds
                  have h2 : handleChar src ⟨out, .dollar (blen pre)⟩ d (blen pre + 1) =
                      .ok ⟨out, .termIdent (blen pre) (blen pre + 1 + clen d)⟩ := by
                    simp [handleChar, hds']
                  have hdc : isIdentChar d = true := identStart_identChar hds
                  have hsp := span_append isIdentChar r0
                  generalize htl : (span isIdentChar r0).1 = tail at hsp
                  generalize hrr : (span isIdentChar r0).2 = r at hsp
                  have hall : ∀ x ∈ tail, isIdentChar x = true := by rw [← htl]; exact span_fst_all _ _
                  have hhead : ∀ x r', r = x :: r' → isIdentChar x = false := by rw [← hrr]; exact span_snd_head _ _
                  have hspan1 : (span isIdentChar (d :: r0)).1 = d :: tail := by
                    rw [(span_cons_true isIdentChar d r0 hdc).1, htl]
                  have hspan2 : (span isIdentChar (d :: r0)).2 = r := by
                    rw [(span_cons_true isIdentChar d r0 hdc).2, hrr]
                  have hallw : ∀ x ∈ d :: tail, isIdentChar x = true := by
                    intro x hx
                    rcases List.mem_cons.mp hx with rfl | hx
                    · exact hdc
                    · exact hall x hx
                  have hsrcw : src = pre ++ ('$' :: (d :: tail)) ++ r := by rw [hsrc, ← hsp]; simp
                  rw [run_cons_ok h2]
                  conv => lhs; rw [← hsp]
                  rw [run_termIdent_chars src tail r _ _ out hall]
                  have hbw : blen pre + 1 + clen d + blen tail = blen pre + 1 + blen (d :: tail) := by simp; omega
                  rw [hbw, run_termIdent_flush hsrcw out hallw hhead]
                  by_cases hres : (reserved (d :: tail) 0).isSome = true
                  · have hn' : next ('$' :: d :: r0) (blen pre) =
                        .bad (blen pre + 1 + blen (d :: tail)) r.head? := by
                      simp only [next, hws', Bool.false_eq_true, if_false, hds, if_true, hspan1, hspan2, hres,
                        show isIdentStart '$' = false from by decide]
                      simp
                    rw [scanFrom_bad hn']
                    simp [hres]
                  · have hn' : next ('$' :: d :: r0) (blen pre) =
                        .emit (.termIdent (d :: tail) (blen pre + 1)) (d :: tail).length := by
                      simp only [next, hws', Bool.false_eq_true, if_false, hds, if_true, hspan1, hspan2, hres,
                        show isIdentStart '$' = false from by decide]
                      simp
                    rw [scanFrom_emit hn']
                    simp only [hres, Bool.false_eq_true, if_false]
                    have hlenr : r.length ≤ n := by
                      have : r0.length = tail.length + r.length := by rw [← hsp]; simp
                      simp at hrest; omega
                    have hb3 : blen (pre ++ ('$' :: (d :: tail))) = blen pre + 1 + blen (d :: tail) := by
                      simp [hcl]; omega
                    have := ih r (pre ++ ('$' :: (d :: tail))) (out ++ [.termIdent (d :: tail) (blen pre + 1)]) hlenr hsrcw
                    rw [hb3] at this
                    rw [this, prepend_prepend]
                    have e1 : ('$' :: d :: r0).drop ((d :: tail).length + 1) = r := by
                      rw [← hsp]; simp
                    have e2 : ('$' :: d :: r0).take ((d :: tail).length + 1) = '$' :: d :: tail := by
                      rw [← hsp]; simp
                    rw [e1, e2]
                    have e3 : blen pre + blen ('$' :: d :: tail) = blen pre + 1 + blen (d :: tail) := by
                      simp [hcl]; omega
                    rw [e3]
                    rfl
                · have hds' : (isAsciiAlpha d || decide (d = '_')) = false := by
                    have : isIdentStart d = false := by simpa using hds
                    exact this
                  have h2 : handleChar src ⟨out, .dollar (blen pre)⟩ d (blen pre + 1) =
                      .err (.lex (blen pre) (some '$')) := by
                    simp [handleChar, hds']
                  have hn' : next ('$' :: d :: r0) (blen pre) = .bad (blen pre) (some '$') := by
                    have : isIdentStart d = false := by simpa using hds
                    simp [next, hws', this, show isIdentStart '$' = false from by decide]
                  rw [run_cons_err h2, scanFrom_bad hn']; rfl
            · by_cases hco : c = ':'
              · -- colon or double colon
                subst hco
                have hcl : clen ':' = 1 := by decide
                have h : handleChar src ⟨out, .main⟩ ':' (blen pre) = .ok ⟨out, .colon (blen pre)⟩ := by
                  simp [handleChar_main, handleMain, hws', show isAsciiAlpha ':' = false from by decide]
                rw [run_cons_ok h, hcl]
                cases rest with
                | nil =>
                  have hn' : next [':'] (blen pre) = .emit (.colon (blen pre)) 0 := by
                    simp [next, hws', show isIdentStart ':' = false from by decide]
                  rw [scanFrom_emit hn']
                  simp only [List.drop, List.take]
                  rw [scanFrom_done rfl]
                  simp [run, loop, finishTk, pushPending, prepend]
                | cons d r =>
                  by_cases hd : d = ':'
                  · subst hd
                    have h2 : handleChar src ⟨out, .colon (blen pre)⟩ ':' (blen pre + 1) =
                        .ok ⟨out ++ [.dcolon (blen pre)], .main⟩ := by simp [handleChar]
                    have hn' : next (':' :: ':' :: r) (blen pre) = .emit (.dcolon (blen pre)) 1 := by
                      simp [next, hws', show isIdentStart ':' = false from by decide]
                    rw [run_cons_ok h2, scanFrom_emit hn', hcl]
                    have hsrc2 : src = (pre ++ [':', ':']) ++ r := by rw [hsrc]; simp
                    have hb2 : blen (pre ++ [':', ':']) = blen pre + 1 + 1 := by simp [hcl]
                    have := ih r (pre ++ [':', ':']) (out ++ [.dcolon (blen pre)]) (by simp at hrest; omega) hsrc2
                    rw [hb2] at this
                    rw [this, prepend_prepend]
                    have e3 : blen pre + blen ((':' :: ':' :: r).take (1 + 1)) = blen pre + 1 + 1 := by
                      simp [blen, hcl]
                    rw [e3]
                    rfl
                  · have hn' : next (':' :: d :: r) (blen pre) = .emit (.colon (blen pre)) 0 := by
                      simp [next, hws', hd, show isIdentStart ':' = false from by decide]
                    rw [scanFrom_emit hn']
                    have hpp : pushPending src ⟨out, .colon (blen pre)⟩ (some d) (blen pre + 1) =
                        .ok ⟨out ++ [.colon (blen pre)], .main⟩ := by simp [pushPending]
                    have : run src (d :: r) (blen pre + 1) ⟨out, .colon (blen pre)⟩ =
                        run src (d :: r) (blen pre + 1) ⟨out ++ [.colon (blen pre)], .main⟩ := by
                      unfold run
                      simp only [loop]
                      have : handleChar src ⟨out, .colon (blen pre)⟩ d (blen pre + 1) =
                          handleChar src ⟨out ++ [.colon (blen pre)], .main⟩ d (blen pre + 1) := by
                        simp only [handleChar, hd, if_false, bind, Res.bind, hpp]
                      rw [this]
                    rw [this]
                    have hsrc2 : src = (pre ++ [':']) ++ (d :: r) := by rw [hsrc]; simp
                    have hb2 : blen (pre ++ [':']) = blen pre + 1 := by simp [hcl]
                    have := ih (d :: r) (pre ++ [':']) (out ++ [.colon (blen pre)]) hrest hsrc2
                    rw [hb2] at this
                    rw [this, prepend_prepend]
                    have e3 : blen pre + blen ((':' :: d :: r).take (0 + 1)) = blen pre + 1 := by
                      simp [blen, hcl]
                    rw [e3]
                    rfl
              · by_cases hpo : c = '#'
                · -- an outer attribute
                  subst hpo
                  have hcl : clen '#' = 1 := by decide
                  have h : handleChar src ⟨out, .main⟩ '#' (blen pre) = .ok ⟨out, .pound (blen pre)⟩ := by
                    simp [handleChar_main, handleMain, hws', show isAsciiAlpha '#' = false from by decide]
                  rw [run_cons_ok h, hcl]
                  cases rest with
                  | nil =>
                    have hn' : next ['#'] (blen pre) = .bad (blen pre) (some '#') := by
                      simp [next, hws', show isIdentStart '#' = false from by decide]
                    rw [scanFrom_bad hn']
                    simp [run, loop, finishTk, pushPending]
                  | cons d r =>
                    by_cases hd : d = '['
                    · subst hd
                      have h2 : handleChar src ⟨out, .pound (blen pre)⟩ '[' (blen pre + 1) =
                          .ok ⟨out, .attr (blen pre) 1 (blen pre + 1 + 1)⟩ := by simp [handleChar]
                      rw [run_cons_ok h2, clen_lbracket]
                      have hsrc0 : src = pre ++ '#' :: '[' :: [] ++ r := by rw [hsrc]; simp
                      have hinv0 : Inv pre [] ['['] := by intro tail; simp
                      have := run_attr (src := src) (pre := pre) out r [] ['['] (by simp) hsrc0 hinv0
                      simp only [blen_nil, Nat.add_zero, List.length_singleton, List.nil_append] at this
                      have e : blen pre + 1 + 1 = blen pre + 2 := by omega
                      rw [e, this]
                      cases hab : attrBody r (blen pre + 2) ['['] with
                      | bad k ch =>
                        have hn' : next ('#' :: '[' :: r) (blen pre) = .bad k ch := by
                          simp [next, hws', hab, show isIdentStart '#' = false from by decide]
                        rw [scanFrom_bad hn']; rfl
                      | done body r' =>
                        have hn' : next ('#' :: '[' :: r) (blen pre) =
                            .emit (.attr ('#' :: '[' :: body) (blen pre)) (1 + body.length) := by
                          simp [next, hws', hab, show isIdentStart '#' = false from by decide]
                        have happ := attrBody_done_append _ _ _ _ _ hab
                        rw [scanFrom_emit hn']
                        simp only
                        have hsrc2 : src = (pre ++ '#' :: '[' :: body) ++ r' := by rw [hsrc, happ]; simp
                        have hb2 : blen (pre ++ '#' :: '[' :: body) = blen pre + 2 + blen body := by
                          simp [hcl, clen_lbracket]; omega
                        have hlen2 : r'.length ≤ n := by
                          have : r.length = body.length + r'.length := by rw [happ]; simp
                          simp at hrest; omega
                        have := ih r' (pre ++ '#' :: '[' :: body) (out ++ [.attr ('#' :: '[' :: body) (blen pre)]) hlen2 hsrc2
                        rw [hb2] at this
                        simp only [List.nil_append, List.cons_append] at this ⊢
                        rw [this, prepend_prepend]
                        have e1 : ('#' :: '[' :: r).drop (1 + body.length + 1) = r' := by
                          rw [happ]
                          have : 1 + body.length + 1 = body.length + 2 := by omega
                          rw [this]; simp
                        have e2 : ('#' :: '[' :: r).take (1 + body.length + 1) = '#' :: '[' :: body := by
                          rw [happ]
                          have : 1 + body.length + 1 = body.length + 2 := by omega
                          rw [this]; simp
                        rw [e1, e2]
                        have e3 : blen pre + blen ('#' :: '[' :: body) = blen pre + 2 + blen body := by
                          simp [hcl, clen_lbracket]; omega
                        rw [e3]
                        rfl
                    · have h2 : handleChar src ⟨out, .pound (blen pre)⟩ d (blen pre + 1) =
                          .err (.lex (blen pre) (some '#')) := by
                        simp [handleChar, hd, pushPending, bind, Res.bind]
                      have hn' : next ('#' :: d :: r) (blen pre) = .bad (blen pre) (some '#') := by
                        simp [next, hws', hd, show isIdentStart '#' = false from by decide]
                      rw [run_cons_err h2, scanFrom_bad hn']; rfl
                · -- punctuation or an illegal character
                  cases hp : punct c (blen pre) with
                  | some tok =>
                    have h : handleChar src ⟨out, .main⟩ c (blen pre) = .ok ⟨out ++ [tok], .main⟩ := by
                      simp [handleChar_main, handleMain, hws', hsl, hid', hdl, hco, hpo, punctToken_eq, hp]
                    have hn' : next (c :: rest) (blen pre) = .emit tok 0 := by
                      have : isIdentStart c = false := by simpa using hid
                      simp [next, hws', hsl, this, hdl, hco, hpo, hp]
                    rw [run_cons_ok h, scanFrom_emit hn', ← hb1]
                    have := ih rest (pre ++ [c]) (out ++ [tok]) hrest hsrc1
                    rw [this, prepend_prepend]
                    have e3 : blen (pre ++ [c]) = blen pre + blen ((c :: rest).take (0 + 1)) := by simp [blen]
                    rw [e3]
                    rfl
                  | none =>
                    have h : handleChar src ⟨out, .main⟩ c (blen pre) = .err (.lex (blen pre) (some c)) := by
                      simp [handleChar_main, handleMain, hws', hsl, hid', hdl, hco, hpo, punctToken_eq, hp]
                    have hn' : next (c :: rest) (blen pre) = .bad (blen pre) (some c) := by
                      have : isIdentStart c = false := by simpa using hid
                      simp [next, hws', hsl, this, hdl, hco, hpo, hp]
                    rw [run_cons_err h, scanFrom_bad hn']; rfl

/-- **C08**: the tokenizer computes exactly the documented lexical rules -/
theorem tokenize_eq_scan (src : Str) : tokenize src = scan src := by
  rw [tokenize_eq_run]
  have := run_main src src.length src [] [] (Nat.le_refl _) (by simp)
  simp only [blen_nil] at this
  rw [this]
  unfold scan
  cases scanFrom src 0 <;> simp [prepend]

end Tokenize
end KikiVerif
